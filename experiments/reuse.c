#include <stdio.h>
#include <stdlib.h>
#include <string.h>
#include <lcdb.h>
int main(int argc, char **argv){
  ldb_dbopt_t opt = *ldb_dbopt_default; ldb_t *db; int rc, i, lost=0;
  ldb_writeopt_t wo = *ldb_writeopt_default;
  char key[32], val[600]; ldb_slice_t k, v, out;
  int paranoid = argc>1 ? atoi(argv[1]) : 0;
  system("rm -rf /tmp/lcdb-exp-db3");
  opt.create_if_missing = 1; opt.reuse_logs = 1; opt.paranoid_checks = paranoid;
  rc = ldb_open("/tmp/lcdb-exp-db3", &opt, &db); printf("open %d\n", rc);
  memset(val,'x',sizeof val);
  for (i=0;i<10;i++){ sprintf(key,"a%03d",i); k=ldb_string(key); v=ldb_slice((unsigned char*)val, 500); rc=ldb_put(db,&k,&v,0);}
  ldb_close(db);
  /* emulate power loss tearing the last (unsynced) record: cut 100 bytes off the log tail */
  system("cd /tmp/lcdb-exp-db3 && f=$(ls *.log | tail -1) && s=$(stat -c %s $f) && truncate -s $((s-100)) $f && ls -l");
  rc = ldb_open("/tmp/lcdb-exp-db3", &opt, &db); printf("reopen1 %d\n", rc);
  wo.sync = 1;
  for (i=0;i<10;i++){ sprintf(key,"b%03d",i); k=ldb_string(key); v=ldb_slice((unsigned char*)val, 500); rc=ldb_put(db,&k,&v,&wo); if(rc) printf("put rc=%d\n",rc);}
  system("ls -l /tmp/lcdb-exp-db3");
  ldb_close(db);
  rc = ldb_open("/tmp/lcdb-exp-db3", &opt, &db); printf("reopen2 %d (%s)\n", rc, ldb_strerror(rc));
  if (rc==0){
  for (i=0;i<10;i++){ sprintf(key,"b%03d",i); k=ldb_string(key); rc=ldb_get(db,&k,&out,0); if(rc!=LDB_OK){ lost++; printf("LOST synced acked key %s rc=%d\n",key,rc);} else ldb_free(out.data);}
  printf("lost=%d\n", lost);
  ldb_close(db);}
  return 0;
}
