/* throw-away deterministic scheduler behind lcdb's port layer (design-phase probe) */
#define _GNU_SOURCE
#include <stdio.h>
#include <stdlib.h>
#include <string.h>
#include <pthread.h>
#include <stdint.h>
#include <sys/select.h>
#include "util/port.h"
#define MAXT 64
enum { RUNNABLE, BLK_MUTEX, BLK_COND, FINISHED };
typedef struct { int used, state; void *on; pthread_cond_t cv; pthread_t th; void (*start)(void*); void *arg; void *relock; } T;
static T ts[MAXT]; static int nts=0; static pthread_mutex_t G=PTHREAD_MUTEX_INITIALIZER; static int current=-1; static __thread int self=-1;
static uint64_t rs=1; static uint64_t rnd(void){ uint64_t z=(rs+=0x9e3779b97f4a7c15ULL); z=(z^(z>>30))*0xbf58476d1ce4e5b9ULL; z=(z^(z>>27))*0x94d049bb133111ebULL; return z^(z>>31);} 
void sched_seed(uint64_t s){ rs=s; }
long sched_switches=0, sched_points=0;
/* mutex table keyed by address */
typedef struct { void *addr; int owner; } M; static M ms[4096]; static int nms=0;
static M* getm(void*a){ int i; for(i=0;i<nms;i++) if(ms[i].addr==a) return &ms[i]; ms[nms].addr=a; ms[nms].owner=-1; return &ms[nms++]; }
static void pick_next(void){ int cand[MAXT],n=0,i; for(i=0;i<nts;i++) if(ts[i].used&&ts[i].state==RUNNABLE) cand[n++]=i; if(n==0){ int unfinished=0; for(i=0;i<nts;i++) if(ts[i].used&&ts[i].state!=FINISHED) unfinished++; if(unfinished){ fprintf(stderr,"DEADLOCK: %d unfinished threads, none runnable\n",unfinished); for(i=0;i<nts;i++) if(ts[i].used) fprintf(stderr," t%d state=%d on=%p\n",i,ts[i].state,ts[i].on); abort(); } current=-1; return; } { int nx=cand[rnd()%n]; if(nx!=current) sched_switches++; current=nx; pthread_cond_signal(&ts[nx].cv);} }
static void wait_turn(void){ while(current!=self) pthread_cond_wait(&ts[self].cv,&G); }
static void yield_point(void){ sched_points++; pick_next(); wait_turn(); }
static void ensure_registered(void){ if(self>=0) return; pthread_mutex_lock(&G); self=nts++; ts[self].used=1; ts[self].state=RUNNABLE; pthread_cond_init(&ts[self].cv,NULL); if(current==-1) current=self; wait_turn(); pthread_mutex_unlock(&G);} 
void ldb_mutex_init(ldb_mutex_t*m){ (void)m; }
void ldb_mutex_destroy(ldb_mutex_t*m){ int i; pthread_mutex_lock(&G); for(i=0;i<nms;i++) if(ms[i].addr==m){ ms[i]=ms[--nms]; break;} pthread_mutex_unlock(&G);} 
void ldb_mutex_lock(ldb_mutex_t*m){ ensure_registered(); pthread_mutex_lock(&G); yield_point(); for(;;){ M*x=getm(m); if(x->owner==-1){ x->owner=self; break;} ts[self].state=BLK_MUTEX; ts[self].on=m; pick_next(); wait_turn(); } pthread_mutex_unlock(&G);} 
static void wake_mutex_waiters(void*m){ int i; for(i=0;i<nts;i++) if(ts[i].used&&ts[i].state==BLK_MUTEX&&ts[i].on==m) ts[i].state=RUNNABLE; }
void ldb_mutex_unlock(ldb_mutex_t*m){ ensure_registered(); pthread_mutex_lock(&G); { M*x=getm(m); if(x->owner!=self){fprintf(stderr,"unlock by non-owner\n");abort();} x->owner=-1; wake_mutex_waiters(m);} yield_point(); pthread_mutex_unlock(&G);} 
void ldb_cond_init(ldb_cond_t*c){(void)c;} void ldb_cond_destroy(ldb_cond_t*c){(void)c;}
void ldb_cond_wait(ldb_cond_t*c,ldb_mutex_t*m){ ensure_registered(); pthread_mutex_lock(&G); { M*x=getm(m); if(x->owner!=self){fprintf(stderr,"wait w/o lock\n");abort();} x->owner=-1; wake_mutex_waiters(m);} ts[self].state=BLK_COND; ts[self].on=c; pick_next(); wait_turn(); /* signalled: reacquire */ for(;;){ M*x=getm(m); if(x->owner==-1){x->owner=self;break;} ts[self].state=BLK_MUTEX; ts[self].on=m; pick_next(); wait_turn(); } pthread_mutex_unlock(&G);} 
void ldb_cond_signal(ldb_cond_t*c){ int i,cand[MAXT],n=0; ensure_registered(); pthread_mutex_lock(&G); for(i=0;i<nts;i++) if(ts[i].used&&ts[i].state==BLK_COND&&ts[i].on==c) cand[n++]=i; if(n){ ts[cand[rnd()%n]].state=RUNNABLE; } yield_point(); pthread_mutex_unlock(&G);} 
void ldb_cond_broadcast(ldb_cond_t*c){ int i; ensure_registered(); pthread_mutex_lock(&G); for(i=0;i<nts;i++) if(ts[i].used&&ts[i].state==BLK_COND&&ts[i].on==c) ts[i].state=RUNNABLE; yield_point(); pthread_mutex_unlock(&G);} 
static void* tramp(void*p){ int id=(int)(intptr_t)p; pthread_mutex_lock(&G); self=id; wait_turn(); pthread_mutex_unlock(&G); ts[id].start(ts[id].arg); pthread_mutex_lock(&G); ts[id].state=FINISHED; { int i; for(i=0;i<nts;i++) if(ts[i].used&&ts[i].state==BLK_COND&&ts[i].on==(void*)&ts[id]) ts[i].state=RUNNABLE; } pick_next(); pthread_mutex_unlock(&G); return NULL; }
void ldb_thread_create(ldb_thread_t*t,void(*start)(void*),void*arg){ int id; ensure_registered(); pthread_mutex_lock(&G); id=nts++; ts[id].used=1; ts[id].state=RUNNABLE; ts[id].start=start; ts[id].arg=arg; pthread_cond_init(&ts[id].cv,NULL); pthread_create(&ts[id].th,NULL,tramp,(void*)(intptr_t)id); t->handle=ts[id].th; yield_point(); pthread_mutex_unlock(&G);} 
void ldb_thread_detach(ldb_thread_t*t){ pthread_detach(t->handle);} 
void ldb_thread_join(ldb_thread_t*t){ int i,id=-1; ensure_registered(); pthread_mutex_lock(&G); for(i=0;i<nts;i++) if(ts[i].used&&pthread_equal(ts[i].th,t->handle)) id=i; while(id>=0&&ts[id].state!=FINISHED){ ts[self].state=BLK_COND; ts[self].on=(void*)&ts[id]; pick_next(); wait_turn(); } pthread_mutex_unlock(&G); pthread_join(t->handle,NULL);} 
int select(int n, fd_set*r, fd_set*w, fd_set*e, struct timeval*tv){ (void)n;(void)r;(void)w;(void)e;(void)tv; if(self>=0){ pthread_mutex_lock(&G); yield_point(); pthread_mutex_unlock(&G);} return 0; }
void sched_thread_exit_main(void){ }
