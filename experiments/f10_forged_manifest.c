/* F10 (C18): a well-framed MANIFEST whose only table has its largest key BELOW its smallest key (same user key, the
 * sequence numbers swapped).  ldb_open accepts it; the next manual compaction calls add_boundary_inputs, whose loop takes
 * the file itself as its own "boundary file" again and again: the input vector grows until memory runs out -- the call
 * neither returns a status nor terminates.  Found by the termination proof of Policy.addBoundaryInputs (it needs
 * `BoundsOk`: smallest <= largest for every file of the level).
 * build: see f10_run.sh <tree>.   exit 0 = every call returned a status; 1 = a call did not return / the process died. */
#define _GNU_SOURCE
#include <stdio.h>
#include <stdlib.h>
#include <string.h>
#include <unistd.h>
#include <dirent.h>
#include <signal.h>
#include <sys/wait.h>
#include <sys/stat.h>
#include <sys/resource.h>
#include "db_impl.h"
#include "util/options.h"
#include "util/status.h"
#include "version_edit.h"
#include "log_writer.h"
#include "dbformat.h"
#include "util/env.h"
#include "util/buffer.h"
#include "util/slice.h"

int main(int argc, char **argv) {
  char dir[256], path[512], cmd[600]; ldb_t *db = NULL; ldb_dbopt_t opt = *ldb_dbopt_default; int rc; pid_t pid; int st;
  unsigned long long num = 0, size = 0; DIR *d; struct dirent *e; struct stat sb;
  (void)argc; (void)argv;
  snprintf(dir, sizeof dir, "/var/tmp/lcdb-f10-XXXXXX"); if (!mkdtemp(dir)) return 2;
  opt.create_if_missing = 1;
  rc = ldb_open(dir, &opt, &db); if (rc) { printf("setup open rc=%d\n", rc); return 2; }
  { ldb_slice_t k = ldb_string("a"), v = ldb_string("value"); ldb_put(db, &k, &v, 0); }
  ldb_compact(db, NULL, NULL);          /* memtable -> one table file */
  ldb_close(db); db = NULL;
  d = opendir(dir);
  while ((e = readdir(d)) != NULL) { size_t n = strlen(e->d_name); if (n > 4 && !strcmp(e->d_name + n - 4, ".ldb")) { num = strtoull(e->d_name, NULL, 10); snprintf(path, sizeof path, "%s/%s", dir, e->d_name); stat(path, &sb); size = (unsigned long long)sb.st_size; } }
  closedir(d);
  if (!num) { printf("setup: no table\n"); return 2; }
  /* forge MANIFEST-000099: one table at level 0, smallest = (a, seq 5), largest = (a, seq 9): (a,9) sorts BEFORE (a,5) */
  { ldb_edit_t edit; ldb_ikey_t sm, lg; ldb_slice_t uk = ldb_string("a"); ldb_buffer_t rec; ldb_wfile_t *wf; ldb_writer_t w; FILE *f;
    ldb_edit_init(&edit); ldb_ikey_init(&sm); ldb_ikey_init(&lg); ldb_buffer_init(&rec);
    ldb_ikey_set(&sm, &uk, 5, LDB_TYPE_VALUE); ldb_ikey_set(&lg, &uk, 9, LDB_TYPE_VALUE);
    ldb_edit_set_comparator_name(&edit, "leveldb.BytewiseComparator");
    ldb_edit_set_log_number(&edit, 100); ldb_edit_set_next_file(&edit, 101); ldb_edit_set_last_sequence(&edit, 1000);
    ldb_edit_add_file(&edit, 0, num, size, &sm, &lg);
    ldb_edit_export(&rec, &edit);
    snprintf(path, sizeof path, "%s/MANIFEST-000099", dir);
    if (ldb_truncfile_create(path, &wf)) return 2;
    ldb_writer_init(&w, wf, 0); ldb_writer_add_record(&w, &rec); ldb_wfile_sync(wf); ldb_wfile_close(wf); ldb_wfile_destroy(wf);
    snprintf(path, sizeof path, "%s/CURRENT", dir); f = fopen(path, "w"); fputs("MANIFEST-000099\n", f); fclose(f);
  }
  fflush(stdout);
  pid = fork();
  if (pid == 0) {
    struct rlimit rl = { 1u << 30, 1u << 30 }; setrlimit(RLIMIT_AS, &rl); alarm(20);
    opt.create_if_missing = 0;
    rc = ldb_open(dir, &opt, &db);
    printf("open of the forged database: rc=%d\n", rc); fflush(stdout);
    if (rc == 0) { ldb_compact(db, NULL, NULL); printf("compact returned\n"); fflush(stdout); ldb_close(db); }
    _exit(0);
  }
  waitpid(pid, &st, 0);
  snprintf(cmd, sizeof cmd, "rm -rf %s", dir); if (system(cmd)) {}
  if (WIFEXITED(st) && WEXITSTATUS(st) == 0) { printf("OK: every call returned a status\n"); return 0; }
  if (WIFSIGNALED(st)) printf("FAIL: the process was killed by signal %d (14 = still running after 20 s, 6/11 = out of memory) -- a call on a forged MANIFEST did not return\n", WTERMSIG(st));
  else printf("FAIL: exit %d\n", WEXITSTATUS(st));
  return 1;
}
