/* throw-away kill-point / power-loss probe (design phase): journal libc I/O, replay prefixes, reopen */
#define _GNU_SOURCE
#include <stdio.h>
#include <stdlib.h>
#include <string.h>
#include <stdarg.h>
#include <errno.h>
#include <fcntl.h>
#include <unistd.h>
#include <pthread.h>
#include <sys/stat.h>
#include <sys/syscall.h>
#include <stdint.h>
#include <lcdb.h>
int ldb_test_compact_memtable(ldb_t *db);
enum { E_CREATE, E_WRITE, E_SYNC, E_RENAME, E_UNLINK, E_MKDIR, E_ACK, E_BEGIN };
typedef struct { int kind; char a[96]; char b[96]; unsigned char *data; size_t len; int trunc; int id; int sync; } ev_t;
static ev_t *J; static int nJ=0, capJ=0; static int recording=0; static pthread_mutex_t jm=PTHREAD_MUTEX_INITIALIZER;
static char fdpath[4096][96]; static char ROOTB[128]; static char IMG[128]; static char BASE[128];
#define ROOT ROOTB
static int under(const char*p){ return recording && strncmp(p,ROOT,strlen(ROOT))==0; }
static const char* rel(const char*p){ return p+strlen(ROOT); }
static void addev(int kind,const char*a,const char*b,const void*d,size_t len,int trunc,int id,int sync){ pthread_mutex_lock(&jm); if(nJ==capJ){capJ=capJ?capJ*2:1024;J=realloc(J,capJ*sizeof(ev_t));} ev_t*e=&J[nJ++]; memset(e,0,sizeof *e); e->kind=kind; if(a)strncpy(e->a,a,95); if(b)strncpy(e->b,b,95); if(d&&len){e->data=malloc(len);memcpy(e->data,d,len);} e->len=len;e->trunc=trunc;e->id=id;e->sync=sync; pthread_mutex_unlock(&jm);} 
int open(const char*path,int flags,...){ mode_t mode=0; if(flags&O_CREAT){va_list ap;va_start(ap,flags);mode=va_arg(ap,int);va_end(ap);} int fd=syscall(SYS_openat,AT_FDCWD,path,flags,mode); if(fd>=0&&fd<4096){ fdpath[fd][0]=0; if(under(path)){ strncpy(fdpath[fd],rel(path),95); if((flags&O_ACCMODE)!=O_RDONLY) addev(E_CREATE,rel(path),0,0,0,(flags&O_TRUNC)!=0,0,0);} } return fd; }
ssize_t write(int fd,const void*buf,size_t n){ ssize_t r=syscall(SYS_write,fd,buf,n); if(r>0&&fd>=0&&fd<4096&&fdpath[fd][0]&&recording) addev(E_WRITE,fdpath[fd],0,buf,r,0,0,0); return r; }
int fsync(int fd){ int r=syscall(SYS_fsync,fd); if(fd>=0&&fd<4096&&recording){ if(fdpath[fd][0]) addev(E_SYNC,fdpath[fd],0,0,0,0,0,0);} return r; }
int fdatasync(int fd){ return fsync(fd); }
int close(int fd){ if(fd>=0&&fd<4096) fdpath[fd][0]=0; return syscall(SYS_close,fd); }
int rename(const char*a,const char*b){ int r=syscall(SYS_renameat,AT_FDCWD,a,AT_FDCWD,b); if(r==0&&under(a)) addev(E_RENAME,rel(a),rel(b),0,0,0,0,0); return r; }
int unlink(const char*a){ int r=syscall(SYS_unlinkat,AT_FDCWD,a,0); if(r==0&&under(a)) addev(E_UNLINK,rel(a),0,0,0,0,0,0); return r; }
int mkdir(const char*a,mode_t m){ int r=syscall(SYS_mkdirat,AT_FDCWD,a,m); return r; }
/* materialise: mode 0 = kill image (all bytes), mode 1 = minimal power-loss image: dir ops up to last sync, data up to synced length */
typedef struct { char name[96]; unsigned char*d; size_t len, synced; int exists; } sf_t;
static sf_t F[512]; static int nF;
static sf_t* getf(const char*n,int create){ int i; for(i=0;i<nF;i++) if(F[i].exists&&!strcmp(F[i].name,n)) return &F[i]; if(!create) return NULL; sf_t*f=&F[nF++]; memset(f,0,sizeof*f); strcpy(f->name,n); f->exists=1; return f; }
static void shadow_apply(ev_t*e){ sf_t*f; switch(e->kind){ case E_CREATE: f=getf(e->a,1); if(e->trunc){f->len=0;f->synced=0;} break; case E_WRITE: f=getf(e->a,1); f->d=realloc(f->d,f->len+e->len); memcpy(f->d+f->len,e->data,e->len); f->len+=e->len; break; case E_SYNC: f=getf(e->a,0); if(f) f->synced=f->len; break; case E_RENAME: { sf_t*o=getf(e->b,0); if(o) o->exists=0; f=getf(e->a,0); if(f) strcpy(f->name,e->b);} break; case E_UNLINK: f=getf(e->a,0); if(f) f->exists=0; break; } }
static void materialise(int n,int mode,const char*dst){ int i; char cmd[256],p[256]; for(i=0;i<nF;i++) free(F[i].d); nF=0; memset(F,0,sizeof F);
  if(mode==0){ for(i=0;i<n;i++) shadow_apply(&J[i]); }
  else { /* dir ops only up to last sync before n; data: synced length at n */
    int last=-1; for(i=0;i<n;i++) if(J[i].kind==E_SYNC) last=i;
    /* first compute synced length per file name at time n by full replay, remembering by identity: approximate by replaying all n then truncating, then undoing dir ops after last */
    for(i=0;i<=last;i++) shadow_apply(&J[i]);
    /* data written after `last` is unsynced: dropped; dir ops after `last`: dropped (minimal image) */
    for(i=0;i<nF;i++) if(F[i].exists) F[i].len=F[i].synced; }
  sprintf(cmd,"rm -rf %s && mkdir -p %s",dst,dst); system(cmd);
  for(i=0;i<nF;i++) if(F[i].exists){ sprintf(p,"%s%s",dst,F[i].name); int fd=syscall(SYS_openat,AT_FDCWD,p,O_WRONLY|O_CREAT|O_TRUNC,0644); if(fd>=0){ if(F[i].len) syscall(SYS_write,fd,F[i].d,F[i].len); syscall(SYS_close,fd);} } }
static uint64_t rs; static uint64_t rnd(void){ uint64_t z=(rs+=0x9e3779b97f4a7c15ULL); z=(z^(z>>30))*0xbf58476d1ce4e5b9ULL; z=(z^(z>>27))*0x94d049bb133111ebULL; return z^(z>>31);} 
int main(int argc,char**argv){ ldb_dbopt_t opt=*ldb_dbopt_default; ldb_t*db; int rc,i,nb=argc>2?atoi(argv[2]):40; static unsigned char val[60000]; int bad=0; int stride=argc>3?atoi(argv[3]):1;
  rs=argc>1?strtoull(argv[1],0,10):1; sprintf(BASE,"/tmp/lcdb-exp-kp-%s",argc>1?argv[1]:"1"); sprintf(ROOTB,"%s/src",BASE); sprintf(IMG,"%s/img",BASE); { char c[300]; sprintf(c,"rm -rf %s && mkdir -p %s",BASE,BASE); system(c);} 
  opt.create_if_missing=1; opt.write_buffer_size=64<<10; opt.compression=LDB_NO_COMPRESSION; memset(val,'v',sizeof val);
  recording=1; rc=ldb_open(ROOT,&opt,&db); if(rc){printf("open %d\n",rc);return 1;}
  static int issync[4096];
  for(i=0;i<nb;i++){ ldb_batch_t b; char k[32]; ldb_slice_t ks,vs; ldb_writeopt_t wo=*ldb_writeopt_default; int j,n=1+rnd()%3; wo.sync=(rnd()%3==0); issync[i]=wo.sync; ldb_batch_init(&b); for(j=0;j<n;j++){ sprintf(k,"b%04d.%d",i,j); ks=ldb_string(k); vs=ldb_slice(val,(rnd()%4==0)?30000+rnd()%20000:rnd()%2000); ldb_batch_put(&b,&ks,&vs);} sprintf(k,"n%04d",i); ks=ldb_string(k); { char c[8]; sprintf(c,"%d",n); vs=ldb_string(c); ldb_batch_put(&b,&ks,&vs);} addev(E_BEGIN,0,0,0,0,0,i,wo.sync); rc=ldb_write(db,&b,&wo); if(rc==0) addev(E_ACK,0,0,0,0,0,i,wo.sync); ldb_batch_clear(&b); if(rnd()%9==0){ ldb_close(db); rc=ldb_open(ROOT,&opt,&db); if(rc){printf("reopen %d\n",rc);return 1;} } }
  ldb_close(db); recording=0; printf("journal events=%d\n",nJ);
  int mode; for(mode=0;mode<2;mode++){ int n; for(n=1;n<=nJ;n+=stride){ int acked_upto=-1, begun=-1, e, synced_ack=-1; for(e=0;e<n;e++){ if(J[e].kind==E_ACK){acked_upto=J[e].id; if(J[e].sync) synced_ack=J[e].id;} if(J[e].kind==E_BEGIN) begun=J[e].id; }
      /* a synced ack makes all earlier acked batches in the same or older logs durable too */
      materialise(n,mode,IMG);
      { ldb_dbopt_t o2=opt; o2.create_if_missing=(acked_upto<0); rc=ldb_open(IMG,&o2,&db); }
      if(rc){ if(acked_upto>=0 || mode==0){ /* in mode 1 before the first sync the db may legitimately not exist */ int exists_cur=0; struct stat st; { char c[300]; sprintf(c,"%s/CURRENT",IMG); exists_cur=(stat(c,&st)==0);}  if(mode==0||exists_cur||synced_ack>=0){ printf("mode %d n=%d: OPEN FAILED rc=%d (%s) acked_upto=%d synced_ack=%d\n",mode,n,rc,ldb_strerror(rc),acked_upto,synced_ack); bad++; } } continue; }
      int must= mode==0? acked_upto : synced_ack; int b;
      for(b=0;b<=begun;b++){ char k[32]; ldb_slice_t ks,out; int present; sprintf(k,"n%04d",b); ks=ldb_string(k); rc=ldb_get(db,&ks,&out,0); present=(rc==LDB_OK); if(present){ char tmpc[16]={0}; int cnt, j; memcpy(tmpc,out.data,out.size<15?out.size:15); cnt=atoi(tmpc); ldb_free(out.data); for(j=0;j<cnt;j++){ sprintf(k,"b%04d.%d",b,j); ks=ldb_string(k); rc=ldb_get(db,&ks,&out,0); if(rc!=LDB_OK){ printf("mode %d n=%d: batch %d partially applied (missing .%d)\n",mode,n,b,j); bad++; } else ldb_free(out.data);} }
        if(b<=must && !present && (mode==0 || issync[b])){ printf("mode %d n=%d: LOST %s batch %d (acked_upto=%d synced_ack=%d)\n",mode,n,mode?"synced":"acked",b,acked_upto,synced_ack); bad++; }
        if(mode==0 && !present && b<acked_upto) {} }
      /* prefix property in kill mode: present set must be a prefix */
      ldb_close(db); if(bad>10){printf("too many\n");return 1;} } }
  printf("seed done bad=%d\n",bad); { char c[300]; sprintf(c,"rm -rf %s",BASE); system(c);} return bad?1:0; }
