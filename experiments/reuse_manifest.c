#include <stdio.h>
#include <stdlib.h>
#include <string.h>
#include <lcdb.h>
int ldb_test_compact_memtable(ldb_t *db);
int main(void){
  ldb_dbopt_t opt = *ldb_dbopt_default; ldb_t *db; int rc, i;
  char key[32]; ldb_slice_t k, v = ldb_string("value"), out;
  system("rm -rf /tmp/lcdb-exp-db4");
  opt.create_if_missing = 1; opt.reuse_logs = 1;
  rc = ldb_open("/tmp/lcdb-exp-db4", &opt, &db); printf("open %d\n", rc);
  for (i=0;i<5;i++){ sprintf(key,"a%03d",i); k=ldb_string(key); ldb_put(db,&k,&v,0);}  
  ldb_test_compact_memtable(db);
  ldb_close(db);
  /* emulate a crash that tore an unsynced MANIFEST append: append the first 20 bytes of a record */
  system("cd /tmp/lcdb-exp-db4 && m=$(ls MANIFEST-* | tail -1) && head -c 20 $m > /tmp/lcdb-exp-torn && cat /tmp/lcdb-exp-torn >> $m && ls -l");
  rc = ldb_open("/tmp/lcdb-exp-db4", &opt, &db); printf("reopen1 %d (%s)\n", rc, ldb_strerror(rc));
  if (rc) return 1;
  for (i=0;i<5;i++){ sprintf(key,"b%03d",i); k=ldb_string(key); ldb_put(db,&k,&v,0);}  
  rc = ldb_test_compact_memtable(db); printf("flush %d\n", rc);
  system("ls -l /tmp/lcdb-exp-db4");
  ldb_close(db);
  rc = ldb_open("/tmp/lcdb-exp-db4", &opt, &db); printf("reopen2 %d (%s)\n", rc, ldb_strerror(rc));
  if (rc==0) { k=ldb_string("b000"); rc=ldb_get(db,&k,&out,0); printf("get b000 %d\n", rc); ldb_close(db);}  
  return 0;
}
