#define _GNU_SOURCE
#include <stdio.h>
#include <stdlib.h>
#include <string.h>
#include <errno.h>
#include <unistd.h>
#include <sys/syscall.h>
#include <lcdb.h>
static int fail_next_log_write = 0; static int logfd_hint = -1; static int fired = 0;
static int is_log_fd(int fd){ char p[64], b[512]; ssize_t n; snprintf(p,sizeof p,"/proc/self/fd/%d",fd); n=readlink(p,b,sizeof b-1); if(n<0) return 0; b[n]=0; return strstr(b,".log")!=NULL; }
ssize_t write(int fd, const void *buf, size_t n){
  if (fail_next_log_write && is_log_fd(fd)) { fail_next_log_write = 0; fired++; errno = ENOSPC; return -1; }
  return syscall(SYS_write, fd, buf, n);
}
int main(int argc, char **argv){
  ldb_dbopt_t opt = *ldb_dbopt_default; ldb_t *db; int rc, i, lost=0, acked=0;
  char key[32], val[2000]; ldb_slice_t k, v, out;
  int failat = argc>1 ? atoi(argv[1]) : 3;
  system("rm -rf /tmp/lcdb-exp-db2");
  opt.create_if_missing = 1;
  rc = ldb_open("/tmp/lcdb-exp-db2", &opt, &db); printf("open %d\n", rc);
  memset(val,'x',sizeof val);
  static int ok[200];
  for (i=0;i<60;i++){
    sprintf(key,"key%03d",i); k=ldb_string(key); v=ldb_slice((unsigned char*)val, 1000 + i);
    if (i==failat) fail_next_log_write=1;
    rc = ldb_put(db,&k,&v,0); ok[i] = (rc==LDB_OK); if(rc) printf("put %d -> rc=%d (%s)\n", i, rc, ldb_strerror(rc)); else acked++;
  }
  printf("fired=%d acked=%d\n", fired, acked);
  /* reads before close */
  for (i=0;i<60;i++){ sprintf(key,"key%03d",i); k=ldb_string(key); rc=ldb_get(db,&k,&out,0); if(ok[i] && rc!=LDB_OK) printf("live read lost %d rc=%d\n",i,rc); if(rc==LDB_OK) ldb_free(out.data);}
  ldb_close(db);
  rc = ldb_open("/tmp/lcdb-exp-db2", &opt, &db); printf("reopen %d\n", rc);
  for (i=0;i<60;i++){ sprintf(key,"key%03d",i); k=ldb_string(key); rc=ldb_get(db,&k,&out,0); if(ok[i] && rc!=LDB_OK){ lost++; printf("LOST acked key %d rc=%d\n",i,rc);} if(rc==LDB_OK) ldb_free(out.data);}
  printf("lost=%d\n", lost);
  ldb_close(db);
  return 0;
}
