#include <stdio.h>
#include <stdlib.h>
#include <string.h>
#include <unistd.h>
#include <sys/wait.h>
#include <lcdb.h>
static int try_child(const char *tag){
  pid_t p = fork();
  if (p == 0) {
    /* child: exec ourselves in "probe" mode so no inherited in-process lock table matters */
    execl("/proc/self/exe", "lockdrop", "probe", (char*)0); _exit(99);
  }
  int st; waitpid(p,&st,0); printf("%s: other process open -> %s\n", tag, WEXITSTATUS(st)==0 ? "SUCCEEDED (lock not held!)" : "refused (ok)");
  return WEXITSTATUS(st);
}
int main(int argc, char **argv){
  ldb_dbopt_t opt = *ldb_dbopt_default; ldb_t *db, *db2; int rc;
  opt.create_if_missing = 1;
  if (argc > 1) { rc = ldb_open("/tmp/lcdb-exp-db5", &opt, &db); if (rc==0) ldb_close(db); return rc==0 ? 0 : 1; }
  system("rm -rf /tmp/lcdb-exp-db5");
  rc = ldb_open("/tmp/lcdb-exp-db5", &opt, &db); printf("open A %d\n", rc);
  try_child("before failed second open");
  rc = ldb_open("/tmp/lcdb-exp-db5", &opt, &db2); printf("second open in same process -> %d (%s)\n", rc, ldb_strerror(rc));
  try_child("after failed second open ");
  ldb_close(db);
  return 0;
}
