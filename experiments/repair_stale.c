#include <stdio.h>
#include <stdlib.h>
#include <string.h>
#include <lcdb.h>
int ldb_test_compact_memtable(ldb_t *db);
void ldb_test_compact_range(ldb_t *db, int level, const ldb_slice_t *b, const ldb_slice_t *e);
static void show(ldb_t *db){ char *v; if (ldb_property(db,"leveldb.sstables",&v)) { printf("%s\n", v); ldb_free(v);} }
int main(void){
  ldb_dbopt_t opt = *ldb_dbopt_default; ldb_t *db; int rc;
  ldb_slice_t k = ldb_string("k"), v1 = ldb_string("v1"), v2 = ldb_string("v2"), out;
  system("rm -rf /tmp/lcdb-exp-db1");
  opt.create_if_missing = 1;
  rc = ldb_open("/tmp/lcdb-exp-db1", &opt, &db); printf("open %d\n", rc);
  ldb_put(db,&k,&v1,0); ldb_test_compact_memtable(db); show(db);
  ldb_put(db,&k,&v2,0); ldb_test_compact_memtable(db); show(db);
  ldb_test_compact_range(db, 2, NULL, NULL); show(db);
  rc = ldb_get(db,&k,&out,0); printf("before: rc=%d %.*s\n", rc, (int)out.size, (char*)out.data); ldb_free(out.data);
  ldb_close(db);
  system("rm -f /tmp/lcdb-exp-db1/MANIFEST-* /tmp/lcdb-exp-db1/CURRENT; ls /tmp/lcdb-exp-db1");
  rc = ldb_repair("/tmp/lcdb-exp-db1", &opt); printf("repair %d\n", rc);
  rc = ldb_open("/tmp/lcdb-exp-db1", &opt, &db); printf("open %d\n", rc); show(db);
  rc = ldb_get(db,&k,&out,0); printf("after get: rc=%d %.*s\n", rc, (int)out.size, (char*)out.data); ldb_free(out.data);
  { ldb_iter_t *it = ldb_iterator(db, 0); ldb_iter_first(it); while (ldb_iter_valid(it)) { ldb_slice_t kk=ldb_iter_key(it), vv=ldb_iter_value(it); printf("iter: %.*s=%.*s\n",(int)kk.size,(char*)kk.data,(int)vv.size,(char*)vv.data); ldb_iter_next(it);} ldb_iter_destroy(it);}
  ldb_close(db);
  return 0;
}
