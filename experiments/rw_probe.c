/* throw-away random walk vs sorted-map oracle (design-phase probe) */
#include <stdio.h>
#include <stdlib.h>
#include <string.h>
#include <stdint.h>
#include <lcdb.h>
int ldb_test_compact_memtable(ldb_t *db);
void ldb_test_compact_range(ldb_t *db, int level, const ldb_slice_t *b, const ldb_slice_t *e);
#define NK 40
#define MAXSNAP 6
static uint64_t rs; static uint64_t rnd(void){ uint64_t z=(rs+=0x9e3779b97f4a7c15ULL); z=(z^(z>>30))*0xbf58476d1ce4e5b9ULL; z=(z^(z>>27))*0x94d049bb133111ebULL; return z^(z>>31);} 
typedef struct { int present; uint32_t id; uint32_t len; } ent_t;
typedef struct { ent_t e[NK]; } map_t;
static char keys[NK][24]; static int keylen[NK];
static map_t cur; static map_t snapm[MAXSNAP]; static const ldb_snapshot_t *snaps[MAXSNAP];
static unsigned char *vbuf;
static void mkval(uint32_t id, uint32_t len){ uint32_t i; uint32_t x=id*2654435761u+1; for(i=0;i<len;i++){ x=x*1103515245u+12345u; vbuf[i]= (i<4)? ((id>>(8*i))&0xff) : ((len%3==0)? (unsigned char)(x>>16) : (unsigned char)('a'+(i%7))); } }
static int cmpk(const void*a,const void*b){ return strcmp((const char*)a,(const char*)b);} 
static int fails=0; static long step=0; static unsigned long long seed0;
#define FAIL(...) do{ printf("FAIL seed=%llu step=%ld: ", seed0, step); printf(__VA_ARGS__); printf("\n"); fails++; if(fails>5) exit(1);}while(0)
static void check_get(ldb_t*db,const map_t*m,const ldb_snapshot_t*s,const char*tag){ int i; ldb_readopt_t ro=*ldb_readopt_default; ro.snapshot=s; for(i=0;i<NK;i++){ ldb_slice_t k=ldb_slice((unsigned char*)keys[i],keylen[i]), out; int rc=ldb_get(db,&k,&out,&ro); if(m->e[i].present){ if(rc!=LDB_OK){FAIL("%s get %s rc=%d expected present id=%u",tag,keys[i],rc,m->e[i].id);} else { mkval(m->e[i].id,m->e[i].len); if(out.size!=m->e[i].len||memcmp(out.data,vbuf,out.size)) FAIL("%s get %s wrong value (len %zu vs %u)",tag,keys[i],out.size,m->e[i].len); ldb_free(out.data);} } else { if(rc!=LDB_NOTFOUND){ FAIL("%s get %s rc=%d expected notfound",tag,keys[i],rc); if(rc==LDB_OK) ldb_free(out.data);} } } }
static void check_iter(ldb_t*db,const map_t*m,const ldb_snapshot_t*s,const char*tag){ ldb_readopt_t ro=*ldb_iteropt_default; ldb_iter_t*it; int i; ro.snapshot=s; it=ldb_iterator(db,&ro);
  ldb_iter_first(it); for(i=0;i<NK;i++){ if(!m->e[i].present) continue; if(!ldb_iter_valid(it)){FAIL("%s iter fwd ended before %s",tag,keys[i]); break;} { ldb_slice_t k=ldb_iter_key(it), v=ldb_iter_value(it); if((int)k.size!=keylen[i]||memcmp(k.data,keys[i],k.size)) {FAIL("%s iter fwd key mismatch at %s got %.*s",tag,keys[i],(int)k.size,(char*)k.data); break;} mkval(m->e[i].id,m->e[i].len); if(v.size!=m->e[i].len||memcmp(v.data,vbuf,v.size)) FAIL("%s iter fwd value mismatch at %s",tag,keys[i]); } ldb_iter_next(it);} if(ldb_iter_valid(it)) FAIL("%s iter fwd extra entries",tag);
  ldb_iter_last(it); for(i=NK-1;i>=0;i--){ if(!m->e[i].present) continue; if(!ldb_iter_valid(it)){FAIL("%s iter bwd ended before %s",tag,keys[i]); break;} { ldb_slice_t k=ldb_iter_key(it), v=ldb_iter_value(it); if((int)k.size!=keylen[i]||memcmp(k.data,keys[i],k.size)) {FAIL("%s iter bwd key mismatch at %s",tag,keys[i]); break;} mkval(m->e[i].id,m->e[i].len); if(v.size!=m->e[i].len||memcmp(v.data,vbuf,v.size)) FAIL("%s iter bwd value mismatch at %s",tag,keys[i]); } ldb_iter_prev(it);} if(ldb_iter_valid(it)) FAIL("%s iter bwd extra entries",tag);
  /* random seeks with direction changes */
  for(i=0;i<12;i++){ int t=rnd()%NK, j, exp=-1; ldb_slice_t k=ldb_slice((unsigned char*)keys[t],keylen[t]); int mode=rnd()%4; 
    if(mode==0){ ldb_iter_seek(it,&k); for(j=t;j<NK;j++) if(m->e[j].present){exp=j;break;} }
    else if(mode==1){ ldb_iter_seek_gt(it,&k); for(j=t+1;j<NK;j++) if(m->e[j].present){exp=j;break;} }
    else if(mode==2){ ldb_iter_seek_le(it,&k); for(j=t;j>=0;j--) if(m->e[j].present){exp=j;break;} }
    else { ldb_iter_seek_lt(it,&k); for(j=t-1;j>=0;j--) if(m->e[j].present){exp=j;break;} }
    { int n; for(n=0;n<4;n++){ if(exp<0){ if(ldb_iter_valid(it)) FAIL("%s seek mode %d target %s: expected invalid",tag,mode,keys[t]); break;} if(!ldb_iter_valid(it)){FAIL("%s seek mode %d target %s: expected %s got invalid (n=%d)",tag,mode,keys[t],keys[exp],n); break;} { ldb_slice_t kk=ldb_iter_key(it); if((int)kk.size!=keylen[exp]||memcmp(kk.data,keys[exp],kk.size)){FAIL("%s seek mode %d target %s: expected %s got %.*s (n=%d)",tag,mode,keys[t],keys[exp],(int)kk.size,(char*)kk.data,n); break;} } if(rnd()%2){ ldb_iter_next(it); for(j=exp+1,exp=-1;j<NK;j++) if(m->e[j].present){exp=j;break;} } else { ldb_iter_prev(it); for(j=exp-1,exp=-1;j>=0;j--) if(m->e[j].present){exp=j;break;} } } }
  }
  if(ldb_iter_status(it)!=LDB_OK) FAIL("%s iter status %d",tag,ldb_iter_status(it)); ldb_iter_destroy(it);} 
int main(int argc,char**argv){ ldb_dbopt_t opt=*ldb_dbopt_default; ldb_t*db; int rc,i; long nsteps=argc>2?atol(argv[2]):400; char path[128]; uint32_t idc=1; ldb_bloom_t*bloom=NULL; ldb_lru_t*cache=NULL;
  seed0=argc>1?strtoull(argv[1],0,10):1; rs=seed0; vbuf=malloc(400000);
  for(i=0;i<NK;i++){ int t=i%4; if(t==0) sprintf(keys[i],"k%02d",i); else if(t==1) sprintf(keys[i],"k%02dlongprefix_shared_%d",i-1,i); else if(t==2) sprintf(keys[i],"k%02d\xff\xff",i-2); else sprintf(keys[i],"m%02d",i);} qsort(keys,NK,24,cmpk); for(i=0;i<NK;i++) keylen[i]=strlen(keys[i]);
  sprintf(path,"/tmp/lcdb-exp-rw-%llu",seed0); { char cmd[200]; sprintf(cmd,"rm -rf %s",path); system(cmd);} 
  opt.create_if_missing=1; opt.write_buffer_size=64<<10; opt.max_file_size=1<<20; opt.block_size=(rnd()%2)?1024:4096; opt.block_restart_interval=1+rnd()%16; opt.compression=(rnd()%2)?LDB_SNAPPY_COMPRESSION:LDB_NO_COMPRESSION; opt.use_mmap=rnd()%2; opt.paranoid_checks=rnd()%2; opt.reuse_logs=0; if(rnd()%2){ bloom=ldb_bloom_create(1+rnd()%12); opt.filter_policy=bloom;} if(rnd()%2){ cache=ldb_lru_create(1+rnd()%20000); opt.block_cache=cache;} opt.max_open_files=64+rnd()%20;
  rc=ldb_open(path,&opt,&db); if(rc){printf("open rc=%d\n",rc);return 1;}
  for(step=0;step<nsteps;step++){ int op=rnd()%100;
    if(op<45){ int k=rnd()%NK; uint32_t len= (rnd()%10==0)? 100000+rnd()%250000 : (rnd()%4==0? 0 : rnd()%3000); ldb_slice_t ks=ldb_slice((unsigned char*)keys[k],keylen[k]), vs; mkval(idc,len); vs=ldb_slice(vbuf,len); rc=ldb_put(db,&ks,&vs,0); if(rc) FAIL("put rc=%d",rc); cur.e[k].present=1; cur.e[k].id=idc++; cur.e[k].len=len; }
    else if(op<58){ int k=rnd()%NK; ldb_slice_t ks=ldb_slice((unsigned char*)keys[k],keylen[k]); rc=ldb_del(db,&ks,0); if(rc) FAIL("del rc=%d",rc); cur.e[k].present=0; }
    else if(op<64){ ldb_batch_t b; int n=1+rnd()%8,j; ldb_batch_init(&b); for(j=0;j<n;j++){ int k=rnd()%NK; ldb_slice_t ks=ldb_slice((unsigned char*)keys[k],keylen[k]); if(rnd()%3==0){ ldb_batch_del(&b,&ks); cur.e[k].present=0;} else { uint32_t len=rnd()%20000; ldb_slice_t vs; mkval(idc,len); vs=ldb_slice(vbuf,len); ldb_batch_put(&b,&ks,&vs); cur.e[k].present=1; cur.e[k].id=idc++; cur.e[k].len=len; } } rc=ldb_write(db,&b,0); if(rc) FAIL("write rc=%d",rc); ldb_batch_clear(&b);} 
    else if(op<70){ int s=rnd()%MAXSNAP; if(snaps[s]){ ldb_release(db,snaps[s]); snaps[s]=NULL;} else { snaps[s]=ldb_snapshot(db); snapm[s]=cur; } }
    else if(op<76){ rc=ldb_test_compact_memtable(db); if(rc) FAIL("flush rc=%d",rc);} 
    else if(op<86){ int lvl=rnd()%6; int a=rnd()%NK,b=rnd()%NK; ldb_slice_t ka,kb; if(a>b){int t=a;a=b;b=t;} ka=ldb_slice((unsigned char*)keys[a],keylen[a]); kb=ldb_slice((unsigned char*)keys[b],keylen[b]); ldb_test_compact_range(db,lvl,(rnd()%4==0)?NULL:&ka,(rnd()%4==0)?NULL:&kb);} 
    else if(op<88){ ldb_compact(db,NULL,NULL);} 
    else if(op<91){ int s; for(s=0;s<MAXSNAP;s++) if(snaps[s]){ldb_release(db,snaps[s]);snaps[s]=NULL;} ldb_close(db); rc=ldb_open(path,&opt,&db); if(rc){FAIL("reopen rc=%d",rc); return 1;} }
    else { int s; check_get(db,&cur,NULL,"cur"); check_iter(db,&cur,NULL,"cur"); for(s=0;s<MAXSNAP;s++) if(snaps[s]){ check_get(db,&snapm[s],snaps[s],"snap"); if(rnd()%2) check_iter(db,&snapm[s],snaps[s],"snap"); } }
  }
  { int s; check_get(db,&cur,NULL,"final"); check_iter(db,&cur,NULL,"final"); for(s=0;s<MAXSNAP;s++) if(snaps[s]){ check_get(db,&snapm[s],snaps[s],"fsnap"); check_iter(db,&snapm[s],snaps[s],"fsnap"); ldb_release(db,snaps[s]); } }
  { char *v; if(argc>3 && ldb_property(db,"leveldb.sstables",&v)){ printf("%s",v); ldb_free(v);} }
  ldb_close(db); if(bloom) ldb_bloom_destroy(bloom); if(cache) ldb_lru_destroy(cache); { char cmd[200]; sprintf(cmd,"rm -rf %s",path); system(cmd);} 
  printf("seed %llu done fails=%d\n",seed0,fails); return fails?1:0; }
