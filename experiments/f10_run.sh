#!/bin/bash
# f10_run.sh <tree>: builds the demonstration against <tree>/src and runs it
T=${1:-/repo}; O=$(mktemp -d /var/tmp/f10-XXXXXX)
SRCS=$(ls $T/src/*.c $T/src/util/*.c $T/src/table/*.c | grep -v 'dbutil.c\|testutil.c')
gcc -O1 -g -w -DLDB_PTHREAD -D_GNU_SOURCE -DNDEBUG -I$T/include -I$T/src $(dirname $0)/f10_forged_manifest.c $SRCS -lpthread -o $O/f10 || { rm -rf $O; exit 2; }
$O/f10; RC=$?; rm -rf $O; exit $RC
