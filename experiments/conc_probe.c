#include <stdio.h>
#include <stdlib.h>
#include <string.h>
#include <stdint.h>
#include <lcdb.h>
#include "util/port.h"
void sched_seed(uint64_t s); extern long sched_switches, sched_points;
static ldb_t *db; static int NOPS=150;
static void writer(void*arg){ int id=(int)(intptr_t)arg,i; static __thread unsigned char val[3000]; memset(val,'a'+id,sizeof val); for(i=0;i<NOPS;i++){ char k[32]; ldb_slice_t ks,vs,out; int rc; sprintf(k,"t%d-%04d",id,i); ks=ldb_string(k); vs=ldb_slice(val,500+(i*37)%2500); rc=ldb_put(db,&ks,&vs,0); if(rc){printf("put rc=%d\n",rc);abort();} if(i%7==0){ sprintf(k,"t%d-%04d",(id+1)%4,i/2); ks=ldb_string(k); rc=ldb_get(db,&ks,&out,0); if(rc==0) ldb_free(out.data);} if(i%50==49){ const ldb_snapshot_t*s=ldb_snapshot(db); ldb_release(db,s);} } }
int main(int argc,char**argv){ ldb_dbopt_t opt=*ldb_dbopt_default; int rc,i; ldb_thread_t th[4]; uint64_t seed=argc>1?strtoull(argv[1],0,10):1; char path[64]; sprintf(path,"/tmp/lcdb-exp2-%llu",(unsigned long long)seed); { char c[128]; sprintf(c,"rm -rf %s",path); system(c);} sched_seed(seed);
  opt.create_if_missing=1; opt.write_buffer_size=64<<10; rc=ldb_open(path,&opt,&db); if(rc){printf("open %d\n",rc);return 1;}
  for(i=0;i<4;i++) ldb_thread_create(&th[i],writer,(void*)(intptr_t)i);
  for(i=0;i<4;i++) ldb_thread_join(&th[i]);
  { int id,j,missing=0; for(id=0;id<4;id++) for(j=0;j<NOPS;j++){ char k[32]; ldb_slice_t ks,out; sprintf(k,"t%d-%04d",id,j); ks=ldb_string(k); rc=ldb_get(db,&ks,&out,0); if(rc) missing++; else ldb_free(out.data);} printf("seed %llu: missing=%d points=%ld switches=%ld\n",(unsigned long long)seed,missing,sched_points,sched_switches);} 
  ldb_close(db); { char c[128]; sprintf(c,"rm -rf %s",path); system(c);} return 0; }
