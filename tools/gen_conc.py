"""Translators T3/T4: concurrency facts re-extracted from /repo's CURRENT source on every check.

T3  every atomic operation of the C sources           -> Generated/Atomics.lean      (Generated.atomics, Generated.atomicWrapperCalls)
    every `ldb_atomic(T) x;` / `ldb_atomic_ptr(T) x;`  -> Generated/AtomicsMeta.lean  (Generated.atomicDecls, config, cross-check, notes)
T4  every access to mutex-protected state + call sites -> Generated/LockTable.lean    (Generated.lockTable, callTable, lockEntry, protectedFields)

Method (see SLICE_REPORT.md for the limits):
  * the source is NOT macro-expanded.  Comments are blanked, continuation lines joined, conditional groups (#if/#ifdef/#else..)
    are resolved against the macro set of the pinned build configuration (asked from `gcc -dM -E` with the build's defines; a
    built-in default is used when gcc is not available); a condition the evaluator cannot decide keeps ALL its groups and is noted.
  * a real C tokenizer, a top-level scanner that finds `name(params) {body}` function definitions and struct bodies, and (T4) a
    recursive-descent statement parser (blocks, if/else, while, for, do, switch/case, return/break/continue/goto/labels).
  * anything the translators cannot parse is emitted as a row with order/op/held = `unknown` -- the Lean obligations reject
    `unknown`, so a call site is never dropped silently.
python3 stdlib only."""
import os, re, subprocess, sys

BUILD_DEFS = ['-DLDB_PTHREAD', '-D_GNU_SOURCE', '-DNDEBUG']
# used when gcc cannot be asked: the macros that matter for the files analysed, in the pinned (POSIX, gcc/clang atomics) build
DEFAULT_CONFIG = {'LDB_PTHREAD': True, 'LDB_HAVE_ATOMICS': True, 'LDB_GNUC_ATOMICS': True, 'NDEBUG': True, '_WIN32': False, '_WIN64': False,
                  'LDB_STD_ATOMICS': False, 'LDB_MSVC_ATOMICS': False, 'LDB_PTHREAD_ATOMICS': False, '__cplusplus': False}

# macros deliberately left undecided: both the debug and the release variant of the code are analysed
BOTH_WAYS = ('NDEBUG',)

ORDERS = {'ldb_order_relaxed': 'relaxed', 'ldb_order_consume': 'consume', 'ldb_order_acquire': 'acquire',
          'ldb_order_release': 'release', 'ldb_order_acq_rel': 'acqRel', 'ldb_order_seq_cst': 'seqCst'}
ORDER_NUM = {0: 'relaxed', 1: 'consume', 2: 'acquire', 3: 'release', 4: 'acqRel', 5: 'seqCst'}
# macro -> (op, number of arguments, index of the order argument or None)
ATOMIC_MACROS = {
    'ldb_atomic_load': ('load', 2, 1), 'ldb_atomic_load_ptr': ('load', 2, 1),
    'ldb_atomic_store': ('store', 3, 2), 'ldb_atomic_store_ptr': ('store', 3, 2),
    'ldb_atomic_fetch_add': ('fetchAdd', 3, 2), 'ldb_atomic_fetch_sub': ('fetchSub', 3, 2),
    'ldb_atomic_exchange': ('exchange', 2, None), 'ldb_atomic_compare_exchange': ('compareExchange', 3, None),
    'ldb_atomic_init': ('init', 2, None), 'ldb_atomic_init_ptr': ('init', 2, None),
}
ATOMIC_IMPL_FILES = {'src/util/atomic.h', 'src/util/atomic.c'}   # the implementation of the macros themselves


# ------------------------------------------------------------------ source preparation
def blank_comments(s):
    """replace comments by spaces (newlines kept); string and character literals are respected"""
    out = []
    i, n = 0, len(s)
    while i < n:
        c = s[i]
        if c == '/' and i + 1 < n and s[i + 1] == '*':
            j = s.find('*/', i + 2)
            j = n if j < 0 else j + 2
            out.append(''.join(ch if ch == '\n' else ' ' for ch in s[i:j]))
            i = j
        elif c == '/' and i + 1 < n and s[i + 1] == '/':
            j = s.find('\n', i)
            j = n if j < 0 else j
            out.append(' ' * (j - i))
            i = j
        elif c == '"' or c == "'":
            j = i + 1
            while j < n and s[j] != c:
                if s[j] == '\\':
                    j += 1
                if j < n and s[j] == '\n':
                    break
                j += 1
            out.append(s[i:j + 1])
            i = j + 1
        else:
            out.append(c)
            i += 1
    return ''.join(out)


def _eval_cond(expr, cfg):
    """three-valued evaluation of a #if expression: True / False / None (cannot decide)"""
    e = expr

    def dv(m):
        v = cfg.get(m.group(1), cfg.get('*'))
        return ' ? ' if v is None else (' 1 ' if v else ' 0 ')
    e = re.sub(r'defined\s*\(\s*(\w+)\s*\)', dv, e)
    e = re.sub(r'defined\s+(\w+)', dv, e)
    e = e.replace('&&', ' and ').replace('||', ' or ')
    e = re.sub(r'!(?!=)', ' not ', e)
    if '?' in e:
        # try both values of every undecided atom: the result is known only if all agree
        k = e.count('?')
        if k > 6:
            return None
        res = set()
        for bits in range(1 << k):
            parts = e.split('?')
            t = parts[0]
            for j in range(k):
                t += ('1' if (bits >> j) & 1 else '0') + parts[j + 1]
            res.add(_eval_cond_closed(t))
        return res.pop() if len(res) == 1 else None
    return _eval_cond_closed(e)


def _eval_cond_closed(e):
    if not re.fullmatch(r'(?:\s|\(|\)|and|or|not|[0-9]+[uUlL]*|[<>=!]=?|[+\-*])*', e):
        return None
    e = re.sub(r'([0-9]+)[uUlL]+', r'\1', e)
    try:
        return bool(eval(e, {'__builtins__': {}}, {}))
    except Exception:
        return None


class Prepared:
    """one source file with comments blanked and conditional groups resolved (layout and line numbers preserved)"""
    def __init__(self, rel, raw, cfg):
        self.rel = rel
        self.raw = raw
        self.notes = []
        self.defines = []        # (line, name, params or None, body)   ;  body None = #undef
        txt = blank_comments(raw)
        lines = txt.split('\n')
        out = []
        stack = []               # entries: [parent_active, taken_already, active_now, undecided]
        i = 0
        cfg = dict(cfg)
        while i < len(lines):
            ln = lines[i]
            first = i
            while ln.rstrip().endswith('\\') and i + 1 < len(lines):
                ln = ln.rstrip()[:-1] + ' ' + lines[i + 1]
                i += 1
            nl = i - first + 1
            active = all(s[2] for s in stack)
            m = re.match(r'\s*#\s*(\w+)\s*(.*)$', ln, re.S)
            if m:
                d, rest = m.group(1), m.group(2).strip()
                if d in ('if', 'ifdef', 'ifndef'):
                    if d == 'ifdef':
                        v = _eval_cond('defined(%s)' % rest.split()[0], cfg) if rest else None
                    elif d == 'ifndef':
                        v = _eval_cond('!defined(%s)' % rest.split()[0], cfg) if rest else None
                    else:
                        v = _eval_cond(rest, cfg)
                    # include guard  `#ifndef X` / `#if !defined(X)` directly followed by `#define X`: always taken
                    g = re.fullmatch(r'(\w+)', rest) if d == 'ifndef' else (re.fullmatch(r'!\s*defined\s*\(?\s*(\w+)\s*\)?', rest) if d == 'if' else None)
                    if g:
                        j = i + 1
                        while j < len(lines) and not lines[j].strip():
                            j += 1
                        if j < len(lines) and re.match(r'\s*#\s*define\s+%s\b' % re.escape(g.group(1)), lines[j]):
                            v = True
                    if v is None:
                        if active and not any(re.search(r'\b%s\b' % k, rest) for k in BOTH_WAYS):
                            self.notes.append('%s:%d: undecided condition `#%s %s` -- all groups kept' % (rel, first + 1, d, rest[:60]))
                        stack.append([active, False, True, True])
                    else:
                        stack.append([active, v, v, False])
                elif d == 'elif' and stack:
                    s = stack[-1]
                    if s[3]:
                        s[2] = True
                    else:
                        v = _eval_cond(rest, cfg)
                        if v is None:
                            s[3] = True
                            s[2] = not s[1]
                            if s[0] and s[2]:
                                self.notes.append('%s:%d: undecided `#elif %s` -- group kept' % (rel, first + 1, rest[:60]))
                        elif s[1]:
                            s[2] = False
                        else:
                            s[1] = s[2] = v
                elif d == 'else' and stack:
                    s = stack[-1]
                    if not s[3]:
                        s[2] = not s[1]
                        s[1] = True
                elif d == 'endif' and stack:
                    stack.pop()
                elif d == 'define' and active:
                    mm = re.match(r'(\w+)(\(([^)]*)\))?\s*(.*)$', rest, re.S)
                    if mm:
                        params = None if mm.group(2) is None else [p.strip() for p in mm.group(3).split(',') if p.strip()]
                        self.defines.append((first + 1, mm.group(1), params, mm.group(4)))
                        cfg[mm.group(1)] = True
                elif d == 'undef' and active:
                    nm = rest.split()[0] if rest else ''
                    self.defines.append((first + 1, nm, None, None))
                    cfg[nm] = False
                out.extend([''] * nl)
            else:
                if active:
                    out.extend(lines[first:first + nl])
                else:
                    out.extend([''] * nl)
            i += 1
        self.text = '\n'.join(out)
        self.tokens = tokenize(self.text)

    def macro_at(self, name, line):
        """latest object-like #define of `name` before `line` (None if undefined there)"""
        cur = None
        for l, n, params, body in self.defines:
            if l >= line:
                break
            if n == name:
                cur = None if body is None or params is not None else body
        return cur


# ------------------------------------------------------------------ tokenizer
_TOK = re.compile(r'''
    (?P<ws>\s+)
  | (?P<id>[A-Za-z_]\w*)
  | (?P<num>\.?[0-9](?:[eEpP][+-]|[\w.])*)
  | (?P<str>"(?:\\.|[^"\\\n])*")
  | (?P<chr>'(?:\\.|[^'\\\n])*')
  | (?P<op>\.\.\.|<<=|>>=|->|\+\+|--|<<|>>|<=|>=|==|!=|&&|\|\||[-+*/%&|^]=|[-+*/%&|^~!<>=?:;,.()\[\]{}\#\\@$`])
''', re.X)


class Tok:
    __slots__ = ('k', 't', 'line')

    def __init__(self, k, t, line):
        self.k, self.t, self.line = k, t, line

    def __repr__(self):
        return '%s@%d' % (self.t, self.line)


def tokenize(text):
    toks = []
    pos, line, n = 0, 1, len(text)
    while pos < n:
        m = _TOK.match(text, pos)
        if not m:
            toks.append(Tok('bad', text[pos], line))
            pos += 1
            continue
        k = m.lastgroup
        t = m.group(0)
        if k != 'ws':
            toks.append(Tok(k, t, line))
        line += t.count('\n')
        pos = m.end()
    return toks


_OPEN = {'(': ')', '[': ']', '{': '}'}
_CLOSE = {')', ']', '}'}


def match_close(toks, i):
    """index of the token closing the bracket at toks[i] (len(toks) if unbalanced)"""
    depth = 0
    j = i
    while j < len(toks):
        t = toks[j].t
        if toks[j].k == 'op':
            if t in _OPEN:
                depth += 1
            elif t in _CLOSE:
                depth -= 1
                if depth == 0:
                    return j
        j += 1
    return len(toks)


def split_args(toks, lo, hi):
    """split toks[lo:hi] at top-level commas -> list of token lists"""
    args, cur, depth = [], [], 0
    for k in range(lo, hi):
        t = toks[k]
        if t.k == 'op' and t.t in _OPEN:
            depth += 1
        elif t.k == 'op' and t.t in _CLOSE:
            depth -= 1
        if t.k == 'op' and t.t == ',' and depth == 0:
            args.append(cur)
            cur = []
        else:
            cur.append(t)
    if cur or args:
        args.append(cur)
    return args


def text_of(toks):
    out = ''
    prev = None
    for t in toks:
        if prev is not None and (prev.k in ('id', 'num') and t.k in ('id', 'num')):
            out += ' '
        elif prev is not None and prev.t == ',':
            out += ' '
        out += t.t
        prev = t
    return out


C_KEYWORDS = {'if', 'else', 'while', 'for', 'do', 'switch', 'case', 'default', 'return', 'break', 'continue', 'goto', 'sizeof',
              'struct', 'union', 'enum', 'typedef', 'static', 'const', 'volatile', 'extern', 'register', 'void', 'int', 'char', 'long',
              'short', 'unsigned', 'signed', 'float', 'double', 'inline', '__inline', '__extension__', '__asm__', '__volatile__', '__typeof__'}


class Func:
    __slots__ = ('name', 'line', 'p0', 'p1', 'b0', 'b1', 'static')


def scan_top(toks):
    """top-level scan: returns (functions, structs) ; structs: (name, b0, b1) with toks[b0] = '{'"""
    funcs, structs = [], []
    i, n = 0, len(toks)
    stmt_start = 0
    while i < n:
        t = toks[i]
        if t.k == 'op' and t.t == ';':
            stmt_start = i + 1
            i += 1
        elif t.k == 'op' and t.t == '(':
            j = match_close(toks, i)
            # function definition:  name ( ... ) {      (name is not a keyword)
            if j + 1 < n and toks[j + 1].t == '{' and i > 0 and toks[i - 1].k == 'id' and toks[i - 1].t not in C_KEYWORDS:
                f = Func()
                f.name = toks[i - 1].t
                f.line = toks[i - 1].line
                f.p0, f.p1 = i, j
                f.b0 = j + 1
                f.b1 = match_close(toks, j + 1)
                f.static = any(toks[k].t in ('static', 'LDB_STATIC') for k in range(stmt_start, i))
                funcs.append(f)
                structs += _structs_in(toks, f.b0 + 1, f.b1)
                i = f.b1 + 1
                stmt_start = i
            else:
                i = j + 1
        elif t.k == 'op' and t.t == '{':
            j = match_close(toks, i)
            if i > 0 and (toks[i - 1].k == 'id') and i > 1 and toks[i - 2].t in ('struct', 'union'):
                structs.append((toks[i - 1].t, i, j))
                structs += _structs_in(toks, i + 1, j)
            elif i > 0 and toks[i - 1].t in ('struct', 'union'):
                structs.append(('<anonymous>', i, j))
            i = j + 1
        else:
            i += 1
    return funcs, structs


def _structs_in(toks, lo, hi):
    out = []
    i = lo
    while i < hi:
        if toks[i].t == '{' and i >= 2 and toks[i - 1].k == 'id' and toks[i - 2].t in ('struct', 'union'):
            j = match_close(toks, i)
            out.append((toks[i - 1].t, i, j))
        i += 1
    return out


def struct_members(toks, b0, b1):
    """member declarations of a struct body: list of (name, decl_tokens)"""
    out = []
    cur = []
    depth = 0
    for k in range(b0 + 1, b1):
        t = toks[k]
        if t.k == 'op' and t.t in _OPEN:
            depth += 1
        elif t.k == 'op' and t.t in _CLOSE:
            depth -= 1
        if t.k == 'op' and t.t == ';' and depth == 0:
            if cur:
                for nm in _declared_names(cur):
                    out.append((nm, cur))
            cur = []
        else:
            cur.append(t)
    return out


def _declared_names(decl):
    """names declared by one member declaration `T a, *b, c[4];` / `T (*f)(..);` / `ldb_atomic(T) x;`"""
    names = []
    # cut the declaration at top-level commas; the declared name of each piece is the last identifier outside brackets/parens-args
    pieces, cur, depth = [], [], 0
    for t in decl:
        if t.k == 'op' and t.t in _OPEN:
            depth += 1
        elif t.k == 'op' and t.t in _CLOSE:
            depth -= 1
        if t.k == 'op' and t.t == ',' and depth == 0:
            pieces.append(cur)
            cur = []
        else:
            cur.append(t)
    pieces.append(cur)
    for pi, p in enumerate(pieces):
        # function pointer  (*name)(...)
        nm = None
        for k in range(len(p) - 2):
            if p[k].t == '(' and p[k + 1].t == '*' and p[k + 2].k == 'id':
                nm = p[k + 2].t
                break
        if nm is None:
            depth = 0
            for t in p:
                if t.k == 'op' and t.t in ('[', '('):
                    depth += 1
                elif t.k == 'op' and t.t in (']', ')'):
                    depth -= 1
                elif t.k == 'id' and depth == 0 and t.t not in C_KEYWORDS:
                    nm = t.t
                elif t.k == 'op' and t.t == ':' and depth == 0:
                    break
        if nm:
            names.append(nm)
    return names


# ------------------------------------------------------------------ repo walking / configuration
def source_files(repo):
    out = []
    for top in ('src', 'include'):
        base = os.path.join(repo, top)
        for dp, dn, fn in os.walk(base):
            dn.sort()
            for f in sorted(fn):
                if f.endswith(('.c', '.h')):
                    out.append(os.path.relpath(os.path.join(dp, f), repo))
    return out


def _gcc_macros(repo, source_text=None, path=None):
    """macro names defined at the end of a translation unit of the pinned build (None: gcc not available / TU does not preprocess)"""
    cmd = ['gcc', '-dM', '-E'] + BUILD_DEFS + ['-I' + os.path.join(repo, 'include'), '-I' + os.path.join(repo, 'src')]
    try:
        if path is not None:
            r = subprocess.run(cmd + [path], stdout=subprocess.PIPE, stderr=subprocess.PIPE, text=True, timeout=60)
        else:
            r = subprocess.run(cmd + ['-x', 'c', '-'], input=source_text, stdout=subprocess.PIPE, stderr=subprocess.PIPE, text=True, timeout=60)
    except Exception:
        return None
    if r.returncode != 0:
        return None
    return set(re.findall(r'^#define (\w+)', r.stdout, re.M))


def _cfg_of(macros):
    cfg = {'*': False}          # gcc listed every defined macro of the translation unit: anything else is undefined
    for m in macros:
        cfg[m] = True
    for k in BOTH_WAYS:
        cfg[k] = None
    return cfg


def build_configs(repo, files):
    """per file: the macro set of the pinned build, asked from `gcc -dM -E` on the translation unit the file belongs to
    (the .c file itself; for a header the first .c file that includes it; otherwise a probe unit with util/atomic.h + util/port.h)"""
    probe = _gcc_macros(repo, source_text='#include "util/atomic.h"\n#include "util/port.h"\n')
    if probe is None:
        cfg = dict(DEFAULT_CONFIG)
        for k in BOTH_WAYS:
            cfg[k] = None
        return {rel: cfg for rel in files}, 'built-in default configuration (gcc not available)'
    import concurrent.futures as cf
    texts = {}
    for rel in files:
        try:
            texts[rel] = open(os.path.join(repo, rel), errors='replace').read()
        except OSError:
            texts[rel] = ''
    includer = {}
    for rel in files:
        if not rel.endswith('.c'):
            continue
        for m in re.finditer(r'#\s*include\s*"([^"]+)"', texts[rel]):
            for base in (os.path.dirname(rel), 'src', 'include'):
                cand = os.path.normpath(os.path.join(base, m.group(1)))
                if cand in texts:
                    includer.setdefault(cand, rel)
                    break
    # only the files the tables are made from need their exact translation unit; the rest (scanned for struct field names
    # only) use the probe unit
    needed = {d['file'] for d in DOMAINS} | {rel for rel in files if 'ldb_atomic' in texts[rel]}
    tus = sorted({(rel if rel.endswith('.c') else includer.get(rel)) for rel in needed} - {None})
    with cf.ThreadPoolExecutor(8) as ex:
        res = dict(zip(tus, ex.map(lambda rel: _gcc_macros(repo, path=os.path.join(repo, rel)), tus)))
    out = {}
    for rel in files:
        tu = (rel if rel.endswith('.c') else includer.get(rel)) if rel in needed else None
        macros = res.get(tu) if tu else None
        out[rel] = _cfg_of(macros if macros is not None else probe)
    return out, 'gcc -dM -E %s on the translation unit of each file (NDEBUG both ways)' % ' '.join(BUILD_DEFS)


def expanded_atomic_count(repo, rel):
    """cross-check: number of __atomic_* builtins gcc's preprocessor produces from the lines of `rel` itself (None if not available)"""
    if not rel.endswith('.c'):
        return None
    try:
        r = subprocess.run(['gcc', '-E'] + [d for d in BUILD_DEFS if d[2:] not in BOTH_WAYS] + ['-I' + os.path.join(repo, 'include'), '-I' + os.path.join(repo, 'src'), os.path.join(repo, rel)],
                           stdout=subprocess.PIPE, stderr=subprocess.PIPE, text=True, timeout=120)
    except Exception:
        return None
    if r.returncode != 0:
        return None
    cnt = 0
    own = False
    me = os.path.join(repo, rel)
    for ln in r.stdout.split('\n'):
        m = re.match(r'#\s*\d+\s+"([^"]*)"', ln)
        if m:
            own = os.path.abspath(m.group(1)) == os.path.abspath(me)
            continue
        if own:
            cnt += len(re.findall(r'\b__atomic_(?:load_n|store_n|fetch_add|fetch_sub|exchange_n|compare_exchange_n)\b', ln))
    return cnt


# ------------------------------------------------------------------ T3: atomics
def implicit_orders(repo):
    """orders the GNU-atomics section of atomic.h gives to the macros that take no order argument"""
    txt = blank_comments(open(os.path.join(repo, 'src/util/atomic.h')).read())
    txt = re.sub(r'\\\n', ' ', txt)
    out = {}
    m = re.search(r'#\s*elif\s+defined\(LDB_GNUC_ATOMICS\)(.*?)#\s*elif\s+defined\(LDB_SYNC_ATOMICS\)', txt, re.S)
    sec = m.group(1) if m else ''
    m = re.search(r'#\s*define\s+ldb_atomic_exchange\(object,\s*desired\)\s+__atomic_exchange_n\(object,\s*desired,\s*(\d)\)', sec)
    out['exchange'] = ORDER_NUM.get(int(m.group(1))) if m else None
    m = re.search(r'__atomic_compare_exchange_n\(object,\s*&_exp,\s*desired,\s*0,\s*(\d),\s*(\d)\)', sec)
    out['compareExchange'] = ORDER_NUM.get(int(m.group(1))) if m and m.group(1) == m.group(2) else None
    m = re.search(r'#\s*define\s+ldb_atomic_init\(object,\s*desired\)\s+ldb_atomic_store\(object,\s*desired,\s*(ldb_order_\w+)\)', txt)
    m2 = re.search(r'#\s*define\s+ldb_atomic_init_ptr\(object,\s*desired\)\s+ldb_atomic_store_ptr\(object,\s*desired,\s*(ldb_order_\w+)\)', txt)
    out['init'] = ORDERS.get(m.group(1)) if m and m2 and m.group(1) == m2.group(1) else None
    return out


def enclosing(funcs, idx):
    for f in funcs:
        if f.b0 <= idx <= f.b1 or f.p0 <= idx <= f.p1:
            return f
    return None


def extract_atomics(repo, files, preps):
    rows, decls, wrapper_calls, notes, cross = [], [], [], [], []
    impl = implicit_orders(repo)
    for k, v in impl.items():
        if v is None:
            notes.append('atomic.h: implicit order of ldb_atomic_%s not recognised' % k)
    per_file_active = {}
    tops = {}
    for rel in files:
        if rel in ATOMIC_IMPL_FILES:
            continue
        P = preps[rel]
        toks = P.tokens
        funcs, structs = scan_top(toks)
        tops[rel] = (funcs, structs)
        n_active = 0
        covered = set()      # token indexes that are inside argument 0 of an atomic macro (legitimate uses of atomic objects)
        for i, t in enumerate(toks):
            if t.k != 'id' or not t.t.startswith('ldb_atomic'):
                continue
            f = enclosing(funcs, i)
            fn = f.name if f else '<toplevel>'
            if t.t in ('ldb_atomic', 'ldb_atomic_ptr'):
                # a declaration  ldb_atomic(T) name ...;   (or sizeof(ldb_atomic_ptr(T)) -- no declarator follows)
                if i + 1 < len(toks) and toks[i + 1].t == '(':
                    j = match_close(toks, i + 1)
                    ctype = text_of(toks[i + 2:j])
                    if j + 1 < len(toks) and toks[j + 1].k == 'id':
                        cont = fn
                        for sname, b0, b1 in structs:
                            if b0 < i < b1:
                                cont = 'struct ' + sname
                        if fn == '<toplevel>' or cont.startswith('struct'):
                            pass
                        decls.append((rel, cont, toks[j + 1].t, 'ptr' if t.t.endswith('_ptr') else 'int', ctype, t.line))
                else:
                    notes.append('%s:%d: `%s` not followed by `(`' % (rel, t.line, t.t))
                continue
            if t.t not in ATOMIC_MACROS:
                rows.append((rel, fn, t.t, 'unknown', 'unknown', t.line))
                notes.append('%s:%d: unknown atomic macro `%s`' % (rel, t.line, t.t))
                continue
            op, nargs, oidx = ATOMIC_MACROS[t.t]
            if not (i + 1 < len(toks) and toks[i + 1].t == '('):
                rows.append((rel, fn, t.t, op, 'unknown', t.line))
                notes.append('%s:%d: `%s` used without an argument list' % (rel, t.line, t.t))
                continue
            j = match_close(toks, i + 1)
            args = split_args(toks, i + 2, j)
            n_active += 1
            if j >= len(toks) or len(args) != nargs or not args[0]:
                rows.append((rel, fn, text_of(args[0]) if args and args[0] else t.t, op, 'unknown', t.line))
                notes.append('%s:%d: `%s` with %d arguments (expected %d)' % (rel, t.line, t.t, len(args), nargs))
                continue
            first = i + 2
            for k in range(first, first + len(args[0])):
                covered.add(k)
            if oidx is None:
                order = impl.get(op) or 'unknown'
            else:
                oa = args[oidx]
                order = ORDERS.get(oa[0].t, 'unknown') if len(oa) == 1 else 'unknown'
                if order == 'unknown':
                    notes.append('%s:%d: order argument `%s` of `%s` not recognised' % (rel, t.line, text_of(oa), t.t))
            rows.append((rel, fn, text_of(args[0]), op, order, t.line))
        # atomic macro names inside #define bodies of this file (never dropped: reported with function `#define NAME`)
        for l, name, params, body in P.defines:
            if body and re.search(r'\bldb_atomic_\w+\s*\(', body):
                for m in re.finditer(r'\b(ldb_atomic_\w+)\s*\(', body):
                    rows.append((rel, '#define ' + name, m.group(1), ATOMIC_MACROS.get(m.group(1), ('unknown',))[0], 'unknown', l))
                    notes.append('%s:%d: atomic macro inside `#define %s` -- not analysed' % (rel, l, name))
        per_file_active[rel] = (n_active, covered)
    # wrapper functions (functions that contain an atomic operation) and their call sites in the same file
    wrappers = {}
    for r in rows:
        wrappers.setdefault(r[0], set()).add(r[1])
    for rel, names in wrappers.items():
        funcs, _ = tops[rel]
        toks = preps[rel].tokens
        for i, t in enumerate(toks):
            if t.k == 'id' and t.t in names and i + 1 < len(toks) and toks[i + 1].t == '(':
                f = enclosing(funcs, i)
                if f and f.b0 <= i <= f.b1:
                    wrapper_calls.append((rel, f.name, t.t, t.line))
    # plain uses of objects declared atomic
    all_fields = {}       # field name -> set of (rel, struct, is_atomic)
    for rel in files:
        if rel in ATOMIC_IMPL_FILES:
            continue
        toks = preps[rel].tokens
        for sname, b0, b1 in tops[rel][1]:
            for nm, decl in struct_members(toks, b0, b1):
                is_at = any(d.t in ('ldb_atomic', 'ldb_atomic_ptr') for d in decl)
                all_fields.setdefault(nm, set()).add((rel, sname, is_at))
    atomic_fields = {}
    for rel, cont, name, kind, ctype, line in decls:
        if cont.startswith('struct '):
            atomic_fields.setdefault(name, set()).add(cont[7:])
    typedefs = {}         # struct tag -> set of typedef names
    for rel in files:
        for m in re.finditer(r'typedef\s+struct\s+(\w+)\s+(\w+)\s*;', preps[rel].text):
            typedefs.setdefault(m.group(1), set()).add(m.group(2))
        toks = preps[rel].tokens
        if rel in tops:
            for sname, b0, b1 in tops[rel][1]:
                if b1 + 1 < len(toks) and toks[b1 + 1].k == 'id' and b0 >= 3 and toks[b0 - 3].t == 'typedef':
                    typedefs.setdefault(sname, set()).add(toks[b1 + 1].t)
    for rel in files:
        if rel in ATOMIC_IMPL_FILES:
            continue
        toks = preps[rel].tokens
        funcs, structs = tops[rel]
        covered = per_file_active[rel][1]
        for fname, structs_of in atomic_fields.items():
            unique = all(is_at for (_, _, is_at) in all_fields.get(fname, ()))
            tnames = set()
            for s in structs_of:
                tnames |= typedefs.get(s, set())
                tnames.add(s)
            for i, t in enumerate(toks):
                if t.k != 'id' or t.t != fname or i == 0 or toks[i - 1].t not in ('->', '.'):
                    continue
                if i in covered:
                    continue
                f = enclosing(funcs, i)
                if f is None:
                    continue
                base = toks[i - 2] if i >= 2 else None
                typed = False
                if base is not None and base.k == 'id':
                    typed = _declared_with_type(toks, f, base.t, tnames)
                if unique or typed:
                    # sizeof(x->f) is not an access
                    rows.append((rel, f.name, text_of(toks[max(0, i - 2):i + 1]), 'plain', 'unknown', t.line))
        # local / file-scope atomic variables: any use outside an atomic macro's object argument
        for drel, cont, name, kind, ctype, line in decls:
            if drel != rel or cont.startswith('struct '):
                continue
            for i, t in enumerate(toks):
                if t.k == 'id' and t.t == name and i not in covered and t.line != line and (i == 0 or toks[i - 1].t not in ('->', '.')):
                    f = enclosing(funcs, i)
                    if f is not None and (cont == '<toplevel>' or f.name == cont):
                        rows.append((rel, f.name, name, 'plain', 'unknown', t.line))
    for rel in files:
        if rel in per_file_active and per_file_active[rel][0] > 0:
            c = expanded_atomic_count(repo, rel)
            if c is not None:
                cross.append((rel, per_file_active[rel][0], c))
    rows.sort(key=lambda r: (r[0], r[5], r[3]))
    return rows, decls, wrapper_calls, notes, cross


def _declared_with_type(toks, f, var, tnames):
    """is `var` declared in function f (parameters or body) with one of the struct's type names?"""
    for lo, hi in ((f.p0, f.p1), (f.b0, f.b1)):
        for k in range(lo, hi):
            t = toks[k]
            if t.k == 'id' and t.t in tnames:
                j = k + 1
                while j < hi and toks[j].t in ('*', 'const', 'volatile'):
                    j += 1
                if j < hi and toks[j].k == 'id' and toks[j].t == var:
                    return True
    return False


# ------------------------------------------------------------------ T4: lock discipline
# One domain = one struct whose fields are protected by a mutex stored in (or pointed to by) the struct.
#   marker: protected fields are those declared after the comment containing this text (None: every field after the mutex field)
# functions of other files whose (plain, non-atomic) reference counts are protected by db->mutex: "REQUIRES: mutex held"
REFCOUNT_CALLS = ('ldb_memtable_ref', 'ldb_memtable_unref', 'ldb_version_ref', 'ldb_version_unref')
DOMAINS = [
    dict(id='db', file='src/db_impl.c', struct='ldb_s', types=['ldb_t'], mutex='mutex', ptr=False, marker='protected by mutex',
         guarded_calls=REFCOUNT_CALLS),
    dict(id='iterstate', file='src/db_impl.c', struct='ldb_istate_s', types=['ldb_istate_t'], mutex='mu', ptr=True, marker='guarded by mu',
         guarded_calls=REFCOUNT_CALLS, guarded_calls_need_base=True),
    dict(id='lru_shard', file='src/util/cache.c', struct='lru_shard_s', types=['lru_shard_t'], mutex='mutex', ptr=False, marker='mutex protects the following state'),
    dict(id='lru', file='src/util/cache.c', struct='ldb_lru_s', types=['ldb_lru_t'], mutex='id_mutex', ptr=False, marker=None),
    dict(id='pool', file='src/util/thread_pool.c', struct='ldb_pool_s', types=['ldb_pool_t'], mutex='mutex', ptr=False, marker=None),
    # no mutex: every field is constant after construction -- only WRITES are reported (held = no)
    dict(id='tables', file='src/table_cache.c', struct='ldb_tables_s', types=['ldb_tables_t'], mutex=None, ptr=False, marker=None),
]
SYNC_TYPES = {'ldb_mutex_t', 'ldb_cond_t', 'ldb_atomic', 'ldb_atomic_ptr'}
ASSIGN_OPS = {'=', '+=', '-=', '*=', '/=', '%=', '&=', '|=', '^=', '<<=', '>>='}


def protected_fields(P, dom, notes):
    """fields of the domain's struct that the mutex protects, read off the struct definition and its marker comment"""
    toks = P.tokens
    _, structs = scan_top(toks)
    body = None
    for sname, b0, b1 in structs:
        if sname == dom['struct']:
            body = (b0, b1)
    if body is None:
        notes.append('%s: struct %s not found' % (dom['file'], dom['struct']))
        return None
    members = struct_members(toks, body[0], body[1])
    start_line = None
    if dom['mutex'] is None:
        start_line = 0
    elif dom['marker'] is not None:
        raw_lines = P.raw.split('\n')
        lo, hi = toks[body[0]].line, toks[body[1]].line
        for ln in range(lo, hi + 1):
            if dom['marker'].lower() in raw_lines[ln - 1].lower():
                start_line = ln
                break
        if start_line is None:
            notes.append('%s: marker comment "%s" not found in struct %s' % (dom['file'], dom['marker'], dom['struct']))
            return None
    else:
        for nm, decl in members:
            if nm == dom['mutex']:
                start_line = decl[0].line
        if start_line is None:
            notes.append('%s: mutex field %s not found in struct %s' % (dom['file'], dom['mutex'], dom['struct']))
            return None
    out = []
    has_mutex = dom['mutex'] is None
    for nm, decl in members:
        if nm == dom['mutex']:
            has_mutex = True
            continue
        if decl[0].line < start_line:
            continue
        if any(d.t in SYNC_TYPES for d in decl):
            continue
        out.append(nm)
    if not has_mutex:
        notes.append('%s: mutex field %s not found in struct %s' % (dom['file'], dom['mutex'], dom['struct']))
        return None
    return out


# ---- statement tree
class Node:
    __slots__ = ('kind', 'a', 'b', 'c', 'd', 'line')

    def __init__(self, kind, a=None, b=None, c=None, d=None, line=0):
        self.kind, self.a, self.b, self.c, self.d, self.line = kind, a, b, c, d, line


class ParseError(Exception):
    pass


def parse_block(toks, i, hi):
    """statements of toks[i:hi] -> list of Node"""
    out = []
    while i < hi:
        nd, i = parse_stmt(toks, i, hi)
        if nd is not None:
            out.append(nd)
    return out


def _paren(toks, i, hi):
    if i >= hi or toks[i].t != '(':
        raise ParseError('expected ( at line %d' % (toks[i].line if i < hi else -1))
    j = match_close(toks, i)
    if j >= hi:
        raise ParseError('unbalanced ( at line %d' % toks[i].line)
    return j


def parse_stmt(toks, i, hi):
    t = toks[i]
    if t.k == 'op' and t.t == ';':
        return None, i + 1
    if t.k == 'op' and t.t == '{':
        j = match_close(toks, i)
        if j >= hi + 0 and j >= len(toks):
            raise ParseError('unbalanced { at line %d' % t.line)
        return Node('block', parse_block(toks, i + 1, j), line=t.line), j + 1
    if t.k == 'id':
        if t.t == 'if':
            j = _paren(toks, i + 1, hi)
            then, k = parse_stmt(toks, j + 1, hi)
            els = None
            if k < hi and toks[k].t == 'else':
                els, k = parse_stmt(toks, k + 1, hi)
            return Node('if', toks[i + 2:j], then, els, line=t.line), k
        if t.t == 'while':
            j = _paren(toks, i + 1, hi)
            body, k = parse_stmt(toks, j + 1, hi)
            return Node('while', toks[i + 2:j], body, line=t.line), k
        if t.t == 'for':
            j = _paren(toks, i + 1, hi)
            parts, cur, depth = [], [], 0
            for x in toks[i + 2:j]:
                if x.k == 'op' and x.t in _OPEN:
                    depth += 1
                elif x.k == 'op' and x.t in _CLOSE:
                    depth -= 1
                if x.t == ';' and depth == 0:
                    parts.append(cur)
                    cur = []
                else:
                    cur.append(x)
            parts.append(cur)
            if len(parts) != 3:
                raise ParseError('for header at line %d' % t.line)
            body, k = parse_stmt(toks, j + 1, hi)
            return Node('for', parts[0], parts[1], parts[2], body, line=t.line), k
        if t.t == 'do':
            body, k = parse_stmt(toks, i + 1, hi)
            if k >= hi or toks[k].t != 'while':
                raise ParseError('do without while at line %d' % t.line)
            j = _paren(toks, k + 1, hi)
            k2 = j + 1
            if k2 < hi and toks[k2].t == ';':
                k2 += 1
            return Node('do', body, toks[k + 2:j], line=t.line), k2
        if t.t == 'switch':
            j = _paren(toks, i + 1, hi)
            body, k = parse_stmt(toks, j + 1, hi)
            return Node('switch', toks[i + 2:j], body, line=t.line), k
        if t.t in ('case', 'default'):
            k = i + 1
            depth = 0
            while k < hi and not (toks[k].t == ':' and depth == 0):
                if toks[k].t == '?':
                    depth += 1
                elif toks[k].t == ':' and depth > 0:
                    depth -= 1
                k += 1
            return Node('case', t.t == 'default', line=t.line), k + 1
        if t.t == 'return':
            k = _stmt_end(toks, i, hi)
            return Node('return', toks[i + 1:k], line=t.line), k + 1
        if t.t == 'break':
            return Node('break', line=t.line), _stmt_end(toks, i, hi) + 1
        if t.t == 'continue':
            return Node('continue', line=t.line), _stmt_end(toks, i, hi) + 1
        if t.t == 'goto':
            k = _stmt_end(toks, i, hi)
            return Node('goto', toks[i + 1].t if i + 1 < k else '?', line=t.line), k + 1
        if t.t == 'else':
            raise ParseError('stray else at line %d' % t.line)
        if i + 1 < hi and toks[i + 1].t == ':' and t.t not in C_KEYWORDS and not (i + 2 < hi and toks[i + 2].t == ':'):
            return Node('label', t.t, line=t.line), i + 2
    k = _stmt_end(toks, i, hi)
    return Node('expr', toks[i:k], line=t.line), k + 1


def _stmt_end(toks, i, hi):
    depth = 0
    k = i
    while k < hi:
        x = toks[k]
        if x.k == 'op' and x.t in _OPEN:
            depth += 1
        elif x.k == 'op' and x.t in _CLOSE:
            depth -= 1
            if depth < 0:
                raise ParseError('unbalanced bracket at line %d' % x.line)
        elif x.k == 'op' and x.t == ';' and depth == 0:
            return k
        k += 1
    raise ParseError('statement without ; starting at line %d' % toks[i].line)


# ---- abstract interpretation of one function for one domain
def join(a, b):
    """lock state after a control-flow merge: None = unreachable"""
    if a is None:
        return b
    if b is None:
        return a
    return a if a == b else 'unknown'


class FuncAnalysis:
    def __init__(self, rel, P, f, dom, fields, infile_funcs):
        self.rel, self.P, self.f, self.dom, self.fields = rel, P, f, dom, fields
        self.infile = infile_funcs
        toks = P.tokens
        self.bases = self._bases(toks)
        self.parse_error = None
        try:
            body = self._expand(toks[f.b0 + 1:f.b1])
            self.tree = parse_block(body, 0, len(body))
            self.body = body
        except ParseError as e:
            self.parse_error = str(e)
            self.tree = []
            self.body = self._expand(toks[f.b0 + 1:f.b1])
        self.asserted = self._asserted()
        self.callees = set()
        self.addr_taken = set()
        self.has_lock_op = False
        self._prescan()

    def _bases(self, toks):
        f, dom = self.f, self.dom
        tn = set(dom['types']) | {dom['struct']}
        out = set()
        for lo, hi in ((f.p0, f.p1), (f.b0, f.b1)):
            for k in range(lo, hi):
                t = toks[k]
                if t.k == 'id' and t.t in tn:
                    j = k + 1
                    stars = 0
                    while j < hi and toks[j].t in ('*', 'const', 'volatile'):
                        stars += toks[j].t == '*'
                        j += 1
                    if j < hi and toks[j].k == 'id' and stars == 1 and toks[j].t not in C_KEYWORDS and (j + 1 >= hi or toks[j + 1].t != '('):
                        out.add(toks[j].t)
        return out

    def _expand(self, body):
        """substitute the file's object-like macros whose replacement mentions a member access (e.g. L0_FILES)"""
        out = []
        for t in body:
            if t.k == 'id':
                m = self.P.macro_at(t.t, t.line)
                if m is not None and '->' in m:
                    for x in tokenize(m):
                        out.append(Tok(x.k, x.t, t.line))
                    continue
            out.append(t)
        return out

    def _is_mutex_arg(self, arg):
        dom = self.dom
        if dom['mutex'] is None:
            return False
        ts = [a.t for a in arg]
        if dom['ptr']:
            return len(ts) == 3 and ts[0] in self.bases and ts[1] == '->' and ts[2] == dom['mutex']
        return len(ts) == 4 and ts[0] == '&' and ts[1] in self.bases and ts[2] == '->' and ts[3] == dom['mutex']

    def _asserted(self):
        """the function's first statement that is not a declaration is ldb_mutex_assert_held(<the mutex>)"""
        for nd in self.tree:
            if nd.kind != 'expr':
                return False
            ts = nd.a
            if ts and ts[0].t == 'ldb_mutex_assert_held' and len(ts) > 2:
                j = match_close(ts, 1)
                return self._is_mutex_arg(ts[2:j])
            if self._events(ts, dry=True):
                return False
        return False

    def _prescan(self):
        body = self.body
        for i, t in enumerate(body):
            if t.k == 'id' and t.t in self.infile:
                if i + 1 < len(body) and body[i + 1].t == '(':
                    self.callees.add(t.t)
                else:
                    self.addr_taken.add(t.t)
            if t.k == 'id' and t.t == 'ldb_mutex_lock' and i + 1 < len(body) and body[i + 1].t == '(':
                j = match_close(body, i + 1)
                if self._is_mutex_arg(body[i + 2:j]):
                    self.has_lock_op = True

    # events of an expression, in textual order
    def _events(self, ts, dry=False):
        ev = []
        i, n = 0, len(ts)
        dom = self.dom
        while i < n:
            t = ts[i]
            if t.k == 'id' and i + 1 < n and ts[i + 1].t == '(' and t.t not in C_KEYWORDS:
                j = match_close(ts, i + 1)
                args = split_args(ts, i + 2, j)
                if t.t in ('ldb_mutex_lock', 'ldb_mutex_unlock', 'ldb_mutex_assert_held') and len(args) == 1 and self._is_mutex_arg(args[0]):
                    ev.append(({'ldb_mutex_lock': 'lock', 'ldb_mutex_unlock': 'unlock', 'ldb_mutex_assert_held': 'assert'}[t.t], t.line))
                    i = j + 1
                    continue
                if t.t == 'ldb_cond_wait' and len(args) == 2 and self._is_mutex_arg(args[1]):
                    # the condition variable itself is a synchronisation object; wait needs the mutex and returns with it held
                    ev.append(('wait', t.line))
                    i = j + 1
                    continue
                if t.t in ('ldb_mutex_init', 'ldb_mutex_destroy') and len(args) == 1 and self._is_mutex_arg(args[0]):
                    i = j + 1
                    continue
                if t.t in self.infile:
                    # arguments are evaluated before the call
                    for a in args:
                        ev += self._events(a, dry)
                    ev.append(('call', t.t, t.line))
                    i = j + 1
                    continue
                if t.t in dom.get('guarded_calls', ()) and (not dom.get('guarded_calls_need_base') or
                                                            any(x.k == 'id' and x.t in self.bases for a in args for x in a)):
                    # reference counts of memtables / versions live in other structs but are protected by this mutex:
                    # the call itself is reported as a write of the pseudo field <refcount>
                    ev.append(('access', '<refcount>', 'write', t.line))
                passes = [a for a in args if self._is_mutex_arg(a)]
                if passes:
                    for a in args:
                        if not self._is_mutex_arg(a):
                            ev += self._events(a, dry)
                    ev.append(('extcall', t.t, t.line))
                    i = j + 1
                    continue
                i += 1
                continue
            if t.k == 'id' and t.t in self.bases and i + 2 < n and ts[i + 1].t == '->' and ts[i + 2].k == 'id' and (i == 0 or ts[i - 1].t not in ('->', '.')):
                fld = ts[i + 2].t
                if fld in self.fields:
                    # follow the postfix chain  [..] .x ->x
                    k = i + 3
                    while k < n:
                        if ts[k].t == '[':
                            k = match_close(ts, k) + 1
                        elif ts[k].t in ('.', '->') and k + 1 < n and ts[k + 1].k == 'id':
                            k += 2
                        else:
                            break
                    write = False
                    if k < n and (ts[k].t in ASSIGN_OPS or ts[k].t in ('++', '--')):
                        write = True
                    if i > 0 and ts[i - 1].t in ('++', '--'):
                        write = True
                    if i > 0 and ts[i - 1].t == '&' and (i == 1 or ts[i - 2].k == 'op' and ts[i - 2].t not in (')', ']')):
                        write = True           # address taken: the callee may write through it
                    ev.append(('access', fld, 'write' if write else 'read', t.line))
                    if ts[i + 3].t == '[' if i + 3 < n else False:
                        pass
                elif self.dom['mutex'] is not None and fld == self.dom['mutex'] and not dry:
                    pass
                i += 3
                continue
            i += 1
        return ev


BORROWED_FIELDS = {'current': 'ldb_version_ref', 'mem': 'ldb_memtable_ref', 'imm': 'ldb_memtable_ref'}
BORROW_STATS = {'locals_tracked': set(), 'uses_judged': set(), 'uses_after_ref': set()}


def borrowed_rows(a, rel, fn, entry_state, linestates):
    """Reference-counted objects reached through protected pointer fields (the current version, the memtables) may be freed by
    another thread as soon as the mutex is released.  A local variable loaded from such a field (`v = db->versions->current`)
    may therefore be used while the mutex is not held only after a reference was taken (`ldb_version_ref(v)` /
    `ldb_memtable_ref(v)`).  Every use of such a local in a state other than `held` without a preceding reference is reported
    as a row of the pseudo field `<borrowed:FIELD>`; the lock-table obligations then reject it like any unprotected access.
    The lock state of a use is that after the last lock event / access / call that precedes it in the text of the function."""
    if a.dom.get('mutex') is None or a.parse_error:
        return []
    toks = a.body
    n = len(toks)
    linestates = sorted(linestates)

    def state_at(line):
        st = entry_state
        for (l, s_) in linestates:
            if l <= line:
                st = s_
            else:
                break
        return st

    out = []
    tracked = {}      # var -> [field, refd]
    i = 0
    while i < n:
        t = toks[i]
        if t.k == 'id' and i + 1 < n and toks[i + 1].t == '=' and (i == 0 or toks[i - 1].t not in ('->', '.')):
            # assignment to a plain identifier: find the end of the statement
            j = i + 2
            while j < n and toks[j].t not in (';', ','):
                j += 1
            rhs = toks[i + 2:j]
            fld = None
            if len(rhs) >= 3 and rhs[0].k == 'id' and rhs[0].t in a.bases and all((x.k == 'id') if (q % 2 == 0) else (x.t == '->') for q, x in enumerate(rhs)) \
                    and len(rhs) % 2 == 1 and rhs[-1].t in BORROWED_FIELDS:
                fld = rhs[-1].t
            if fld is not None:
                tracked[t.t] = [fld, False]
                BORROW_STATS['locals_tracked'].add((rel, fn.split('<-')[0], t.t, t.line))
            elif t.t in tracked:
                del tracked[t.t]
            i = j
            continue
        if t.k == 'id' and t.t in ('ldb_version_ref', 'ldb_memtable_ref') and i + 3 < n and toks[i + 1].t == '(' and toks[i + 2].k == 'id' and toks[i + 3].t == ')':
            v = toks[i + 2].t
            if v in tracked and BORROWED_FIELDS[tracked[v][0]] == t.t:
                tracked[v][1] = True
            i += 4
            continue
        if t.k == 'id' and t.t in tracked and (i == 0 or toks[i - 1].t not in ('->', '.')):
            fld, refd = tracked[t.t]
            BORROW_STATS['uses_after_ref' if refd else 'uses_judged'].add((rel, fn.split('<-')[0], t.t, t.line))
            if not refd:
                st = state_at(t.line)
                if st != 'yes':
                    row = (rel, fn, '<borrowed:%s>' % fld, 'read', st, t.line)
                    if row not in out:
                        out.append(row)
        i += 1
    return out


class DomainAnalysis:
    """interprocedural driver for one (file, domain): entry states, exit summaries, rows"""
    def __init__(self, rel, P, dom, notes):
        self.rel, self.P, self.dom, self.notes = rel, P, dom, notes
        self.fields = protected_fields(P, dom, notes)
        self.rows, self.calls, self.entries = [], [], []
        self.unknown_rows = 0
        if self.fields is None:
            self.rows.append((rel, '<translator>', '<protected-fields-of-%s>' % dom['struct'], 'read', 'unknown', 0))
            self.fields = []
            return
        funcs, _ = scan_top(P.tokens)
        names = {f.name for f in funcs}
        self.fa = {}
        for f in funcs:
            a = FuncAnalysis(rel, P, f, dom, set(self.fields), names)
            self.fa[f.name] = a
        self.funcs = funcs
        self.run()

    def run(self):
        fa = self.fa
        dom = self.dom
        relevant = {n for n, a in fa.items() if a.bases}
        escapes = set()
        for a in fa.values():
            escapes |= a.addr_taken
        # entry[f] in yes/no/unknown ; mode in asserted/inferred/unlocked/mixed
        # clone[f]: callers that reach f WITHOUT the lock although its other callers hold it (f itself never locks): f is then
        #           analysed a second time in state `no` and those rows carry the function name "f<-caller1,caller2"
        entry, mode, clone = {}, {}, {}
        self.clone = clone
        for n in relevant:
            if fa[n].asserted:
                entry[n], mode[n] = 'yes', 'asserted'
            else:
                entry[n], mode[n] = 'no', 'unlocked'
        exit_ = dict(entry)
        order = sorted(relevant, key=lambda x: fa[x].f.line)
        for _round in range(60):
            self.rows, self.calls = [], []
            site = {}        # callee -> list of (state at the call site, caller label)
            new_exit = {}
            for n in order:
                st, sites = self.analyse(fa[n], entry[n], exit_, entry, mode, n)
                new_exit[n] = st
                for callee, s in sites:
                    site.setdefault(callee, []).append((s, n))
                if clone.get(n):
                    label = '%s<-%s' % (n, ','.join(clone[n]))
                    _, sites = self.analyse(fa[n], 'no', exit_, entry, mode, label)
                    for callee, s in sites:
                        site.setdefault(callee, []).append((s, label))
            changed = False
            for n in order:
                if fa[n].asserted:
                    continue
                ss = site.get(n, [])
                f = fa[n].f
                external = (not f.static) or (n in escapes)
                cl = []
                if not ss:
                    e, m = 'no', 'unlocked'
                elif all(s == 'yes' for s, _ in ss) and not external:
                    e, m = 'yes', 'inferred'
                elif all(s == 'no' for s, _ in ss):
                    e, m = 'no', 'unlocked'
                elif dom['mutex'] is None:
                    e, m = 'no', 'unlocked'
                elif all(s in ('yes', 'no') for s, _ in ss) and not external and not fa[n].has_lock_op:
                    e, m = 'yes', 'inferred'
                    cl = sorted({c.split('<-')[0] for s, c in ss if s == 'no'})
                else:
                    e, m = 'unknown', 'mixed'
                if (e, m) != (entry[n], mode[n]) or cl != clone.get(n, []):
                    entry[n], mode[n], clone[n] = e, m, cl
                    exit_[n] = e          # assume balanced until the next round has analysed it in the new state
                    changed = True
                else:
                    x = new_exit[n] if new_exit[n] is not None else entry[n]
                    if exit_.get(n) != x:
                        exit_[n] = x
                        changed = True
            for n in order:
                if fa[n].asserted:
                    x = new_exit[n] if new_exit[n] is not None else entry[n]
                    if exit_.get(n) != x:
                        exit_[n] = x
                        changed = True
            if not changed:
                break
        else:
            self.notes.append('%s/%s: entry-state iteration did not converge' % (self.rel, dom['id']))
            self.rows.append((self.rel, '<translator>', '<fixpoint>', 'read', 'unknown', 0))
        touched = {r[1].split('<-')[0] for r in self.rows} | {c[1].split('<-')[0] for c in self.calls} | {c[2] for c in self.calls}
        for n in order:
            if n in touched or fa[n].has_lock_op:
                self.entries.append((self.rel, dom['id'], n, mode[n], exit_[n] if exit_[n] else 'unknown'))
        self.unknown_rows = sum(1 for r in self.rows if r[4] == 'unknown') + sum(1 for c in self.calls if c[4] == 'unknown')

    def analyse(self, a, entry_state, exit_, entry, mode, label):
        """walk the statement tree of one function; returns (exit state, [(callee, state at call)])"""
        rel, dom = self.rel, self.dom
        fn = label
        sites = []
        rows, calls = self.rows, self.calls
        nomutex = dom['mutex'] is None
        if a.parse_error:
            self.notes.append('%s: %s: statement parser failed (%s) -- every access reported as unknown' % (rel, fn, a.parse_error))
            for e in a._events(a.body):
                if e[0] == 'access':
                    rows.append((rel, fn, e[1], e[2], 'unknown', e[3]))
                elif e[0] == 'call':
                    sites.append((e[1], 'unknown'))
            return 'unknown', sites

        labels = {}           # label -> joined state of the gotos seen so far (previous pass)
        result = {}

        linestates = []       # (line, lock state after the event), emit pass only: used by the borrowed-pointer rule below

        def do_events(ts, st, emit):
            for e in a._events(ts):
                st = do_event(e, st, emit)
                if emit and isinstance(e[-1], int):
                    linestates.append((e[-1], st if st is not None else 'unknown'))
            return st

        def do_event(e, st, emit):
            if True:
                k = e[0]
                if st is None:
                    # unreachable code: keep the rows, judged in state unknown
                    cur = 'unknown'
                else:
                    cur = st
                if k == 'lock':
                    if cur == 'yes' and emit:
                        rows.append((rel, fn, '<lock-while-held>', 'write', 'no', e[1]))
                    st = 'yes'
                elif k == 'unlock':
                    if cur != 'yes' and emit:
                        rows.append((rel, fn, '<unlock-not-held>', 'write', cur if cur != 'yes' else 'no', e[1]))
                    st = 'no'
                elif k == 'wait':
                    if emit:
                        rows.append((rel, fn, '<cond-wait>', 'write', cur, e[1]))
                    st = cur
                elif k == 'assert':
                    if emit:
                        rows.append((rel, fn, '<assert-held>', 'read', cur, e[1]))
                    st = cur
                elif k == 'access':
                    if emit and not (nomutex and e[2] == 'read'):
                        rows.append((rel, fn, e[1], e[2], 'no' if nomutex else cur, e[3]))
                elif k == 'call':
                    callee = e[1]
                    if emit:
                        sites.append((callee, cur))
                    if callee in entry and not nomutex:
                        if entry[callee] == 'yes':
                            # (an unheld caller of a context-cloned callee is accounted for by the clone's own rows)
                            if emit and not (cur == 'no' and fn.split('<-')[0] in self.clone.get(callee, [])):
                                calls.append((rel, fn, callee, 'held', cur, e[2], mode[callee]))
                        elif self.fa[callee].has_lock_op and entry[callee] == 'no':
                            if emit:
                                calls.append((rel, fn, callee, 'notHeld', cur, e[2], mode[callee]))
                        ex = exit_.get(callee)
                        en = entry[callee]
                        if ex is not None and ex != en:
                            st = ex if cur == en else 'unknown'
                        elif en == 'unknown' and (self.fa[callee].has_lock_op):
                            st = 'unknown'
                elif k == 'extcall':
                    # the mutex itself is handed to a function of another file (ldb_versions_apply unlocks/relocks it;
                    # ldb_istate_create stores the pointer): reported, the policy decides which callees need it held
                    if emit:
                        calls.append((rel, fn, e[1], 'passesMutex', cur, e[2], 'external'))
            return st

        def run_list(stmts, st, ctx, emit):
            for s in stmts:
                st = run(s, st, ctx, emit)
            return st

        def run(nd, st, ctx, emit):
            k = nd.kind
            if k == 'expr':
                return do_events(nd.a, st, emit)
            if k == 'block':
                return run_list(nd.a, st, ctx, emit)
            if k == 'if':
                st = do_events(nd.a, st, emit)
                t = run(nd.b, st, ctx, emit) if nd.b is not None else st
                e = run(nd.c, st, ctx, emit) if nd.c is not None else st
                return join(t, e)
            if k in ('while', 'for', 'do'):
                if k == 'for':
                    st = do_events(nd.a, st, emit)
                    cond, step, body = nd.b, nd.c, nd.d
                elif k == 'while':
                    cond, step, body = nd.a, [], nd.b
                else:
                    cond, step, body = nd.b, [], nd.a
                infinite = (k in ('for', 'while') and not cond) or (k in ('while', 'do') and len(cond) == 1 and cond[0].t == '1')

                def one_pass(head, em, returns):
                    c2 = {'breaks': [], 'conts': [], 'returns': returns}
                    s = head
                    after_cond = head
                    if k != 'do':
                        s = do_events(cond, s, em)
                        after_cond = s
                    b = run(body, s, c2, em) if body is not None else s
                    back = b
                    for x in c2['conts']:
                        back = join(back, x)
                    if k == 'do' and back is not None:
                        back = do_events(cond, back, em)
                        after_cond = back
                    if k == 'for' and back is not None:
                        back = do_events(step, back, em)
                    out = None if infinite else after_cond
                    for x in c2['breaks']:
                        out = join(out, x)
                    return back, out
                # the state at the loop head must equal the state at every back edge; otherwise the loop is analysed in state unknown
                back, _ = one_pass(st, False, [])
                head = st if (back is None or st is None or back == st) else 'unknown'
                _, out = one_pass(head, emit, ctx['returns'])
                return out
            if k == 'switch':
                st = do_events(nd.a, st, emit)
                c2 = {'breaks': [], 'conts': ctx['conts'], 'returns': ctx['returns'], 'has_default': False}
                body = nd.b.a if nd.b is not None and nd.b.kind == 'block' else ([nd.b] if nd.b is not None else [])
                cur = None
                for s in body:
                    if s.kind == 'case':
                        cur = join(cur, st)
                        if s.a:
                            c2['has_default'] = True
                        continue
                    cur = run(s, cur, c2, emit)
                out = cur
                for x in c2['breaks']:
                    out = join(out, x)
                if not c2['has_default']:
                    out = join(out, st)
                return out
            if k == 'case':
                return st
            if k == 'return':
                st = do_events(nd.a, st, emit)
                ctx['returns'].append(st)
                return None
            if k == 'break':
                ctx['breaks'].append(st)
                return None
            if k == 'continue':
                ctx['conts'].append(st)
                return None
            if k == 'goto':
                result.setdefault('gotos', {}).setdefault(nd.a, []).append(st)
                return None
            if k == 'label':
                return join(st, labels.get(nd.a))
            return st

        # labels: two passes -- the first (silent) collects the states at the gotos, the second uses them
        ctx = {'breaks': [], 'conts': [], 'returns': []}
        has_goto = any(t.t == 'goto' for t in a.body)
        if has_goto:
            saved_sites = list(sites)
            run_list(a.tree, entry_state, {'breaks': [], 'conts': [], 'returns': []}, False)
            for lab, sts in result.get('gotos', {}).items():
                j = None
                for s in sts:
                    j = join(j, s)
                labels[lab] = j
            result['gotos'] = {}
            del sites[:]
            sites.extend(saved_sites)
        end = run_list(a.tree, entry_state, ctx, True)
        for row in borrowed_rows(a, rel, fn, entry_state, linestates):
            if row not in rows:
                rows.append(row)
        ex = end
        for x in ctx['returns']:
            ex = join(ex, x)
        if ctx['breaks'] or ctx['conts']:
            self.notes.append('%s: %s: break/continue outside a loop' % (rel, fn))
            ex = 'unknown'
        return ex, sites


def extract_locks(repo, preps):
    rows, calls, entries, prot, notes = [], [], [], [], []
    unknown = 0
    for dom in DOMAINS:
        rel = dom['file']
        if rel not in preps:
            notes.append('%s: file not found' % rel)
            rows.append((rel, '<translator>', '<file>', 'read', 'unknown', 0))
            continue
        da = DomainAnalysis(rel, preps[rel], dom, notes)
        rows += da.rows
        calls += da.calls
        entries += da.entries
        prot.append((rel, dom['struct'], dom['mutex'] or '<none>', list(da.fields)))
        unknown += da.unknown_rows
    seen, uniq = set(), []
    for n in notes:
        if n not in seen:
            seen.add(n)
            uniq.append(n)
    return rows, calls, entries, prot, uniq, unknown


# ------------------------------------------------------------------ Lean emission
def lstr(s):
    return '"' + s.replace('\\', '\\\\').replace('"', '\\"').replace('\n', ' ') + '"'


def _write_if_changed(path, content):
    try:
        if open(path).read() == content:
            return False
    except OSError:
        pass
    os.makedirs(os.path.dirname(path), exist_ok=True)
    tmp = path + '.tmp%d' % os.getpid()
    open(tmp, 'w').write(content)
    os.replace(tmp, path)
    return True


def _list(name, ty, items, per_line=1):
    s = ['def %s : List %s := [' % (name, ty)]
    for i, it in enumerate(items):
        s.append('  ' + it + (',' if i + 1 < len(items) else ''))
    s.append(']')
    s.append('')
    return s


def extract_all(repo):
    files = source_files(repo)
    cfgs, cfg_src = build_configs(repo, files)
    preps = {}
    for rel in files:
        try:
            raw = open(os.path.join(repo, rel), errors='replace').read()
        except OSError:
            continue
        preps[rel] = Prepared(rel, raw, cfgs[rel])
    atomics = extract_atomics(repo, [f for f in files if f in preps], preps)
    locks = extract_locks(repo, preps)
    cond_notes = []
    interesting = {d['file'] for d in DOMAINS} | {r[0] for r in atomics[0]}
    for rel in sorted(interesting):
        if rel in preps:
            cond_notes += preps[rel].notes
    return cfg_src, atomics, locks, cond_notes


def generate(repo, outdir):
    cfg_src, (arows, decls, wcalls, anotes, cross), (lrows, calls, entries, prot, lnotes, unknown), cond_notes = extract_all(repo)
    hdr = '/- GENERATED by tools/gen_conc.py from the source tree of chjj/lcdb -- do not edit; regenerated on every check -/'
    s = [hdr, 'import LcdbModel.Spec.ConcTypes', 'namespace Lcdb.Generated', 'open Lcdb.Conc', '']
    s += ['/-- T3: one row per atomic operation (file, function, object expression, op, order, line) -/']
    s += _list('atomics', 'AtomicRow', ['⟨%s, %s, %s, .%s, .%s, %d⟩' % (lstr(r[0]), lstr(r[1]), lstr(r[2]), r[3], r[4], r[5]) for r in arows])
    s += ['/-- call sites (same file) of the functions that contain an atomic operation: (file, caller, callee, line) -/']
    s += _list('atomicWrapperCalls', 'WrapperCall', ['⟨%s, %s, %s, %d⟩' % (lstr(r[0]), lstr(r[1]), lstr(r[2]), r[3]) for r in wcalls])
    s += ['end Lcdb.Generated']
    _write_if_changed(os.path.join(outdir, 'Atomics.lean'), '\n'.join(s) + '\n')

    s = [hdr, 'import LcdbModel.Spec.ConcTypes', 'namespace Lcdb.Generated', 'open Lcdb.Conc', '']
    s += ['/-- every object declared `ldb_atomic(T)` / `ldb_atomic_ptr(T)`: (file, container, name, kind, C type, line) -/']
    s += _list('atomicDecls', 'AtomicDecl', ['⟨%s, %s, %s, %s, %s, %d⟩' % (lstr(r[0]), lstr(r[1]), lstr(r[2]), lstr(r[3]), lstr(r[4]), r[5]) for r in decls])
    s += ['/-- configuration the conditional groups were resolved against -/', 'def concConfig : String := %s' % lstr(cfg_src), '']
    s += ['/-- cross-check: (file, atomic macro call sites found by the tokenizer, __atomic_* builtins in gcc -E output of the same lines) -/']
    s += _list('atomicsCrossCheck', '(String × Nat × Nat)', ['(%s, %d, %d)' % (lstr(r[0]), r[1], r[2]) for r in cross])
    s += _list('atomicsNotes', 'String', [lstr(n) for n in anotes])
    s += _list('conditionalNotes', 'String', [lstr(n) for n in cond_notes])
    s += ['end Lcdb.Generated']
    _write_if_changed(os.path.join(outdir, 'AtomicsMeta.lean'), '\n'.join(s) + '\n')

    s = [hdr, 'import LcdbModel.Spec.ConcTypes', 'namespace Lcdb.Generated', 'open Lcdb.Conc', '']
    s += ['/-- T4: one row per access to mutex-protected state (file, function, field, access, held, line) -/']
    s += _list('lockTable', 'LockRow', ['⟨%s, %s, %s, .%s, .%s, %d⟩' % (lstr(r[0]), lstr(r[1]), lstr(r[2]), r[3], r[4], r[5]) for r in lrows])
    s += ['/-- call sites whose callee has a lock requirement: (file, caller, callee, expectation, held at the call, line, how the callee\'s entry state is known) -/']
    s += _list('callTable', 'CallRow', ['⟨%s, %s, %s, .%s, .%s, %d, .%s⟩' % (lstr(r[0]), lstr(r[1]), lstr(r[2]), r[3], r[4], r[5], r[6]) for r in calls])
    s += ['/-- entry state of every function that touches protected state: (file, domain, function, mode, state at exit) -/']
    s += _list('lockEntry', 'EntryRow', ['⟨%s, %s, %s, .%s, .%s⟩' % (lstr(r[0]), lstr(r[1]), lstr(r[2]), r[3], {'yes': 'yes', 'no': 'no'}.get(r[4], 'unknown')) for r in entries])
    s += ['/-- (file, struct, mutex field, protected fields) as read off the struct definitions -/']
    s += _list('protectedFields', '(String × String × String × List String)',
               ['(%s, %s, %s, [%s])' % (lstr(r[0]), lstr(r[1]), lstr(r[2]), ', '.join(lstr(x) for x in r[3])) for r in prot])
    s += _list('lockNotes', 'String', [lstr(n) for n in lnotes])
    s += ['end Lcdb.Generated']
    _write_if_changed(os.path.join(outdir, 'LockTable.lean'), '\n'.join(s) + '\n')
    return {'atomics': len(arows), 'decls': len(decls), 'lock_rows': len(lrows), 'call_rows': len(calls), 'unknown': unknown,
            'lock_not_held': sum(1 for r in lrows if r[4] != 'yes'), 'notes': anotes + lnotes + cond_notes}


if __name__ == '__main__':
    repo = sys.argv[1] if len(sys.argv) > 1 else os.environ.get('VERIF_REPO', '/repo')
    out = sys.argv[2] if len(sys.argv) > 2 else os.path.join(os.path.dirname(os.path.dirname(os.path.abspath(__file__))), 'lean', 'LcdbModel', 'Generated')
    st = generate(repo, out)
    for k in ('atomics', 'decls', 'lock_rows', 'lock_not_held', 'call_rows', 'unknown'):
        print(k, st[k])
    for n in st['notes']:
        print('note:', n)
