#!/usr/bin/env python3
"""tools/seed_store.py <seeded-id> <src dir> <property> <patch> <run.sh> <demo.c> <what> <needs> [also,...]
Stores a seeded change that tools/seed_verify.sh has confirmed."""
import json, os, shutil, sys
ROOT = os.path.dirname(os.path.dirname(os.path.abspath(__file__)))
sid, src, prop, patch, run, demo, what, needs = sys.argv[1:9]
also = sys.argv[9].split(',') if len(sys.argv) > 9 and sys.argv[9] else []
d = os.path.join(ROOT, 'seeded', sid)
os.makedirs(d, exist_ok=True)
shutil.copy(os.path.join(src, patch), d + '/patch.diff')
shutil.copy(os.path.join(src, demo), d + '/demo.c')
s = open(os.path.join(src, run)).read()
if demo != 'demo.c':
    s = s.replace(demo, 'demo.c').replace(demo[:-2], 'demo')
open(d + '/run.sh', 'w').write(s)
if os.path.exists(os.path.join(src, 'NOTES.md')):
    shutil.copy(os.path.join(src, 'NOTES.md'), d + '/NOTES.md')
json.dump({'property': prop, 'what': what, 'needs': needs, 'also_breaks': also,
           'origin': 'independent sub-agent given only the property text and a scratch worktree', 'patch': 'patch.diff',
           'confirmed': 'tools/seed_verify.sh in a fresh worktree of /repo: demo passes on the unchanged tree, patch applies, 30/30 existing tests pass with it, demo fails with it'},
          open(d + '/meta.json', 'w'), indent=1)
print('stored', d)
