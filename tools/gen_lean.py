"""Translators: regenerate lean/LcdbModel/Generated/*.lean from /repo's current source.

T1  format constants, enum/tag values          -> Generated/Consts.lean
T2  CRC-32C lookup tables of crc32c.c          -> Generated/CrcTables.lean
(T3/T4: atomics orders and lock table          -> Generated/Atomics.lean, LockTable.lean; see gen_conc.py)

A constant the translator cannot find is emitted as the impossible value 0xDEAD00000000 + a note,
so the obligation `Generated.x = Spec.x` fails instead of passing silently."""
import os, re, subprocess, sys

MISSING = 0xDEAD00000000


def _read(repo, rel):
    try:
        return open(os.path.join(repo, rel)).read()
    except OSError:
        return ''


def _strip_comments(s):
    s = re.sub(r'/\*.*?\*/', ' ', s, flags=re.S)
    return s


def _macro(txt, name):
    m = re.search(r'^\s*#\s*define\s+%s\s+(.+?)\s*$' % re.escape(name), _strip_comments(txt), re.M)
    if not m:
        return None
    return m.group(1)


def _eval_c_int(expr, env=None):
    """evaluate a simple C constant expression (ints, + - * / << >> | & parentheses, UINT32_C/UINT64_C, suffixes)"""
    if expr is None:
        return None
    e = expr
    e = re.sub(r'U?INT(8|16|32|64)_C\s*\(([^)]*)\)', r'(\2)', e)
    e = re.sub(r'\(\s*(?:u?int\d+_t|unsigned|int|size_t|uint64_t)\s*\)', '', e)
    e = re.sub(r'(?<=[0-9a-fA-F])(?:[uU]?[lL]{0,2}|[lL]{1,2}[uU])\b', '', e)
    if env:
        for k, v in env.items():
            e = re.sub(r'\b%s\b' % re.escape(k), str(v), e)
    if not re.fullmatch(r'[0-9a-fA-FxX\s()+\-*/<>|&~]+', e):
        return None
    try:
        return int(eval(e.replace('/', '//'), {'__builtins__': {}}, {}))
    except Exception:
        return None


def _enum_values(txt, enum_hint):
    """values of the first enum whose body mentions enum_hint; returns {name: value}"""
    txt = _strip_comments(txt)
    for m in re.finditer(r'enum\s*\w*\s*\{([^}]*)\}', txt, re.S):
        body = m.group(1)
        if enum_hint not in body:
            continue
        out = {}
        cur = -1
        for item in body.split(','):
            item = item.strip()
            if not item:
                continue
            if '=' in item:
                n, v = item.split('=', 1)
                val = _eval_c_int(v.strip(), out)
                if val is None:
                    continue
                cur = val
                out[n.strip()] = cur
            else:
                cur += 1
                out[item] = cur
        return out
    return {}


def extract_consts(repo):
    c = {}
    notes = []

    def put(name, val, why=''):
        if val is None:
            c[name] = MISSING
            notes.append('%s: not found %s' % (name, why))
        else:
            c[name] = val

    logf = _read(repo, 'src/log_format.h')
    put('logBlockSize', _eval_c_int(_macro(logf, 'LDB_BLOCK_SIZE')))
    put('logHeaderSize', _eval_c_int(_macro(logf, 'LDB_HEADER_SIZE')))
    ev = _enum_values(logf, 'LDB_TYPE_FULL')
    for n, k in (('recZero', 'LDB_TYPE_ZERO'), ('recFull', 'LDB_TYPE_FULL'), ('recFirst', 'LDB_TYPE_FIRST'),
                 ('recMiddle', 'LDB_TYPE_MIDDLE'), ('recLast', 'LDB_TYPE_LAST')):
        put(n, ev.get(k))
    crch = _read(repo, 'src/util/crc32c.h')
    put('crcMaskDelta', _eval_c_int(_macro(crch, 'ldb_crc32c_mask_delta')))
    m = re.search(r'return\s*\(\(crc\s*>>\s*(\d+)\)\s*\|\s*\(crc\s*<<\s*(\d+)\)\)\s*\+\s*ldb_crc32c_mask_delta', crch)
    put('crcMaskRotR', int(m.group(1)) if m else None)
    put('crcMaskRotL', int(m.group(2)) if m else None)
    wb = _read(repo, 'src/write_batch.c')
    put('batchHeader', _eval_c_int(_macro(wb, 'LDB_HEADER')))
    dbf = _read(repo, 'src/dbformat.h')
    ev = _enum_values(dbf, 'LDB_TYPE_DELETION')
    put('typeDeletion', ev.get('LDB_TYPE_DELETION'))
    put('typeValue', ev.get('LDB_TYPE_VALUE'))
    put('numLevels', _eval_c_int(_macro(dbf, 'LDB_NUM_LEVELS')))
    put('l0CompactionTrigger', _eval_c_int(_macro(dbf, 'LDB_L0_COMPACTION_TRIGGER')))
    put('l0SlowdownTrigger', _eval_c_int(_macro(dbf, 'LDB_L0_SLOWDOWN_WRITES_TRIGGER')))
    put('l0StopTrigger', _eval_c_int(_macro(dbf, 'LDB_L0_STOP_WRITES_TRIGGER')))
    put('maxMemCompactLevel', _eval_c_int(_macro(dbf, 'LDB_MAX_MEM_COMPACT_LEVEL')))
    put('valtypeForSeek', ev.get((_macro(dbf, 'LDB_VALTYPE_SEEK') or '').strip()))
    ms = _macro(dbf, 'LDB_MAX_SEQUENCE')
    mm = re.search(r'<<\s*(\d+)', ms or '')
    put('maxSequenceBits', int(mm.group(1)) if mm else None)
    ve = _read(repo, 'src/version_edit.c')
    ev = _enum_values(ve, 'TAG_COMPARATOR')
    for n, k in (('tagComparator', 'TAG_COMPARATOR'), ('tagLogNumber', 'TAG_LOG_NUMBER'), ('tagNextFileNumber', 'TAG_NEXT_FILE_NUMBER'),
                 ('tagLastSequence', 'TAG_LAST_SEQUENCE'), ('tagCompactPointer', 'TAG_COMPACT_POINTER'), ('tagDeletedFile', 'TAG_DELETED_FILE'),
                 ('tagNewFile', 'TAG_NEW_FILE'), ('tagPrevLogNumber', 'TAG_PREV_LOG_NUMBER')):
        put(n, ev.get(k))
    fmt = _read(repo, 'src/table/format.h')
    put('blockTrailerSize', _eval_c_int(_macro(fmt, 'LDB_TRAILER_SIZE')))
    put('handleMaxLen', _eval_c_int(_macro(fmt, 'LDB_HANDLE_SIZE')))
    put('footerSize', _eval_c_int(_macro(fmt, 'LDB_FOOTER_SIZE'), {'LDB_HANDLE_SIZE': c.get('handleMaxLen', 0)}))
    magic = _macro(fmt, 'LDB_TABLE_MAGIC')
    if magic is None:
        fmtc = _read(repo, 'src/table/format.c')
        magic = _macro(fmtc, 'LDB_TABLE_MAGIC')
    put('tableMagic', _eval_c_int(magic))
    fb = _read(repo, 'src/table/filter_block.c')
    put('filterBaseLg', _eval_c_int(_macro(fb, 'LDB_FILTER_BASE_LG')))
    ev = _enum_values(fmt + _read(repo, 'include/lcdb.h') + _read(repo, 'src/util/options.h'), 'LDB_SNAPPY_COMPRESSION')
    put('noCompression', ev.get('LDB_NO_COMPRESSION'))
    put('snappyCompression', ev.get('LDB_SNAPPY_COMPRESSION'))
    return c, notes


def extract_crc_tables(repo):
    txt = _strip_comments(_read(repo, 'src/util/crc32c.c'))
    out = {}
    for name in ('byte_ext_table', 'stride_ext_table_0', 'stride_ext_table_1', 'stride_ext_table_2', 'stride_ext_table_3'):
        m = re.search(r'%s\s*\[\s*256\s*\]\s*=\s*\{([^}]*)\}' % name, txt, re.S)
        vals = []
        if m:
            vals = [int(x, 16) for x in re.findall(r'0x([0-9a-fA-F]+)', m.group(1))]
        out[name] = vals
    return out


def _write_if_changed(path, content):
    try:
        if open(path).read() == content:
            return False
    except OSError:
        pass
    os.makedirs(os.path.dirname(path), exist_ok=True)
    tmp = path + '.tmp%d' % os.getpid()
    open(tmp, 'w').write(content)
    os.replace(tmp, path)
    return True


def generate(repo, outdir):
    consts, notes = extract_consts(repo)
    s = ['/- GENERATED by tools/gen_lean.py from the source tree of chjj/lcdb -- do not edit; regenerated on every check -/', 'namespace Lcdb.Generated', '']
    for k in sorted(consts):
        s.append('def %s : Nat := %d' % (k, consts[k]))
    s.append('')
    s.append('def notes : List String := [%s]' % ', '.join('"%s"' % n.replace('"', "'") for n in notes))
    s.append('')
    s.append('end Lcdb.Generated')
    _write_if_changed(os.path.join(outdir, 'Consts.lean'), '\n'.join(s) + '\n')

    tabs = extract_crc_tables(repo)
    s = ['/- GENERATED by tools/gen_lean.py from src/util/crc32c.c -- do not edit -/', 'namespace Lcdb.Generated', '']
    for name, lean in (('byte_ext_table', 'byteExtTable'), ('stride_ext_table_0', 'strideExtTable0'), ('stride_ext_table_1', 'strideExtTable1'),
                       ('stride_ext_table_2', 'strideExtTable2'), ('stride_ext_table_3', 'strideExtTable3')):
        vals = tabs[name]
        s.append('def %s : List Nat := [' % lean)
        for i in range(0, len(vals), 8):
            s.append('  ' + ', '.join(str(v) for v in vals[i:i + 8]) + (',' if i + 8 < len(vals) else ''))
        s.append(']')
        s.append('')
    s.append('end Lcdb.Generated')
    _write_if_changed(os.path.join(outdir, 'CrcTables.lean'), '\n'.join(s) + '\n')
    try:
        import gen_conc
        gen_conc.generate(repo, outdir)
    except ImportError:
        pass
    return consts, notes


if __name__ == '__main__':
    repo = sys.argv[1] if len(sys.argv) > 1 else '/repo'
    out = sys.argv[2] if len(sys.argv) > 2 else os.path.join(os.path.dirname(os.path.dirname(os.path.abspath(__file__))), 'lean', 'LcdbModel', 'Generated')
    c, n = generate(repo, out)
    for k in sorted(c):
        print(k, c[k])
    print(n)
