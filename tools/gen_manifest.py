#!/usr/bin/env python3
"""writes /verif/MANIFEST.json from the table below (kept next to the checks so they cannot drift apart)"""
import json, os
ROOT = os.path.dirname(os.path.dirname(os.path.abspath(__file__)))

NOTE = ("Trusted base: Lean 4.33.0 kernel (axioms propext, Classical.choice, Quot.sound only; audited by #print axioms on every registered theorem on every run; "
        "no sorry/admit/native_decide/bv_decide); hand-written Lean models tied to /repo by differential correspondence suites run against an ASan+UBSan build of the "
        "current working tree, plus translators (tools/gen_lean.py) that regenerate constants/tables from the source so that 'Generated = model' obligations are re-proved; "
        "gcc and the sanitizers; the harness canonicalisation.")

CLAIMED = {
    'C01': ('refinement theorem over the Lsm model (under the invariant, the implementation\'s lookup order returns what a sorted map of all entries dictates; every contract-satisfying '
            'flush/compaction/recovery step preserves the invariant and every protected view), with the hypotheses (stepOk, Inv) evaluated by lean tracecheck on every step of real histories '
            'and every get recomputed from the model state and from the plain write history; the mechanisms behind the contracts are in the model as well (file selection of version_set.c, the compaction drop loop, skiplist/memtable, LRU cache: proved to establish the contracts / refine the abstractions, compared with the C functions response by response, and applied by tracecheck to every observed flush and compaction)', 'Lean 4 proof + trace validation of real histories against the model + model/implementation correspondence of the mechanisms', '7 C01, 7a'),
    'C05': ('recover_subset / recover_sublist / crash_versions_step over the protocol model (per-log prefix, nothing invented); every image variant reopened, followed by synced writes and a second reopen',
            'Lean 4 proof + trace validation of real I/O journals + crash-image replay', '7 C05'),
    'C06': ('snapshot_view_stable / write_view / background_preserves_view theorems over the Lsm model; trace validation of histories with many live snapshots across compactions of every level; the drop loop of ldb_do_compaction_work is in the model (dropLoop_sameAnswer, expectedOutput_meets_contract, mechanism_preserves_view) and the output of every real compaction is recomputed with it; concurrent runs under the deterministic scheduler read every key twice through one snapshot',
            'Lean 4 proof + trace validation of real histories against the model + schedule exploration', '7 C06, 7a'),
    'C07': ('cursor-over-sorted-map specification of the user iterator; every iterator step of real histories (direction changes, all seek kinds, snapshots, three comparators) must land where the '
            'map cursor over the model state dictates; implementation-side iterator models and their refinement theorems', 'Lean 4 proof + trace validation of real histories against the model', '7 C07'),
    'C08': ('linearizability theorems over the Conc transition system (commit_once, fifo/real-time order, reader_linearizable, batch atomicity for readers) for all schedules and all '
            'data-dependent outcomes; real multi-threaded runs under a deterministic scheduler judged by a linearizability oracle and replayed, critical section by critical section, on the model',
            'Lean 4 proof + schedule exploration with trace validation against the model', '7 C08'),
    'C09': ('wakeup invariants and no_deadlock over the Conc transition system (every reachable state with an operation in flight has an enabled non-invocation step); real runs under the '
            'deterministic scheduler with deadlock ("unfinished, none runnable") and step-bound detection; every observed signal/broadcast checked against the model step',
            'Lean 4 proof + schedule exploration with trace validation against the model', '7 C09'),
    'C10': ('discipline theorem over a happens-before model (every plain location guarded by a mutex / published by release-acquire / thread-local / immutable => no data race), skiplist publication '
            'protocol safe for the memory orders found in the source, and obligations over tables regenerated from the CURRENT source on every run (every access to mutex-protected state with the '
            'lock state at the access; every atomic operation with its order) re-proved by kernel evaluation; ThreadSanitizer workload as search', 'Lean 4 proof + translators regenerating lock/atomics tables from source + TSan search', '7 C10'),
    'C11': ('crc_detects_single_byte (every alteration confined to one byte of a checksummed region changes the CRC: no probabilistic hypothesis), read_sound for the log reader, footer '
            'padding irrelevance, altered_table_partial / single_byte_alteration_detected over the table model; whole tables with every mutation class vs the model; real databases copied and damaged (tables at positions over the whole file, logs, MANIFEST, CURRENT) and read back with paranoid checks and checksum verification: '
            'right answer or error, complete scan or error; never a value that was not written', 'Lean 4 proof + corruption replay on real databases', '7 C11'),
    'C12': ('kill/close durability theorems applied to the conforming prefix before the fault; fault-injection runs of the real code (k-th call fails; ENOSPC/EIO/EMFILE/ENOENT; one-shot/persistent; '
            'partial and short writes; histories that close and reopen under the fault) plus a systematic enumeration of every intercepted call of a reopen, a flush and a manual compaction, through the same '
            'crash oracle: no crash or hang, reads correct, the database opens once the fault is gone, every acknowledged write present after reopen', 'Lean 4 proof + fault-injection trace validation', '7 C12'),
    'C13': ('keep-rule/live-set model: at every quiescent point the directory must contain exactly the live tables, the current log(s), one MANIFEST; every live file number below next_file_number; '
            'every unlink of the real journal judged by the storage-protocol monitor (nothing a recoverable version needs), also while garbage collection races with the foreground and after failed flushes/compactions',
            'Lean 4 proof + trace validation of real histories against the model', '7 C13'),
    'C14': ('Inv (sorted disjoint levels, file bounds, recency, distinct numbers) proved preserved by every contract-satisfying step; evaluated on every reconstructed version of real histories; '
            'layout after reopen must equal the model\'s; the selection functions of version_set.c (overlapping inputs with the level-0 restart, boundary files, setup_other_inputs, compact_range, pick level) are modelled, proved to establish clauses (a), (a\') and the flush clause of the contract, and compared with the C functions on generated versions and on every observed step', 'Lean 4 proof + trace validation of real histories against the model + model/implementation correspondence of the mechanisms', '7 C14, 7a'),
    'C02': ('synced_durable / crash_image_readable over the storage-protocol model: for every trace accepted by the monitor (Conforms), every crash point and every crash image the model allows, '
            'recovery succeeds and every sync-acknowledged batch is replayed or its log retired; the monitor is evaluated on the real system-call journal (MANIFEST bytes decoded by the Lean decoders) and '
            'sampled crash images are materialised and reopened with the real code, written to and reopened again; on concurrent runs a commit group holding a sync write must be fsynced before it is '
            'acknowledged (sync_not_in_nonsync_group over the Conc model, acceptor + fsync observation)', 'Lean 4 proof + trace validation of real I/O journals + crash-image replay', '7 C02'),
    'C03': ('kill_durable / kill_recovers / kill_order over the same protocol model; kill images at journal prefixes reopened with the real code and checked against the acknowledged set',
            'Lean 4 proof + trace validation of real I/O journals + crash-image replay', '7 C03'),
    'C04': ('batch byte format theorems (iterate∘encode, append, every proper prefix rejected) + exact differential correspondence of ldb_batch_* with the Lean model; batch atomicity for concurrent '
            'readers over the Conc model (batch_atomic_for_readers, group_preserves_batches) with real concurrent runs replayed on the model; crash images (kill, torn tail, zero block) recovered: '
            'whole batches only', 'Lean 4 proof + model/implementation correspondence + schedule exploration + crash-image replay', '7 C04'),
    'C15': ('theorems over the Lean model of log_writer.c/log_reader.c/crc32c.c for all record lists, offsets and cut points (round trip, truncation, compositional reuse, CRC = bitwise CRC-32C, '
            'single-byte alterations always detected), re-checked by the kernel on every run; the model is tied to the code by exact byte/event correspondence on generated inputs',
            'Lean 4 proof + model/implementation correspondence', '7 C15'),
    'C16': ('round-trip and cursor theorems for blocks (block_roundtrip, blockIter_is_cursor), filters (bloom_no_false_negative, filter_covers_block), Snappy (snappy_roundtrip for the concrete encoder), '
            'footer/handles, separator/successor contracts for ALL byte strings, whole table files (build_wf, wf_reads, table_roundtrip); byte-exact correspondence of every builder and reader with the Lean models, which are the independently written readers',
            'Lean 4 proof + model/implementation correspondence', '7 C16'),
    'C17': ('varint32/64 and version-edit round-trip theorems for all values; tag constants re-extracted from the source and proved equal to the model; exact differential correspondence of '
            'ldb_edit_export/import and the varint coders; MANIFEST bytes of real histories (incl. reused MANIFESTs growing past 32 KiB blocks) decoded by the Lean decoders, CURRENT switches judged by the '
            'storage-protocol monitor, every call of a MANIFEST roll-over failing in turn', 'Lean 4 proof + model/implementation correspondence + trace validation of real I/O journals', '7 C17'),
    'C18': ('no-fault/totality theorems for every modelled decoder (explicit guards mirrored from the C code; fault outcome unreachable), with sanitizer-backed differential fuzzing of the real decoders '
            'against the models on malformed and hand-crafted inputs; at database level forged (well-framed, semantically arbitrary) MANIFESTs are opened, read, scanned, compacted and written by the real code in a child process with an alarm and a memory limit', 'Lean 4 proof + sanitizer-backed differential correspondence', '7 C18'),
    'C19': ('repair theorems over the Repair/Lsm models (no entry lost or invented, iterator = newest per key, counters continue, point lookups correct iff numbering follows age, with a '
            'kernel-checked witness for the failing case); repair histories on the real database validated against the rebuilt model state', 'Lean 4 proof + trace validation of real histories against the model', '7 C19'),
    'C20': ('owned-file-name grammar theorem for ldb_parse_filename (destroy touches only owned names) + exact correspondence on all short strings; lifecycle histories on the real database (second '
            'open, lock probes from another process, backups incl. refused ones, copy, wrong comparators incl. name prefixes/extensions, destroy with foreign files) judged by tracecheck',
            'Lean 4 proof + model/implementation correspondence + trace validation of lifecycle histories', '7 C20'),
}

ALL = ['C%02d' % i for i in range(1, 21)]


def main():
    checks = []
    for pid in ALL:
        if pid not in CLAIMED:
            continue
        text, tech, ref = CLAIMED[pid]
        checks.append({
            'property_id': pid,
            'quick_cmd': './check %s --tier quick' % pid,
            'thorough_cmd': './check %s --tier thorough' % pid,
            'evidence_file': 'evidence/%s.json' % pid,
            'replay_cmd_template': './check %s --replay {path}' % pid,
            'engine': 'lean-proof+correspondence',
            'level_claimed': {'category': 'proof', 'text': text, 'design_ref': 'DESIGN.md section ' + ref},
            'level_note': NOTE,
            'technique': tech,
        })
    na = [{'property_id': pid, 'reason': 'check not built yet in this round (planned: DESIGN.md section 7 %s); not a claim that the technique cannot apply' % pid}
          for pid in ALL if pid not in CLAIMED]
    m = {
        'version': 1,
        'setup_cmd': 'python3 tools/setup.py',
        'hooks': {'guard': 'LCDB_VERIF', 'enable': 'none needed: harnesses #include repo .c files, link their own port layer and interpose libc; no hook commits exist',
                  'baseline_off_cmd': 'cmake --build /repo/_build && ctest --test-dir /repo/_build -j8 --timeout 900', 'source_commits': [], 'add_only': True},
        'engines': [{'name': 'lean-proof+correspondence', 'path': 'check', 'serves_properties': sorted(CLAIMED),
                     'kind_free_text': 'Lean 4 theorems over executable models (lean/LcdbModel), regenerated constants (tools/gen_lean.py), differential correspondence harnesses (harness/*.c) driven by checks/*.py'}],
        'checks': checks,
        'notes': 'All checks: ./check <Cxx> --tier quick|thorough; VERIF_SEED selects the PRNG seed. See DESIGN.md.',
        'not_applicable': na,
    }
    json.dump(m, open(os.path.join(ROOT, 'MANIFEST.json'), 'w'), indent=1)
    print('claimed:', sorted(CLAIMED))


if __name__ == '__main__':
    main()
