"""Python side of the line protocol: byte-string argument syntax and canonical rendering
(must agree with harness/common.h and lean/Driver/Util.lean)."""


def pat_byte(seed, i):
    x = (seed * 1103515245 + 12345 + i * 2654435761) % 4294967296
    return (x // 65536) % 256


def parse_bytes1(s):
    if s == '-':
        return b''
    if s[0] == '@':
        a, b = s[1:].split('~')
        return bytes(pat_byte(int(a), i) for i in range(int(b)))
    if s[0] == '=':
        a, b = s[1:].split('~')
        return bytes([int(a, 16)]) * int(b)
    if s[0] == '%':
        a, b, c = s[1:].split('~')
        return bytes(pat_byte(int(a), i % int(c)) for i in range(int(b)))
    return bytes.fromhex(s)


def parse_bytes(s):
    return b''.join(parse_bytes1(p) for p in s.split('+'))


def fnv64(b):
    h = 14695981039346656037
    for x in b:
        h = ((h ^ x) * 1099511628211) & 0xFFFFFFFFFFFFFFFF
    return h


def show_bytes(b):
    if len(b) <= 40:
        return b.hex() if b else '-'
    return '#%d:%016x' % (len(b), fnv64(b))


def arg(b):
    """hex argument for explicit bytes"""
    return b.hex() if b else '-'
