"""Shared machinery for the lcdb checks: building /repo's current tree, building and auditing the
Lean library, running correspondence suites, writing evidence, reporting violations.

python3 stdlib only.  Nothing here depends on files under /tmp; scratch space is
${VERIF_SCRATCH:-/var/tmp}/lcdb-verif-* (removed on exit) and the content-addressed build
cache /verif/.cache (rebuilt from /repo whenever it is missing or /repo changed)."""
import atexit, concurrent.futures as cf, fcntl, hashlib, json, os, re, shutil, subprocess, sys, tempfile, time

ROOT = os.path.dirname(os.path.dirname(os.path.abspath(__file__)))
REPO = os.environ.get('VERIF_REPO', '/repo')
CACHE = os.path.join(ROOT, '.cache')
LEAN = os.path.join(ROOT, 'lean')
NPROC = int(os.environ.get('VERIF_JOBS', str(os.cpu_count() or 4)))
SCRATCH_ROOT = os.environ.get('VERIF_SCRATCH', '/var/tmp')

ALLOWED_AXIOMS = {'propext', 'Classical.choice', 'Quot.sound'}
FORBIDDEN = re.compile(r'\bsorry\b|\badmit\b|^axiom |native_decide|bv_decide|implemented_by|\bunsafe |maxHeartbeats 0')

LIB_SOURCES_EXCLUDE = {'dbutil.c', 'util/testutil.c'}

VARIANTS = {
    # the pinned build's defines; NDEBUG as in the pinned build
    'asan': ['-O1', '-g', '-fno-omit-frame-pointer', '-fsanitize=address,undefined', '-fno-sanitize-recover=all'],
    'plain': ['-O1', '-g'],
    'tsan': ['-O1', '-g', '-fsanitize=thread'],
}
COMMON_DEFS = ['-DLDB_PTHREAD', '-D_GNU_SOURCE', '-DNDEBUG', '-w']


class BuildError(Exception):
    pass


# ---------------------------------------------------------------- PRNG
class Rng:
    """splitmix64: every random choice of a check derives from VERIF_SEED through this."""
    def __init__(self, seed):
        self.s = seed & 0xFFFFFFFFFFFFFFFF

    def next(self):
        self.s = (self.s + 0x9E3779B97F4A7C15) & 0xFFFFFFFFFFFFFFFF
        z = self.s
        z = ((z ^ (z >> 30)) * 0xBF58476D1CE4E5B9) & 0xFFFFFFFFFFFFFFFF
        z = ((z ^ (z >> 27)) * 0x94D049BB133111EB) & 0xFFFFFFFFFFFFFFFF
        return z ^ (z >> 31)

    def below(self, n):
        return self.next() % n if n > 0 else 0

    def range(self, lo, hi):
        return lo + self.below(hi - lo + 1)

    def choice(self, xs):
        return xs[self.below(len(xs))]

    def chance(self, num, den):
        return self.below(den) < num

    def bytes(self, n):
        out = bytearray()
        while len(out) < n:
            out += self.next().to_bytes(8, 'little')
        return bytes(out[:n])

    def fork(self, tag):
        h = hashlib.sha256(('%d:%s' % (self.s, tag)).encode()).digest()
        return Rng(int.from_bytes(h[:8], 'little'))


def seed():
    try:
        return int(os.environ.get('VERIF_SEED', '1'))
    except ValueError:
        return 1


def hexb(b):
    return b.hex() if b else '-'


# ---------------------------------------------------------------- scratch
_scratch = []


def scratch_dir(tag='x'):
    d = tempfile.mkdtemp(prefix='lcdb-verif-%s-' % tag, dir=SCRATCH_ROOT)
    _scratch.append(d)
    return d


@atexit.register
def _cleanup():
    for d in _scratch:
        shutil.rmtree(d, ignore_errors=True)


# ---------------------------------------------------------------- repo build
def _repo_files():
    out = []
    for top in ('src', 'include'):
        base = os.path.join(REPO, top)
        for dp, dn, fn in os.walk(base):
            dn.sort()
            for f in sorted(fn):
                if f.endswith(('.c', '.h')):
                    out.append(os.path.join(dp, f))
    return out


def tree_hash():
    h = hashlib.sha256()
    for p in _repo_files():
        h.update(os.path.relpath(p, REPO).encode())
        h.update(b'\0')
        with open(p, 'rb') as f:
            h.update(f.read())
        h.update(b'\0')
    return h.hexdigest()


def _run(cmd, **kw):
    return subprocess.run(cmd, stdout=subprocess.PIPE, stderr=subprocess.STDOUT, text=True, **kw)


def _prune_cache(keep_prefix):
    bdir = os.path.join(CACHE, 'build')
    if not os.path.isdir(bdir):
        return
    ents = []
    for e in os.listdir(bdir):
        p = os.path.join(bdir, e)
        if os.path.isdir(p) and not e.endswith(keep_prefix):
            ents.append((os.path.getmtime(p), p))
    ents.sort()
    # keep the two most recent foreign trees (seeded-patch runs alternate between a patched and the clean tree)
    for _, p in ents[:-6]:
        shutil.rmtree(p, ignore_errors=True)


def build_repo(variant='asan'):
    """Compile every library source of /repo's working tree; returns the build dir
    (src/, include/, obj/*.o).  Cached by content hash of src+include."""
    th = tree_hash()[:20]
    d = os.path.join(CACHE, 'build', '%s-%s' % (variant, th))
    done = os.path.join(d, '.done')
    os.makedirs(os.path.join(CACHE, 'build'), exist_ok=True)
    lock = open(os.path.join(CACHE, 'build', '.lock-%s-%s' % (variant, th)), 'w')
    fcntl.flock(lock, fcntl.LOCK_EX)
    try:
        if os.path.exists(done):
            os.utime(d)
            return d
        shutil.rmtree(d, ignore_errors=True)
        os.makedirs(d)
        shutil.copytree(os.path.join(REPO, 'src'), os.path.join(d, 'src'))
        shutil.copytree(os.path.join(REPO, 'include'), os.path.join(d, 'include'))
        os.makedirs(os.path.join(d, 'obj'))
        os.makedirs(os.path.join(d, 'bin'))
        srcs = []
        for dp, dn, fn in os.walk(os.path.join(d, 'src')):
            for f in fn:
                if f.endswith('.c'):
                    rel = os.path.relpath(os.path.join(dp, f), os.path.join(d, 'src'))
                    if rel not in LIB_SOURCES_EXCLUDE:
                        srcs.append(rel)
        flags = VARIANTS[variant] + COMMON_DEFS + ['-I' + os.path.join(d, 'include'), '-I' + os.path.join(d, 'src')]

        def cc(rel):
            o = os.path.join(d, 'obj', rel.replace('/', '__')[:-2] + '.o')
            r = _run(['gcc'] + flags + ['-c', os.path.join(d, 'src', rel), '-o', o])
            return rel, r.returncode, r.stdout
        with cf.ThreadPoolExecutor(NPROC) as ex:
            res = list(ex.map(cc, srcs))
        bad = [(rel, out) for rel, rc, out in res if rc != 0]
        if bad:
            shutil.rmtree(d, ignore_errors=True)
            raise BuildError('repo does not compile: ' + '; '.join('%s: %s' % (r, o[-400:]) for r, o in bad))
        open(done, 'w').write(th)
        _prune_cache(th)
        return d
    finally:
        fcntl.flock(lock, fcntl.LOCK_UN)
        lock.close()


def build_harness(name, variant='asan', exclude=(), extra_flags=(), extra_src=(), libs=('-lpthread',)):
    """Compile /verif/harness/<name>.c against the build dir; objects of repo files the harness
    `#include`s itself are left out of the link (exclude=['util/crc32c.c', ...])."""
    d = build_repo(variant)
    hs = os.path.join(ROOT, 'harness')
    h = hashlib.sha256()
    for f in sorted(os.listdir(hs)):
        if f.endswith(('.c', '.h')):
            h.update(open(os.path.join(hs, f), 'rb').read())
    h.update(repr((name, variant, tuple(exclude), tuple(extra_flags), tuple(extra_src))).encode())
    out = os.path.join(d, 'bin', '%s-%s' % (name, h.hexdigest()[:12]))
    if os.path.exists(out):
        return out
    excl = {e.replace('/', '__')[:-2] + '.o' for e in exclude}
    objs = [os.path.join(d, 'obj', o) for o in sorted(os.listdir(os.path.join(d, 'obj'))) if o.endswith('.o') and o not in excl]
    flags = VARIANTS[variant] + COMMON_DEFS + ['-I' + os.path.join(d, 'include'), '-I' + os.path.join(d, 'src'), '-I' + hs]
    tmp = out + '.tmp%d' % os.getpid()
    cmd = ['gcc'] + flags + list(extra_flags) + [os.path.join(hs, name + '.c')] + [os.path.join(hs, s) for s in extra_src] + objs + ['-o', tmp] + list(libs)
    r = _run(cmd)
    if r.returncode != 0:
        raise BuildError('harness %s does not compile against the current tree: %s' % (name, r.stdout[-3000:]))
    os.replace(tmp, out)
    return out


# ---------------------------------------------------------------- Lean
class LeanResult:
    def __init__(self):
        self.ok = True
        self.failed_modules = []
        self.log = ''


def lean_build(targets=('LcdbModel', 'modeld')):
    """translators + lake build (serialised by a lock: several checks may run at once)."""
    sys.path.insert(0, os.path.join(ROOT, 'tools'))
    import gen_lean
    res = LeanResult()
    lock = open(os.path.join(LEAN, '.build.lock'), 'w')
    fcntl.flock(lock, fcntl.LOCK_EX)
    try:
        gen_lean.generate(REPO, os.path.join(LEAN, 'LcdbModel', 'Generated'))
        r = _run(['lake', 'build'] + list(targets), cwd=LEAN)
        res.log = r.stdout
        if r.returncode != 0:
            res.ok = False
            res.failed_modules = sorted(set(re.findall(r'^- ([\w.]+)', r.stdout, re.M)))
            # with a failed module lake stops dependants; build the driver alone so correspondence can still run
    finally:
        fcntl.flock(lock, fcntl.LOCK_UN)
        lock.close()
    return res


def modeld_path():
    return os.path.join(LEAN, '.lake', 'build', 'bin', 'modeld')


def lean_source_audit():
    """grep the library for forbidden constructs outside comments"""
    hits = []
    for dp, dn, fn in os.walk(LEAN):
        if '.lake' in dp:
            continue
        for f in fn:
            if not f.endswith('.lean'):
                continue
            p = os.path.join(dp, f)
            txt = open(p).read()
            txt = re.sub(r'/-.*?-/', lambda m: '\n' * m.group(0).count('\n'), txt, flags=re.S)
            for i, line in enumerate(txt.split('\n'), 1):
                line = line.split('--')[0]
                if FORBIDDEN.search(line):
                    hits.append('%s:%d: %s' % (os.path.relpath(p, ROOT), i, line.strip()))
    return hits


def axioms_audit(theorems, imports):
    """#print axioms on every registered theorem; returns {name: (ok, detail)}"""
    out = {}
    if not theorems:
        return out
    d = scratch_dir('audit')
    src = os.path.join(d, 'Audit.lean')
    with open(src, 'w') as f:
        for m in imports:
            f.write('import %s\n' % m)
        for t in theorems:
            f.write('#print axioms %s\n' % t)
    r = _run(['lake', 'env', 'lean', src], cwd=LEAN)
    txt = r.stdout
    for t in theorems:
        short = t
        m = re.search(r"'%s' depends on axioms: \[([^\]]*)\]" % re.escape(short), txt, re.S)
        if m:
            ax = [a.strip() for a in m.group(1).replace('\n', ' ').split(',') if a.strip()]
            extra = [a for a in ax if a not in ALLOWED_AXIOMS]
            out[t] = (not extra, 'axioms: ' + ', '.join(ax))
        elif re.search(r"'%s' does not depend on any axioms" % re.escape(short), txt):
            out[t] = (True, 'no axioms')
        else:
            # unknown constant / failed import
            errs = [l for l in txt.split('\n') if 'error' in l]
            out[t] = (False, 'not found or not checked: ' + ' | '.join(errs[:3]))
    return out


# ---------------------------------------------------------------- correspondence
def _run_lines(binary, lines, env=None, timeout=600):
    """feed lines to a line-protocol server; returns (outputs, crashed_at, stderr)
    crashed_at = index of the request after which the server died (None if it survived)."""
    data = ''.join(l + '\n' for l in lines)
    try:
        p = subprocess.run([binary], input=data, stdout=subprocess.PIPE, stderr=subprocess.PIPE, text=True, env=env, timeout=timeout)
        out = p.stdout.split('\n')
        if out and out[-1] == '':
            out.pop()
        err = p.stderr
        rc = p.returncode
    except subprocess.TimeoutExpired as e:
        out = (e.stdout or b'').decode(errors='replace').split('\n') if isinstance(e.stdout, bytes) else (e.stdout or '').split('\n')
        if out and out[-1] == '':
            out.pop()
        # the last line may be partial
        err = 'TIMEOUT'
        rc = -999
    if len(out) >= len(lines) and rc == 0:
        return out[:len(lines)], None, err
    # died: complete lines printed = number of '\n'
    return out[:len(lines)], min(len(out), len(lines) - 1) if len(out) < len(lines) else None, err


def serve(binary, lines, env=None, timeout=600, fault_label='fault'):
    """run all requests, restarting after a crash; a crashing request gets the response
    'fault: <first line of sanitizer report>'"""
    results = [None] * len(lines)
    start = 0
    while start < len(lines):
        out, crashed, err = _run_lines(binary, lines[start:], env=env, timeout=timeout)
        if crashed is None:
            for i, o in enumerate(out):
                results[start + i] = o
            break
        for i in range(crashed):
            results[start + i] = out[i]
        first = ''
        for l in err.split('\n'):
            if 'ERROR' in l or 'runtime error' in l or 'TIMEOUT' in l or 'Assertion' in l:
                first = l.strip()
                break
        results[start + crashed] = '%s: %s' % (fault_label, first[:200])
        start = start + crashed + 1
    return results


def serve_parallel(binary, lines, env=None, chunk=None, timeout=900):
    if not lines:
        return []
    n = len(lines)
    if chunk is None:
        chunk = max(1, (n + NPROC - 1) // NPROC)
    parts = [(i, lines[i:i + chunk]) for i in range(0, n, chunk)]
    res = [None] * n
    with cf.ThreadPoolExecutor(NPROC) as ex:
        futs = {ex.submit(serve, binary, p, env, timeout): i for i, p in parts}
        for fu in cf.as_completed(futs):
            i = futs[fu]
            r = fu.result()
            res[i:i + len(r)] = r
    return res


def asan_env():
    e = dict(os.environ)
    e['ASAN_OPTIONS'] = 'detect_leaks=0:abort_on_error=0:allocator_may_return_null=1'
    e['UBSAN_OPTIONS'] = 'print_stacktrace=0:halt_on_error=1'
    return e


def correspond(requests, unit_bin, model_bin=None):
    """run the same request lines through the C harness and the Lean driver.
    returns list of (index, request, c_response, model_response) where they differ"""
    model_bin = model_bin or modeld_path()
    with cf.ThreadPoolExecutor(2) as ex:
        fc = ex.submit(serve_parallel, unit_bin, requests, asan_env())
        fm = ex.submit(serve_parallel, model_bin, requests, None)
        c_out, m_out = fc.result(), fm.result()
    diffs = [(i, requests[i], c_out[i], m_out[i]) for i in range(len(requests)) if c_out[i] != m_out[i]]
    return diffs, c_out, m_out


# ---------------------------------------------------------------- findings / evidence / verdict
def load_findings():
    p = os.path.join(ROOT, 'known_findings.json')
    if not os.path.exists(p):
        return {'known': [], 'fixed': []}
    return json.load(open(p))


def load_findings_for(pid):
    f = load_findings()
    return {'known': [k for k in f.get('known', []) if k.get('property') == pid], 'fixed': f.get('fixed', [])}


class Check:
    """One run of one property's check."""
    def __init__(self, pid, tier):
        self.pid = pid
        self.tier = tier
        self.seed = seed()
        self.t0 = time.time()
        self.obligations = []      # (name, ok, detail)
        self.samples = []
        self.evaluations = 0
        self.nontrivial = set()
        self.rules = []
        self.violations = []       # (kind, what, replay dict)
        self.known = []
        self.extra = {}
        self.assumptions = []
        self.trusted = ["Lean 4.33.0 kernel; axioms propext, Classical.choice, Quot.sound only (audited by #print axioms on every registered theorem)",
                        "hand-written Lean model tied to /repo by the correspondence suites listed in coverage.suites (differential, sanitizer-instrumented build of the current tree)",
                        "tools/gen_lean.py translators (constants and tables extracted from the current source)",
                        "gcc, ASan/UBSan, the harness and its canonicalisation"]

    def oblige(self, name, ok, detail=''):
        self.obligations.append((name, bool(ok), detail))

    def sample(self, s):
        if len(self.samples) < 12:
            self.samples.append(s)

    def note_case(self, key, nontrivial=True):
        self.evaluations += 1
        if nontrivial:
            self.nontrivial.add(key)

    def violation(self, what, replay, found_input=True):
        self.violations.append((what, replay, found_input))

    def known_finding(self, what):
        self.known.append(what)

    def finish(self):
        # mechanism slices attached to this property (checks/slices.py): their theorems and differential suites
        try:
            import slices
        except ImportError:
            slices = None
        if slices is not None:
            slices.attach(self)
        os.makedirs(os.path.join(ROOT, 'evidence'), exist_ok=True)
        os.makedirs(os.path.join(ROOT, 'replays'), exist_ok=True)
        nob = len(self.obligations)
        ndis = sum(1 for o in self.obligations if o[1])
        cov = {
            'obligations': nob, 'discharged': ndis,
            'checker_cmd': 'cd /verif/lean && lake build && lake env lean <audit file with #print axioms per theorem>; ./check %s --tier %s' % (self.pid, self.tier),
            'trusted_base': self.trusted,
            'obligation_list': [{'name': n, 'ok': ok, 'detail': d} for n, ok, d in self.obligations],
            'evaluations': self.evaluations,
            'distinct_nontrivial': len(self.nontrivial),
            'rule': ' ; '.join(self.rules),
            'samples': self.samples if self.samples else [o[0] for o in self.obligations[:5]],
        }
        cov.update(self.extra)
        ev = {'property_id': self.pid, 'tier': self.tier, 'seed': self.seed, 'level': 'proof', 'coverage': cov,
              'assumptions': self.assumptions, 'wall_s': round(time.time() - self.t0, 2), 'violations': len(self.violations),
              'known_findings_reported': self.known}
        with open(os.path.join(ROOT, 'evidence', self.pid + '.json'), 'w') as f:
            json.dump(ev, f, indent=1)
        for k in self.known:
            print('KNOWN-FINDING: property=%s %s' % (self.pid, k))
        failed = [o for o in self.obligations if not o[1]]
        if not self.violations and failed:
            # a proof obligation / correspondence broke and no failing input of the property was found
            rp = {'property': self.pid, 'seed': self.seed, 'tier': self.tier,
                  'broken': [{'name': n, 'detail': d} for n, ok, d in failed], 'note': 'no-failing-input-found'}
            self.violations.append(('obligations no longer check: ' + ', '.join(o[0] for o in failed[:6]), rp, False))
        if self.violations:
            for i, (what, rp, found) in enumerate(self.violations[:5]):
                path = os.path.join(ROOT, 'replays', '%s-seed%d-%d.json' % (self.pid, self.seed, i))
                rp = dict(rp)
                rp.setdefault('property', self.pid)
                rp['what'] = what
                with open(path, 'w') as f:
                    json.dump(rp, f, indent=1)
                print('VIOLATION property=%s replay=%s%s' % (self.pid, path, '' if found else ' no-failing-input-found'))
            return 1
        print('OK property=%s tier=%s seed=%d obligations=%d/%d evaluations=%d wall=%.1fs' % (
            self.pid, self.tier, self.seed, ndis, nob, self.evaluations, time.time() - self.t0))
        return 0
