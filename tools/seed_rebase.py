#!/usr/bin/env python3
"""tools/seed_rebase.py [<seeded-id> ...]: after a fix: commit in /repo a stored patch may no longer apply.  For each id (default:
all) whose patch.diff fails `git apply --check`, a three-way apply is tried; if that succeeds without conflicts the rebased diff
replaces patch.diff (the old one is kept as patch.orig.diff).  /repo is restored afterwards."""
import json, os, subprocess, sys
ROOT = os.path.dirname(os.path.dirname(os.path.abspath(__file__)))
REPO = '/repo'


def git(*a):
    return subprocess.run(['git', '-C', REPO] + list(a), capture_output=True, text=True)


def main():
    ids = sys.argv[1:] or sorted(d for d in os.listdir(os.path.join(ROOT, 'seeded')) if os.path.isfile(os.path.join(ROOT, 'seeded', d, 'patch.diff')))
    if git('status', '--porcelain', '--', 'src', 'include').stdout.strip():
        print('refusing: /repo has local changes')
        return 2
    for sid in ids:
        p = os.path.join(ROOT, 'seeded', sid, 'patch.diff')
        if git('apply', '--check', p).returncode == 0:
            continue
        r = git('apply', '-3', p)
        conflict = r.returncode != 0 or 'conflict' in (r.stdout + r.stderr).lower()
        if conflict:
            print('%s: does not apply, three-way apply failed: %s' % (sid, (r.stderr or r.stdout).strip()[:200]))
        else:
            d = git('diff', 'HEAD', '--', 'src', 'include').stdout
            os.replace(p, os.path.join(ROOT, 'seeded', sid, 'patch.orig.diff'))
            open(p, 'w').write(d)
            print('%s: rebased (%d lines)' % (sid, d.count('\n')))
        git('reset', '-q', 'HEAD', '--', 'src', 'include')
        git('checkout', '--', '.')
    return 0


if __name__ == '__main__':
    sys.exit(main())
