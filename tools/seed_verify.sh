#!/bin/bash
# tools/seed_verify.sh <src out dir> <patch file name> <run script name> <id>
# Confirms a seeded change in a fresh scratch worktree of /repo: demo passes on the unchanged tree, patch applies,
# tree builds, the 30 existing tests pass, demo fails with the change.  Prints a JSON summary; removes the worktree.
set -u
OUT=$1; PATCH=$2; RUN=$3; ID=$4
W=/tmp/seedv/$ID
rm -rf $W; mkdir -p /tmp/seedv
git -C /repo worktree add -f --detach $W HEAD -q || exit 2
cd $W
export TEST_TMPDIR=$W/_tmp; mkdir -p $TEST_TMPDIR
cmake -G Ninja -B _build -DCMAKE_BUILD_TYPE=RelWithDebInfo >/dev/null 2>&1 && cmake --build _build >/dev/null 2>&1 || { echo '{"error":"baseline build failed"}'; exit 2; }
bash $OUT/$RUN $W > $W/demo_clean.txt 2>&1; CLEAN=$?
git apply $OUT/$PATCH || { echo '{"error":"patch does not apply"}'; git -C /repo worktree remove --force $W; exit 2; }
cmake --build _build > $W/build.txt 2>&1; BUILD=$?
ctest --test-dir _build -j8 --timeout 900 > $W/ctest.txt 2>&1; CT=$?
# t-db has a timing-sensitive assertion (t-db.c:1807, automatic compaction racing the test) that also aborts now and
# then on the unchanged tree under load: a failing test is re-run alone, twice at most, before it counts
RERUN=0
while [ $CT -ne 0 ] && [ $RERUN -lt 2 ]; do RERUN=$((RERUN+1)); cp $W/ctest.txt $W/ctest_first.txt; ctest --test-dir _build --rerun-failed -j1 --timeout 900 > $W/ctest_rerun.txt 2>&1; CT=$?; done
bash $OUT/$RUN $W > $W/demo_patched.txt 2>&1; PATCHED=$?
SUMMARY=$(grep "tests passed" $W/ctest.txt | head -1); FAILED=$(grep -A5 "The following tests FAILED" $W/ctest.txt | tr "\n" " " | cut -c1-200)
echo "{\"id\":\"$ID\",\"demo_clean_exit\":$CLEAN,\"build_exit\":$BUILD,\"ctest_exit\":$CT,\"reruns\":$RERUN,\"ctest\":\"$SUMMARY\",\"failed\":\"$FAILED\",\"demo_patched_exit\":$PATCHED,\"demo_patched_tail\":\"$(tail -2 $W/demo_patched.txt | tr '\n"' ' _' | cut -c1-200)\"}"
cd /; git -C /repo worktree remove --force $W
