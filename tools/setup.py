#!/usr/bin/env python3
"""MANIFEST.setup_cmd: build the framework from files on disk only (offline): translators, Lean library + drivers,
sanitizer build of /repo's current tree + harnesses; validate MANIFEST.json against its schema if jsonschema is available."""
import json, os, subprocess, sys
ROOT = os.path.dirname(os.path.dirname(os.path.abspath(__file__)))
sys.path.insert(0, os.path.join(ROOT, 'tools'))
import vlib


def main():
    m = json.load(open(os.path.join(ROOT, 'MANIFEST.json')))
    try:
        import jsonschema
        sch = '/root/.vp/MANIFEST.schema.json'
        if os.path.exists(sch):
            jsonschema.validate(m, json.load(open(sch)))
            print('MANIFEST.json validates')
    except ImportError:
        print('jsonschema not available to this python; skipped schema validation')
    res = vlib.lean_build(('LcdbModel', 'modeld', 'tracecheck'))
    print(res.log[-2000:])
    if not res.ok:
        print('lean build failed')
        return 1
    for v in ('asan',):
        d = vlib.build_repo(v)
        print('built', d)
    vlib.build_harness('unit', 'asan', exclude=['util/crc32c.c'])
    vlib.build_harness('wl', 'asan', exclude=['db_impl.c'])
    vlib.build_harness('conc', 'plain', exclude=['db_impl.c', 'util/port.c'], extra_src=['sched_port.c'])
    return 0


if __name__ == '__main__':
    sys.exit(main())
