#!/usr/bin/env python3
"""Run checks against a seeded breaking change:  tools/seed_eval.py <seeded-id> [Cxx ...] [--tier quick] [--seeds 1,2] [--scratch]

Applies seeded/<id>/patch.diff to /repo (git apply), runs the named checks (default: the property the change
breaks, from meta.json), prints which report a violation, and ALWAYS restores /repo (git checkout -- .).
Results are appended to seeded/<id>/results.json.
With --scratch the patch is applied to a throw-away worktree of /repo's HEAD instead (the checks are pointed at it with
VERIF_REPO and rebuild everything from it): for use while something else is reading /repo."""
import json, os, subprocess, sys, time

ROOT = os.path.dirname(os.path.dirname(os.path.abspath(__file__)))
REPO = '/repo'


def main():
    args = sys.argv[1:]
    if not args:
        print(__doc__)
        return 2
    sid = args[0]
    tier = 'quick'
    seeds = ['1']
    scratch = False
    checks = []
    i = 1
    while i < len(args):
        if args[i] == '--tier':
            tier = args[i + 1]; i += 2
        elif args[i] == '--seeds':
            seeds = args[i + 1].split(','); i += 2
        elif args[i] == '--scratch':
            scratch = True; i += 1
        else:
            checks.append(args[i]); i += 1
    d = os.path.join(ROOT, 'seeded', sid)
    meta = json.load(open(os.path.join(d, 'meta.json')))
    if not checks:
        checks = [meta['property']]
    target = REPO
    if scratch:
        target = os.path.join(os.environ.get('VERIF_SCRATCH', '/var/tmp'), 'lcdb-seed-eval-' + sid)
        subprocess.run(['git', '-C', REPO, 'worktree', 'remove', '--force', target], capture_output=True)
        r = subprocess.run(['git', '-C', REPO, 'worktree', 'add', '-f', '--detach', target, 'HEAD', '-q'], capture_output=True, text=True)
        if r.returncode != 0:
            print('cannot create scratch worktree:', r.stderr)
            return 2
    st = subprocess.run(['git', '-C', target, 'status', '--porcelain', '--', 'src', 'include'], capture_output=True, text=True).stdout.strip()
    if st:
        print('refusing: %s has local changes:\n' % target + st)
        return 2
    r = subprocess.run(['git', '-C', target, 'apply', os.path.join(d, meta.get('patch', 'patch.diff'))], capture_output=True, text=True)
    if r.returncode != 0:
        print('patch does not apply:', r.stderr)
        return 2
    results = []
    # the evidence files under /verif/evidence describe runs against /repo itself: keep them, a seeded run must not replace them
    saved = {}
    for c in checks:
        ep = os.path.join(ROOT, 'evidence', c + '.json')
        saved[c] = open(ep).read() if os.path.exists(ep) else None
    try:
        for c in checks:
            for s in seeds:
                env = dict(os.environ, VERIF_SEED=s)
                if scratch:
                    env['VERIF_REPO'] = target
                t = time.time()
                p = subprocess.run([os.path.join(ROOT, 'check'), c, '--tier', tier], capture_output=True, text=True, env=env, cwd=ROOT)
                lines = [l for l in p.stdout.split('\n') if l.startswith(('VIOLATION', 'OK ', 'BUILD-ERROR', 'KNOWN-FINDING'))]
                viol = [l for l in lines if l.startswith('VIOLATION')]
                what = ''
                if viol:
                    try:
                        rp = viol[0].split('replay=')[1].split()[0]
                        what = json.load(open(rp)).get('what', '')[:300]
                    except Exception:
                        pass
                res = {'check': c, 'seed': int(s), 'tier': tier, 'exit': p.returncode, 'detected': p.returncode == 1 and bool(viol),
                       'no_failing_input': any('no-failing-input-found' in l for l in viol), 'what': what, 'wall_s': round(time.time() - t, 1)}
                results.append(res)
                print('%s seed=%s -> %s %s' % (c, s, 'DETECTED' if res['detected'] else ('exit %d' % p.returncode), what[:160]))
    finally:
        if scratch:
            subprocess.run(['git', '-C', REPO, 'worktree', 'remove', '--force', target], capture_output=True)
            subprocess.run(['git', '-C', ROOT, 'checkout', '--', 'lean/LcdbModel/Generated'], capture_output=True)
        else:
            subprocess.run(['git', '-C', REPO, 'checkout', '--', '.'])
        for c, txt in saved.items():
            ep = os.path.join(ROOT, 'evidence', c + '.json')
            if txt is not None:
                open(ep, 'w').write(txt)
            elif os.path.exists(ep):
                os.remove(ep)
    rf = os.path.join(d, 'results.json')
    old = json.load(open(rf)) if os.path.exists(rf) else []
    json.dump(old + results, open(rf, 'w'), indent=1)
    return 0


if __name__ == '__main__':
    sys.exit(main())
