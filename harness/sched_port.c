/* Deterministic scheduler behind lcdb's port layer (replaces src/util/port.c in the link).
 *
 * Every ldb_mutex_* / ldb_cond_* / ldb_thread_* call (and the 1 ms sleep, through select) is a scheduling
 * point; exactly one registered thread runs at a time; the next thread is chosen by a seeded PRNG (uniform,
 * or PCT-style: random priorities with a few priority-change points), or replayed from a recorded schedule.
 * Detects "unfinished threads, none runnable" (deadlock / lost wake-up) and runaway executions (step bound).
 *
 * Hooks for the harness (conc.c):
 *   sched_release_hook(mutex, kind, cond)  called while `mutex` is still owned, right before it is released by
 *                                          unlock (kind 0) or cond_wait (kind 1)
 *   sched_acquire_hook(mutex)              called right after `mutex` was acquired (lock or wake-up)
 * Signals issued by the running thread since its last acquire are available through sched_signals().
 */
#define _GNU_SOURCE
#include <stdio.h>
#include <stdlib.h>
#include <string.h>
#include <stdint.h>
#include <pthread.h>
#include <unistd.h>
#include <sys/select.h>
#include "util/port.h"
#include "sched_port.h"

#define MAXT 64
enum { T_RUNNABLE, T_BLK_MUTEX, T_BLK_COND, T_BLK_JOIN, T_FINISHED };
typedef struct {
  int used, state; void *on; pthread_cond_t cv; pthread_t th; void (*start)(void *); void *arg; int prio;
} T;
static T ts[MAXT]; static int nts = 0;
static pthread_mutex_t G = PTHREAD_MUTEX_INITIALIZER;
static int current = -1; static __thread int self = -1;
static uint64_t rs = 1;
static int g_mode = 0;                /* 0 uniform random, 1 PCT priorities */
static long g_steps = 0, g_switches = 0, g_maxsteps = 2000000;
static long g_change_at[8]; static int g_nchange = 0;
static FILE *g_sched_out = NULL;      /* record of choices */
static int *g_replay = NULL; static long g_nreplay = 0, g_replay_pos = 0;

void (*sched_release_hook)(void *mutex, int kind, void *cond) = NULL;
void (*sched_acquire_hook)(void *mutex) = NULL;

#define MAXSIG 64
static __thread void *t_sig[MAXSIG]; static __thread int t_sigkind[MAXSIG]; static __thread int t_nsig = 0;

static uint64_t rnd(void) { uint64_t z = (rs += 0x9e3779b97f4a7c15ULL); z = (z ^ (z >> 30)) * 0xbf58476d1ce4e5b9ULL; z = (z ^ (z >> 27)) * 0x94d049bb133111ebULL; return z ^ (z >> 31); }

void sched_seed(uint64_t s) { rs = s * 0x9e3779b97f4a7c15ULL + 12345; }
void sched_mode(int pct, long expected_steps) {
  int i; g_mode = pct; g_nchange = 0;
  if (pct) for (i = 0; i < 3; i++) g_change_at[g_nchange++] = (long)(rnd() % (uint64_t)(expected_steps > 0 ? expected_steps : 1000));
}
void sched_max_steps(long n) { g_maxsteps = n; }
long sched_now(void) { return g_steps; }
long sched_switch_count(void) { return g_switches; }
int sched_self(void) { return self; }
int sched_signals(void ***objs, int **kinds) { *objs = t_sig; *kinds = t_sigkind; return t_nsig; }
void sched_clear_signals(void) { t_nsig = 0; }
void sched_replay(int *choices, long n) { g_replay = choices; g_nreplay = n; g_replay_pos = 0; }
void sched_record(FILE *f) { g_sched_out = f; }

typedef struct { void *addr; int owner; } M; static M ms[8192]; static int nms = 0;
static M *getm(void *a) { int i; for (i = 0; i < nms; i++) if (ms[i].addr == a) return &ms[i]; ms[nms].addr = a; ms[nms].owner = -1; return &ms[nms++]; }

static void die_deadlock(void) {
  int i, unfinished = 0;
  for (i = 0; i < nts; i++) if (ts[i].used && ts[i].state != T_FINISHED) unfinished++;
  printf("DEADLOCK step=%ld unfinished=%d", g_steps, unfinished);
  for (i = 0; i < nts; i++) if (ts[i].used && ts[i].state != T_FINISHED) printf(" t%d:%s", i, ts[i].state == T_BLK_MUTEX ? "mutex" : ts[i].state == T_BLK_COND ? "cond" : ts[i].state == T_BLK_JOIN ? "join" : "?");
  printf("\n"); fflush(stdout);
  _exit(3);
}

static void pick_next(void) {
  int cand[MAXT], n = 0, i, nx;
  for (i = 0; i < nts; i++) if (ts[i].used && ts[i].state == T_RUNNABLE) cand[n++] = i;
  if (n == 0) {
    int unfinished = 0;
    for (i = 0; i < nts; i++) if (ts[i].used && ts[i].state != T_FINISHED) unfinished++;
    if (unfinished) die_deadlock();
    current = -1; return;
  }
  g_steps++;
  if (g_steps > g_maxsteps) { printf("LIVELOCK step bound %ld exceeded\n", g_maxsteps); fflush(stdout); _exit(4); }
  if (g_replay && g_replay_pos < g_nreplay) {
    int want = g_replay[g_replay_pos++]; nx = cand[0];
    for (i = 0; i < n; i++) if (cand[i] == want) nx = want;
  } else if (g_mode == 1) {
    int best = -1;
    for (i = 0; i < g_nchange; i++) if (g_steps == g_change_at[i] && current >= 0) ts[current].prio = -(int)(i + 1);   /* demote the running thread */
    nx = cand[0];
    for (i = 0; i < n; i++) if (ts[cand[i]].prio > best) { best = ts[cand[i]].prio; nx = cand[i]; }
  } else {
    nx = cand[rnd() % (uint64_t)n];
  }
  if (g_sched_out) fprintf(g_sched_out, "%d\n", nx);
  if (nx != current) g_switches++;
  current = nx;
  pthread_cond_signal(&ts[nx].cv);
}

static void wait_turn(void) { while (current != self) pthread_cond_wait(&ts[self].cv, &G); }
static void yield_point(void) { pick_next(); wait_turn(); }

static void ensure_registered(void) {
  if (self >= 0) return;
  pthread_mutex_lock(&G);
  self = nts++; ts[self].used = 1; ts[self].state = T_RUNNABLE; ts[self].prio = 1000 + (int)(rnd() % 1000);
  pthread_cond_init(&ts[self].cv, NULL);
  if (current == -1) current = self;
  wait_turn();
  pthread_mutex_unlock(&G);
}

void ldb_mutex_init(ldb_mutex_t *m) { (void)m; }
void ldb_mutex_destroy(ldb_mutex_t *m) { int i; pthread_mutex_lock(&G); for (i = 0; i < nms; i++) if (ms[i].addr == m) { ms[i] = ms[--nms]; break; } pthread_mutex_unlock(&G); }

static void acquire_loop(void *m) {
  for (;;) {
    M *x = getm(m);
    if (x->owner == -1) { x->owner = self; break; }
    ts[self].state = T_BLK_MUTEX; ts[self].on = m; pick_next(); wait_turn();
  }
}

void ldb_mutex_lock(ldb_mutex_t *m) {
  ensure_registered();
  pthread_mutex_lock(&G);
  yield_point();
  acquire_loop(m);
  pthread_mutex_unlock(&G);
  /* the signal record is cleared by the harness when the mutex it watches is acquired (not by locks of other mutexes
     taken inside that critical section, such as the thread pool's) */
  if (sched_acquire_hook) sched_acquire_hook(m);
}

static void wake_mutex_waiters(void *m) { int i; for (i = 0; i < nts; i++) if (ts[i].used && ts[i].state == T_BLK_MUTEX && ts[i].on == m) ts[i].state = T_RUNNABLE; }

void ldb_mutex_unlock(ldb_mutex_t *m) {
  ensure_registered();
  if (sched_release_hook) sched_release_hook(m, 0, NULL);
  pthread_mutex_lock(&G);
  { M *x = getm(m); if (x->owner != self) { printf("SCHED-ERROR unlock by non-owner\n"); fflush(stdout); _exit(5); } x->owner = -1; wake_mutex_waiters(m); }
  yield_point();
  pthread_mutex_unlock(&G);
}

/* condition variables remember which thread initialised them (a writer's own cv lives on its stack) */
typedef struct { void *addr; int owner; } CV; static CV cvs[4096]; static int ncvs = 0;
void ldb_cond_init(ldb_cond_t *c) {
  int i; ensure_registered();
  pthread_mutex_lock(&G);
  for (i = 0; i < ncvs; i++) if (cvs[i].addr == c) break;
  if (i == ncvs && ncvs < 4096) ncvs++;
  if (i < 4096) { cvs[i].addr = c; cvs[i].owner = self; }
  pthread_mutex_unlock(&G);
}
void ldb_cond_destroy(ldb_cond_t *c) { int i; pthread_mutex_lock(&G); for (i = 0; i < ncvs; i++) if (cvs[i].addr == c) { cvs[i] = cvs[--ncvs]; break; } pthread_mutex_unlock(&G); }
int sched_cond_owner(void *c) { int i; for (i = 0; i < ncvs; i++) if (cvs[i].addr == c) return cvs[i].owner; return -1; }

void ldb_cond_wait(ldb_cond_t *c, ldb_mutex_t *m) {
  ensure_registered();
  if (sched_release_hook) sched_release_hook(m, 1, c);
  pthread_mutex_lock(&G);
  { M *x = getm(m); if (x->owner != self) { printf("SCHED-ERROR wait without lock\n"); fflush(stdout); _exit(5); } x->owner = -1; wake_mutex_waiters(m); }
  ts[self].state = T_BLK_COND; ts[self].on = c;
  pick_next(); wait_turn();
  acquire_loop(m);
  pthread_mutex_unlock(&G);
  /* the signal record is cleared by the harness when the mutex it watches is acquired (not by locks of other mutexes
     taken inside that critical section, such as the thread pool's) */
  if (sched_acquire_hook) sched_acquire_hook(m);
}

void ldb_cond_signal(ldb_cond_t *c) {
  int i, cand[MAXT], n = 0;
  ensure_registered();
  if (t_nsig < MAXSIG) { t_sig[t_nsig] = c; t_sigkind[t_nsig] = 0; t_nsig++; }
  pthread_mutex_lock(&G);
  for (i = 0; i < nts; i++) if (ts[i].used && ts[i].state == T_BLK_COND && ts[i].on == c) cand[n++] = i;
  if (n) ts[cand[rnd() % (uint64_t)n]].state = T_RUNNABLE;
  yield_point();
  pthread_mutex_unlock(&G);
}

void ldb_cond_broadcast(ldb_cond_t *c) {
  int i;
  ensure_registered();
  if (t_nsig < MAXSIG) { t_sig[t_nsig] = c; t_sigkind[t_nsig] = 1; t_nsig++; }
  pthread_mutex_lock(&G);
  for (i = 0; i < nts; i++) if (ts[i].used && ts[i].state == T_BLK_COND && ts[i].on == c) ts[i].state = T_RUNNABLE;
  yield_point();
  pthread_mutex_unlock(&G);
}

static void *tramp(void *p) {
  int id = (int)(intptr_t)p, i;
  pthread_mutex_lock(&G); self = id; wait_turn(); pthread_mutex_unlock(&G);
  ts[id].start(ts[id].arg);
  pthread_mutex_lock(&G);
  ts[id].state = T_FINISHED;
  for (i = 0; i < nts; i++) if (ts[i].used && ts[i].state == T_BLK_JOIN && ts[i].on == (void *)&ts[id]) ts[i].state = T_RUNNABLE;
  pick_next();
  pthread_mutex_unlock(&G);
  return NULL;
}

void ldb_thread_create(ldb_thread_t *t, void (*start)(void *), void *arg) {
  int id;
  ensure_registered();
  pthread_mutex_lock(&G);
  id = nts++; ts[id].used = 1; ts[id].state = T_RUNNABLE; ts[id].start = start; ts[id].arg = arg; ts[id].prio = 1000 + (int)(rnd() % 1000);
  pthread_cond_init(&ts[id].cv, NULL);
  pthread_create(&ts[id].th, NULL, tramp, (void *)(intptr_t)id);
  t->handle = ts[id].th;
  yield_point();
  pthread_mutex_unlock(&G);
}
void ldb_thread_detach(ldb_thread_t *t) { pthread_detach(t->handle); }
void ldb_thread_join(ldb_thread_t *t) {
  int i, id = -1;
  ensure_registered();
  pthread_mutex_lock(&G);
  for (i = 0; i < nts; i++) if (ts[i].used && pthread_equal(ts[i].th, t->handle)) id = i;
  while (id >= 0 && ts[id].state != T_FINISHED) { ts[self].state = T_BLK_JOIN; ts[self].on = (void *)&ts[id]; pick_next(); wait_turn(); }
  pthread_mutex_unlock(&G);
  pthread_join(t->handle, NULL);
}

/* ldb_sleep_usec goes through select(): a scheduling point, no real sleeping */
int select(int n, fd_set *r, fd_set *w, fd_set *e, struct timeval *tv) {
  (void)n; (void)r; (void)w; (void)e; (void)tv;
  if (self >= 0) { pthread_mutex_lock(&G); yield_point(); pthread_mutex_unlock(&G); }
  return 0;
}
