/* forge: databases whose MANIFEST is forged (well-framed records, semantically arbitrary file metadata) opened, read, scanned,
 * compacted and written by the real code -- property C18 at database level: every call returns a status, the process neither
 * crashes, nor hangs, nor runs out of memory.
 *
 * stdin, one request per line:   forge <file>,<file>,...      with <file> = level:tbl:skhex:sseq:stype:lkhex:lseq:ltype:sizedelta
 *   tbl 0..2 = one of three real tables the harness built (k00..k09, k05..k14, k20..k29), 9 = a number with no file behind it
 * stdout, one line per request:  rc tokens printed by the child process ... -> exit=<n> | signal=<n>
 * Compiled against the scratch copy of /repo/src (ASan+UBSan, NDEBUG). */
#define _GNU_SOURCE
#include "common.h"
#include <unistd.h>
#include <dirent.h>
#include <signal.h>
#include <sys/wait.h>
#include <sys/stat.h>
#include "db_impl.h"
#include "version_edit.h"
#include "log_writer.h"
#include "dbformat.h"
#include "table/iterator.h"
#include "util/env.h"
#include "util/options.h"
#include "util/status.h"

static int unhex(const char *s, uint8_t *out, size_t cap) {
  size_t n = strlen(s), i; unsigned v;
  if (!strcmp(s, "-")) return 0;
  if (n % 2 || n / 2 > cap) return -1;
  for (i = 0; i < n / 2; i++) { if (sscanf(s + 2 * i, "%2x", &v) != 1) return -1; out[i] = (uint8_t)v; }
  return (int)(n / 2);
}

static void put_range(ldb_t *db, int lo, int hi) {
  char kb[16], vb[64]; int i;
  for (i = lo; i <= hi; i++) { ldb_slice_t k, v; sprintf(kb, "k%02d", i); sprintf(vb, "value-%02d-xxxxxxxxxxxxxxxx", i); k = ldb_string(kb); v = ldb_string(vb); ldb_put(db, &k, &v, 0); }
}

static void rm_rf(const char *dir) { char cmd[700]; snprintf(cmd, sizeof cmd, "rm -rf '%s'", dir); if (system(cmd)) {} }

static void handle(char *spec) {
  char dir[512], path[700]; const char *root = getenv("VERIF_SCRATCH"); ldb_t *db = NULL; ldb_dbopt_t opt = *ldb_dbopt_default; int rc, i, ntab = 0;
  unsigned long long nums[8], sizes[8]; DIR *d; struct dirent *e; struct stat sb; pid_t pid; int st;
  snprintf(dir, sizeof dir, "%s/lcdb-verif-forge-XXXXXX", root && *root ? root : "/var/tmp");
  if (!mkdtemp(dir)) { printf("err mkdtemp\n"); return; }
  opt.create_if_missing = 1; opt.compression = LDB_NO_COMPRESSION;
  for (i = 0; i < 3; i++) {   /* a reopen turns the log into a level-0 table */
    rc = ldb_open(dir, &opt, &db); if (rc) { printf("err setup open %d\n", rc); rm_rf(dir); return; }
    if (i == 0) put_range(db, 0, 9); else if (i == 1) put_range(db, 5, 14); else put_range(db, 20, 29);
    ldb_close(db); db = NULL;
  }
  rc = ldb_open(dir, &opt, &db); if (rc) { printf("err setup open %d\n", rc); rm_rf(dir); return; }
  ldb_close(db); db = NULL;
  d = opendir(dir);
  while (d && (e = readdir(d)) != NULL) { size_t n = strlen(e->d_name); if (n > 4 && !strcmp(e->d_name + n - 4, ".ldb") && ntab < 8) { nums[ntab] = strtoull(e->d_name, NULL, 10); snprintf(path, sizeof path, "%s/%s", dir, e->d_name); stat(path, &sb); sizes[ntab] = (unsigned long long)sb.st_size; ntab++; } }
  if (d) closedir(d);
  { int a, b; for (a = 0; a < ntab; a++) for (b = a + 1; b < ntab; b++) if (nums[b] < nums[a]) { unsigned long long t = nums[a]; nums[a] = nums[b]; nums[b] = t; t = sizes[a]; sizes[a] = sizes[b]; sizes[b] = t; } }
  if (ntab < 3) { printf("err setup tables %d\n", ntab); rm_rf(dir); return; }
  { ldb_edit_t edit; ldb_buffer_t rec; ldb_wfile_t *wf; ldb_writer_t w; FILE *f; char *tok, *save = NULL; int bad = 0;
    ldb_edit_init(&edit); ldb_buffer_init(&rec);
    ldb_edit_set_comparator_name(&edit, "leveldb.BytewiseComparator");
    ldb_edit_set_log_number(&edit, 900); ldb_edit_set_next_file(&edit, 901); ldb_edit_set_last_sequence(&edit, 5000);
    for (tok = strtok_r(spec, ",", &save); tok; tok = strtok_r(NULL, ",", &save)) {
      int level, tbl, stype, ltype; long long delta; unsigned long long sseq, lseq; char skh[200], lkh[200]; uint8_t skb[100], lkb[100]; int sn, ln;
      ldb_ikey_t sm, lg; ldb_slice_t sk, lk; unsigned long long num, size;
      if (sscanf(tok, "%d:%d:%199[^:]:%llu:%d:%199[^:]:%llu:%d:%lld", &level, &tbl, skh, &sseq, &stype, lkh, &lseq, &ltype, &delta) != 9) { bad = 1; break; }
      sn = unhex(skh, skb, sizeof skb); ln = unhex(lkh, lkb, sizeof lkb);
      if (sn < 0 || ln < 0 || level < 0 || level > 6) { bad = 1; break; }
      num = tbl >= 0 && tbl < 3 ? nums[tbl] : 777; size = tbl >= 0 && tbl < 3 ? sizes[tbl] : 4096;
      size = (unsigned long long)((long long)size + delta);
      ldb_ikey_init(&sm); ldb_ikey_init(&lg);
      sk.data = skb; sk.size = (size_t)sn; lk.data = lkb; lk.size = (size_t)ln;
      ldb_ikey_set(&sm, &sk, sseq, (ldb_valtype_t)stype); ldb_ikey_set(&lg, &lk, lseq, (ldb_valtype_t)ltype);
      ldb_edit_add_file(&edit, level, num, size, &sm, &lg);
      ldb_ikey_clear(&sm); ldb_ikey_clear(&lg);
    }
    if (bad) { printf("bad-op\n"); ldb_edit_clear(&edit); ldb_buffer_clear(&rec); rm_rf(dir); return; }
    ldb_edit_export(&rec, &edit);
    snprintf(path, sizeof path, "%s/MANIFEST-000899", dir);
    if (ldb_truncfile_create(path, &wf)) { printf("err manifest\n"); rm_rf(dir); return; }
    ldb_writer_init(&w, wf, 0); ldb_writer_add_record(&w, &rec); ldb_wfile_sync(wf); ldb_wfile_close(wf); ldb_wfile_destroy(wf);
    snprintf(path, sizeof path, "%s/CURRENT", dir); f = fopen(path, "w"); fputs("MANIFEST-000899\n", f); fclose(f);
    ldb_edit_clear(&edit); ldb_buffer_clear(&rec);
  }
  fflush(stdout);
  pid = fork();
  if (pid == 0) {
    static const char *probe[] = { "k00", "k05", "k09", "k14", "k25", "k99" };
    alarm(15);
    opt.create_if_missing = 0;
    rc = ldb_open(dir, &opt, &db); printf("open=%d", rc);
    if (rc == LDB_OK) {
      int round;
      for (round = 0; round < 2; round++) {
        ldb_iter_t *it; int n;
        for (i = 0; i < 6; i++) { ldb_slice_t k = ldb_string(probe[i]), v; rc = ldb_get(db, &k, &v, ldb_readopt_default); if (rc == LDB_OK) ldb_free(v.data); printf(" g%d", rc == LDB_OK ? 0 : rc == LDB_NOTFOUND ? 1 : 2); }
        it = ldb_iterator(db, ldb_readopt_default);
        for (n = 0, ldb_iter_first(it); ldb_iter_valid(it) && n < 2000; ldb_iter_next(it)) n++;
        printf(" f%d/%d", n, ldb_iter_status(it) != LDB_OK);
        for (n = 0, ldb_iter_last(it); ldb_iter_valid(it) && n < 2000; ldb_iter_prev(it)) n++;
        printf(" b%d/%d", n, ldb_iter_status(it) != LDB_OK);
        ldb_iter_destroy(it);
        if (round == 0) { ldb_slice_t k = ldb_string("k07"), v = ldb_string("later"); ldb_compact(db, NULL, NULL); printf(" compacted"); rc = ldb_put(db, &k, &v, 0); printf(" put=%d", rc != LDB_OK); }
      }
      ldb_close(db); db = NULL;
      rc = ldb_open(dir, &opt, &db); printf(" reopen=%d", rc != LDB_OK); if (rc == LDB_OK) ldb_close(db);
    }
    fflush(stdout);
    _exit(0);
  }
  waitpid(pid, &st, 0);
  if (WIFEXITED(st)) printf(" -> exit=%d\n", WEXITSTATUS(st)); else printf(" -> signal=%d\n", WTERMSIG(st));
  rm_rf(dir);
}

int main(void) {
  char *line = NULL; size_t cap = 0; ssize_t n;
  while ((n = getline(&line, &cap, stdin)) > 0) {
    while (n > 0 && (line[n - 1] == '\n' || line[n - 1] == '\r')) line[--n] = 0;
    if (!strncmp(line, "forge ", 6)) handle(line + 6); else printf("bad-op\n");
    fflush(stdout);
  }
  free(line);
  return 0;
}
