/* libc interposition: journal of the database's file-system calls, fault injection, crash-image
 * materialisation.  Included by wl.c (single translation unit).
 *
 * The interposers are defined in the executable, so calls from the statically linked repo code resolve
 * to them; they perform the real operation with raw system calls.  Only paths under g_jroot are
 * journalled / subject to faults.
 */
#ifndef VERIF_IOJOURNAL_H
#define VERIF_IOJOURNAL_H
#include <fcntl.h>
#include <stdarg.h>
#include <sys/syscall.h>
#include <sys/stat.h>
#include <sys/mman.h>
#include <pthread.h>
#include <time.h>

enum { J_CREATE, J_WRITE, J_SYNC, J_SYNCDIR, J_RENAME, J_UNLINK, J_MARK, J_LINK, J_OPENR, J_CLOSE, J_FAIL };
static const char *jkind_name[] = { "create", "write", "sync", "syncdir", "rename", "unlink", "mark", "link", "openr", "close", "fail" };

typedef struct jev {
  int kind;
  char a[64], b[64];     /* names relative to the database directory */
  unsigned char *data; size_t len;
  int trunc;
  long tag;              /* for write on a log: batch id completed by this write (or -1) */
  char note[96];         /* mark text */
} jev;

static jev *J = NULL; static int nJ = 0, capJ = 0, J_printed = 0;
static int g_journal = 0;
static char g_jroot[512] = "";
static pthread_mutex_t g_jm = PTHREAD_MUTEX_INITIALIZER;
#define MAXFD 4096
static char g_fdname[MAXFD][64];
static int g_fdwr[MAXFD];

/* fault injection */
static long g_fault_at = -1;       /* the k-th (0-based) faultable call fails */
static int g_fault_errno = 28;     /* ENOSPC */
static int g_fault_persistent = 0;
static int g_short_fd = -1;
static int g_fault_partial = 0;    /* a failing write first writes half of the bytes */
static long g_fault_count = 0;     /* faultable calls seen so far */
static long g_fault_fired = 0;
static int g_slow_tables = 0;      /* widen race windows: sleep 1 ms on every write to a table file (set in nowait mode) */
static char g_fault_kinds[64] = "";
static long g_kind_count[10];
static const char *g_kind_names[10] = { "open", "write", "sync", "rename", "unlink", "close", "mkdir", "link", "read", "mmap" };
static __thread int t_nofault = 0;   /* set while the harness itself reads files (table dumps) *//* comma list of call kinds to consider ("" = all): open,write,sync,rename,unlink,close,mkdir,link,read,mmap */

static const char *jrel(const char *p) {
  size_t n = strlen(g_jroot);
  if (n == 0 || strncmp(p, g_jroot, n) != 0) return NULL;
  if (p[n] == '/') return p + n + 1;
  if (p[n] == 0) return "";
  return NULL;
}

static int jadd(int kind, const char *a, const char *b, const void *d, size_t len, int trunc) {
  jev *e; int idx;
  pthread_mutex_lock(&g_jm);
  if (nJ == capJ) { capJ = capJ ? capJ * 2 : 1024; J = (jev *)realloc(J, capJ * sizeof(jev)); }
  idx = nJ;
  e = &J[nJ++]; memset(e, 0, sizeof(*e));
  e->kind = kind; e->tag = -1;
  if (a) snprintf(e->a, sizeof(e->a), "%s", a);
  if (b) snprintf(e->b, sizeof(e->b), "%s", b);
  if (d && len) { e->data = (unsigned char *)malloc(len); memcpy(e->data, d, len); }
  e->len = len; e->trunc = trunc;
  pthread_mutex_unlock(&g_jm);
  return idx;
}

static void jmark(const char *fmt, ...) {
  char buf[96]; va_list ap; int idx;
  if (!g_journal) return;
  va_start(ap, fmt); vsnprintf(buf, sizeof(buf), fmt, ap); va_end(ap);
  pthread_mutex_lock(&g_jm);
  if (nJ == capJ) { capJ = capJ ? capJ * 2 : 1024; J = (jev *)realloc(J, capJ * sizeof(jev)); }
  idx = nJ; memset(&J[idx], 0, sizeof(jev)); J[idx].kind = J_MARK; J[idx].tag = -1;
  snprintf(J[idx].note, sizeof(J[idx].note), "%s", buf);
  nJ++;
  pthread_mutex_unlock(&g_jm);
}

static int kind_enabled(const char *k) {
  if (!g_fault_kinds[0]) return 1;
  { const char *p = strstr(g_fault_kinds, k); return p != NULL; }
}

/* returns errno to inject (0 = none) */
static int fault_check(const char *kind, const char *rel) {
  long k;
  if (!g_journal || rel == NULL || t_nofault) return 0;
  if (!strcmp(rel, "LOG") || !strcmp(rel, "LOG.old")) return 0;
  { int i; for (i = 0; i < 10; i++) if (!strcmp(kind, g_kind_names[i])) { __sync_fetch_and_add(&g_kind_count[i], 1); break; } }
  if (!kind_enabled(kind)) return 0;
  /* the info log is not part of the database's data path */
  if (!strcmp(rel, "LOG") || !strcmp(rel, "LOG.old")) return 0;
  pthread_mutex_lock(&g_jm);
  k = g_fault_count++;
  pthread_mutex_unlock(&g_jm);
  if (g_fault_at < 0) return 0;
  if (k == g_fault_at || (g_fault_persistent && k > g_fault_at)) {
    int idx;
    g_fault_fired++;
    idx = jadd(J_FAIL, rel, kind, NULL, 0, 0);
    pthread_mutex_lock(&g_jm); J[idx].tag = g_fault_errno; pthread_mutex_unlock(&g_jm);
    return g_fault_errno;
  }
  return 0;
}

int open(const char *path, int flags, ...) {
  mode_t mode = 0; int fd; const char *rel = jrel(path); int fe;
  if (flags & O_CREAT) { va_list ap; va_start(ap, flags); mode = va_arg(ap, int); va_end(ap); }
  if (rel && (fe = fault_check("open", rel)) != 0) { errno = fe; return -1; }
  fd = syscall(SYS_openat, AT_FDCWD, path, flags, mode);
  if (fd >= 0 && fd < MAXFD) {
    g_fdname[fd][0] = 0; g_fdwr[fd] = 0;
    if (rel && g_journal) {
      snprintf(g_fdname[fd], sizeof(g_fdname[fd]), "%s", rel[0] ? rel : ".");
      if ((flags & O_ACCMODE) != O_RDONLY) { g_fdwr[fd] = 1; jadd(J_CREATE, rel, NULL, NULL, 0, (flags & O_TRUNC) != 0); }
    }
  }
  return fd;
}
int open64(const char *path, int flags, ...) {
  mode_t mode = 0;
  if (flags & O_CREAT) { va_list ap; va_start(ap, flags); mode = va_arg(ap, int); va_end(ap); }
  return open(path, flags, mode);
}

ssize_t write(int fd, const void *buf, size_t n) {
  ssize_t r; int fe;
  if (fd >= 0 && fd < MAXFD && g_fdname[fd][0] && g_journal) {
    if (g_short_fd == fd && g_fault_partial == 2) {
      /* second half of a "short write, then error" fault: the retry of the remainder fails */
      int idx; g_short_fd = -1; g_fault_fired++;
      idx = jadd(J_FAIL, g_fdname[fd], "write", NULL, 0, 0);
      pthread_mutex_lock(&g_jm); J[idx].tag = g_fault_errno; pthread_mutex_unlock(&g_jm);
      errno = g_fault_errno; return -1;
    }
    if ((fe = fault_check("write", g_fdname[fd])) != 0) {
      if (g_fault_partial == 2 && n > 1 && !g_fault_persistent) {
        /* what a filling disk does: this call transfers part of the data and reports the short count;
           the caller's retry of the rest gets the error */
        r = syscall(SYS_write, fd, buf, n / 2);
        if (r > 0) { jadd(J_WRITE, g_fdname[fd], NULL, buf, r, 0); g_short_fd = fd; g_fault_fired--; return r; }
      }
      if (g_fault_partial && n > 1) {
        r = syscall(SYS_write, fd, buf, n / 2);
        if (r > 0) jadd(J_WRITE, g_fdname[fd], NULL, buf, r, 0);
      }
      errno = fe; return -1;
    }
    if (g_slow_tables == 1 && strstr(g_fdname[fd], ".ldb") != NULL) { struct timespec ts; ts.tv_sec = 0; ts.tv_nsec = 1000000; syscall(SYS_nanosleep, &ts, NULL); }
    r = syscall(SYS_write, fd, buf, n);
    if (r > 0) jadd(J_WRITE, g_fdname[fd], NULL, buf, r, 0);
    return r;
  }
  return syscall(SYS_write, fd, buf, n);
}

static int do_sync(int fd) {
  int fe;
  if (fd >= 0 && fd < MAXFD && g_fdname[fd][0] && g_journal) {
    if ((fe = fault_check("sync", g_fdname[fd])) != 0) { errno = fe; return -1; }
    /* nowait mode: hold the background thread inside ldb_versions_apply (mutex released) long enough for the
       foreground writer to fill the write buffer and switch logs meanwhile */
    if (g_slow_tables && !strncmp(g_fdname[fd], "MANIFEST", 8)) { struct timespec ts; ts.tv_sec = 0; ts.tv_nsec = 6000000; syscall(SYS_nanosleep, &ts, NULL); }
    { int r = syscall(SYS_fsync, fd); if (r == 0) jadd(g_fdname[fd][0] == '.' ? J_SYNCDIR : J_SYNC, g_fdname[fd], NULL, NULL, 0, 0); return r; }
  }
  return syscall(SYS_fsync, fd);
}
int fsync(int fd) { return do_sync(fd); }
int fdatasync(int fd) { return do_sync(fd); }

int close(int fd) {
  int fe;
  if (fd >= 0 && fd < MAXFD && g_fdname[fd][0]) {
    char nm[64]; int wr = g_fdwr[fd];
    snprintf(nm, sizeof(nm), "%s", g_fdname[fd]);
    g_fdname[fd][0] = 0; g_fdwr[fd] = 0;
    if (g_journal && wr && (fe = fault_check("close", nm)) != 0) { syscall(SYS_close, fd); errno = fe; return -1; }
  }
  return syscall(SYS_close, fd);
}

int rename(const char *a, const char *b) {
  const char *ra = jrel(a), *rb = jrel(b); int r, fe;
  char ca[64], cb[64];
  if (ra) snprintf(ca, sizeof(ca), "%s", ra);
  if (rb) snprintf(cb, sizeof(cb), "%s", rb);
  if (ra && rb && g_journal && strcmp(ca, "LOG") && (fe = fault_check("rename", ca)) != 0) { errno = fe; return -1; }
  r = syscall(SYS_renameat, AT_FDCWD, a, AT_FDCWD, b);
  if (r == 0 && ra && rb && g_journal) jadd(J_RENAME, ca, cb, NULL, 0, 0);
  return r;
}

int unlink(const char *a) {
  const char *ra = jrel(a); int r, fe; char ca[64];
  if (ra) snprintf(ca, sizeof(ca), "%s", ra);
  if (ra && g_journal && (fe = fault_check("unlink", ca)) != 0) { errno = fe; return -1; }
  r = syscall(SYS_unlinkat, AT_FDCWD, a, 0);
  if (r == 0 && ra && g_journal) jadd(J_UNLINK, ca, NULL, NULL, 0, 0);
  return r;
}

int link(const char *a, const char *b) {
  const char *ra = jrel(a); int r, fe;
  if (ra && g_journal && (fe = fault_check("link", ra)) != 0) { errno = fe; return -1; }
  r = syscall(SYS_linkat, AT_FDCWD, a, AT_FDCWD, b, 0);
  return r;
}

int mkdir(const char *a, mode_t m) {
  const char *ra = jrel(a); int fe;
  if (ra && g_journal && (fe = fault_check("mkdir", "")) != 0) { errno = fe; return -1; }
  return syscall(SYS_mkdirat, AT_FDCWD, a, m);
}

ssize_t read(int fd, void *buf, size_t n) {
  int fe;
  if (fd >= 0 && fd < MAXFD && g_fdname[fd][0] && g_journal && (fe = fault_check("read", g_fdname[fd])) != 0) { errno = fe; return -1; }
  return syscall(SYS_read, fd, buf, n);
}
ssize_t pread(int fd, void *buf, size_t n, off_t off) {
  int fe;
  if (fd >= 0 && fd < MAXFD && g_fdname[fd][0] && g_journal && (fe = fault_check("read", g_fdname[fd])) != 0) { errno = fe; return -1; }
  return syscall(SYS_pread64, fd, buf, n, off);
}
ssize_t pread64(int fd, void *buf, size_t n, off_t off) { return pread(fd, buf, n, off); }

/* ------------------------------------------------------------------ shadow file system */
typedef struct sbody { unsigned char *d; size_t len, synced, cap; } sbody;
typedef struct sfs {
  sbody *bodies; int nb, capb;
  struct { char name[64]; int id; } dir[512]; int nd;          /* volatile directory */
  struct { int kind; char a[64], b[64]; int id; } ops[8192]; int nops; int ops_synced;
} sfs;

static void sfs_init(sfs *s) { memset(s, 0, sizeof(*s)); }
static void sfs_free(sfs *s) { int i; for (i = 0; i < s->nb; i++) free(s->bodies[i].d); free(s->bodies); memset(s, 0, sizeof(*s)); }
static int sfs_lookup(sfs *s, const char *n) { int i; for (i = 0; i < s->nd; i++) if (!strcmp(s->dir[i].name, n)) return i; return -1; }
static int sfs_newbody(sfs *s) {
  if (s->nb == s->capb) { s->capb = s->capb ? s->capb * 2 : 64; s->bodies = (sbody *)realloc(s->bodies, s->capb * sizeof(sbody)); }
  memset(&s->bodies[s->nb], 0, sizeof(sbody)); return s->nb++;
}
static void sfs_dir_set(sfs *s, const char *n, int id) {
  int i = sfs_lookup(s, n);
  if (i < 0) { i = s->nd++; snprintf(s->dir[i].name, 64, "%s", n); }
  s->dir[i].id = id;
}
static void sfs_dir_del(sfs *s, const char *n) { int i = sfs_lookup(s, n); if (i >= 0) { s->dir[i] = s->dir[s->nd - 1]; s->nd--; } }
static void sfs_addop(sfs *s, int kind, const char *a, const char *b, int id) {
  if (s->nops < 8192) { s->ops[s->nops].kind = kind; snprintf(s->ops[s->nops].a, 64, "%s", a ? a : ""); snprintf(s->ops[s->nops].b, 64, "%s", b ? b : ""); s->ops[s->nops].id = id; s->nops++; }
}

static void sfs_apply(sfs *s, const jev *e) {
  int i, id;
  switch (e->kind) {
    case J_CREATE:
      i = sfs_lookup(s, e->a);
      if (i >= 0 && !e->trunc) break;                 /* reopened for append: same body */
      id = sfs_newbody(s); sfs_dir_set(s, e->a, id); sfs_addop(s, J_CREATE, e->a, NULL, id);
      break;
    case J_WRITE:
      i = sfs_lookup(s, e->a);
      if (i >= 0) {
        sbody *b = &s->bodies[s->dir[i].id];
        if (b->len + e->len > b->cap) { b->cap = (b->len + e->len) * 2 + 64; b->d = (unsigned char *)realloc(b->d, b->cap); }
        memcpy(b->d + b->len, e->data, e->len); b->len += e->len;
      }
      break;
    case J_SYNC:
      i = sfs_lookup(s, e->a);
      if (i >= 0) s->bodies[s->dir[i].id].synced = s->bodies[s->dir[i].id].len;
      s->ops_synced = s->nops;
      break;
    case J_SYNCDIR: s->ops_synced = s->nops; break;
    case J_RENAME:
      i = sfs_lookup(s, e->a);
      if (i >= 0) { id = s->dir[i].id; sfs_dir_del(s, e->a); sfs_dir_set(s, e->b, id); sfs_addop(s, J_RENAME, e->a, e->b, id); }
      break;
    case J_UNLINK: sfs_dir_del(s, e->a); sfs_addop(s, J_UNLINK, e->a, NULL, -1); break;
    default: break;
  }
}

#include <dirent.h>
/* start the shadow file system from an existing directory: every file fully synced, no pending directory operations */
static void sfs_init_from_dir(sfs *s, const char *dir) {
  DIR *d = opendir(dir); struct dirent *de; char path[1200];
  sfs_init(s);
  if (!d) return;
  while ((de = readdir(d)) != NULL) {
    struct stat st; int id, fd; sbody *b;
    if (!strcmp(de->d_name, ".") || !strcmp(de->d_name, "..")) continue;
    snprintf(path, sizeof(path), "%s/%s", dir, de->d_name);
    if (stat(path, &st) != 0 || !S_ISREG(st.st_mode)) continue;
    id = sfs_newbody(s); b = &s->bodies[id];
    b->cap = (size_t)st.st_size + 64; b->d = (unsigned char *)malloc(b->cap); b->len = 0;
    fd = syscall(SYS_openat, AT_FDCWD, path, O_RDONLY, 0);
    if (fd >= 0) { ssize_t r; while (b->len < (size_t)st.st_size && (r = syscall(SYS_read, fd, b->d + b->len, (size_t)st.st_size - b->len)) > 0) b->len += r; syscall(SYS_close, fd); }
    b->synced = b->len;
    sfs_dir_set(s, de->d_name, id); sfs_addop(s, J_CREATE, de->d_name, NULL, id);
  }
  closedir(d);
  s->ops_synced = s->nops;
}

static uint64_t g_crng = 88172645463325252ULL;
static uint64_t crnd(void) { g_crng ^= g_crng << 13; g_crng ^= g_crng >> 7; g_crng ^= g_crng << 17; return g_crng; }

static void raw_write_file(const char *path, const unsigned char *d, size_t n) {
  int fd = syscall(SYS_openat, AT_FDCWD, path, O_WRONLY | O_CREAT | O_TRUNC, 0644);
  size_t off = 0;
  if (fd < 0) return;
  while (off < n) { ssize_t r = syscall(SYS_write, fd, d + off, n - off); if (r <= 0) break; off += r; }
  syscall(SYS_close, fd);
}

/* variant: 0 = kill image (everything written, directory as issued)
 *          1 = minimal power-loss image (directory ops up to the last sync, every file cut to its synced length)
 *          2 = directory ahead of data (all directory ops, files cut to their synced length)
 *          3 = torn tails (all directory ops; every file cut at a random byte between its synced length and its length)
 *          4 = random admissible image (random directory prefix >= synced, random cut per file)
 *          5 = hole: the kill image, except that in every log one 32 KiB-aligned block lying wholly in the not yet fsynced
 *              part of the file reads as zeros (delayed allocation: the size was updated, the data block never written) */
static void materialise_from(const char *basedir, int n, int variant, const char *dst);
static void materialise(int n, int variant, const char *dst) { materialise_from(NULL, n, variant, dst); }
/* basedir != NULL: the journal describes what happened to a copy of that directory (nested crash during recovery) */
static void materialise_from(const char *basedir, int n, int variant, const char *dst) {
  sfs s, d; int i, j, nops_keep; char cmd[1200], path[1200];
  if (basedir) sfs_init_from_dir(&s, basedir); else sfs_init(&s);
  for (i = 0; i < n; i++) sfs_apply(&s, &J[i]);
  /* directory of the image: replay the first nops_keep directory operations */
  if (variant == 0 || variant == 2 || variant == 3 || variant == 5) nops_keep = s.nops;
  else if (variant == 1) nops_keep = s.ops_synced;
  else nops_keep = s.ops_synced + (int)(crnd() % (uint64_t)(s.nops - s.ops_synced + 1));
  sfs_init(&d);
  for (j = 0; j < nops_keep; j++) {
    if (s.ops[j].kind == J_CREATE) sfs_dir_set(&d, s.ops[j].a, s.ops[j].id);
    else if (s.ops[j].kind == J_RENAME) { int k = sfs_lookup(&d, s.ops[j].a); if (k >= 0) { int id = d.dir[k].id; sfs_dir_del(&d, s.ops[j].a); sfs_dir_set(&d, s.ops[j].b, id); } }
    else if (s.ops[j].kind == J_UNLINK) sfs_dir_del(&d, s.ops[j].a);
  }
  snprintf(cmd, sizeof(cmd), "rm -rf '%s' && mkdir -p '%s'", dst, dst);
  if (system(cmd) != 0) { /* ignore */ }
  for (i = 0; i < d.nd; i++) {
    sbody *b = &s.bodies[d.dir[i].id]; size_t len;
    if (variant == 0 || variant == 5) len = b->len;
    else if (variant == 1 || variant == 2) len = b->synced;
    else len = b->synced + (size_t)(crnd() % (uint64_t)(b->len - b->synced + 1));
    if (!strcmp(d.dir[i].name, "LOCK") || !strncmp(d.dir[i].name, "LOG", 3)) continue;
    snprintf(path, sizeof(path), "%s/%s", dst, d.dir[i].name);
    if (variant == 5 && strstr(d.dir[i].name, ".log") != NULL) {
      size_t first = (b->synced + 32767) / 32768, last = b->len / 32768;     /* aligned blocks [first, last) lie in [synced, len) */
      if (last > first) {
        size_t blk = first + (size_t)(crnd() % (uint64_t)(last - first));
        uint8_t *copy = malloc(len ? len : 1);
        memcpy(copy, b->d, len); memset(copy + blk * 32768, 0, 32768);
        raw_write_file(path, copy, len); free(copy);
        continue;
      }
    }
    raw_write_file(path, b->d, len);
  }
  sfs_free(&s);
}

static void jprint_new(void) {
  int i;
  pthread_mutex_lock(&g_jm);      /* background threads may be appending to the journal */
  for (i = J_printed; i < nJ; i++) {
    jev *e = &J[i];
    printf("j %d %s", i, jkind_name[e->kind]);
    switch (e->kind) {
      case J_CREATE: printf(" %s %d", e->a, e->trunc); break;
      case J_WRITE: {
        int small = !strncmp(e->a, "MANIFEST", 8) || !strcmp(e->a, "CURRENT") || strstr(e->a, ".dbtmp") != NULL;
        printf(" %s %lu %ld ", e->a, (unsigned long)e->len, e->tag);
        if (small) print_hex(stdout, e->data, e->len); else printf("#");
        break;
      }
      case J_SYNC: case J_SYNCDIR: case J_UNLINK: printf(" %s", e->a[0] ? e->a : "."); break;
      case J_RENAME: printf(" %s %s", e->a, e->b); break;
      case J_MARK: printf(" %s", e->note); break;
      case J_FAIL: printf(" %s %s %ld", e->a[0] ? e->a : ".", e->b, e->tag); break;
      default: break;
    }
    fputc('\n', stdout);
  }
  J_printed = nJ;
  pthread_mutex_unlock(&g_jm);
}

static void jreset(void) {
  int i; for (i = 0; i < nJ; i++) free(J[i].data);
  nJ = 0; J_printed = 0;
}
#endif
