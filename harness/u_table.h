/* whole table files: ldb_tablegen_* writing a real file, ldb_table_open, ldb_tableiter_create (two-level
 * iterator), ldb_table_internal_get, ldb_read_block behind them.  Public API only.
 *
 * Every read request is executed twice, on a mapped file (ldb_randfile_create(.., 1)) and on a pread(2)
 * file (.., 0); the two renderings must agree ("paths-disagree" otherwise). */
#include <unistd.h>
#include "util/env.h"
#include "util/options.h"
#include "util/comparator.h"
#include "util/bloom.h"
#include "table/table.h"
#include "table/table_builder.h"
#include "table/iterator.h"
#include "dbformat.h"

#if defined(__SANITIZE_ADDRESS__)
/* a mutated handle can ask ldb_read_block (pread path) for a buffer of up to 2^64-6 bytes; keep the
 * sanitizer's allocator from poisoning terabytes of shadow: such requests fail (-> LDB_ENOMEM) */
const char *__asan_default_options(void) { return "max_allocation_size_mb=2100:allocator_may_return_null=1"; }
#endif

typedef struct tbl_opts {
  ldb_dbopt_t db;
  ldb_comparator_t ikc;
  ldb_bloom_t bloom, ifp;
} tbl_opts;

/* "bs=<n>,ri=<n>,comp=<0|1>,fb=<bits|0>,cmp=<bw|rev|len>" */
static int tbl_parse_opts(const char *s, tbl_opts *o) {
  unsigned long long bs = 0, ri = 0, comp = 0, fb = 0; char cn[8]; int used = 0;
  const ldb_comparator_t *uc;
  if (sscanf(s, "bs=%llu,ri=%llu,comp=%llu,fb=%llu,cmp=%7[a-z]%n", &bs, &ri, &comp, &fb, cn, &used) != 5) return 0;
  if (s[used] != 0 || comp > 1 || ri == 0 || ri > 0x7fffffff || fb > 0x7fffffff) return 0;
  uc = parse_cmp(cn);
  if (!uc) return 0;
  o->db = *ldb_dbopt_default;
  ldb_ikc_init(&o->ikc, uc);
  o->db.comparator = &o->ikc;
  o->db.block_size = (size_t)bs;
  o->db.block_restart_interval = (int)ri;
  o->db.compression = comp ? LDB_SNAPPY_COMPRESSION : LDB_NO_COMPRESSION;
  o->db.block_cache = NULL;
  o->db.filter_policy = NULL;
  if (fb) {
    ldb_bloom_init(&o->bloom, (int)fb);
    ldb_ifp_init(&o->ifp, &o->bloom);
    o->db.filter_policy = &o->ifp;
  }
  return 1;
}

static void tbl_path(char *buf, size_t n) {
  const char *d = getenv("VERIF_TMP");
  if (!d || !*d) d = "/var/tmp";
  snprintf(buf, n, "%s/verif-tbl-%ld.ldb", d, (long)getpid());
}

static int tbl_write_file(const char *path, const vbuf *b) {
  FILE *f = fopen(path, "wb"); int ok = 1;
  if (!f) return 0;
  if (b->n && fwrite(b->p, 1, b->n, f) != b->n) ok = 0;
  if (fclose(f) != 0) ok = 0;
  return ok;
}

static int tbl_read_file(const char *path, vbuf *b) {
  FILE *f = fopen(path, "rb"); char tmp[65536]; size_t r;
  b->n = 0;
  if (!f) return 0;
  while ((r = fread(tmp, 1, sizeof(tmp), f)) > 0) vb_append(b, tmp, r);
  fclose(f);
  return 1;
}

/* entries "ik=v;ik=v;..." through the real builder into the file at path, then the file's bytes into out.
 * returns 0 on syntax error, -1 on an I/O problem of the harness itself */
static int tbl_build(const tbl_opts *o, char *entries, const char *path, vbuf *out) {
  static char *ef[MAXL]; int n = split_on(entries, ';', ef, MAXL), i, ok = 1, rc;
  ldb_wfile_t *wf; ldb_tablegen_t *tb; uint64_t size;
  /* syntax check first: nothing is written for a bad request */
  for (i = 0; i < n; i++) {
    char *eq = strchr(ef[i], '=');
    if (!eq || strchr(eq + 1, '=')) return 0;
    *eq = 0;
    ok = parse_bytes(ef[i], &g_a) && g_a.n >= 8 && parse_bytes(eq + 1, &g_b);
    *eq = '=';
    if (!ok) return 0;
  }
  if (ldb_truncfile_create(path, &wf) != LDB_OK) return -1;
  tb = ldb_tablegen_create(&o->db, wf);
  for (i = 0; i < n; i++) {
    char *eq = strchr(ef[i], '='); ldb_slice_t k, v;
    *eq = 0;
    parse_bytes(ef[i], &g_a); parse_bytes(eq + 1, &g_b);
    vb_reserve(&g_a, 1); vb_reserve(&g_b, 1);
    k.data = g_a.p; k.size = g_a.n; k.alloc = 0;
    v.data = g_b.p; v.size = g_b.n; v.alloc = 0;
    ldb_tablegen_add(tb, &k, &v);
  }
  rc = ldb_tablegen_finish(tb);
  size = ldb_tablegen_size(tb);
  ldb_tablegen_destroy(tb);
  if (rc == LDB_OK) rc = ldb_wfile_close(wf);
  ldb_wfile_destroy(wf);
  if (rc != LDB_OK) return -1;
  if (!tbl_read_file(path, out)) return -1;
  if (out->n != size) return -1;
  return 1;
}

static int tbl_mutate(vbuf *d, char *muts) {
  static char *mf[MAXL]; int nm = split_on(muts, ',', mf, MAXL), i; size_t j;
  for (i = 0; i < nm; i++) {
    unsigned long long a = 0, b = 0; char k = mf[i][0];
    if (k == 't') { if (sscanf(mf[i], "t:%llu", &a) != 1) return 0; if (a < d->n) d->n = a; }
    else {
      if (mf[i][1] != ':' || sscanf(mf[i] + 1, ":%llu:%llu", &a, &b) != 2) return 0;
      if (k == 's') { if (a < d->n) d->p[a] = (uint8_t)b; }
      else if (k == 'x') { if (a < d->n) d->p[a] ^= (uint8_t)b; }
      else if (k == 'e') { if (a < d->n) d->p[d->n - 1 - a] ^= (uint8_t)b; }
      else if (k == 'z') { for (j = a; j < d->n && j - a < b; j++) d->p[j] = 0; }
      else return 0;
    }
  }
  return 1;
}

static const char *tbl_st(int rc) {
  if (rc == LDB_OK) return "ok";
  if (rc == LDB_CORRUPTION) return "corrupt";
  return "ioerr";
}

static void tbl_show_state(FILE *out, ldb_iter_t *it) {
  int st = ldb_iter_status(it);
  if (ldb_iter_valid(it)) {
    ldb_slice_t k = ldb_iter_key(it), v = ldb_iter_value(it);
    fputs("1,", out); show_bytes(out, k.data, k.size); fputc(',', out);
    show_bytes(out, v.data, v.size);
  } else fputs("0,-,-", out);
  fprintf(out, ",%s", tbl_st(st));
}

/* syntax of "F,L,N,P,S:k,GE:k,GT:k,LE:k,LT:k" (destroys nothing) */
static int tbl_ops_ok(const char *ops) {
  char *copy = strdup(ops); static char *of[MAXL]; int no = split_on(copy, ',', of, MAXL), i, ok = 1;
  for (i = 0; i < no && ok; i++) {
    const char *o = of[i]; const char *colon = strchr(o, ':');
    if (!colon) { if (strcmp(o, "F") && strcmp(o, "L") && strcmp(o, "N") && strcmp(o, "P")) ok = 0; }
    else {
      size_t l = (size_t)(colon - o);
      if (!((l == 1 && o[0] == 'S') || (l == 2 && (!strncmp(o, "GE", 2) || !strncmp(o, "GT", 2) || !strncmp(o, "LE", 2) || !strncmp(o, "LT", 2))))) ok = 0;
      else if (!parse_bytes(colon + 1, &g_a)) ok = 0;
    }
  }
  free(copy);
  return ok;
}

static void tbl_run_ops(FILE *out, ldb_iter_t *it, const char *ops) {
  char *copy = strdup(ops); static char *of[MAXL]; int no = split_on(copy, ',', of, MAXL), i;
  if (no == 0) fputc('.', out);
  for (i = 0; i < no; i++) {
    const char *o = of[i]; const char *colon = strchr(o, ':');
    if (i) fputc(';', out);
    if (!colon) {
      if (o[0] == 'F') ldb_iter_first(it);
      else if (o[0] == 'L') ldb_iter_last(it);
      else {
        if (!ldb_iter_valid(it)) { fputs("skip", out); continue; }
        if (o[0] == 'N') ldb_iter_next(it); else ldb_iter_prev(it);
      }
    } else {
      ldb_slice_t t; uint8_t *tk;
      parse_bytes(colon + 1, &g_a);
      tk = exact_copy(g_a.p, g_a.n);
      t.data = tk; t.size = g_a.n; t.alloc = 0;
      if (o[0] == 'S') ldb_iter_seek(it, &t);
      else if (o[0] == 'G' && o[1] == 'E') ldb_iter_seek_ge(it, &t);
      else if (o[0] == 'G') ldb_iter_seek_gt(it, &t);
      else if (o[1] == 'E') ldb_iter_seek_le(it, &t);
      else ldb_iter_seek_lt(it, &t);
      free(tk);
    }
    tbl_show_state(out, it);
  }
  free(copy);
}

static void vb_printf_bytes(vbuf *b, const uint8_t *p, size_t n) {
  char tmp[128]; size_t i;
  if (n == 0) { vb_push(b, '-'); return; }
  if (n <= 40) { for (i = 0; i < n; i++) { sprintf(tmp, "%02x", p[i]); vb_append(b, tmp, 2); } }
  else { int l = sprintf(tmp, "#%lu:%016llx", (unsigned long)n, (unsigned long long)fnv64(p, n)); vb_append(b, tmp, (size_t)l); }
}

static void tbl_scan(FILE *out, ldb_iter_t *it) {
  static vbuf r; size_t count = 0;
  r.n = 0;
  for (ldb_iter_first(it); ldb_iter_valid(it); ldb_iter_next(it)) {
    ldb_slice_t k = ldb_iter_key(it), v = ldb_iter_value(it);
    if (count) vb_push(&r, ';');
    vb_printf_bytes(&r, k.data, k.size); vb_push(&r, '='); vb_printf_bytes(&r, v.data, v.size);
    count++;
  }
  if (count == 0) fputc('.', out);
  else if (count <= 6) fwrite(r.p, 1, r.n, out);
  else fprintf(out, "#%lu:%016llx", (unsigned long)count, (unsigned long long)fnv64(r.p, r.n));
  fprintf(out, " %s", tbl_st(ldb_iter_status(it)));
}

typedef struct tbl_saver { int called; vbuf k, v; } tbl_saver;
static tbl_saver g_saver;
static void tbl_save(void *arg, const ldb_slice_t *k, const ldb_slice_t *v) {
  tbl_saver *s = (tbl_saver *)arg;
  s->called++;
  s->k.n = 0; vb_append(&s->k, k->data, k->size);
  s->v.n = 0; vb_append(&s->v, v->data, v->size);
}

/* action: 's' scan, 'g' get (arg = key bytes text), 'o' ops (arg = ops text) */
static void tbl_read_once(FILE *out, const tbl_opts *o, const char *path, uint64_t size, int use_mmap,
                          int verify, int paranoid, int action, const char *arg) {
  ldb_dbopt_t db = o->db; ldb_readopt_t ro = *ldb_readopt_default;
  ldb_rfile_t *rf = NULL; ldb_table_t *t = NULL; int rc;
  db.paranoid_checks = paranoid;
  db.use_mmap = use_mmap;
  ro.verify_checksums = verify;
  rc = ldb_randfile_create(path, &rf, use_mmap);
  if (rc != LDB_OK) { fprintf(out, "harness-open-failed"); return; }
  if (use_mmap != ldb_rfile_mapped(rf)) { fprintf(out, "harness-mmap-mode"); ldb_rfile_destroy(rf); return; }
  rc = ldb_table_open(&db, rf, size, &t);
  if (rc != LDB_OK) { fprintf(out, "open:%s", tbl_st(rc)); ldb_rfile_destroy(rf); return; }
  if (action == 's' || action == 'o') {
    ldb_iter_t *it = ldb_tableiter_create(t, &ro);
    if (action == 's') tbl_scan(out, it); else tbl_run_ops(out, it, arg);
    ldb_iter_destroy(it);
  } else {
    ldb_slice_t k; uint8_t *kc;
    parse_bytes(arg, &g_a);
    kc = exact_copy(g_a.p, g_a.n);
    k.data = kc; k.size = g_a.n; k.alloc = 0;
    g_saver.called = 0;
    rc = ldb_table_internal_get(t, &ro, &k, &g_saver, tbl_save);
    fputs(tbl_st(rc), out);
    if (g_saver.called > 1) fputs(" called-twice", out);
    if (g_saver.called) {
      fputs(" found ", out); show_bytes(out, g_saver.k.p, g_saver.k.n);
      fputc(' ', out); show_bytes(out, g_saver.v.p, g_saver.v.n);
    } else fputs(" none", out);
    free(kc);
  }
  ldb_table_destroy(t);
  ldb_rfile_destroy(rf);
}

static void tbl_read(const tbl_opts *o, const char *path, uint64_t size, int verify, int paranoid,
                     int action, const char *arg) {
  char *m1 = NULL, *m2 = NULL; size_t n1 = 0, n2 = 0; FILE *f;
  /* an empty file cannot be mapped (ldb_randfile_create fails before the table code is reached) */
  f = open_memstream(&m1, &n1); tbl_read_once(f, o, path, size, size != 0, verify, paranoid, action, arg); fclose(f);
  f = open_memstream(&m2, &n2); tbl_read_once(f, o, path, size, 0, verify, paranoid, action, arg); fclose(f);
  if (n1 != n2 || memcmp(m1, m2, n1)) printf("paths-disagree mmap[%s] pread[%s]", m1, m2);
  else fputs(m1, stdout);
  free(m1); free(m2);
}

static int handle_table(char **f, int nf) {
  static vbuf file; static tbl_opts o; char path[4096]; int r, verify = 0, paranoid = 0;
  if (nf < 3 || f[0][0] != 't') return 0;
  if (strcmp(f[0], "tbuild") && strcmp(f[0], "tscan") && strcmp(f[0], "tops") && strcmp(f[0], "tget") && strcmp(f[0], "tmut")) return 0;
  tbl_path(path, sizeof(path));
  if (nf == 3 && !strcmp(f[0], "tbuild")) {
    if (!tbl_parse_opts(f[1], &o) || !(r = tbl_build(&o, f[2], path, &file))) { printf("bad-op"); return 1; }
    if (r < 0) printf("harness-io-error");
    else { show_bytes(stdout, file.p, file.n); printf(" %lu", (unsigned long)file.n); }
  } else if (nf == 5 && !strcmp(f[0], "tscan")) {
    if (!tbl_parse_opts(f[1], &o) || !parse01(f[3], &verify) || !parse01(f[4], &paranoid) || !(r = tbl_build(&o, f[2], path, &file))) { printf("bad-op"); return 1; }
    if (r < 0) printf("harness-io-error"); else tbl_read(&o, path, file.n, verify, paranoid, 's', NULL);
  } else if (nf == 4 && !strcmp(f[0], "tops")) {
    if (!tbl_parse_opts(f[1], &o) || !tbl_ops_ok(f[3]) || !(r = tbl_build(&o, f[2], path, &file))) { printf("bad-op"); return 1; }
    if (r < 0) printf("harness-io-error"); else tbl_read(&o, path, file.n, 0, 0, 'o', f[3]);
  } else if (nf == 4 && !strcmp(f[0], "tget")) {
    if (!tbl_parse_opts(f[1], &o) || !parse_bytes(f[3], &g_a) || !(r = tbl_build(&o, f[2], path, &file))) { printf("bad-op"); return 1; }
    if (r < 0) printf("harness-io-error"); else tbl_read(&o, path, file.n, 0, 0, 'g', f[3]);
  } else if ((nf == 7 || nf == 8) && !strcmp(f[0], "tmut")) {
    int action = 0; const char *arg = NULL;
    if (nf == 7 && !strcmp(f[6], "scan")) action = 's';
    else if (nf == 8 && !strcmp(f[6], "get") && parse_bytes(f[7], &g_a)) { action = 'g'; arg = f[7]; }
    else if (nf == 8 && !strcmp(f[6], "ops") && tbl_ops_ok(f[7])) { action = 'o'; arg = f[7]; }
    if (!action || !tbl_parse_opts(f[1], &o) || !parse01(f[4], &verify) || !parse01(f[5], &paranoid)) { printf("bad-op"); return 1; }
    { /* mutation syntax is checked on a scratch copy before anything is built */
      static vbuf scratch; char *mc = strdup(f[3]); scratch.n = 0; vb_reserve(&scratch, 1);
      r = tbl_mutate(&scratch, mc); free(mc);
      if (!r) { printf("bad-op"); return 1; }
    }
    if (!(r = tbl_build(&o, f[2], path, &file))) { printf("bad-op"); return 1; }
    if (r < 0) { printf("harness-io-error"); unlink(path); return 1; }
    tbl_mutate(&file, f[3]);
    if (!tbl_write_file(path, &file)) { printf("harness-io-error"); unlink(path); return 1; }
    show_bytes(stdout, file.p, file.n); fputc(' ', stdout);
    tbl_read(&o, path, file.n, verify, paranoid, action, arg);
  } else { printf("bad-op"); }
  unlink(path);
  return 1;
}
