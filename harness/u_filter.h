/* hash, bloom filter, filter block builder/reader, internal filter policy, block handle, footer */
#include "util/hash.h"
#include "util/bloom.h"
#include "util/array.h"
#include "table/filter_block.h"
#include "table/format.h"
#include "dbformat.h"

#define FKMAX 16384   /* keys per list */
#define FBMAX 4096    /* data blocks per filter spec */

/* key storage: all key bytes of one request live in g_fk_store; slices are fixed up afterwards */
static vbuf g_fk_store, g_fk_tmp, g_fk_out;
static size_t g_fk_off[FKMAX + 1];
static ldb_slice_t g_fk_slices[FKMAX];
static size_t g_fk_n;

static void fk_reset(void) { g_fk_store.n = 0; g_fk_n = 0; g_fk_off[0] = 0; }

/* append the keys of a comma list ("." = none); returns 0 on syntax error */
static int fk_add_list(char *s) {
  static char *kf[FKMAX]; int n = split_on(s, ',', kf, FKMAX), i;
  for (i = 0; i < n; i++) {
    if (g_fk_n >= FKMAX) return 0;
    if (!parse_bytes(kf[i], &g_fk_tmp)) return 0;
    vb_append(&g_fk_store, g_fk_tmp.p, g_fk_tmp.n);
    g_fk_n++;
    g_fk_off[g_fk_n] = g_fk_store.n;
  }
  return 1;
}

static void fk_fix_slices(void) {
  size_t i;
  vb_reserve(&g_fk_store, 1);   /* non-NULL base even when every key is empty */
  for (i = 0; i < g_fk_n; i++) {
    g_fk_slices[i].data = g_fk_store.p + g_fk_off[i];
    g_fk_slices[i].size = g_fk_off[i + 1] - g_fk_off[i];
    g_fk_slices[i].alloc = 0;
  }
}

static void set_slice(ldb_slice_t *s, vbuf *b) {
  vb_reserve(b, 1);
  s->data = b->p; s->size = b->n; s->alloc = 0;
}

/* policies: bloom(bits) or InternalFilterPolicy(bloom(bits)) */
static ldb_bloom_t g_bloom, g_ifp;
static const ldb_bloom_t *make_policy(int ifp, int bits) {
  ldb_bloom_init(&g_bloom, bits);
  if (!ifp) return &g_bloom;
  ldb_ifp_init(&g_ifp, &g_bloom);
  return &g_ifp;
}

/* build a filter block from "off:key,key;off:key;..." into out; returns 0 on syntax error */
static int build_filter_block(const ldb_bloom_t *policy, char *spec, vbuf *out) {
  static char *bf[FBMAX]; static uint64_t offs[FBMAX]; static size_t first[FBMAX + 1];
  int nb = split_on(spec, ';', bf, FBMAX), i; size_t j;
  ldb_filtergen_t fb; ldb_slice_t res;
  fk_reset();
  for (i = 0; i < nb; i++) {
    char *pf[3]; int np = split_on(bf[i], ':', pf, 3);
    if (np != 2) return 0;
    offs[i] = strtoull(pf[0], NULL, 10);
    first[i] = g_fk_n;
    if (!fk_add_list(pf[1])) return 0;
  }
  first[nb] = g_fk_n;
  fk_fix_slices();
  ldb_filtergen_init(&fb, policy);
  for (i = 0; i < nb; i++) {
    ldb_filtergen_start_block(&fb, offs[i]);
    for (j = first[i]; j < first[i + 1]; j++)
      ldb_filtergen_add_key(&fb, &g_fk_slices[j]);
  }
  res = ldb_filtergen_finish(&fb);
  out->n = 0;
  vb_append(out, res.data, res.size);
  ldb_filtergen_clear(&fb);
  return 1;
}

static int filter_block_match(const ldb_bloom_t *policy, vbuf *block, uint64_t off, vbuf *key) {
  /* exact-size heap copy so that ASan sees any read past the end of the block */
  uint8_t *copy = (uint8_t *)malloc(block->n ? block->n : 1);
  ldb_slice_t contents, k; ldb_filter_t fr; int r;
  if (block->n) memcpy(copy, block->p, block->n);
  contents.data = copy; contents.size = block->n; contents.alloc = 0;
  set_slice(&k, key);
  ldb_filter_init(&fr, policy, &contents);
  r = ldb_filter_matches(&fr, off, &k);
  free(copy);
  return r;
}

static int handle_filter(char **f, int nf) {
  if (nf == 3 && !strcmp(f[0], "hash")) {
    uint32_t seed = (uint32_t)strtoull(f[1], NULL, 10);
    uint8_t *copy;
    if (!parse_bytes(f[2], &g_a)) { printf("bad-op"); return 1; }
    copy = (uint8_t *)malloc(g_a.n ? g_a.n : 1);
    if (g_a.n) memcpy(copy, g_a.p, g_a.n);
    printf("%lu", (unsigned long)ldb_hash(copy, g_a.n, seed));
    free(copy);
  } else if (nf == 3 && !strcmp(f[0], "bloom")) {
    const ldb_bloom_t *p = make_policy(0, atoi(f[1])); ldb_buffer_t dst;
    fk_reset();
    if (!fk_add_list(f[2])) { printf("bad-op"); return 1; }
    fk_fix_slices();
    ldb_buffer_init(&dst);
    ldb_bloom_build(p, &dst, g_fk_slices, g_fk_n);
    show_bytes(stdout, dst.data, dst.size);
    ldb_buffer_clear(&dst);
  } else if (nf == 4 && !strcmp(f[0], "bmatch")) {
    const ldb_bloom_t *p = make_policy(0, atoi(f[1])); ldb_slice_t fl, k; uint8_t *copy;
    if (!parse_bytes(f[2], &g_a) || !parse_bytes(f[3], &g_b)) { printf("bad-op"); return 1; }
    copy = (uint8_t *)malloc(g_a.n ? g_a.n : 1);
    if (g_a.n) memcpy(copy, g_a.p, g_a.n);
    fl.data = copy; fl.size = g_a.n; fl.alloc = 0;
    set_slice(&k, &g_b);
    printf("%d", ldb_bloom_match(p, &fl, &k) ? 1 : 0);
    free(copy);
  } else if (nf == 4 && !strcmp(f[0], "bloomrt")) {
    const ldb_bloom_t *p = make_policy(0, atoi(f[1])); ldb_buffer_t dst; ldb_slice_t fl, k;
    fk_reset();
    if (!fk_add_list(f[2]) || !parse_bytes(f[3], &g_b)) { printf("bad-op"); return 1; }
    fk_fix_slices();
    ldb_buffer_init(&dst);
    ldb_bloom_build(p, &dst, g_fk_slices, g_fk_n);
    fl.data = (uint8_t *)malloc(dst.size ? dst.size : 1); fl.size = dst.size; fl.alloc = 0;
    if (dst.size) memcpy(fl.data, dst.data, dst.size);
    set_slice(&k, &g_b);
    printf("%d", ldb_bloom_match(p, &fl, &k) ? 1 : 0);
    free(fl.data);
    ldb_buffer_clear(&dst);
  } else if (nf == 3 && (!strcmp(f[0], "fbuild") || !strcmp(f[0], "ifbuild"))) {
    const ldb_bloom_t *p = make_policy(f[0][0] == 'i', atoi(f[1]));
    if (!build_filter_block(p, f[2], &g_fk_out)) { printf("bad-op"); return 1; }
    show_bytes(stdout, g_fk_out.p, g_fk_out.n);
  } else if (nf == 5 && (!strcmp(f[0], "fmatch") || !strcmp(f[0], "ifmatch"))) {
    const ldb_bloom_t *p = make_policy(f[0][0] == 'i', atoi(f[1]));
    if (!parse_bytes(f[2], &g_a) || !parse_bytes(f[4], &g_b)) { printf("bad-op"); return 1; }
    printf("%d", filter_block_match(p, &g_a, strtoull(f[3], NULL, 10), &g_b) ? 1 : 0);
  } else if (nf == 5 && (!strcmp(f[0], "fbrt") || !strcmp(f[0], "ifbrt"))) {
    const ldb_bloom_t *p = make_policy(f[0][0] == 'i', atoi(f[1]));
    if (!parse_bytes(f[4], &g_b)) { printf("bad-op"); return 1; }
    if (!build_filter_block(p, f[2], &g_fk_out)) { printf("bad-op"); return 1; }
    printf("%d", filter_block_match(p, &g_fk_out, strtoull(f[3], NULL, 10), &g_b) ? 1 : 0);
  } else if (nf == 3 && !strcmp(f[0], "hdl")) {
    ldb_handle_t h; ldb_buffer_t z; uint8_t raw[LDB_HANDLE_SIZE]; uint8_t *e;
    h.offset = strtoull(f[1], NULL, 10); h.size = strtoull(f[2], NULL, 10);
    ldb_buffer_init(&z);
    ldb_handle_export(&z, &h);
    e = ldb_handle_write(raw, &h);
    if ((size_t)(e - raw) != z.size || (z.size && memcmp(raw, z.data, z.size)) || z.size != ldb_handle_size(&h))
      printf("paths-disagree");
    else
      print_hex(stdout, z.data, z.size);
    ldb_buffer_clear(&z);
  } else if (nf == 2 && !strcmp(f[0], "hdldec")) {
    ldb_handle_t h, h2; const uint8_t *xp; size_t xn; uint8_t *copy; ldb_slice_t s; int r, r2;
    if (!parse_bytes(f[1], &g_a)) { printf("bad-op"); return 1; }
    copy = (uint8_t *)malloc(g_a.n ? g_a.n : 1);
    if (g_a.n) memcpy(copy, g_a.p, g_a.n);
    xp = copy; xn = g_a.n;
    r = ldb_handle_read(&h, &xp, &xn);
    s.data = copy; s.size = g_a.n; s.alloc = 0;
    r2 = ldb_handle_import(&h2, &s);
    if (!!r != !!r2 || (r && (h.offset != h2.offset || h.size != h2.size))) printf("paths-disagree");
    else if (r) printf("ok %llu %llu %lu", (unsigned long long)h.offset, (unsigned long long)h.size, (unsigned long)xn);
    else printf("fail");
    free(copy);
  } else if (nf == 5 && !strcmp(f[0], "footer")) {
    ldb_footer_t ft; ldb_buffer_t z;
    ft.metaindex_handle.offset = strtoull(f[1], NULL, 10); ft.metaindex_handle.size = strtoull(f[2], NULL, 10);
    ft.index_handle.offset = strtoull(f[3], NULL, 10); ft.index_handle.size = strtoull(f[4], NULL, 10);
    ldb_buffer_init(&z);
    ldb_footer_export(&z, &ft);
    print_hex(stdout, z.data, z.size);
    ldb_buffer_clear(&z);
  } else if (nf == 2 && !strcmp(f[0], "footerdec")) {
    ldb_footer_t ft, ft2; const uint8_t *xp; size_t xn; uint8_t *copy; ldb_slice_t s; int r, r2;
    if (!parse_bytes(f[1], &g_a)) { printf("bad-op"); return 1; }
    copy = (uint8_t *)malloc(g_a.n ? g_a.n : 1);
    if (g_a.n) memcpy(copy, g_a.p, g_a.n);
    xp = copy; xn = g_a.n;
    r = ldb_footer_read(&ft, &xp, &xn);
    s.data = copy; s.size = g_a.n; s.alloc = 0;
    r2 = ldb_footer_import(&ft2, &s);
    if (!!r != !!r2 || (r && memcmp(&ft, &ft2, sizeof(ft)))) printf("paths-disagree");
    else if (r && xp != copy + LDB_FOOTER_SIZE) printf("paths-disagree");
    else if (r) printf("ok %llu %llu %llu %llu %lu", (unsigned long long)ft.metaindex_handle.offset, (unsigned long long)ft.metaindex_handle.size,
                       (unsigned long long)ft.index_handle.offset, (unsigned long long)ft.index_handle.size, (unsigned long)xn);
    else printf("fail");
    free(copy);
  } else {
    return 0;
  }
  return 1;
}
