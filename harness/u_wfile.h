/* The buffered writable file and the small-file writers: the REAL ldb_wfile_append / ldb_wfile_flush / ldb_wfile_sync /
 * ldb_wfile_close (util/env.c -> util/env_unix_impl.h), ldb_write_file (util/env.c), ldb_set_current_file (filename.c)
 * and ldb_writer_add_record (log_writer.c) over a real file in a private scratch directory, with the libc entry
 * points write/fsync/fdatasync/close/open/rename/unlink interposed FOR THE HARNESS'S OWN FILES ONLY (the tracked
 * descriptors / paths below the scratch directory while tracking is active); everything else goes straight to the
 * kernel via syscall(2).  The interposed calls answer from per-kind scripts (the "oracle" of Model/WFile.lean) and
 * log every call with its outcome.
 *
 *   wfile     <m|l> <oracle> <ops>             ops: a:<bytes> f s r:<bytes> c (c only last)
 *   wfilefile <name> <sync 0/1> <oracle> <bytes>
 *   wcurrent  <number> <pre 0/1> <oracle>
 */
#include <errno.h>
#include <fcntl.h>
#include <dirent.h>
#include <stdarg.h>
#include <unistd.h>
#include <sys/stat.h>
#include <sys/syscall.h>
#include "util/env.h"
#include "util/strutil.h"
#include "filename.h"
#include "log_writer.h"

enum { WF_OK = 0, WF_BYTES, WF_HALF, WF_ALLBUT, WF_ERR };
typedef struct { int t; unsigned long long k; int e; } wf_ans;
typedef struct { wf_ans *a; size_t n, cap, i; } wf_queue;

static wf_queue g_wq[6];                 /* w s o c r u */
static const char g_wkinds[] = "wsocru";
static int g_wf_active;                  /* 0 off, 1 scripted + logged, 2 passive (descriptor recorded only) */
static int g_wf_fd = -1, g_wf_dirfd = -1;
static char g_wf_dir[512];
static size_t g_wf_dirlen;
static vbuf g_wf_log;
static int g_wf_atexit;

static void wf_log(const char *fmt, ...) {
  char tmp[700]; va_list ap; int n;
  va_start(ap, fmt); n = vsnprintf(tmp, sizeof(tmp), fmt, ap); va_end(ap);
  if (g_wf_log.n) vb_push(&g_wf_log, ',');
  vb_append(&g_wf_log, tmp, (size_t)n);
}

static const char *wf_ename(int e) {
  static char buf[32];
  if (e == EINTR) return "eintr";
  if (e == EIO) return "eio";
  if (e == EBADF) return "ebadf";
  if (e == ENOSPC) return "enospc";
  if (e == EINVAL) return "einval";
  if (e == LDB_IOERR) return "ioerror";
  snprintf(buf, sizeof(buf), "e%d", e);
  return buf;
}
static const char *wf_rc(int rc) { return rc == 0 ? "ok" : wf_ename(rc); }

/* next answer of a queue; exhausted = success */
static wf_ans wf_next(int q) {
  wf_ans ok; ok.t = WF_OK; ok.k = 0; ok.e = 0;
  if (g_wq[q].i < g_wq[q].n) return g_wq[q].a[g_wq[q].i++];
  return ok;
}

/* path below the scratch directory -> base name; the directory itself -> ""; anything else -> NULL */
static const char *wf_rel(const char *path) {
  size_t L;
  if (!g_wf_dirlen || strncmp(path, g_wf_dir, g_wf_dirlen)) return NULL;
  L = strlen(path);
  while (L > g_wf_dirlen && path[L - 1] == '/') L--;
  if (L == g_wf_dirlen) return "";
  if (path[g_wf_dirlen] != '/') return NULL;
  return path + g_wf_dirlen + 1;
}

int open(const char *path, int flags, ...) {
  mode_t mode = 0; int fd; const char *rel;
  if (flags & O_CREAT) { va_list ap; va_start(ap, flags); mode = va_arg(ap, int); va_end(ap); }
  rel = g_wf_active ? wf_rel(path) : NULL;
  if (rel && g_wf_active == 1) {
    wf_ans a = wf_next(2);
    if (a.t == WF_ERR) {
      if (rel[0]) wf_log("o:%s!%s", rel, wf_ename(a.e)); else wf_log("od!%s", wf_ename(a.e));
      errno = a.e; return -1;
    }
  }
  fd = (int)syscall(SYS_openat, AT_FDCWD, path, flags, mode);
  if (rel && fd >= 0) {
    if (rel[0]) g_wf_fd = fd; else g_wf_dirfd = fd;
    if (g_wf_active == 1) { if (rel[0]) wf_log("o:%s", rel); else wf_log("od"); }
  }
  return fd;
}
int open64(const char *path, int flags, ...) {
  mode_t mode = 0;
  if (flags & O_CREAT) { va_list ap; va_start(ap, flags); mode = va_arg(ap, int); va_end(ap); }
  return open(path, flags, mode);
}

ssize_t write(int fd, const void *buf, size_t n) {
  if (g_wf_active == 1 && fd >= 0 && fd == g_wf_fd) {
    wf_ans a = wf_next(0); size_t k = n; ssize_t r;
    if (a.t == WF_ERR) { wf_log("w:%lu:!%s", (unsigned long)n, wf_ename(a.e)); errno = a.e; return -1; }
    if (a.t == WF_BYTES) k = a.k < n ? (size_t)a.k : n;
    else if (a.t == WF_HALF) k = (n + 1) / 2;
    else if (a.t == WF_ALLBUT) k = a.k < n ? n - (size_t)a.k : 0;
    r = k ? syscall(SYS_write, fd, buf, k) : 0;
    if (r < 0) wf_log("w:%lu:!real-%d", (unsigned long)n, errno); else wf_log("w:%lu:%lu", (unsigned long)n, (unsigned long)r);
    return r;
  }
  return syscall(SYS_write, fd, buf, n);
}

static int wf_sync(int fd) {
  if (g_wf_active == 1 && fd >= 0 && (fd == g_wf_fd || fd == g_wf_dirfd)) {
    const char *tag = fd == g_wf_fd ? "s" : "sd"; wf_ans a = wf_next(1); int r;
    if (a.t == WF_ERR) { wf_log("%s!%s", tag, wf_ename(a.e)); errno = a.e; return -1; }
    r = (int)syscall(SYS_fsync, fd);
    if (r != 0) wf_log("%s!real-%d", tag, errno); else wf_log("%s", tag);
    return r;
  }
  return (int)syscall(SYS_fsync, fd);
}
int fsync(int fd) { return wf_sync(fd); }
int fdatasync(int fd) { return wf_sync(fd); }

int close(int fd) {
  if (g_wf_active && fd >= 0 && (fd == g_wf_fd || fd == g_wf_dirfd)) {
    const char *tag = fd == g_wf_fd ? "c" : "cd";
    if (fd == g_wf_fd) g_wf_fd = -1; else g_wf_dirfd = -1;
    if (g_wf_active == 1) {
      wf_ans a = wf_next(3);
      /* like a failing close on Linux: the descriptor is gone anyway */
      if (a.t == WF_ERR) { wf_log("%s!%s", tag, wf_ename(a.e)); syscall(SYS_close, fd); errno = a.e; return -1; }
      wf_log("%s", tag);
    }
  }
  return (int)syscall(SYS_close, fd);
}

int rename(const char *a, const char *b) {
  const char *ra = g_wf_active == 1 ? wf_rel(a) : NULL, *rb = g_wf_active == 1 ? wf_rel(b) : NULL;
  if (ra && rb) {
    wf_ans x = wf_next(4); int r;
    if (x.t == WF_ERR) { wf_log("ren:%s:%s!%s", ra, rb, wf_ename(x.e)); errno = x.e; return -1; }
    r = (int)syscall(SYS_renameat, AT_FDCWD, a, AT_FDCWD, b);
    if (r != 0) wf_log("ren:%s:%s!real-%d", ra, rb, errno); else wf_log("ren:%s:%s", ra, rb);
    return r;
  }
  return (int)syscall(SYS_renameat, AT_FDCWD, a, AT_FDCWD, b);
}

int unlink(const char *a) {
  const char *ra = g_wf_active == 1 ? wf_rel(a) : NULL;
  if (ra) {
    wf_ans x = wf_next(5);
    if (x.t == WF_ERR) { wf_log("unl:%s!%s", ra, wf_ename(x.e)); errno = x.e; return -1; }
    /* the outcome of the real call (ENOENT for the second removal of a temp file) is not part of the log */
    wf_log("unl:%s", ra);
  }
  return (int)syscall(SYS_unlinkat, AT_FDCWD, a, 0);
}

/* ---- scratch directory ---- */
static void wf_clean_dir(int remove_dir) {
  DIR *d; struct dirent *de; char p[800];
  if (!g_wf_dirlen) return;
  d = opendir(g_wf_dir);
  if (d) {
    while ((de = readdir(d)) != NULL) {
      if (!strcmp(de->d_name, ".") || !strcmp(de->d_name, "..")) continue;
      snprintf(p, sizeof(p), "%s/%s", g_wf_dir, de->d_name);
      syscall(SYS_unlinkat, AT_FDCWD, p, 0);
    }
    closedir(d);
  }
  if (remove_dir) rmdir(g_wf_dir);
}
static void wf_atexit(void) { g_wf_active = 0; wf_clean_dir(1); vb_free(&g_wf_log); { int i; for (i = 0; i < 6; i++) free(g_wq[i].a); } }

static int wf_setup(void) {
  if (!g_wf_dirlen) {
    const char *root = getenv("VERIF_SCRATCH");
    if (!root || !root[0]) root = "/var/tmp";
    snprintf(g_wf_dir, sizeof(g_wf_dir), "%s/lcdb-verif-wfile-XXXXXX", root);
    if (!mkdtemp(g_wf_dir)) { g_wf_dir[0] = 0; return 0; }
    g_wf_dirlen = strlen(g_wf_dir);
    if (!g_wf_atexit) { atexit(wf_atexit); g_wf_atexit = 1; }
  }
  wf_clean_dir(0);
  g_wf_fd = g_wf_dirfd = -1;
  g_wf_log.n = 0;
  return 1;
}

/* ---- parsing ---- */
static int wf_nat(const char *s, size_t len, unsigned long long *out) {
  size_t i; unsigned long long v = 0;
  if (len == 0 || len > 18) return 0;
  for (i = 0; i < len; i++) { if (s[i] < '0' || s[i] > '9') return 0; v = v * 10 + (unsigned)(s[i] - '0'); }
  *out = v; return 1;
}
static int wf_errletter(const char *s, size_t len) {
  if (len != 1) return 0;
  switch (s[0]) { case 'I': return EINTR; case 'E': return EIO; case 'B': return EBADF; case 'N': return ENOSPC; case 'V': return EINVAL; }
  return 0;
}
static void wf_qpush(int q, wf_ans a, unsigned long long cnt) {
  while (g_wq[q].n + cnt > g_wq[q].cap) { g_wq[q].cap = g_wq[q].cap ? g_wq[q].cap * 2 : 64; g_wq[q].a = (wf_ans *)realloc(g_wq[q].a, g_wq[q].cap * sizeof(wf_ans)); }
  while (cnt--) g_wq[q].a[g_wq[q].n++] = a;
}
static int wf_parse_item(const char *s, size_t len) {
  const char *kp, *body, *star, *star2; size_t blen, alen; unsigned long long cnt = 1; int q, e; wf_ans a;
  if (len < 2) return 0;
  kp = strchr(g_wkinds, s[0]);
  body = s + 1; blen = len - 1;
  star = (const char *)memchr(body, '*', blen);
  alen = star ? (size_t)(star - body) : blen;
  if (star) {
    star2 = (const char *)memchr(star + 1, '*', blen - alen - 1);
    if (star2) return 0;
    if (!wf_nat(star + 1, blen - alen - 1, &cnt) || cnt < 1 || cnt > 4096) return 0;
  }
  if (!kp || !s[0]) return 0;
  q = (int)(kp - g_wkinds);
  a.t = WF_OK; a.k = 0; a.e = 0;
  e = wf_errletter(body, alen);
  if (alen == 1 && body[0] == 'K') a.t = WF_OK;
  else if (q == 0 && alen == 1 && body[0] == 'H') a.t = WF_HALF;
  else if (q == 0 && alen >= 1 && body[0] == 'M') { if (!wf_nat(body + 1, alen - 1, &a.k)) return 0; a.t = WF_ALLBUT; }
  else if (e) { a.t = WF_ERR; a.e = e; }
  else if (q == 0 && wf_nat(body, alen, &a.k)) a.t = WF_BYTES;
  else return 0;
  wf_qpush(q, a, cnt);
  return 1;
}
static int wf_parse_oracle(const char *s) {
  int i; const char *p = s;
  for (i = 0; i < 6; i++) { g_wq[i].n = 0; g_wq[i].i = 0; }
  if (!strcmp(s, "-")) return 1;
  for (;;) {
    const char *q = strchr(p, ',');
    size_t len = q ? (size_t)(q - p) : strlen(p);
    if (!wf_parse_item(p, len)) return 0;
    if (!q) break;
    p = q + 1;
  }
  return 1;
}

static uint8_t *wf_copy(const uint8_t *p, size_t n) {
  uint8_t *c = (uint8_t *)malloc(n ? n : 1);
  if (n) memcpy(c, p, n);
  return c;
}

/* contents of a file of the scratch directory; 0 if it does not exist */
static int wf_read_back(const char *name, vbuf *out) {
  char p[800]; int fd; ssize_t r; uint8_t tmp[65536];
  snprintf(p, sizeof(p), "%s/%s", g_wf_dir, name);
  out->n = 0;
  fd = (int)syscall(SYS_openat, AT_FDCWD, p, O_RDONLY, 0);
  if (fd < 0) return 0;
  while ((r = syscall(SYS_read, fd, tmp, sizeof(tmp))) > 0) vb_append(out, tmp, (size_t)r);
  syscall(SYS_close, fd);
  return 1;
}

static int wf_cmpstr(const void *a, const void *b) { return strcmp(*(const char *const *)a, *(const char *const *)b); }
static void wf_print_listing(void) {
  DIR *d = opendir(g_wf_dir); struct dirent *de; char *names[64]; int n = 0, i;
  if (d) {
    while ((de = readdir(d)) != NULL && n < 64) {
      if (!strcmp(de->d_name, ".") || !strcmp(de->d_name, "..")) continue;
      names[n++] = strdup(de->d_name);
    }
    closedir(d);
  }
  qsort(names, (size_t)n, sizeof(names[0]), wf_cmpstr);
  if (n == 0) fputc('-', stdout);
  for (i = 0; i < n; i++) { if (i) fputc(',', stdout); fputs(names[i], stdout); free(names[i]); }
}

static void wf_print_op(int rc) {
  printf("%s=", wf_rc(rc));
  if (g_wf_log.n) fwrite(g_wf_log.p, 1, g_wf_log.n, stdout);
  g_wf_log.n = 0;
}

/* m<n> l<n> t<n> d<n> C -> file name */
static int wf_name(const char *s, char *out, size_t outsz) {
  unsigned long long n; char id[32];
  if (!strcmp(s, "C")) { snprintf(out, outsz, "CURRENT"); return 1; }
  if (strlen(s) < 2 || !wf_nat(s + 1, strlen(s + 1), &n)) return 0;
  ldb_encode_int(id, n, 6);
  if (s[0] == 'm') snprintf(out, outsz, "MANIFEST-%s", id);
  else if (s[0] == 'l') snprintf(out, outsz, "%s.log", id);
  else if (s[0] == 't') snprintf(out, outsz, "%s.ldb", id);
  else if (s[0] == 'd') snprintf(out, outsz, "%s.dbtmp", id);
  else return 0;
  return 1;
}

static int wf_do_wfile(const char *kind, const char *orc, char *ops) {
  static char *of[MAXL]; int no, i, closed = 0, rc; char path[800]; const char *name;
  ldb_wfile_t *file = NULL; ldb_writer_t lw;
  if (strcmp(kind, "m") && strcmp(kind, "l")) return 0;
  if (!wf_parse_oracle(orc)) return 0;
  no = split_on(ops, ',', of, MAXL);
  for (i = 0; i < no; i++) {
    const char *o = of[i];
    if (!strcmp(o, "f") || !strcmp(o, "s")) continue;
    if (!strcmp(o, "c")) { if (i != no - 1) return 0; continue; }
    if ((o[0] == 'a' || o[0] == 'r') && o[1] == ':' && parse_bytes(o + 2, &g_a)) continue;
    return 0;
  }
  if (!wf_setup()) { printf("fault:scratch"); return 1; }
  name = kind[0] == 'm' ? "MANIFEST-000001" : "000001.log";
  snprintf(path, sizeof(path), "%s/%s", g_wf_dir, name);
  g_wf_active = 2;
  rc = ldb_truncfile_create(path, &file);
  if (rc != LDB_OK) { g_wf_active = 0; printf("fault:create-%d", rc); return 1; }
  g_wf_active = 1;
  ldb_writer_init(&lw, file, 0);
  if (no == 0) fputc('.', stdout);
  for (i = 0; i < no; i++) {
    const char *o = of[i];
    if (i) fputc(';', stdout);
    if (!strcmp(o, "f")) rc = ldb_wfile_flush(file);
    else if (!strcmp(o, "s")) rc = ldb_wfile_sync(file);
    else if (!strcmp(o, "c")) { rc = ldb_wfile_close(file); closed = 1; }
    else {
      ldb_slice_t s; uint8_t *c;
      parse_bytes(o + 2, &g_a);
      c = wf_copy(g_a.p, g_a.n);
      s.data = c; s.size = g_a.n; s.alloc = 0;
      if (o[0] == 'a') rc = ldb_wfile_append(file, &s); else rc = ldb_writer_add_record(&lw, &s);
      free(c);
    }
    wf_print_op(rc);
  }
  (void)closed;
  g_wf_active = 2;            /* whatever is still buffered is dropped, as in ldb_wfile_destroy */
  ldb_wfile_destroy(file);
  g_wf_active = 0;
  fputc(' ', stdout);
  if (wf_read_back(name, &g_b)) show_bytes(stdout, g_b.p, g_b.n); else fputs("none", stdout);
  return 1;
}

static int wf_do_file(const char *nm, const char *sync, const char *orc, const char *bytes) {
  char name[64], path[800]; ldb_slice_t s; uint8_t *c; int rc;
  if (!wf_name(nm, name, sizeof(name))) return 0;
  if (!wf_parse_oracle(orc) || !parse_bytes(bytes, &g_a)) return 0;
  if (strcmp(sync, "0") && strcmp(sync, "1")) return 0;
  if (!wf_setup()) { printf("fault:scratch"); return 1; }
  snprintf(path, sizeof(path), "%s/%s", g_wf_dir, name);
  c = wf_copy(g_a.p, g_a.n);
  s.data = c; s.size = g_a.n; s.alloc = 0;
  g_wf_active = 1;
  rc = ldb_write_file(path, &s, sync[0] == '1');
  g_wf_active = 0;
  free(c);
  wf_print_op(rc);
  fputc(' ', stdout); wf_print_listing(); fputc(' ', stdout);
  if (wf_read_back(name, &g_b)) show_bytes(stdout, g_b.p, g_b.n); else fputs("none", stdout);
  return 1;
}

static int wf_do_current(const char *num, const char *pre, const char *orc) {
  unsigned long long n; char *end; int rc;
  size_t L = strlen(num), i;
  if (L == 0 || L > 20) return 0;
  for (i = 0; i < L; i++) if (num[i] < '0' || num[i] > '9') return 0;
  errno = 0; n = strtoull(num, &end, 10);
  if (errno == ERANGE) return 0;
  if (!wf_parse_oracle(orc)) return 0;
  if (strcmp(pre, "0") && strcmp(pre, "1")) return 0;
  if (!wf_setup()) { printf("fault:scratch"); return 1; }
  if (pre[0] == '1') {
    char p[800]; int fd;
    snprintf(p, sizeof(p), "%s/CURRENT", g_wf_dir);
    fd = (int)syscall(SYS_openat, AT_FDCWD, p, O_WRONLY | O_CREAT | O_TRUNC, 0644);
    if (fd >= 0) { if (syscall(SYS_write, fd, "old\n", 4) != 4) { } syscall(SYS_close, fd); }
  }
  g_wf_active = 1;
  rc = ldb_set_current_file(g_wf_dir, n);
  g_wf_active = 0;
  wf_print_op(rc);
  fputc(' ', stdout); wf_print_listing(); fputc(' ', stdout);
  if (wf_read_back("CURRENT", &g_b)) show_bytes(stdout, g_b.p, g_b.n); else fputs("none", stdout);
  return 1;
}

static int handle_wfile(char **f, int nf) {
  if (nf == 4 && !strcmp(f[0], "wfile")) { if (!wf_do_wfile(f[1], f[2], f[3])) printf("bad-op"); }
  else if (nf == 5 && !strcmp(f[0], "wfilefile")) { if (!wf_do_file(f[1], f[2], f[3], f[4])) printf("bad-op"); }
  else if (nf == 4 && !strcmp(f[0], "wcurrent")) { if (!wf_do_current(f[1], f[2], f[3])) printf("bad-op"); }
  else return 0;
  return 1;
}
