#ifndef VERIF_SCHED_PORT_H
#define VERIF_SCHED_PORT_H
#include <stdint.h>
#include <stdio.h>
void sched_seed(uint64_t s);
void sched_mode(int pct, long expected_steps);
void sched_max_steps(long n);
long sched_now(void);
long sched_switch_count(void);
int sched_self(void);
int sched_signals(void ***objs, int **kinds);
void sched_clear_signals(void);
void sched_replay(int *choices, long n);
void sched_record(FILE *f);
int sched_cond_owner(void *cond);
extern void (*sched_release_hook)(void *mutex, int kind, void *cond);
extern void (*sched_acquire_hook)(void *mutex);
#endif
