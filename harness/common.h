/* Shared helpers for the correspondence harnesses (line protocol, DESIGN.md appendix A). */
#ifndef VERIF_COMMON_H
#define VERIF_COMMON_H
#include <stdint.h>
#include <stdio.h>
#include <stdlib.h>
#include <string.h>

typedef struct vbuf { uint8_t *p; size_t n, cap; } vbuf;

static void vb_init(vbuf *b) { b->p = NULL; b->n = 0; b->cap = 0; }
static void vb_free(vbuf *b) { free(b->p); vb_init(b); }
static void vb_reserve(vbuf *b, size_t extra) {
  if (b->n + extra + 1 > b->cap) {
    size_t c = b->cap ? b->cap * 2 : 64;
    while (c < b->n + extra + 1) c *= 2;
    b->p = (uint8_t *)realloc(b->p, c); b->cap = c;
  }
}
static void vb_push(vbuf *b, uint8_t x) { vb_reserve(b, 1); b->p[b->n++] = x; }
static void vb_append(vbuf *b, const void *x, size_t n) { vb_reserve(b, n); if (n) memcpy(b->p + b->n, x, n); b->n += n; }

static uint8_t pat_byte(uint64_t seed, uint64_t i) {
  uint64_t x = (seed * 1103515245ULL + 12345ULL + i * 2654435761ULL) % 4294967296ULL;
  return (uint8_t)((x / 65536ULL) % 256ULL);
}

static int hexval(int c) {
  if (c >= '0' && c <= '9') return c - '0';
  if (c >= 'a' && c <= 'f') return c - 'a' + 10;
  return -1;
}

/* parse one '+'-free component; returns 0 on failure */
static int parse_bytes1(const char *s, size_t len, vbuf *out) {
  if (len == 1 && s[0] == '-') return 1;
  if (len > 0 && (s[0] == '@' || s[0] == '=' || s[0] == '%')) {
    char tmp[128]; unsigned long long a = 0, b = 0, c = 0; unsigned int hx = 0; size_t i;
    if (len >= sizeof(tmp)) return 0;
    memcpy(tmp, s + 1, len - 1); tmp[len - 1] = 0;
    if (s[0] == '@') {
      if (sscanf(tmp, "%llu~%llu", &a, &b) != 2) return 0;
      for (i = 0; i < b; i++) vb_push(out, pat_byte(a, i));
    } else if (s[0] == '=') {
      if (sscanf(tmp, "%2x~%llu", &hx, &b) != 2) return 0;
      for (i = 0; i < b; i++) vb_push(out, (uint8_t)hx);
    } else {
      if (sscanf(tmp, "%llu~%llu~%llu", &a, &b, &c) != 3 || c == 0) return 0;
      for (i = 0; i < b; i++) vb_push(out, pat_byte(a, i % c));
    }
    return 1;
  }
  if (len % 2) return 0;
  { size_t i; for (i = 0; i < len; i += 2) {
      int x = hexval(s[i]), y = hexval(s[i + 1]);
      if (x < 0 || y < 0) return 0;
      vb_push(out, (uint8_t)(x * 16 + y));
  } }
  return 1;
}

static int parse_bytes(const char *s, vbuf *out) {
  const char *p = s;
  out->n = 0;
  for (;;) {
    const char *q = strchr(p, '+');
    size_t len = q ? (size_t)(q - p) : strlen(p);
    if (!parse_bytes1(p, len, out)) return 0;
    if (!q) break;
    p = q + 1;
  }
  return 1;
}

static uint64_t fnv64(const uint8_t *p, size_t n) {
  uint64_t h = 14695981039346656037ULL; size_t i;
  for (i = 0; i < n; i++) { h ^= p[i]; h *= 1099511628211ULL; }
  return h;
}

static void print_hex(FILE *f, const uint8_t *p, size_t n) {
  size_t i;
  if (n == 0) { fputc('-', f); return; }
  for (i = 0; i < n; i++) fprintf(f, "%02x", p[i]);
}

/* canonical rendering: full hex up to 40 bytes, else #len:fnv64 */
static void show_bytes(FILE *f, const uint8_t *p, size_t n) {
  if (n <= 40) print_hex(f, p, n);
  else fprintf(f, "#%lu:%016llx", (unsigned long)n, (unsigned long long)fnv64(p, n));
}

/* split a line in place on single spaces; returns the number of fields */
static int split_fields(char *line, char **f, int max) {
  int n = 0; char *p = line;
  size_t L = strlen(line);
  while (L > 0 && (line[L - 1] == '\n' || line[L - 1] == '\r')) line[--L] = 0;
  while (n < max) {
    char *q = strchr(p, ' ');
    f[n++] = p;
    if (!q) break;
    *q = 0; p = q + 1;
  }
  return n;
}

/* split on a separator char, in place */
static int split_on(char *s, char sep, char **f, int max) {
  int n = 0; char *p = s;
  if (s[0] == 0 || (s[0] == '.' && s[1] == 0)) return 0;
  while (n < max) {
    char *q = strchr(p, sep);
    f[n++] = p;
    if (!q) break;
    *q = 0; p = q + 1;
  }
  return n;
}
#endif
