/* the sharded LRU cache: the REAL src/util/cache.c.
 *
 * `lru <capacity> <ops>` drives the linked library object through its non-static entry points
 * (ldb_lru_create/insert/lookup/release/erase/value/prune/usage/id/destroy).  Values are heap objects
 * carrying their id and a copy of the key; the deleter checks the key it is given, appends the id to
 * a log and frees the object (a second deleter call on the same value is a double free under ASan; a
 * value never deleted is reported as `leak`).  At the end every outstanding handle is released, the
 * cache destroyed, and the remaining deleter calls are reported.
 *
 * `htab <ops>` drives the handle table (`lru_table_*`, statics of cache.c) directly.  To reach the
 * statics without disturbing the link of the other slices, a PRIVATE COPY of cache.c is compiled
 * into the harness with its ten public symbols renamed (`vh_ldb_lru_*`); the `lru` command does NOT
 * use that copy. */
#include "util/cache.h"
#include "util/slice.h"

#define ldb_lru_create vh_ldb_lru_create
#define ldb_lru_destroy vh_ldb_lru_destroy
#define ldb_lru_insert vh_ldb_lru_insert
#define ldb_lru_lookup vh_ldb_lru_lookup
#define ldb_lru_release vh_ldb_lru_release
#define ldb_lru_erase vh_ldb_lru_erase
#define ldb_lru_value vh_ldb_lru_value
#define ldb_lru_id vh_ldb_lru_id
#define ldb_lru_prune vh_ldb_lru_prune
#define ldb_lru_usage vh_ldb_lru_usage
#include "util/cache.c"
#undef ldb_lru_create
#undef ldb_lru_destroy
#undef ldb_lru_insert
#undef ldb_lru_lookup
#undef ldb_lru_release
#undef ldb_lru_erase
#undef ldb_lru_value
#undef ldb_lru_id
#undef ldb_lru_prune
#undef ldb_lru_usage

/* ---------------------------------------------------------------- lru */
typedef struct { int id; int deleted; size_t klen; uint8_t key[1]; } lc_val;

static vbuf g_lc_log;          /* deleter calls of the current op, as text */
static int g_lc_ndel;
static int g_lc_bad;           /* deleter saw a wrong key / a value twice */

static void lc_deleter(const ldb_slice_t *key, void *value) {
  lc_val *v = (lc_val *)value; char tmp[32];
  if (key->size != v->klen || (v->klen && memcmp(key->data, v->key, v->klen))) g_lc_bad = 1;
  sprintf(tmp, "%s%d", g_lc_ndel ? "." : "", v->id);
  vb_append(&g_lc_log, tmp, strlen(tmp));
  g_lc_ndel++;
  free(v);
}

static void lc_flush_dels(vbuf *out) {
  if (g_lc_ndel == 0) vb_push(out, '-'); else vb_append(out, g_lc_log.p, g_lc_log.n);
  g_lc_log.n = 0; g_lc_ndel = 0;
}

static int lc_num(const char *s, unsigned long long lim, unsigned long long *out) {
  unsigned long long v;
  if (!*s || strlen(s) > 18) return 0;
  { const char *p; for (p = s; *p; p++) if (*p < '0' || *p > '9') return 0; }
  v = strtoull(s, NULL, 10);
  if (v >= lim) return 0;
  *out = v; return 1;
}

#define LC_MAXH 8192

static int lc_lru(const char *caps, char *ops) {
  static char *of[MAXL]; int no, i, rc = 1, misuse = 0;
  static ldb_entry_t *hs[LC_MAXH]; static char live[LC_MAXH]; int nh = 0;
  unsigned long long cap; ldb_lru_t *lru; vbuf out; long ninserted = 0, ndeleted_total = 0;
  char tmp[64];
  if (!lc_num(caps, 1ULL << 32, &cap)) return 0;
  no = split_on(ops, ',', of, MAXL);
  /* syntax check before anything runs */
  for (i = 0; i < no; i++) {
    char buf[4096]; char *pf[5]; int np; unsigned long long a, b;
    if (strlen(of[i]) >= sizeof(buf)) return 0;
    strcpy(buf, of[i]);
    np = split_on(buf, ':', pf, 5);
    if (np == 4 && !strcmp(pf[0], "i")) { if (!parse_bytes(pf[1], &g_a) || !lc_num(pf[2], 1ULL << 31, &a) || !lc_num(pf[3], 1ULL << 32, &b)) return 0; }
    else if (np == 2 && (!strcmp(pf[0], "l") || !strcmp(pf[0], "e"))) { if (!parse_bytes(pf[1], &g_a)) return 0; }
    else if (np == 2 && (!strcmp(pf[0], "r") || !strcmp(pf[0], "v"))) { if (!lc_num(pf[1], 1ULL << 31, &a)) return 0; }
    else if (np == 1 && (!strcmp(pf[0], "p") || !strcmp(pf[0], "t") || !strcmp(pf[0], "n"))) {}
    else return 0;
  }
  vb_init(&out); vb_init(&g_lc_log); g_lc_ndel = 0; g_lc_bad = 0;
  lru = ldb_lru_create((size_t)cap);
  for (i = 0; i < no && !misuse; i++) {
    char *pf[5]; int np = split_on(of[i], ':', pf, 5); unsigned long long a = 0, b = 0;
    if (i) vb_push(&out, ';');
    if (pf[0][0] == 'i' || pf[0][0] == 'l') {
      ldb_slice_t key; uint8_t *kc; ldb_entry_t *h;
      parse_bytes(pf[1], &g_a);
      kc = (uint8_t *)malloc(g_a.n ? g_a.n : 1); if (g_a.n) memcpy(kc, g_a.p, g_a.n);   /* exact-size copy (ASan) */
      key.data = kc; key.size = g_a.n; key.alloc = 0;
      if (pf[0][0] == 'i') {
        lc_val *v;
        lc_num(pf[2], 1ULL << 31, &a); lc_num(pf[3], 1ULL << 32, &b);
        v = (lc_val *)malloc(sizeof(lc_val) + g_a.n);
        v->id = (int)a; v->deleted = 0; v->klen = g_a.n; if (g_a.n) memcpy(v->key, g_a.p, g_a.n);
        ninserted++;
        h = ldb_lru_insert(lru, &key, v, (size_t)b, &lc_deleter);
      } else h = ldb_lru_lookup(lru, &key);
      free(kc);
      if (h == NULL) vb_push(&out, '-');
      else if (nh >= LC_MAXH) { ldb_lru_release(lru, h); vb_append(&out, "toomany", 7); }
      else {
        sprintf(tmp, "%d=%d", nh, ((lc_val *)ldb_lru_value(h))->id);
        vb_append(&out, tmp, strlen(tmp));
        hs[nh] = h; live[nh] = 1; nh++;
      }
    } else if (pf[0][0] == 'r' || pf[0][0] == 'v') {
      lc_num(pf[1], 1ULL << 31, &a);
      if (a >= (unsigned long long)nh || !live[a]) { misuse = 1; break; }
      if (pf[0][0] == 'r') { ldb_lru_release(lru, hs[a]); live[a] = 0; vb_append(&out, "ok", 2); }
      else { sprintf(tmp, "%d", ((lc_val *)ldb_lru_value(hs[a]))->id); vb_append(&out, tmp, strlen(tmp)); }
    } else if (pf[0][0] == 'e') {
      ldb_slice_t key; uint8_t *kc;
      parse_bytes(pf[1], &g_a);
      kc = (uint8_t *)malloc(g_a.n ? g_a.n : 1); if (g_a.n) memcpy(kc, g_a.p, g_a.n);
      key.data = kc; key.size = g_a.n; key.alloc = 0;
      ldb_lru_erase(lru, &key);
      free(kc);
      vb_append(&out, "ok", 2);
    } else if (pf[0][0] == 'p') { ldb_lru_prune(lru); vb_append(&out, "ok", 2); }
    else if (pf[0][0] == 't') { sprintf(tmp, "%llu", (unsigned long long)ldb_lru_usage(lru)); vb_append(&out, tmp, strlen(tmp)); }
    else { sprintf(tmp, "%llu", (unsigned long long)ldb_lru_id(lru)); vb_append(&out, tmp, strlen(tmp)); }
    vb_push(&out, '/');
    ndeleted_total += g_lc_ndel;
    lc_flush_dels(&out);
    (void)np;
  }
  if (no == 0) vb_push(&out, '.');
  sprintf(tmp, " %llu ", (unsigned long long)ldb_lru_usage(lru));
  if (!misuse) vb_append(&out, tmp, strlen(tmp));
  for (i = 0; i < nh; i++) if (live[i]) ldb_lru_release(lru, hs[i]);
  ndeleted_total += g_lc_ndel;
  lc_flush_dels(&out);
  vb_push(&out, '/');
  ldb_lru_destroy(lru);
  ndeleted_total += g_lc_ndel;
  lc_flush_dels(&out);
  if (misuse) fputs("misuse", stdout);
  else {
    fwrite(out.p, 1, out.n, stdout);
    if (g_lc_bad) fputs(" deleter-wrong-key", stdout);
    if (ndeleted_total != ninserted) printf(" leak:%ld", ninserted - ndeleted_total);
  }
  vb_free(&out); vb_free(&g_lc_log);
  return rc;
}

/* ---------------------------------------------------------------- htab */
static lru_handle_t *lc_node(const uint8_t *k, size_t n, uint32_t hash, int id) {
  lru_handle_t *e = (lru_handle_t *)malloc(sizeof(lru_handle_t) - 1 + n + (n == 0));
  memset(e, 0, sizeof(lru_handle_t) - 1);
  e->value = (void *)(uintptr_t)id; e->key_length = n; e->hash = hash; e->next = NULL;
  if (n) memcpy(e->key_data, k, n);
  return e;
}

static int lc_htab(char *ops) {
  static char *of[MAXL]; int no, i; uint32_t b;
  lru_table_t tbl;
  no = split_on(ops, ',', of, MAXL);
  for (i = 0; i < no; i++) {
    char buf[4096]; char *pf[5]; int np; unsigned long long a, c;
    if (strlen(of[i]) >= sizeof(buf)) return 0;
    strcpy(buf, of[i]);
    np = split_on(buf, ':', pf, 5);
    if (np == 4 && !strcmp(pf[0], "i")) { if (!parse_bytes(pf[1], &g_a) || !lc_num(pf[2], 1ULL << 32, &a) || !lc_num(pf[3], 1ULL << 31, &c)) return 0; }
    else if (np == 3 && (!strcmp(pf[0], "r") || !strcmp(pf[0], "l"))) { if (!parse_bytes(pf[1], &g_a) || !lc_num(pf[2], 1ULL << 32, &a)) return 0; }
    else return 0;
  }
  lru_table_init(&tbl);
  if (no == 0) fputc('.', stdout);
  for (i = 0; i < no; i++) {
    char *pf[5]; unsigned long long a = 0, c = 0; ldb_slice_t key; uint8_t *kc; lru_handle_t *r;
    split_on(of[i], ':', pf, 5);
    parse_bytes(pf[1], &g_a); lc_num(pf[2], 1ULL << 32, &a);
    if (i) fputc(';', stdout);
    kc = (uint8_t *)malloc(g_a.n ? g_a.n : 1); if (g_a.n) memcpy(kc, g_a.p, g_a.n);
    key.data = kc; key.size = g_a.n; key.alloc = 0;
    if (pf[0][0] == 'i') {
      lc_num(pf[3], 1ULL << 31, &c);
      r = lru_table_insert(&tbl, lc_node(kc, g_a.n, (uint32_t)a, (int)c));
    } else if (pf[0][0] == 'r') r = lru_table_remove(&tbl, &key, (uint32_t)a);
    else r = lru_table_lookup(&tbl, &key, (uint32_t)a);
    if (r) printf("%d", (int)(uintptr_t)r->value); else fputc('-', stdout);
    if (r && pf[0][0] != 'l') free(r);
    free(kc);
  }
  printf(" %lu %lu ", (unsigned long)tbl.length, (unsigned long)tbl.elems);
  for (b = 0; b < tbl.length; b++) {
    lru_handle_t *h = tbl.list[b]; int first = 1;
    if (b) fputc(',', stdout);
    if (!h) fputc('-', stdout);
    while (h) { lru_handle_t *nx = h->next_hash; printf("%s%d", first ? "" : ".", (int)(uintptr_t)h->value); first = 0; free(h); h = nx; }
  }
  lru_table_clear(&tbl);
  return 1;
}

static int handle_cache(char **f, int nf) {
  if (nf == 3 && !strcmp(f[0], "lru")) { if (!lc_lru(f[1], f[2])) printf("bad-op"); }
  else if (nf == 2 && !strcmp(f[0], "htab")) { if (!lc_htab(f[1])) printf("bad-op"); }
  else if (nf == 2 && !strcmp(f[0], "lruhash")) {
    uint32_t h;
    if (!parse_bytes(f[1], &g_a)) { printf("bad-op"); return 1; }
    { uint8_t *kc = (uint8_t *)malloc(g_a.n ? g_a.n : 1); ldb_slice_t s;
      if (g_a.n) memcpy(kc, g_a.p, g_a.n);
      s.data = kc; s.size = g_a.n; s.alloc = 0;
      h = ldb_lru_hash(&s); free(kc); }
    printf("%lu %lu", (unsigned long)h, (unsigned long)ldb_lru_shard(h));
  } else return 0;
  return 1;
}
