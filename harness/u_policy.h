/* file-selection mechanisms of src/version_set.c, called in-process on a REAL ldb_versions_t:
 *
 *   find_file, some_file_overlaps_range, ldb_version_get_overlapping_inputs,
 *   ldb_version_pick_level_for_memtable_output, add_boundary_inputs,
 *   ldb_versions_compact_range / ldb_versions_pick_compaction (which reach the static
 *   ldb_versions_setup_other_inputs), ldb_compaction_is_trivial_move.
 *
 * Protocol: lean/Driver/Policy.lean (header comment).  The version set is made by
 * ldb_versions_create("policy", &options, NULL, &icmp) (4th parameter = the INTERNAL key comparator, copied
 * into vset->icmp, as db_impl.c does) and vset->current->files[level] is filled with ldb_filemeta_create()
 * objects (refs = 1).  Nothing touches the file system; no repo .c file is #included.
 * Every key handed to the repo code (file boundaries, targets, compact pointer) is an exact-size heap block.
 *
 * Refusals decided here, before the C function is called (same order as the Lean driver):
 *   inverted  some file has largest < smallest in internal-key order (add_boundary_inputs may not terminate)
 *   fault     the call would read files[7] (level + 1 >= LDB_NUM_LEVELS in setup_other_inputs) or items[0] of an
 *             empty level (size compaction of an empty level in pick_compaction) */
#include "util/options.h"
#include "util/vector.h"
#include "util/coding.h"
#include "dbformat.h"
#include "version_edit.h"
#include "version_set.h"

#define PL_MAXFILES 64
#define PL_LEVELS 7

/* decimal, digits only, value <= max */
static int pl_u64(const char *s, uint64_t max, uint64_t *out) {
  uint64_t v = 0;
  if (!*s) return 0;
  for (; *s; s++) {
    unsigned d;
    if (*s < '0' || *s > '9') return 0;
    d = (unsigned)(*s - '0');
    if (v > (UINT64_MAX - d) / 10) return 0;
    v = v * 10 + d;
    if (v > max) return 0;
  }
  *out = v;
  return 1;
}

/* exact-size internal key: user key + fixed64 trailer */
static void pl_ikey(ldb_buffer_t *z, const uint8_t *k, size_t n, uint64_t packed) {
  z->data = (uint8_t *)malloc(n + 8);
  if (n) memcpy(z->data, k, n);
  ldb_fixed64_write(z->data + n, packed);
  z->size = n + 8;
  z->alloc = n + 8;
}

/* split on ':' counting every field (split_on treats "" and "." as no field at all) */
static int pl_split(char *s, char sep, char **f, int max) {
  int n = 0; char *p = s;
  for (;;) {
    char *q = strchr(p, sep);
    if (n < max) f[n] = p;
    n++;
    if (!q) break;
    *q = 0; p = q + 1;
  }
  return n;
}

static ldb_filemeta_t *pl_parse_file(char *s) {
  char *pf[6]; uint64_t num, size, sp, lp; ldb_filemeta_t *f;
  if (pl_split(s, ':', pf, 6) != 6) return NULL;
  if (!pl_u64(pf[0], (UINT64_C(1) << 63) - 1, &num) || !pl_u64(pf[1], (UINT64_C(1) << 40) - 1, &size)
      || !pl_u64(pf[3], UINT64_MAX, &sp) || !pl_u64(pf[5], UINT64_MAX, &lp)) return NULL;
  if (!parse_bytes(pf[2], &g_a) || !parse_bytes(pf[4], &g_b)) return NULL;
  f = ldb_filemeta_create();
  f->refs = 1;
  f->number = num;
  f->file_size = size;
  pl_ikey(&f->smallest, g_a.p, g_a.n, sp);
  pl_ikey(&f->largest, g_b.p, g_b.n, lp);
  return f;
}

static void pl_free_files(ldb_vector_t *v) {
  size_t i;
  for (i = 0; i < v->length; i++) ldb_filemeta_unref((ldb_filemeta_t *)v->items[i]);
  ldb_vector_clear(v);
}

/* "." / "" = none; at most 64; the vector is initialised here; 0 on error (nothing left allocated) */
static int pl_parse_files(char *s, ldb_vector_t *out) {
  static char *ff[PL_MAXFILES + 2]; int n, i;
  ldb_vector_init(out);
  if (s[0] == 0 || (s[0] == '.' && s[1] == 0)) return 1;
  n = pl_split(s, ',', ff, PL_MAXFILES + 1);
  if (n > PL_MAXFILES) return 0;
  for (i = 0; i < n; i++) {
    ldb_filemeta_t *f = pl_parse_file(ff[i]);
    if (!f) { pl_free_files(out); return 0; }
    ldb_vector_push(out, f);
  }
  return 1;
}

/* exactly 7 '|'-separated levels */
static int pl_parse_version(char *s, ldb_vector_t *lv) {
  char *parts[PL_LEVELS]; int i, j;
  if (pl_split(s, '|', parts, PL_LEVELS) != PL_LEVELS) return 0;
  for (i = 0; i < PL_LEVELS; i++) {
    if (!pl_parse_files(parts[i], &lv[i])) {
      for (j = 0; j < i; j++) pl_free_files(&lv[j]);
      return 0;
    }
  }
  return 1;
}

static void pl_free_version(ldb_vector_t *lv) {
  int i;
  for (i = 0; i < PL_LEVELS; i++) pl_free_files(&lv[i]);
}

/* ikey = khex:packed, '*' = NULL; on success *z is an exact-size buffer (or empty when NULL) */
static int pl_parse_ikey(char *s, int *isnull, ldb_buffer_t *z) {
  char *pf[2]; uint64_t packed;
  ldb_buffer_init(z);
  if (!strcmp(s, "*")) { *isnull = 1; return 1; }
  *isnull = 0;
  if (pl_split(s, ':', pf, 2) != 2) return 0;
  if (!parse_bytes(pf[0], &g_a) || !pl_u64(pf[1], UINT64_MAX, &packed)) return 0;
  pl_ikey(z, g_a.p, g_a.n, packed);
  return 1;
}

/* ukey = khex, '*' = NULL; exact-size copy */
static int pl_parse_ukey(const char *s, int *isnull, ldb_slice_t *z) {
  z->data = NULL; z->size = 0; z->alloc = 0;
  if (!strcmp(s, "*")) { *isnull = 1; return 1; }
  *isnull = 0;
  if (!parse_bytes(s, &g_a)) return 0;
  z->data = exact_copy(g_a.p, g_a.n); z->size = g_a.n;
  return 1;
}

static int pl_level(const char *s, int *out) {
  uint64_t v;
  if (!pl_u64(s, PL_LEVELS - 1, &v)) return 0;
  *out = (int)v;
  return 1;
}

static void pl_show_nums(const ldb_vector_t *v) {
  size_t i;
  if (v->length == 0) { fputc('.', stdout); return; }
  for (i = 0; i < v->length; i++) {
    const ldb_filemeta_t *f = (const ldb_filemeta_t *)v->items[i];
    printf("%s%llu", i ? "," : "", (unsigned long long)f->number);
  }
}

static int pl_inverted(const ldb_comparator_t *icmp, const ldb_vector_t *v) {
  size_t i;
  for (i = 0; i < v->length; i++) {
    const ldb_filemeta_t *f = (const ldb_filemeta_t *)v->items[i];
    if (ldb_compare(icmp, &f->largest, &f->smallest) < 0) return 1;
  }
  return 0;
}

static ldb_filemeta_t *pl_by_number(const ldb_vector_t *v, uint64_t num) {
  size_t i;
  for (i = 0; i < v->length; i++) {
    ldb_filemeta_t *f = (ldb_filemeta_t *)v->items[i];
    if (f->number == num) return f;
  }
  return NULL;
}

/* ---- a real version set around the parsed levels ---- */
typedef struct { ldb_dbopt_t opt; ldb_comparator_t icmp; ldb_versions_t *vset; } pl_env;

/* takes ownership of the files of lv[] */
static void pl_open(pl_env *e, const ldb_comparator_t *ucmp, uint64_t mfs, ldb_vector_t *lv) {
  int l;
  e->opt = *ldb_dbopt_default;
  e->opt.comparator = ucmp;
  e->opt.max_file_size = (size_t)mfs;
  e->opt.info_log = NULL;
  ldb_ikc_init(&e->icmp, ucmp);
  e->vset = ldb_versions_create("policy", &e->opt, NULL, &e->icmp);
  for (l = 0; l < PL_LEVELS; l++) {
    ldb_vector_swap(&e->vset->current->files[l], &lv[l]);
    ldb_vector_clear(&lv[l]);
  }
}

static void pl_close(pl_env *e) { ldb_versions_destroy(e->vset); }

static int pl_env_inverted(pl_env *e) {
  int l;
  for (l = 0; l < PL_LEVELS; l++) if (pl_inverted(&e->vset->icmp, &e->vset->current->files[l])) return 1;
  return 0;
}

/* in0;in1;grandparents;cpkhex:cppacked;trivial */
static void pl_show_setup(pl_env *e, ldb_compaction_t *c) {
  const ldb_buffer_t *cp = &e->vset->compact_pointer[c->level];
  pl_show_nums(&c->inputs[0]); fputc(';', stdout);
  pl_show_nums(&c->inputs[1]); fputc(';', stdout);
  pl_show_nums(&c->grandparents); fputc(';', stdout);
  if (cp->size < 8) fputs("short", stdout);
  else {
    show_bytes(stdout, cp->data, cp->size - 8);
    printf(":%llu", (unsigned long long)ldb_fixed64_decode(cp->data + cp->size - 8));
  }
  printf(";%d", ldb_compaction_is_trivial_move(c) ? 1 : 0);
}

/* ---- commands ---- */
static int pl_find(const ldb_comparator_t *ucmp, char *files, const char *khex, const char *packed) {
  ldb_vector_t v; ldb_comparator_t icmp; ldb_buffer_t t; uint64_t p;
  if (!pl_parse_files(files, &v)) return 0;
  if (!parse_bytes(khex, &g_a) || !pl_u64(packed, UINT64_MAX, &p)) { pl_free_files(&v); return 0; }
  ldb_ikc_init(&icmp, ucmp);
  pl_ikey(&t, g_a.p, g_a.n, p);
  printf("%d", find_file(&icmp, &v, &t));
  ldb_buffer_clear(&t);
  pl_free_files(&v);
  return 1;
}

static int pl_overlap(const ldb_comparator_t *ucmp, const char *d, char *files, const char *lo, const char *hi) {
  ldb_vector_t v; ldb_comparator_t icmp; ldb_slice_t a, b; int an, bn;
  if (!pl_parse_files(files, &v)) return 0;
  if (!pl_parse_ukey(lo, &an, &a)) { pl_free_files(&v); return 0; }
  if (!pl_parse_ukey(hi, &bn, &b)) { free(a.data); pl_free_files(&v); return 0; }
  if (strcmp(d, "0") && strcmp(d, "1")) { free(a.data); free(b.data); pl_free_files(&v); return 0; }
  ldb_ikc_init(&icmp, ucmp);
  printf("%d", some_file_overlaps_range(&icmp, d[0] == '1', &v, an ? NULL : &a, bn ? NULL : &b) ? 1 : 0);
  free(a.data); free(b.data);
  pl_free_files(&v);
  return 1;
}

static int pl_goi(const ldb_comparator_t *ucmp, char *version, const char *level, char *b, char *e) {
  ldb_vector_t lv[PL_LEVELS], inputs; pl_env env; int l, bn, en; ldb_buffer_t bk, ek;
  if (!pl_parse_version(version, lv)) return 0;
  if (!pl_level(level, &l)) { pl_free_version(lv); return 0; }
  if (!pl_parse_ikey(b, &bn, &bk)) { pl_free_version(lv); return 0; }
  if (!pl_parse_ikey(e, &en, &ek)) { ldb_buffer_clear(&bk); pl_free_version(lv); return 0; }
  pl_open(&env, ucmp, 2 * 1024 * 1024, lv);
  ldb_vector_init(&inputs);
  ldb_version_get_overlapping_inputs(env.vset->current, l, bn ? NULL : &bk, en ? NULL : &ek, &inputs);
  pl_show_nums(&inputs);
  ldb_vector_clear(&inputs);
  ldb_buffer_clear(&bk); ldb_buffer_clear(&ek);
  pl_close(&env);
  return 1;
}

static int pl_pick(const ldb_comparator_t *ucmp, char *version, const char *mfs, const char *sk, const char *lk) {
  ldb_vector_t lv[PL_LEVELS]; pl_env env; uint64_t m; ldb_slice_t a, b; int an, bn;
  if (!pl_parse_version(version, lv)) return 0;
  if (!pl_u64(mfs, (UINT64_C(1) << 32) - 1, &m)) { pl_free_version(lv); return 0; }
  if (!strcmp(sk, "*") || !pl_parse_ukey(sk, &an, &a)) { pl_free_version(lv); return 0; }
  if (!strcmp(lk, "*") || !pl_parse_ukey(lk, &bn, &b)) { free(a.data); pl_free_version(lv); return 0; }
  pl_open(&env, ucmp, m, lv);
  printf("%d", ldb_version_pick_level_for_memtable_output(env.vset->current, &a, &b));
  free(a.data); free(b.data);
  pl_close(&env);
  return 1;
}

static int pl_boundary(const ldb_comparator_t *ucmp, char *files, char *nums) {
  static char *nf[MAXL]; ldb_vector_t v, cf; ldb_comparator_t icmp; int n, i;
  if (!pl_parse_files(files, &v)) return 0;
  ldb_vector_init(&cf);
  n = (nums[0] == 0 || (nums[0] == '.' && nums[1] == 0)) ? 0 : pl_split(nums, ',', nf, MAXL);
  if (n > MAXL) { pl_free_files(&v); return 0; }
  for (i = 0; i < n; i++) {
    uint64_t num; ldb_filemeta_t *f;
    /* a number that does not parse is bad-op at once; one that is not present is bad-op too */
    if (!pl_u64(nf[i], UINT64_MAX, &num)) {
      /* digits only but >= 2^64 can never be a file number (< 2^63): still bad-op */
      ldb_vector_clear(&cf); pl_free_files(&v); return 0;
    }
    f = pl_by_number(&v, num);
    if (!f) { ldb_vector_clear(&cf); pl_free_files(&v); return 0; }
    ldb_vector_push(&cf, f);
  }
  ldb_ikc_init(&icmp, ucmp);
  if (pl_inverted(&icmp, &v)) printf("inverted");
  else {
    add_boundary_inputs(&icmp, &v, &cf);
    pl_show_nums(&cf);
  }
  ldb_vector_clear(&cf);
  pl_free_files(&v);
  return 1;
}

static int pl_range(const ldb_comparator_t *ucmp, char *version, const char *mfs, const char *level, char *b, char *e) {
  ldb_vector_t lv[PL_LEVELS]; pl_env env; uint64_t m; int l, bn, en, refuse = 0; ldb_buffer_t bk, ek;
  if (!pl_parse_version(version, lv)) return 0;
  if (!pl_u64(mfs, (UINT64_C(1) << 32) - 1, &m) || !pl_level(level, &l)) { pl_free_version(lv); return 0; }
  if (!pl_parse_ikey(b, &bn, &bk)) { pl_free_version(lv); return 0; }
  if (!pl_parse_ikey(e, &en, &ek)) { ldb_buffer_clear(&bk); pl_free_version(lv); return 0; }
  pl_open(&env, ucmp, m, lv);
  if (pl_env_inverted(&env)) { printf("inverted"); refuse = 1; }
  else if (l + 1 >= PL_LEVELS) {
    /* setup_other_inputs would read files[7]; compact_range gets there iff its inputs are not empty */
    ldb_vector_t inputs;
    ldb_vector_init(&inputs);
    ldb_version_get_overlapping_inputs(env.vset->current, l, bn ? NULL : &bk, en ? NULL : &ek, &inputs);
    if (inputs.length > 0) { printf("fault"); refuse = 1; }
    ldb_vector_clear(&inputs);
  }
  if (!refuse) {
    ldb_compaction_t *c = ldb_versions_compact_range(env.vset, l, bn ? NULL : &bk, en ? NULL : &ek);
    if (c == NULL) printf("null");
    else { pl_show_setup(&env, c); ldb_compaction_destroy(c); }
  }
  ldb_buffer_clear(&bk); ldb_buffer_clear(&ek);
  pl_close(&env);
  return 1;
}

static int pl_pickc(const ldb_comparator_t *ucmp, char *version, const char *mfs, const char *sz, char *sk, char *cp) {
  ldb_vector_t lv[PL_LEVELS]; pl_env env; uint64_t m; int cpn, szl = -1, skl = -1; ldb_buffer_t cpk;
  ldb_filemeta_t *seekf = NULL; ldb_version_t *cur;
  if (!pl_parse_version(version, lv)) return 0;
  if (!pl_u64(mfs, (UINT64_C(1) << 32) - 1, &m)) { pl_free_version(lv); return 0; }
  if (!pl_parse_ikey(cp, &cpn, &cpk)) { pl_free_version(lv); return 0; }
  if (strcmp(sz, "-") && !pl_level(sz, &szl)) { ldb_buffer_clear(&cpk); pl_free_version(lv); return 0; }
  if (strcmp(sk, "-")) {
    char *pf[2]; uint64_t num;
    if (pl_split(sk, ':', pf, 2) != 2 || !pl_level(pf[0], &skl) || !pl_u64(pf[1], UINT64_MAX, &num)
        || !(seekf = pl_by_number(&lv[skl], num))) { ldb_buffer_clear(&cpk); pl_free_version(lv); return 0; }
  }
  pl_open(&env, ucmp, m, lv);
  cur = env.vset->current;
  if (pl_env_inverted(&env)) printf("inverted");
  else if (szl >= 0 && (szl + 1 >= PL_LEVELS || cur->files[szl].length == 0)) printf("fault");
  else if (szl < 0 && seekf != NULL && skl + 1 >= PL_LEVELS) printf("fault");
  else {
    ldb_compaction_t *c;
    if (szl >= 0) {
      cur->compaction_score = 1.0;
      cur->compaction_level = szl;
      if (!cpn) {        /* hand the exact-size block over to the version set */
        ldb_buffer_clear(&env.vset->compact_pointer[szl]);
        env.vset->compact_pointer[szl] = cpk;
        ldb_buffer_init(&cpk);
      }
    } else { cur->compaction_score = 0; cur->compaction_level = -1; }
    if (seekf != NULL) { cur->file_to_compact = seekf; cur->file_to_compact_level = skl; }
    c = ldb_versions_pick_compaction(env.vset);
    if (c == NULL) printf("null");
    else { printf("%d;", c->level); pl_show_setup(&env, c); ldb_compaction_destroy(c); }
  }
  ldb_buffer_clear(&cpk);
  pl_close(&env);
  return 1;
}

static int handle_policy(char **f, int nf) {
  const ldb_comparator_t *c;
  int ok;
  if (nf == 5 && !strcmp(f[0], "pfind")) { c = parse_cmp(f[1]); ok = c && pl_find(c, f[2], f[3], f[4]); }
  else if (nf == 6 && !strcmp(f[0], "poverlap")) { c = parse_cmp(f[1]); ok = c && pl_overlap(c, f[2], f[3], f[4], f[5]); }
  else if (nf == 6 && !strcmp(f[0], "pgoi")) { c = parse_cmp(f[1]); ok = c && pl_goi(c, f[2], f[3], f[4], f[5]); }
  else if (nf == 6 && !strcmp(f[0], "ppick")) { c = parse_cmp(f[1]); ok = c && pl_pick(c, f[2], f[3], f[4], f[5]); }
  else if (nf == 4 && !strcmp(f[0], "pboundary")) { c = parse_cmp(f[1]); ok = c && pl_boundary(c, f[2], f[3]); }
  else if (nf == 7 && !strcmp(f[0], "prange")) { c = parse_cmp(f[1]); ok = c && pl_range(c, f[2], f[3], f[4], f[5], f[6]); }
  else if (nf == 7 && !strcmp(f[0], "ppickc")) { c = parse_cmp(f[1]); ok = c && pl_pickc(c, f[2], f[3], f[4], f[5], f[6]); }
  else return 0;
  if (!ok) printf("bad-op");
  return 1;
}
