/* iterator stack above blocks: the REAL table/merger.c and db_iter.c (and the generic
 * ldb_iter_seek_ge/gt/le/lt of table/iterator.c) over synthetic children.
 *
 * Children are real memtables (ldb_memtable_create/add + ldb_memiter_create: the real skiplist sorts
 * each run) or, for `!c` / `!i`, ldb_emptyiter_create(LDB_CORRUPTION / LDB_IOERR).
 *
 * Read sampling: ldb_dbiter_create takes a `ldb_t *db` only for ldb_record_read_sample(), which
 * dereferences it (NULL is NOT tolerated).  The harness passes NULL and makes sure the hook never
 * fires: it picks the seed whose first random_compaction_period() draw is the largest
 * (replaying ldb_rand_init/ldb_rand_uniform exactly as ldb_dbiter_init does) and refuses ("toobig")
 * any request whose worst-case number of bytes parsed could exceed that budget. */
#include "table/iterator.h"
#include "table/merger.h"
#include "util/random.h"
#include "util/status.h"
#include "dbformat.h"
#include "memtable.h"
#include "db_iter.h"

#define IS_MAXCH 16

typedef struct {
  ldb_comparator_t ikc;
  ldb_memtable_t *mts[IS_MAXCH];
  int nmt;
  ldb_iter_t *children[IS_MAXCH];
  int n;
  size_t bytes; /* sum of internal key + value sizes over all entries */
} is_stack;

static int is_digits(const char *s) {
  if (!*s) return 0;
  for (; *s; s++) if (*s < '0' || *s > '9') return 0;
  return 1;
}

static int is_parse_seq(const char *s, uint64_t *out) {
  unsigned long long v;
  if (!is_digits(s) || strlen(s) > 18) return 0;
  v = strtoull(s, NULL, 10);
  if (v >= (1ULL << 56)) return 0;
  *out = v;
  return 1;
}

static const char *is_status(int rc) {
  return rc == LDB_OK ? "ok" : rc == LDB_CORRUPTION ? "corrupt" : rc == LDB_IOERR ? "ioerror" : "other";
}

/* destroys children that have not been handed to a merging iterator, and the memtables */
static void is_release(is_stack *s, int destroy_children) {
  int i;
  if (destroy_children) for (i = 0; i < s->n; i++) ldb_iter_destroy(s->children[i]);
  for (i = 0; i < s->nmt; i++) ldb_memtable_unref(s->mts[i]);
  s->n = 0; s->nmt = 0;
}

/* one run "ukey:seq:kind:val,..." ("." = empty) into a fresh memtable; 0 on syntax error */
static int is_add_run(is_stack *s, char *spec) {
  static char *ef[MAXL]; int ne = split_on(spec, ',', ef, MAXL), i;
  ldb_memtable_t *mt = ldb_memtable_create(&s->ikc);
  ldb_memtable_ref(mt);
  s->mts[s->nmt++] = mt;
  for (i = 0; i < ne; i++) {
    char *pf[5]; int np = split_on(ef[i], ':', pf, 5);
    uint64_t seq; ldb_slice_t k, v; uint8_t *kc, *vc;
    if (np != 4 || !parse_bytes(pf[0], &g_a) || !is_parse_seq(pf[1], &seq) || !is_digits(pf[2]) || strlen(pf[2]) > 3
        || atoi(pf[2]) > 255 || !parse_bytes(pf[3], &g_b)) return 0;
    kc = exact_copy(g_a.p, g_a.n); vc = exact_copy(g_b.p, g_b.n);
    k.data = kc; k.size = g_a.n; k.alloc = 0;
    v.data = vc; v.size = g_b.n; v.alloc = 0;
    ldb_memtable_add(mt, seq, (ldb_valtype_t)atoi(pf[2]), &k, &v);
    free(kc); free(vc);
    s->bytes += g_a.n + 8 + g_b.n;
  }
  s->children[s->n++] = ldb_memiter_create(mt);
  return 1;
}

/* "~" = no children, else child|child|... ; 0 on syntax error (everything released) */
static int is_build(is_stack *s, const ldb_comparator_t *ucmp, char *spec) {
  static char *cf[IS_MAXCH + 1]; int nc = 0, i; char *p = spec;
  ldb_ikc_init(&s->ikc, ucmp);
  s->nmt = 0; s->n = 0; s->bytes = 0;
  if (!strcmp(spec, "~")) return 1;
  for (;;) {
    char *q = strchr(p, '|');
    if (nc >= IS_MAXCH) return 0;
    cf[nc++] = p;
    if (!q) break;
    *q = 0; p = q + 1;
  }
  for (i = 0; i < nc; i++) {
    if (!strcmp(cf[i], "!c")) s->children[s->n++] = ldb_emptyiter_create(LDB_CORRUPTION);
    else if (!strcmp(cf[i], "!i")) s->children[s->n++] = ldb_emptyiter_create(LDB_IOERR);
    else if (!is_add_run(s, cf[i])) { is_release(s, 1); return 0; }
  }
  return 1;
}

/* ---- merge ---- */
typedef struct { char op; vbuf key; uint64_t seq; } is_op;

static void is_show_merge(ldb_iter_t *it) {
  if (ldb_iter_valid(it)) {
    ldb_slice_t k = ldb_iter_key(it), v = ldb_iter_value(it);
    uint64_t num;
    if (k.size < 8) { fputs("1,short", stdout); return; }
    num = ldb_fixed64_decode(k.data + k.size - 8);
    fputs("1,", stdout); show_bytes(stdout, k.data, k.size - 8);
    printf(",%llu,%u,", (unsigned long long)(num >> 8), (unsigned)(num & 0xff));
    show_bytes(stdout, v.data, v.size);
  } else fputs("0,-,0,0,-", stdout);
}

static int is_merge(const ldb_comparator_t *ucmp, char *runs, char *ops) {
  static char *of[MAXL]; int no = split_on(ops, ',', of, MAXL), i;
  is_stack s; ldb_iter_t *it;
  /* syntax check of the ops before any output */
  for (i = 0; i < no; i++) {
    const char *o = of[i];
    if (!strcmp(o, "F") || !strcmp(o, "L") || !strcmp(o, "N") || !strcmp(o, "P")) continue;
    if (o[0] == 'S' && o[1] == ':') {
      char tmp[4096]; char *c2; uint64_t seq;
      if (strlen(o) >= sizeof(tmp)) return 0;
      strcpy(tmp, o + 2);
      c2 = strchr(tmp, ':');
      if (!c2 || strchr(c2 + 1, ':')) return 0;
      *c2 = 0;
      if (!parse_bytes(tmp, &g_a) || !is_parse_seq(c2 + 1, &seq)) return 0;
      continue;
    }
    return 0;
  }
  if (!is_build(&s, ucmp, runs)) return 0;
  it = ldb_mergeiter_create(&s.ikc, s.children, s.n);
  if (no == 0) fputc('.', stdout);
  for (i = 0; i < no; i++) {
    const char *o = of[i];
    if (i) fputc(';', stdout);
    if (o[0] == 'F') ldb_iter_first(it);
    else if (o[0] == 'L') ldb_iter_last(it);
    else if (o[0] == 'N' || o[0] == 'P') {
      if (!ldb_iter_valid(it)) { fputs("skip", stdout); continue; }
      if (o[0] == 'N') ldb_iter_next(it); else ldb_iter_prev(it);
    } else {
      char tmp[4096]; char *c2; uint64_t seq = 0; ldb_buffer_t ik; ldb_pkey_t pk; ldb_slice_t uk, t; uint8_t *tk;
      strcpy(tmp, o + 2); c2 = strchr(tmp, ':'); *c2 = 0;
      parse_bytes(tmp, &g_a); is_parse_seq(c2 + 1, &seq);
      uk.data = g_a.p; uk.size = g_a.n; uk.alloc = 0;
      ldb_buffer_init(&ik);
      ldb_pkey_init(&pk, &uk, seq, LDB_TYPE_VALUE);
      ldb_pkey_export(&ik, &pk);
      tk = exact_copy(ik.data, ik.size);
      t.data = tk; t.size = ik.size; t.alloc = 0;
      ldb_iter_seek(it, &t);
      free(tk); ldb_buffer_clear(&ik);
    }
    is_show_merge(it);
  }
  printf(" %s", is_status(ldb_iter_status(it)));
  /* n == 0: a fresh empty iterator; n == 1: the child itself; else the merger owns the children */
  ldb_iter_destroy(it);
  is_release(&s, 0);
  return 1;
}

/* ---- dbiter ---- */
static uint32_t g_is_seed; static size_t g_is_budget;

static void is_pick_seed(void) {
  uint32_t seed;
  if (g_is_seed) return;
  for (seed = 1; seed <= 4096; seed++) {
    ldb_rand_t r; size_t b;
    ldb_rand_init(&r, seed);
    b = ldb_rand_uniform(&r, 2 * LDB_READ_BYTES_PERIOD);
    if (b > g_is_budget || !g_is_seed) { g_is_budget = b; g_is_seed = seed; }
  }
}

static void is_show_dbiter(ldb_iter_t *it) {
  if (ldb_iter_valid(it)) {
    ldb_slice_t k = ldb_iter_key(it), v = ldb_iter_value(it);
    fputs("1,", stdout); show_bytes(stdout, k.data, k.size); fputc(',', stdout);
    show_bytes(stdout, v.data, v.size);
  } else fputs("0,-,-", stdout);
  printf(",%s", is_status(ldb_iter_status(it)));
}

static int is_dbiter(const ldb_comparator_t *ucmp, const char *seqs, char *runs, char *ops) {
  static char *of[MAXL]; int no = split_on(ops, ',', of, MAXL), i;
  is_stack s; ldb_iter_t *mi, *it; uint64_t seq;
  if (!is_parse_seq(seqs, &seq)) return 0;
  for (i = 0; i < no; i++) {
    const char *o = of[i]; const char *colon = strchr(o, ':');
    if (!colon) { if (strcmp(o, "F") && strcmp(o, "L") && strcmp(o, "N") && strcmp(o, "P")) return 0; }
    else {
      size_t l = (size_t)(colon - o);
      if (!((l == 1 && o[0] == 'S') || (l == 2 && (!strncmp(o, "GE", 2) || !strncmp(o, "GT", 2) || !strncmp(o, "LE", 2) || !strncmp(o, "LT", 2))))) return 0;
      if (strchr(colon + 1, ':') || !parse_bytes(colon + 1, &g_a)) return 0;
    }
  }
  if (!is_build(&s, ucmp, runs)) return 0;
  is_pick_seed();
  if ((s.bytes + 64) * 2 * (size_t)(no + 1) >= g_is_budget) { is_release(&s, 1); printf("toobig"); return 1; }
  mi = ldb_mergeiter_create(&s.ikc, s.children, s.n);
  it = ldb_dbiter_create(NULL, ucmp, mi, seq, g_is_seed);
  if (no == 0) fputc('.', stdout);
  for (i = 0; i < no; i++) {
    const char *o = of[i]; const char *colon = strchr(o, ':');
    if (i) fputc(';', stdout);
    if (!colon) {
      if (o[0] == 'F') ldb_iter_first(it);
      else if (o[0] == 'L') ldb_iter_last(it);
      else {
        if (!ldb_iter_valid(it)) { fputs("skip", stdout); continue; }
        if (o[0] == 'N') ldb_iter_next(it); else ldb_iter_prev(it);
      }
    } else {
      ldb_slice_t t; uint8_t *tk;
      parse_bytes(colon + 1, &g_a);
      tk = exact_copy(g_a.p, g_a.n);
      t.data = tk; t.size = g_a.n; t.alloc = 0;
      if (o[0] == 'S') ldb_iter_seek(it, &t);
      else if (o[0] == 'G' && o[1] == 'E') ldb_iter_seek_ge(it, &t);
      else if (o[0] == 'G') ldb_iter_seek_gt(it, &t);
      else if (o[1] == 'E') ldb_iter_seek_le(it, &t);
      else ldb_iter_seek_lt(it, &t);
      free(tk);
    }
    is_show_dbiter(it);
  }
  ldb_iter_destroy(it);   /* destroys the internal iterator too */
  is_release(&s, 0);
  return 1;
}

static int handle_iterstack(char **f, int nf) {
  if (nf == 4 && !strcmp(f[0], "merge")) {
    const ldb_comparator_t *c = parse_cmp(f[1]);
    if (!c || !is_merge(c, f[2], f[3])) printf("bad-op");
  } else if (nf == 5 && !strcmp(f[0], "dbiter")) {
    const ldb_comparator_t *c = parse_cmp(f[1]);
    if (!c || !is_dbiter(c, f[2], f[3], f[4])) printf("bad-op");
  } else return 0;
  return 1;
}
