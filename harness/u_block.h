/* table blocks: ldb_blockgen_*, ldb_block_init, ldb_blockiter_create + ldb_iter_* (incl. seek_ge/gt/le/lt) */
#include "util/options.h"
#include "table/format.h"
#include "table/block.h"
#include "table/block_builder.h"
#include "table/iterator.h"

/* exact-size heap copy so that ASan sees every read past the end */
static uint8_t *exact_copy(const uint8_t *p, size_t n) {
  uint8_t *q = (uint8_t *)malloc(n ? n : 1);
  if (n) memcpy(q, p, n);
  return q;
}

/* "k=v;k=v;..." through the real builder; result appended to out. returns 0 on syntax error */
static int blk_build(int interval, char *entries, vbuf *out) {
  static char *ef[MAXL]; int n = split_on(entries, ';', ef, MAXL), i;
  ldb_dbopt_t opt = *ldb_dbopt_default;
  ldb_blockgen_t bb; ldb_slice_t ret; int ok = 1;
  opt.block_restart_interval = interval;
  ldb_blockgen_init(&bb, &opt);
  for (i = 0; i < n && ok; i++) {
    char *kv[3]; int np = split_on(ef[i], '=', kv, 3);
    ldb_slice_t k, v;
    if (np != 2 || !parse_bytes(kv[0], &g_a) || !parse_bytes(kv[1], &g_b)) { ok = 0; break; }
    k.data = g_a.p; k.size = g_a.n; v.data = g_b.p; v.size = g_b.n;
    ldb_blockgen_add(&bb, &k, &v);
  }
  if (ok) {
    ret = ldb_blockgen_finish(&bb);
    out->n = 0; vb_append(out, ret.data, ret.size);
  }
  ldb_blockgen_clear(&bb);
  return ok;
}

static void blk_show_state(ldb_iter_t *it) {
  int st = ldb_iter_status(it);
  if (ldb_iter_valid(it)) {
    ldb_slice_t k = ldb_iter_key(it), v = ldb_iter_value(it);
    fputs("1,", stdout); show_bytes(stdout, k.data, k.size); fputc(',', stdout);
    show_bytes(stdout, v.data, v.size);
  } else fputs("0,-,-", stdout);
  printf(",%s", st == LDB_OK ? "ok" : "corrupt");
}

/* run "F,L,N,P,S:k,GE:k,GT:k,LE:k,LT:k" over the block; returns 0 on syntax error (nothing printed yet:
   the ops are parsed first) */
static int blk_iterate(const ldb_comparator_t *ucmp, int internal, const uint8_t *data, size_t n, char *ops) {
  static char *of[MAXL]; int no = split_on(ops, ',', of, MAXL), i;
  ldb_comparator_t ikc; const ldb_comparator_t *cmp = ucmp;
  ldb_contents_t contents; ldb_block_t block; ldb_iter_t *it;
  uint8_t *copy;
  /* syntax check before any output */
  for (i = 0; i < no; i++) {
    const char *o = of[i]; const char *colon = strchr(o, ':');
    if (!colon) { if (strcmp(o, "F") && strcmp(o, "L") && strcmp(o, "N") && strcmp(o, "P")) return 0; }
    else {
      size_t l = (size_t)(colon - o);
      if (!((l == 1 && o[0] == 'S') || (l == 2 && (!strncmp(o, "GE", 2) || !strncmp(o, "GT", 2) || !strncmp(o, "LE", 2) || !strncmp(o, "LT", 2))))) return 0;
      if (!parse_bytes(colon + 1, &g_a)) return 0;
    }
  }
  if (internal) { ldb_ikc_init(&ikc, ucmp); cmp = &ikc; }
  copy = exact_copy(data, n);
  contents.data.data = copy; contents.data.size = n; contents.data.alloc = 0;
  contents.cachable = 0; contents.heap_allocated = 0;
  ldb_block_init(&block, &contents);
  it = ldb_blockiter_create(&block, cmp);
  if (no == 0) fputc('.', stdout);
  for (i = 0; i < no; i++) {
    const char *o = of[i]; const char *colon = strchr(o, ':');
    if (i) fputc(';', stdout);
    if (!colon) {
      if (o[0] == 'F') ldb_iter_first(it);
      else if (o[0] == 'L') ldb_iter_last(it);
      else {
        /* next/prev assert validity; an NDEBUG build would be undefined: both sides skip */
        if (!ldb_iter_valid(it)) { fputs("skip", stdout); continue; }
        if (o[0] == 'N') ldb_iter_next(it); else ldb_iter_prev(it);
      }
    } else {
      ldb_slice_t t; uint8_t *tk;
      parse_bytes(colon + 1, &g_a);
      tk = exact_copy(g_a.p, g_a.n);
      t.data = tk; t.size = g_a.n; t.alloc = 0;
      if (o[0] == 'S') ldb_iter_seek(it, &t);
      else if (o[0] == 'G' && o[1] == 'E') ldb_iter_seek_ge(it, &t);
      else if (o[0] == 'G') ldb_iter_seek_gt(it, &t);
      else if (o[1] == 'E') ldb_iter_seek_le(it, &t);
      else ldb_iter_seek_lt(it, &t);
      free(tk);
    }
    blk_show_state(it);
  }
  ldb_iter_destroy(it);
  ldb_block_clear(&block);
  free(copy);
  return 1;
}

static int blk_mutate(vbuf *d, char *muts) {
  static char *mf[MAXL]; int nm = split_on(muts, ',', mf, MAXL), i;
  for (i = 0; i < nm; i++) {
    unsigned long long a = 0, b = 0;
    if (sscanf(mf[i], "t:%llu", &a) == 1) { if (a < d->n) d->n = a; }
    else if (sscanf(mf[i], "s:%llu:%llu", &a, &b) == 2) { if (a < d->n) d->p[a] = (uint8_t)b; }
    else if (sscanf(mf[i], "e:%llu:%llu", &a, &b) == 2) { if (a < d->n) d->p[d->n - 1 - a] = (uint8_t)b; }
    else return 0;
  }
  return 1;
}

static int parse01(const char *s, int *out) {
  if (!strcmp(s, "0")) { *out = 0; return 1; }
  if (!strcmp(s, "1")) { *out = 1; return 1; }
  return 0;
}

static int handle_block(char **f, int nf) {
  static vbuf blk; /* zero-initialised */
  if (nf == 3 && !strcmp(f[0], "bbuild")) {
    if (!blk_build(atoi(f[1]), f[2], &blk)) { printf("bad-op"); return 1; }
    show_bytes(stdout, blk.p, blk.n);
  } else if (nf == 2 && !strcmp(f[0], "binit")) {
    ldb_contents_t contents; ldb_block_t block; uint8_t *copy;
    if (!parse_bytes(f[1], &g_c)) { printf("bad-op"); return 1; }
    copy = exact_copy(g_c.p, g_c.n);
    contents.data.data = copy; contents.data.size = g_c.n; contents.data.alloc = 0;
    contents.cachable = 0; contents.heap_allocated = 0;
    ldb_block_init(&block, &contents);
    if (block.size < 4) printf("corrupt");
    else printf("ok %lu", (unsigned long)ldb_fixed32_decode(block.data + block.size - 4));
    free(copy);
  } else if (nf == 5 && !strcmp(f[0], "biterx")) {
    const ldb_comparator_t *c = parse_cmp(f[1]); int internal;
    if (!c || !parse01(f[2], &internal) || !parse_bytes(f[3], &g_c)) { printf("bad-op"); return 1; }
    if (!blk_iterate(c, internal, g_c.p, g_c.n, f[4])) printf("bad-op");
  } else if (nf == 6 && !strcmp(f[0], "bbi")) {
    const ldb_comparator_t *c = parse_cmp(f[2]); int internal; char *mem = NULL; size_t memn = 0; FILE *save, *ms; int ok;
    if (!c || !parse01(f[3], &internal) || !blk_build(atoi(f[1]), f[4], &blk)) { printf("bad-op"); return 1; }
    save = stdout; ms = open_memstream(&mem, &memn); stdout = ms;
    ok = blk_iterate(c, internal, blk.p, blk.n, f[5]);
    fflush(ms); stdout = save; fclose(ms);
    if (!ok) printf("bad-op"); else { show_bytes(stdout, blk.p, blk.n); printf(" %s", mem); }
    free(mem);
  } else if (nf == 7 && !strcmp(f[0], "bbim")) {
    const ldb_comparator_t *c = parse_cmp(f[2]); int internal; char *mem = NULL; size_t memn = 0; FILE *save, *ms; int ok;
    if (!c || !parse01(f[3], &internal) || !blk_build(atoi(f[1]), f[4], &blk) || !blk_mutate(&blk, f[5])) { printf("bad-op"); return 1; }
    save = stdout; ms = open_memstream(&mem, &memn); stdout = ms;
    ok = blk_iterate(c, internal, blk.p, blk.n, f[6]);
    fflush(ms); stdout = save; fclose(ms);
    if (!ok) printf("bad-op"); else { show_bytes(stdout, blk.p, blk.n); printf(" %s", mem); }
    free(mem);
  } else return 0;
  return 1;
}
