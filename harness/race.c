/* race.c - C10 dynamic support: a multi-threaded workload on ONE database handle, meant to be built with
 * -fsanitize=thread (vlib.build_harness('race', 'tsan')).
 *
 *   race <scratch-dir> <seconds> <seed> [writers readers iterators]
 *
 * Threads (all on the same ldb_t, the same block cache, shared snapshots are NOT shared: each snapshot and each
 * iterator is used by one thread, as the API requires):
 *   writers    put / del / write-batch (occasionally sync) on a small key space, small write buffer => frequent
 *              memtable switches, level-0 tables and background compactions (files being retired under readers)
 *   readers    get / has on random keys; the value must carry the key it was stored under
 *   iterators  own iterator per pass (with or without an own snapshot): forward / backward scans and seeks; keys must
 *              be strictly increasing (resp. decreasing)
 *   snapper    snapshot, read a key twice under it (must be identical), release
 *   misc       property (stats, sstables, num-files-at-level, approximate-memory-usage), approximate-sizes,
 *              compact-range (whole range and sub-ranges)
 * After <seconds> the threads are joined, the database is closed and `TSAN-CLEAN ...` is printed.
 * A ThreadSanitizer report makes the process exit non-zero (TSAN_OPTIONS=halt_on_error=1:exitcode=66);
 * a violated sanity condition prints `RACE-HARNESS-FAIL: ...` and exits 3.
 */
#include <stdio.h>
#include <stdlib.h>
#include <string.h>
#include <stdint.h>
#include <pthread.h>
#include <time.h>
#include <unistd.h>
#include <sys/stat.h>
#include <lcdb.h>

#define NKEYS 3000
#define MAXT 32

static ldb_t *g_db;
static int g_stop;
static uint64_t g_seed;
static uint64_t g_ops[MAXT];

typedef struct { uint64_t s; } rng_t;

static uint64_t
rnd(rng_t *r) {
  uint64_t z;
  r->s += 0x9E3779B97F4A7C15ULL;
  z = r->s;
  z = (z ^ (z >> 30)) * 0xBF58476D1CE4E5B9ULL;
  z = (z ^ (z >> 27)) * 0x94D049BB133111EBULL;
  return z ^ (z >> 31);
}

static int
stopped(void) {
  return __atomic_load_n(&g_stop, __ATOMIC_ACQUIRE);
}

static void
fail(const char *what, const char *detail) {
  fprintf(stdout, "RACE-HARNESS-FAIL: %s %s\n", what, detail ? detail : "");
  fflush(stdout);
  _exit(3);
}

static ldb_slice_t
mk_key(char *buf, unsigned k) {
  sprintf(buf, "k%06u", k % NKEYS);
  return ldb_slice(buf, 7);
}

static ldb_slice_t
mk_val(char *buf, const char *key, uint64_t x, rng_t *r) {
  size_t n = 10 + (size_t)(rnd(r) % 400);
  size_t len = (size_t)sprintf(buf, "%.7s:%016llx:", key, (unsigned long long)x);
  while (len < n + 26)
    buf[len++] = (char)('a' + (len % 26));
  return ldb_slice(buf, len);
}

static void
check_val(const ldb_slice_t *key, const ldb_slice_t *val) {
  if (val->size < 8 || memcmp(val->data, key->data, 7) != 0 || ((const char *)val->data)[7] != ':')
    fail("value does not belong to key", (const char *)key->data);
}

static void *
writer(void *arg) {
  int id = (int)(intptr_t)arg;
  rng_t r;
  char kb[16], vb[512];
  uint64_t n = 0;
  r.s = g_seed * 1000003ULL + (uint64_t)id;
  while (!stopped()) {
    unsigned op = (unsigned)(rnd(&r) % 100);
    int rc;
    if (op < 55) {
      ldb_slice_t k = mk_key(kb, (unsigned)rnd(&r));
      ldb_slice_t v = mk_val(vb, kb, n, &r);
      rc = ldb_put(g_db, &k, &v, NULL);
    } else if (op < 70) {
      ldb_slice_t k = mk_key(kb, (unsigned)rnd(&r));
      rc = ldb_del(g_db, &k, NULL);
    } else {
      ldb_batch_t b;
      ldb_writeopt_t wo = *ldb_writeopt_default;
      int i, cnt = 1 + (int)(rnd(&r) % 20);
      ldb_batch_init(&b);
      for (i = 0; i < cnt; i++) {
        ldb_slice_t k = mk_key(kb, (unsigned)rnd(&r));
        if (rnd(&r) % 4 == 0) {
          ldb_batch_del(&b, &k);
        } else {
          ldb_slice_t v = mk_val(vb, kb, n + (uint64_t)i, &r);
          ldb_batch_put(&b, &k, &v);
        }
      }
      wo.sync = (rnd(&r) % 50 == 0);
      rc = ldb_write(g_db, &b, &wo);
      ldb_batch_clear(&b);
    }
    if (rc != LDB_OK)
      fail("write failed:", ldb_strerror(rc));
    n++;
  }
  g_ops[id] = n;
  return NULL;
}

static void *
reader(void *arg) {
  int id = (int)(intptr_t)arg;
  rng_t r;
  char kb[16];
  uint64_t n = 0;
  r.s = g_seed * 1000003ULL + (uint64_t)id;
  while (!stopped()) {
    ldb_slice_t k = mk_key(kb, (unsigned)rnd(&r));
    if (rnd(&r) % 5 == 0) {
      int rc = ldb_has(g_db, &k, NULL);
      if (rc != LDB_OK && rc != LDB_NOTFOUND)
        fail("has failed:", ldb_strerror(rc));
    } else {
      ldb_slice_t v;
      ldb_readopt_t ro = *ldb_readopt_default;
      int rc;
      ro.verify_checksums = (rnd(&r) % 2 == 0);
      ro.fill_cache = (rnd(&r) % 4 != 0);
      rc = ldb_get(g_db, &k, &v, &ro);
      if (rc == LDB_OK) {
        check_val(&k, &v);
        ldb_free(v.data);
      } else if (rc != LDB_NOTFOUND) {
        fail("get failed:", ldb_strerror(rc));
      }
    }
    n++;
  }
  g_ops[id] = n;
  return NULL;
}

static void *
iterator(void *arg) {
  int id = (int)(intptr_t)arg;
  rng_t r;
  char kb[16], prev[8];
  uint64_t n = 0;
  r.s = g_seed * 1000003ULL + (uint64_t)id;
  while (!stopped()) {
    ldb_readopt_t ro = *ldb_iteropt_default;
    const ldb_snapshot_t *snap = NULL;
    ldb_iter_t *it;
    int steps = 20 + (int)(rnd(&r) % 400);
    int have_prev = 0, back = (rnd(&r) % 3 == 0), i;
    if (rnd(&r) % 2 == 0) {
      snap = ldb_snapshot(g_db);
      ro.snapshot = snap;
    }
    ro.fill_cache = (rnd(&r) % 2 == 0);
    it = ldb_iterator(g_db, &ro);
    if (rnd(&r) % 2 == 0) {
      ldb_slice_t k = mk_key(kb, (unsigned)rnd(&r));
      if (back)
        ldb_iter_seek_le(it, &k);
      else
        ldb_iter_seek(it, &k);
    } else if (back) {
      ldb_iter_last(it);
    } else {
      ldb_iter_first(it);
    }
    for (i = 0; i < steps && ldb_iter_valid(it) && !stopped(); i++) {
      ldb_slice_t k = ldb_iter_key(it);
      ldb_slice_t v = ldb_iter_value(it);
      if (k.size != 7)
        fail("iterator key of wrong size", NULL);
      check_val(&k, &v);
      if (have_prev) {
        int c = memcmp(prev, k.data, 7);
        if (back ? c <= 0 : c >= 0)
          fail("iterator keys out of order at", (const char *)k.data);
      }
      memcpy(prev, k.data, 7);
      prev[7] = 0;
      have_prev = 1;
      if (back)
        ldb_iter_prev(it);
      else
        ldb_iter_next(it);
      /* occasionally turn around */
      if (rnd(&r) % 97 == 0) {
        back = !back;
        have_prev = 0;
      }
    }
    if (ldb_iter_status(it) != LDB_OK)
      fail("iterator status:", ldb_strerror(ldb_iter_status(it)));
    ldb_iter_destroy(it);
    if (snap != NULL)
      ldb_release(g_db, snap);
    n++;
  }
  g_ops[id] = n;
  return NULL;
}

static void *
snapper(void *arg) {
  int id = (int)(intptr_t)arg;
  rng_t r;
  char kb[16];
  uint64_t n = 0;
  r.s = g_seed * 1000003ULL + (uint64_t)id;
  while (!stopped()) {
    const ldb_snapshot_t *snap = ldb_snapshot(g_db);
    ldb_readopt_t ro = *ldb_readopt_default;
    ldb_slice_t k = mk_key(kb, (unsigned)rnd(&r));
    ldb_slice_t v1, v2;
    int rc1, rc2, spin = (int)(rnd(&r) % 2000);
    volatile int sink = 0;
    ro.snapshot = snap;
    rc1 = ldb_get(g_db, &k, &v1, &ro);
    while (spin-- > 0)
      sink += spin;
    rc2 = ldb_get(g_db, &k, &v2, &ro);
    if (rc1 != rc2)
      fail("snapshot read not repeatable (status)", kb);
    if (rc1 == LDB_OK) {
      if (v1.size != v2.size || memcmp(v1.data, v2.data, v1.size) != 0)
        fail("snapshot read not repeatable (value)", kb);
      ldb_free(v1.data);
      ldb_free(v2.data);
    } else if (rc1 != LDB_NOTFOUND) {
      fail("snapshot get failed:", ldb_strerror(rc1));
    }
    ldb_release(g_db, snap);
    n++;
  }
  g_ops[id] = n;
  return NULL;
}

static void *
misc(void *arg) {
  int id = (int)(intptr_t)arg;
  rng_t r;
  char kb1[16], kb2[16];
  uint64_t n = 0;
  static const char *props[] = {"leveldb.stats", "leveldb.sstables", "leveldb.num-files-at-level0", "leveldb.num-files-at-level1",
                                "leveldb.approximate-memory-usage", "leveldb.nonsense"};
  r.s = g_seed * 1000003ULL + (uint64_t)id;
  while (!stopped()) {
    unsigned op = (unsigned)(rnd(&r) % 100);
    if (op < 50) {
      char *val = NULL;
      if (ldb_property(g_db, props[rnd(&r) % 6], &val))
        ldb_free(val);
    } else if (op < 85) {
      ldb_range_t rg[2];
      uint64_t sizes[2];
      unsigned a = (unsigned)(rnd(&r) % NKEYS), b = (unsigned)(rnd(&r) % NKEYS);
      if (a > b) { unsigned t = a; a = b; b = t; }
      rg[0].start = mk_key(kb1, a);
      rg[0].limit = mk_key(kb2, b);
      rg[1].start = ldb_slice("a", 1);
      rg[1].limit = ldb_slice("z", 1);
      ldb_approximate_sizes(g_db, rg, 2, sizes);
    } else if (op < 97) {
      unsigned a = (unsigned)(rnd(&r) % NKEYS), b = a + (unsigned)(rnd(&r) % 300);
      ldb_slice_t s = mk_key(kb1, a), e;
      if (b >= NKEYS) b = NKEYS - 1;
      e = mk_key(kb2, b);
      ldb_compact(g_db, &s, &e);
    } else {
      ldb_compact(g_db, NULL, NULL);
    }
    n++;
    usleep(1000 + (unsigned)(rnd(&r) % 4000));
  }
  g_ops[id] = n;
  return NULL;
}

int
main(int argc, char **argv) {
  pthread_t th[MAXT];
  void *(*fn[MAXT])(void *);
  const char *names[MAXT];
  ldb_dbopt_t opt;
  ldb_lru_t *cache;
  char path[1024];
  int seconds, nw = 3, nr = 2, ni = 2, nt = 0, i, rc;
  uint64_t total = 0;
  time_t t0;

  if (argc < 4) {
    fprintf(stderr, "usage: race <dir> <seconds> <seed> [writers readers iterators]\n");
    return 2;
  }
  seconds = atoi(argv[2]);
  g_seed = strtoull(argv[3], NULL, 10);
  if (argc >= 7) {
    nw = atoi(argv[4]);
    nr = atoi(argv[5]);
    ni = atoi(argv[6]);
  }
  mkdir(argv[1], 0755);
  snprintf(path, sizeof(path), "%s/racedb", argv[1]);

  opt = *ldb_dbopt_default;
  cache = ldb_lru_create(256 << 10);        /* small: evictions while tables are in use */
  opt.create_if_missing = 1;
  opt.write_buffer_size = 48 << 10;           /* frequent memtable switches */
  opt.max_file_size = 64 << 10;
  opt.block_size = 1024;
  opt.block_cache = cache;
  opt.filter_policy = ldb_bloom_default;
  opt.max_open_files = 64;                    /* table-cache evictions */
  opt.compression = (g_seed % 2) ? LDB_SNAPPY_COMPRESSION : LDB_NO_COMPRESSION;
  ldb_destroy(path, &opt);
  rc = ldb_open(path, &opt, &g_db);
  if (rc != LDB_OK) {
    fprintf(stdout, "RACE-HARNESS-FAIL: open: %s\n", ldb_strerror(rc));
    return 3;
  }
  for (i = 0; i < nw && nt < MAXT - 2; i++) { fn[nt] = writer; names[nt++] = "writer"; }
  for (i = 0; i < nr && nt < MAXT - 2; i++) { fn[nt] = reader; names[nt++] = "reader"; }
  for (i = 0; i < ni && nt < MAXT - 2; i++) { fn[nt] = iterator; names[nt++] = "iterator"; }
  fn[nt] = snapper; names[nt++] = "snapper";
  fn[nt] = misc; names[nt++] = "misc";
  t0 = time(NULL);
  for (i = 0; i < nt; i++)
    pthread_create(&th[i], NULL, fn[i], (void *)(intptr_t)i);
  while (time(NULL) - t0 < seconds)
    usleep(50000);
  __atomic_store_n(&g_stop, 1, __ATOMIC_RELEASE);
  for (i = 0; i < nt; i++)
    pthread_join(th[i], NULL);
  ldb_close(g_db);
  ldb_lru_destroy(cache);
  printf("TSAN-CLEAN seconds=%d seed=%llu threads=%d", seconds, (unsigned long long)g_seed, nt);
  for (i = 0; i < nt; i++) {
    printf(" %s=%llu", names[i], (unsigned long long)g_ops[i]);
    total += g_ops[i];
  }
  printf(" total=%llu\n", (unsigned long long)total);
  return 0;
}
