/* Workload runner: executes a script of API calls against a real database directory built from the
 * current tree and prints a transcript for the Lean trace checker (tracecheck).
 *
 * - `#include`s db_impl.c (left out of the link) so struct ldb_s is visible: memtable dumps, waiting for
 *   background quiescence, snapshots' sequence numbers;
 * - every version edit the database applies is captured by renaming the *call sites* of
 *   ldb_versions_apply inside db_impl.c to a wrapper (no change to /repo);
 * - every table a captured edit adds is decoded with the repo's own table reader at that moment and
 *   dumped (`file` line), so the checker knows the contents of files that live only briefly.
 *
 * Transcript lines (one event per line):
 *   open <rc> cmp=<c>             close                       err <text>
 *   switch                        w <ops>                     (ops: p:<key>:<valtok>,d:<key>)
 *   file <num> <size> <entries>   (entries: <ukey>:<seq>:<kind>:<valtok>,… or .)
 *   edit <level-changes>          (del:<level>:<num>,…;add:<level>:<num>:<size>:<sk>:<sp>:<lk>:<lp>,…)
 *   ver <lastseq> <nextfile> <lognum> <imm:0|1> L0=<num,..>|L1=…   (after every command that changed structure)
 *   mem <entries>   imm <entries|none>
 *   get <key> <seq> <valtok|notfound|err:code>
 *   snap <id> <seq>   rel <id> <seq>
 *   it <snapseq> <op> -> <valid> <key> <valtok> <status>
 *   ls <names,…>
 */
#define _GNU_SOURCE
#include "common.h"
#include <pthread.h>
#include <dirent.h>
#include <sys/stat.h>
#include <errno.h>
#include <unistd.h>
#include <sys/wait.h>

#include "iojournal.h"
#include "version_set.h"
static int wl_versions_apply(ldb_versions_t *vset, ldb_edit_t *edit, ldb_mutex_t *mu);
#define ldb_versions_apply wl_versions_apply
/* the only call site of ldb_compaction_add_input_deletions is ldb_install_compaction_results(db, state): record the
   smallest snapshot the drop loop of this compaction worked with (transcript line `csnap`, see Model/Compaction.lean) */
static void wl_note_smallest(uint64_t s);
#define ldb_compaction_add_input_deletions(c, e) \
  (wl_note_smallest((uint64_t)state->smallest_snapshot), (ldb_compaction_add_input_deletions)((c), (e)))
#include "db_impl.c"
#undef ldb_compaction_add_input_deletions
#undef ldb_versions_apply

#include "table/table.h"
#include "table/iterator.h"
#include "util/env.h"
#include "u_cmp.h"

/* A comparator that is not injective on byte strings: ASCII letters compare case-insensitively ("Key" and "KEY" are one
 * user key).  The model works on class representatives: every user key this harness prints is folded to lower case first
 * (print_key), and the model then runs with the bytewise comparator over the representatives -- which is exactly the order
 * this comparator induces on the classes. */
static int g_fold = 0;
static uint8_t fold_byte(uint8_t c) { return (g_fold && c >= 'A' && c <= 'Z') ? (uint8_t)(c + 32) : c; }
static int ci_compare(const ldb_comparator_t *c, const ldb_slice_t *x, const ldb_slice_t *y) {
  size_t n = x->size < y->size ? x->size : y->size, i; (void)c;
  for (i = 0; i < n; i++) {
    uint8_t a = x->data[i], b = y->data[i];
    if (a >= 'A' && a <= 'Z') a += 32;
    if (b >= 'A' && b <= 'Z') b += 32;
    if (a != b) return a < b ? -1 : 1;
  }
  return x->size < y->size ? -1 : (x->size > y->size ? 1 : 0);
}
static const ldb_comparator_t ci_comparator = { "verif.CaseFold", ci_compare, NULL, NULL, NULL, NULL };
/* comparators used only for opens that must be refused: their names extend, or are a prefix of, the name the database
   was created with, and their order differs from it */
static const ldb_comparator_t bw2_comparator = { "leveldb.BytewiseComparator.v2", rev_compare, NULL, NULL, NULL, NULL };
static const ldb_comparator_t bwp_comparator = { "leveldb.Bytewise", rev_compare, NULL, NULL, NULL, NULL };
static const ldb_comparator_t rev2_comparator = { "verif.ReverseBytewise.v2", len_compare, NULL, NULL, NULL, NULL };
static const ldb_comparator_t revp_comparator = { "verif.Reverse", len_compare, NULL, NULL, NULL, NULL };
static const ldb_comparator_t *parse_cmp2(const char *s) {
  if (!strcmp(s, "ci")) return &ci_comparator;
  if (!strcmp(s, "bw2")) return &bw2_comparator;
  if (!strcmp(s, "bwp")) return &bwp_comparator;
  if (!strcmp(s, "rev2")) return &rev2_comparator;
  if (!strcmp(s, "revp")) return &revp_comparator;
  return parse_cmp(s);
}
static void print_key(FILE *out, const void *p, size_t n) {
  const uint8_t *b = p; size_t i;
  if (!g_fold) { print_hex(out, p, n); return; }
  if (n == 0) { fputc('-', out); return; }
  for (i = 0; i < n; i++) fprintf(out, "%02x", fold_byte(b[i]));
}

#define MAXF 64
#define MAXL 8192

static vbuf g_a, g_b;
static pthread_mutex_t g_bglock = PTHREAD_MUTEX_INITIALIZER;
static char *g_bgbuf = NULL; static size_t g_bglen = 0; static FILE *g_bg = NULL;   /* events recorded by other threads */
static char g_dir[512];
static ldb_t *g_db = NULL;
static ldb_dbopt_t g_opt;
static const char *g_cmpname = "bw";
static ldb_bloom_t *g_bloom = NULL;
static ldb_lru_t *g_cache = NULL;
static int g_structural = 0;
static int g_verify = 0;
static int g_faultmode = 0; /* fault-injection run: a successful open is followed by a dump of everything recovered */
static int g_nowait = 0;   /* do not wait for background quiescence after each call (crash histories) */   /* read with verify_checksums */
#define MAXSNAP 64
static const ldb_snapshot_t *g_snap[MAXSNAP];
static uint64_t g_dumped[1 << 16]; static int g_ndumped = 0;

static void val_token(FILE *f, const uint8_t *p, size_t n) { show_bytes(f, p, n); }

static int was_dumped(uint64_t num) { int i; for (i = 0; i < g_ndumped; i++) if (g_dumped[i] == num) return 1; return 0; }

/* dump one table file with the repo's own reader */
static void dump_table_inner(FILE *out, const char *dbname, const ldb_dbopt_t *opt, uint64_t num, uint64_t size);
static void dump_table(FILE *out, const char *dbname, const ldb_dbopt_t *opt, uint64_t num, uint64_t size) {
  t_nofault++; dump_table_inner(out, dbname, opt, num, size); t_nofault--;
}
static void dump_table_inner(FILE *out, const char *dbname, const ldb_dbopt_t *opt, uint64_t num, uint64_t size) {
  char path[1024]; ldb_rfile_t *file = NULL; ldb_table_t *table = NULL; ldb_iter_t *it; int rc, first = 1;
  ldb_readopt_t ro = *ldb_readopt_default;
  ro.verify_checksums = 1; ro.fill_cache = 0;
  if (!ldb_table_filename(path, sizeof(path), dbname, num)) { fprintf(out, "err table name\n"); return; }
  rc = ldb_randfile_create(path, &file, 0);
  if (rc != LDB_OK) { fprintf(out, "err table open %llu rc=%d\n", (unsigned long long)num, rc); return; }
  rc = ldb_table_open(opt, file, size, &table);
  if (rc != LDB_OK) { fprintf(out, "err table parse %llu rc=%d\n", (unsigned long long)num, rc); ldb_rfile_destroy(file); return; }
  fprintf(out, "file %llu %llu ", (unsigned long long)num, (unsigned long long)size);
  it = ldb_tableiter_create(table, &ro);
  for (ldb_iter_first(it); ldb_iter_valid(it); ldb_iter_next(it)) {
    ldb_slice_t k = ldb_iter_key(it), v = ldb_iter_value(it);
    uint64_t tr;
    if (k.size < 8) { fprintf(out, "%sBADKEY", first ? "" : ","); first = 0; continue; }
    tr = ldb_fixed64_decode((const uint8_t *)k.data + k.size - 8);
    if (!first) fputc(',', out); first = 0;
    print_key(out, k.data, k.size - 8);
    fprintf(out, ":%llu:%d:", (unsigned long long)(tr >> 8), (int)(tr & 0xff));
    val_token(out, v.data, v.size);
  }
  if (first) fputc('.', out);
  if (ldb_iter_status(it) != LDB_OK) fprintf(out, " ITERERR=%d", ldb_iter_status(it));
  fputc('\n', out);
  ldb_iter_destroy(it);
  ldb_table_destroy(table);
  ldb_rfile_destroy(file);
}

static void print_ikey_parts(FILE *out, const ldb_buffer_t *ik) {
  if (ik->size < 8) { fprintf(out, "BAD:0"); return; }
  print_key(out, ik->data, ik->size - 8);
  fprintf(out, ":%llu", (unsigned long long)ldb_fixed64_decode(ik->data + ik->size - 8));
}

/* set by the background thread right before it builds the edit of a finished compaction; consumed by the apply wrapper */
static __thread int g_csnap_valid = 0; static __thread uint64_t g_csnap = 0;
static void wl_note_smallest(uint64_t s) { g_csnap = s; g_csnap_valid = 1; }

/* wrapper around every ldb_versions_apply call made from db_impl.c (foreground open/recovery and background thread) */
static long long g_first_apply_lognum = -1;
static int wl_versions_apply(ldb_versions_t *vset, ldb_edit_t *edit, ldb_mutex_t *mu) {
  int rc; size_t i; rb_iter_t it; int first;
  /* edits of other databases opened by the harness itself (crash images, backups) are not part of the transcript */
  if (strcmp(vset->dbname, g_dir) != 0) {
    g_csnap_valid = 0;
    pthread_mutex_lock(&g_bglock);
    if (g_first_apply_lognum < 0) g_first_apply_lognum = (long long)vset->log_number;
    pthread_mutex_unlock(&g_bglock);
    return ldb_versions_apply(vset, edit, mu);
  }
  pthread_mutex_lock(&g_bglock);
  if (g_first_apply_lognum < 0) g_first_apply_lognum = (long long)vset->log_number;
  if (!g_bg) g_bg = open_memstream(&g_bgbuf, &g_bglen);
  for (i = 0; i < edit->new_files.length; i++) {
    const meta_entry_t *en = edit->new_files.items[i];
    if (!was_dumped(en->meta.number)) {
      dump_table(g_bg, vset->dbname, vset->options, en->meta.number, en->meta.file_size);
      if (g_ndumped < (1 << 16)) g_dumped[g_ndumped++] = en->meta.number;
    }
  }
  pthread_mutex_unlock(&g_bglock);
  /* the edit line is assembled privately and emitted in one piece after the apply returned (the foreground
     thread may flush the shared event buffer in between) */
  { char *ebuf = NULL; size_t elen = 0; FILE *es = open_memstream(&ebuf, &elen);
    if (g_csnap_valid) { fprintf(es, "csnap %llu\n", (unsigned long long)g_csnap); g_csnap_valid = 0; }
    fprintf(es, "edit ");
    first = 1;
    rb_set_each(&edit->deleted_files, it) {
      const file_entry_t *en = rb_key_ptr(it);
      fprintf(es, "%sdel:%d:%llu", first ? "" : ",", en->level, (unsigned long long)en->number); first = 0;
    }
    if (first) fputc('.', es);
    fputc(';', es);
    first = 1;
    for (i = 0; i < edit->new_files.length; i++) {
      const meta_entry_t *en = edit->new_files.items[i];
      fprintf(es, "%sadd:%d:%llu:%llu:", first ? "" : ",", en->level, (unsigned long long)en->meta.number, (unsigned long long)en->meta.file_size); first = 0;
      print_ikey_parts(es, &en->meta.smallest); fputc(':', es); print_ikey_parts(es, &en->meta.largest);
    }
    if (first) fputc('.', es);
    fclose(es);
    rc = ldb_versions_apply(vset, edit, mu);
    pthread_mutex_lock(&g_bglock);
    if (!g_bg) g_bg = open_memstream(&g_bgbuf, &g_bglen);
    fprintf(g_bg, "%s rc=%d\n", ebuf, rc);
    g_structural = 1;
    pthread_mutex_unlock(&g_bglock);
    free(ebuf);
  }
  return rc;
}

static void flush_bg_events(void) {
  pthread_mutex_lock(&g_bglock);
  if (g_bg) { fflush(g_bg); fclose(g_bg); g_bg = NULL; if (g_bglen) fwrite(g_bgbuf, 1, g_bglen, stdout); free(g_bgbuf); g_bgbuf = NULL; g_bglen = 0; }
  pthread_mutex_unlock(&g_bglock);
}

static void flush_bg_events_discard(void) {
  pthread_mutex_lock(&g_bglock);
  if (g_bg) { fflush(g_bg); fclose(g_bg); g_bg = NULL; free(g_bgbuf); g_bgbuf = NULL; g_bglen = 0; }
  pthread_mutex_unlock(&g_bglock);
}

static void wait_quiescent(void) {
  if (!g_db) return;
  ldb_mutex_lock(&g_db->mutex);
  while (g_db->background_compaction_scheduled && g_db->bg_error == LDB_OK)
    ldb_cond_wait(&g_db->background_work_finished_signal, &g_db->mutex);
  ldb_mutex_unlock(&g_db->mutex);
}

static void dump_mem(const char *tag, ldb_memtable_t *mt) {
  ldb_iter_t *it; int first = 1;
  if (!mt) { printf("%s none\n", tag); return; }
  printf("%s ", tag);
  it = ldb_memiter_create(mt);
  for (ldb_iter_first(it); ldb_iter_valid(it); ldb_iter_next(it)) {
    ldb_slice_t k = ldb_iter_key(it), v = ldb_iter_value(it); uint64_t tr;
    if (k.size < 8) continue;
    tr = ldb_fixed64_decode((const uint8_t *)k.data + k.size - 8);
    if (!first) fputc(',', stdout); first = 0;
    print_key(stdout, k.data, k.size - 8);
    printf(":%llu:%d:", (unsigned long long)(tr >> 8), (int)(tr & 0xff));
    val_token(stdout, v.data, v.size);
  }
  if (first) fputc('.', stdout);
  fputc('\n', stdout);
  ldb_iter_destroy(it);
}

static void dump_internal(ldb_t *db) {
  ldb_iter_t *it = ldb_test_internal_iterator(db); int first = 1;
  for (ldb_iter_first(it); ldb_iter_valid(it); ldb_iter_next(it)) {
    ldb_slice_t k = ldb_iter_key(it), v2 = ldb_iter_value(it); uint64_t tr;
    if (k.size < 8) continue;
    tr = ldb_fixed64_decode((const uint8_t *)k.data + k.size - 8);
    if (!first) fputc(',', stdout); first = 0;
    print_key(stdout, k.data, k.size - 8);
    printf(":%llu:%d:", (unsigned long long)(tr >> 8), (int)(tr & 0xff));
    val_token(stdout, v2.data, v2.size);
  }
  if (first) fputc('.', stdout);
  if (ldb_iter_status(it) != LDB_OK) printf(" ITERERR=%d", ldb_iter_status(it));
  ldb_iter_destroy(it);
}

static void dump_ver(void) {
  int level; size_t i; ldb_version_t *v;
  if (!g_db) return;
  ldb_mutex_lock(&g_db->mutex);
  v = g_db->versions->current;
  printf("ver %llu %llu %llu %d ", (unsigned long long)g_db->versions->last_sequence, (unsigned long long)g_db->versions->next_file_number,
         (unsigned long long)g_db->versions->log_number, g_db->imm != NULL);
  for (level = 0; level < LDB_NUM_LEVELS; level++) {
    printf("%sL%d=", level ? "|" : "", level);
    for (i = 0; i < v->files[level].length; i++) {
      const ldb_filemeta_t *f = v->files[level].items[i];
      printf("%s%llu:%llu:", i ? "," : "", (unsigned long long)f->number, (unsigned long long)f->file_size);
      print_ikey_parts(stdout, &f->smallest); fputc(':', stdout); print_ikey_parts(stdout, &f->largest);
    }
    if (v->files[level].length == 0) fputc('.', stdout);
  }
  printf(" M=%llu", (unsigned long long)g_db->versions->manifest_file_number);
  fputc('\n', stdout);
  ldb_mutex_unlock(&g_db->mutex);
}

static void after_op(void) {
  if (!g_nowait) wait_quiescent();
  flush_bg_events();
  if (g_journal) jprint_new();
  if (g_structural) { g_structural = 0; dump_ver(); }
}

static void do_ls(void) {
  char **names = NULL; int n = ldb_get_children(g_dir, &names), i, first = 1;
  /* sort for canonical output */
  int a, b;
  for (a = 0; a < n; a++) for (b = a + 1; b < n; b++) if (strcmp(names[a], names[b]) > 0) { char *t = names[a]; names[a] = names[b]; names[b] = t; }
  printf("ls ");
  for (i = 0; i < n; i++) { if (!strcmp(names[i], ".") || !strcmp(names[i], "..")) continue; printf("%s%s", first ? "" : ",", names[i]); first = 0; }
  if (first) fputc('.', stdout);
  fputc('\n', stdout);
  if (n >= 0) ldb_free_children(names, n);
}

static int parse_opts(char **f, int nf, int from) {
  int i;
  g_opt = *ldb_dbopt_default;
  g_opt.create_if_missing = 1;
  g_opt.write_buffer_size = 64 << 10;
  g_opt.compression = LDB_NO_COMPRESSION;
  g_cmpname = "bw"; g_fold = 0;
  for (i = from; i < nf; i++) {
    char *eq = strchr(f[i], '='); long v;
    if (!eq) return 0;
    *eq = 0; v = atol(eq + 1);
    if (!strcmp(f[i], "cmp")) { const ldb_comparator_t *c = parse_cmp2(eq + 1); if (!c) return 0; g_opt.comparator = c; g_fold = c == &ci_comparator; g_cmpname = !strcmp(eq + 1, "rev") ? "rev" : (!strcmp(eq + 1, "len") ? "len" : (g_fold ? "ci" : (!strcmp(eq + 1, "bw") ? "bw" : "other"))); }
    else if (!strcmp(f[i], "wbuf")) g_opt.write_buffer_size = v;
    else if (!strcmp(f[i], "block")) g_opt.block_size = v;
    else if (!strcmp(f[i], "restart")) g_opt.block_restart_interval = v;
    else if (!strcmp(f[i], "comp")) g_opt.compression = v ? LDB_SNAPPY_COMPRESSION : LDB_NO_COMPRESSION;
    else if (!strcmp(f[i], "filter")) {
      /* filter policies are shared by every handle opened with the same bits and are never freed (a second open
         or a crash-image reopen may run while the first handle still uses its policy) */
      static ldb_bloom_t *blooms[128];
      if (v > 0 && v < 128) { if (!blooms[v]) blooms[v] = ldb_bloom_create(v); g_bloom = blooms[v]; g_opt.filter_policy = g_bloom; }
    }
    else if (!strcmp(f[i], "cache")) { if (g_cache) { /* destroyed at close */ } if (v >= 0) { g_cache = ldb_lru_create(v); g_opt.block_cache = g_cache; } }
    else if (!strcmp(f[i], "maxfile")) g_opt.max_file_size = v;
    else if (!strcmp(f[i], "maxopen")) g_opt.max_open_files = v;
    else if (!strcmp(f[i], "mmap")) g_opt.use_mmap = v;
    else if (!strcmp(f[i], "reuse")) g_opt.reuse_logs = v;
    else if (!strcmp(f[i], "paranoid")) g_opt.paranoid_checks = v;
    else if (!strcmp(f[i], "create")) g_opt.create_if_missing = v;
    else if (!strcmp(f[i], "errexists")) g_opt.error_if_exists = v;
    else return 0;
    *eq = '=';
  }
  return 1;
}

static void emit_ops_line(char *ops, const char *tag) {
  /* re-render the ops with value tokens so the checker never sees long values */
  static char *of[MAXL]; int n = split_on(ops, ',', of, MAXL), i;
  printf("%s ", tag);
  for (i = 0; i < n; i++) {
    char *pf[4]; int np = split_on(of[i], ':', pf, 4);
    if (i) fputc(',', stdout);
    if (np == 3) { parse_bytes(pf[1], &g_a); parse_bytes(pf[2], &g_b); printf("p:"); print_key(stdout, g_a.p, g_a.n); fputc(':', stdout); val_token(stdout, g_b.p, g_b.n); }
    else if (np == 2) { parse_bytes(pf[1], &g_a); printf("d:"); print_key(stdout, g_a.p, g_a.n); }
  }
  fputc('\n', stdout);
}

static int build_batch(ldb_batch_t *b, const char *ops_in) {
  char *ops = strdup(ops_in); static char *of[MAXL]; int n = split_on(ops, ',', of, MAXL), i, ok = 1;
  for (i = 0; i < n && ok; i++) {
    char *pf[4]; int np = split_on(of[i], ':', pf, 4); ldb_slice_t k, v;
    if (np == 3 && !strcmp(pf[0], "p")) {
      if (!parse_bytes(pf[1], &g_a) || !parse_bytes(pf[2], &g_b)) { ok = 0; break; }
      k = ldb_slice(g_a.p, g_a.n); v = ldb_slice(g_b.p, g_b.n); ldb_batch_put(b, &k, &v);
    } else if (np == 2 && !strcmp(pf[0], "d")) {
      if (!parse_bytes(pf[1], &g_a)) { ok = 0; break; }
      k = ldb_slice(g_a.p, g_a.n); ldb_batch_del(b, &k);
    } else ok = 0;
  }
  free(ops);
  return ok;
}

static uint64_t g_seq0 = 0;
static void do_write(const char *ops, int sync) {
  ldb_batch_t b; ldb_writeopt_t wo = *ldb_writeopt_default; int rc; uint64_t lognum;
  char *copy;
  ldb_batch_init(&b);
  if (!build_batch(&b, ops)) { printf("err bad ops\n"); ldb_batch_clear(&b); return; }
  wo.sync = sync;
  lognum = g_db->logfile_number;
  {
    uint64_t seq0 = g_db->versions->last_sequence + 1; int cnt = ldb_batch_count(&b); int j0 = nJ, k;
    g_seq0 = seq0;
    jmark("wbegin %llu %d %d", (unsigned long long)seq0, cnt, sync);
    rc = ldb_write(g_db, &b, &wo);
    if (g_journal && rc == LDB_OK) {
      /* the last write(2) on the current log since wbegin completes this batch's record */
      char lname[64]; snprintf(lname, sizeof(lname), "%06llu.log", (unsigned long long)g_db->logfile_number);
      pthread_mutex_lock(&g_jm);
      for (k = nJ - 1; k >= j0; k--) if (J[k].kind == J_WRITE && !strcmp(J[k].a, lname)) { J[k].tag = (long)seq0; break; }
      pthread_mutex_unlock(&g_jm);
      jmark("wack %llu %d %llu %d", (unsigned long long)seq0, cnt, (unsigned long long)g_db->logfile_number, sync);
    } else if (g_journal) jmark("wfail %llu %d %d", (unsigned long long)seq0, cnt, rc);
  }
  if (g_db->logfile_number != lognum) printf("switch\n");
  printf("seq0 %llu\n", (unsigned long long)g_seq0);
  if (rc == LDB_OK) { copy = strdup(ops); emit_ops_line(copy, "w"); free(copy); }
  else { copy = strdup(ops); emit_ops_line(copy, "wf"); free(copy); printf("werr %d\n", rc); }
  ldb_batch_clear(&b);
}

static void iter_report(ldb_iter_t *it, uint64_t seq, const char *op) {
  printf("it %llu %s -> ", (unsigned long long)seq, op);
  if (ldb_iter_valid(it)) {
    ldb_slice_t k = ldb_iter_key(it), v = ldb_iter_value(it);
    printf("1 "); print_key(stdout, k.data, k.size); fputc(' ', stdout); val_token(stdout, v.data, v.size);
  } else printf("0 - -");
  printf(" %d\n", ldb_iter_status(it));
}

/* For journal prefixes n = from, from+stride, .. <= to and every image variant: materialise, reopen with the real
   code, dump all internal entries (`crash` line).  With follow: then write three sync batches, close, reopen, dump
   again (`crash2` line) -- writes made after recovery must win and persist. */
#define MAXIT 16
static ldb_iter_t *g_it[MAXIT]; static uint64_t g_itseq[MAXIT];

/* apply a comma list of iterator ops; one `it` line per op (id >= 0: long-lived iterator `it@<id>`) */
static void run_iter_ops(ldb_iter_t *it, uint64_t seq, char *ops, int id) {
  static char *of[MAXL]; int n = split_on(ops, ',', of, MAXL), i; char tag[32];
  if (id >= 0) snprintf(tag, sizeof(tag), "it@%d", id); else snprintf(tag, sizeof(tag), "it");
  for (i = 0; i < n; i++) {
    char *op = of[i]; ldb_slice_t k; char opcopy[600];
    snprintf(opcopy, sizeof(opcopy), "%s", op);
    if (!strcmp(op, "F")) ldb_iter_first(it);
    else if (!strcmp(op, "L")) ldb_iter_last(it);
    else if (!strcmp(op, "N")) { if (!ldb_iter_valid(it)) { printf("%s %llu N -> skip\n", tag, (unsigned long long)seq); continue; } ldb_iter_next(it); }
    else if (!strcmp(op, "P")) { if (!ldb_iter_valid(it)) { printf("%s %llu P -> skip\n", tag, (unsigned long long)seq); continue; } ldb_iter_prev(it); }
    else {
      char *colon = strchr(op, ':');
      if (!colon || !parse_bytes(colon + 1, &g_a)) { printf("err bad iter op\n"); continue; }
      k = ldb_slice(g_a.p, g_a.n); *colon = 0;
      if (!strcmp(op, "S")) ldb_iter_seek(it, &k);
      else if (!strcmp(op, "GE")) ldb_iter_seek_ge(it, &k);
      else if (!strcmp(op, "GT")) ldb_iter_seek_gt(it, &k);
      else if (!strcmp(op, "LE")) ldb_iter_seek_le(it, &k);
      else if (!strcmp(op, "LT")) ldb_iter_seek_lt(it, &k);
      else { printf("err bad iter op\n"); continue; }
      { int len = snprintf(opcopy, sizeof(opcopy), "%s:", op); size_t j; for (j = 0; j < g_a.n && len < 590; j++) len += snprintf(opcopy + len, sizeof(opcopy) - len, "%02x", fold_byte(g_a.p[j])); if (g_a.n == 0) snprintf(opcopy + len, sizeof(opcopy) - len, "-"); }
    }
    printf("%s %llu %s -> ", tag, (unsigned long long)seq, opcopy);
    if (ldb_iter_valid(it)) {
      ldb_slice_t kk = ldb_iter_key(it), v = ldb_iter_value(it);
      printf("1 "); print_key(stdout, kk.data, kk.size); fputc(' ', stdout); val_token(stdout, v.data, v.size);
    } else printf("0 - -");
    printf(" %d\n", ldb_iter_status(it));
  }
}

static void crash_points(int from, int to, int stride, const char *vars, const char *imgdir, int follow) {
  int n, vi, saved = g_journal; long savedfault = g_fault_at;
  g_journal = 0; g_fault_at = -1;
  if (stride < 1) stride = 1;
  g_crng = 88172645463325252ULL ^ (uint64_t)nJ;
  for (n = from; n <= to; n++) {
    /* cut points: every `stride`-th journal prefix, plus the prefixes that end right after an event that opens or
       closes a durability window (new log, MANIFEST write/sync, table sync, rename, unlink) -- those are thinned so
       that about as many of them as stride points are taken */
    int take = ((n - from) % stride) == 0;
    if (!take && n >= 1 && n <= nJ) {
      const jev *e = &J[n - 1]; int hot = 0;
      if (e->kind == J_CREATE && strstr(e->a, ".log")) hot = 1;
      else if ((e->kind == J_WRITE || e->kind == J_SYNC) && !strncmp(e->a, "MANIFEST", 8)) hot = 1;
      else if (e->kind == J_RENAME || e->kind == J_UNLINK) hot = 1;
      else if (e->kind == J_SYNC && strstr(e->a, ".ldb")) hot = 1;
      if (hot && stride > 1 && (crnd() % 3) != 0) hot = 0;
      take = hot;
    }
    if (!take) continue;
    for (vi = 0; vars[vi]; vi++) {
      int v = vars[vi] - '0', rc; ldb_t *db2 = NULL; ldb_dbopt_t o2 = g_opt;
      materialise(n, v, imgdir);
      o2.create_if_missing = 1; o2.error_if_exists = 0; o2.info_log = NULL; o2.block_cache = NULL;
      g_first_apply_lognum = -1;
      rc = ldb_open(imgdir, &o2, &db2);
      if (follow == 2 && rc == LDB_OK && (v == 0 || v == 1) && (crnd() % 2) == 0) {
        /* nested: journal the recovery of a pristine copy of this image, then crash inside that recovery */
        char base[1200], work[1200], img2[1200]; jev *J0 = J; int nJ0 = nJ, capJ0 = capJ, printed0 = J_printed; char root0[512]; int m, nJ2; ldb_t *db3 = NULL;
        ldb_close(db2); db2 = NULL; flush_bg_events_discard();
        snprintf(base, sizeof(base), "%s.base", imgdir); snprintf(work, sizeof(work), "%s.work", imgdir); snprintf(img2, sizeof(img2), "%s.n2", imgdir);
        materialise(n, v, base); materialise(n, v, work);
        snprintf(root0, sizeof(root0), "%s", g_jroot);
        J = NULL; nJ = 0; capJ = 0; J_printed = 0; snprintf(g_jroot, sizeof(g_jroot), "%s", work); g_journal = 1;
        rc = ldb_open(work, &o2, &db3);
        if (rc == LDB_OK) ldb_close(db3);
        g_journal = 0; flush_bg_events_discard();
        nJ2 = nJ;
        /* what recovery found and which logs it created: the file-number counter must move past every log on disk */
        { char **nm = NULL; int cnt = ldb_get_children(base, &nm), q; int first = 1;
          printf("recnums %d %d have=", n, v);
          for (q = 0; q < cnt; q++) { size_t L = strlen(nm[q]); if (L > 4 && !strcmp(nm[q] + L - 4, ".log")) { printf("%s%lu", first ? "" : ",", strtoul(nm[q], NULL, 10)); first = 0; } }
          if (first) printf(".");
          if (cnt >= 0) ldb_free_children(nm, cnt);
          printf(" created="); first = 1;
          for (q = 0; q < nJ2; q++) if (J[q].kind == J_CREATE && J[q].trunc && strstr(J[q].a, ".log")) { printf("%s%lu", first ? "" : ",", strtoul(J[q].a, NULL, 10)); first = 0; }
          if (first) printf(".");
          printf("\n"); }
        for (m = 1; m <= nJ2; m += 1 + (int)(crnd() % 3)) {
          int v2 = (int)(crnd() % 2), rc2; ldb_t *db4 = NULL;
          if (J[m - 1].kind == J_MARK) continue;
          materialise_from(base, m, v2, img2);
          g_first_apply_lognum = -1;
          rc2 = ldb_open(img2, &o2, &db4);
          printf("crashn %d %d %d %d rc=%d", n, v, m, v2, rc2);
          if (rc2 == LDB_OK) { printf(" lognum=%lld lastseq=%llu ", g_first_apply_lognum >= 0 ? g_first_apply_lognum : (long long)db4->versions->log_number, (unsigned long long)db4->versions->last_sequence); dump_internal(db4); ldb_close(db4); }
          fputc('\n', stdout);
          flush_bg_events_discard();
        }
        { int q; for (q = 0; q < nJ; q++) free(J[q].data); free(J); }
        J = J0; nJ = nJ0; capJ = capJ0; J_printed = printed0; snprintf(g_jroot, sizeof(g_jroot), "%s", root0);
        { char cmd[4000]; snprintf(cmd, sizeof(cmd), "rm -rf '%s' '%s' '%s'", base, work, img2); if (system(cmd) != 0) { /* ignore */ } }
        /* reopen the first-level image for the ordinary checks below */
        materialise(n, v, imgdir);
        g_first_apply_lognum = -1;
        rc = ldb_open(imgdir, &o2, &db2);
      }
      if (rc == LDB_OK) {
        /* the file-number counter a recovery ends with must lie above every numbered file in the directory: a number at or
           above it would be handed out again and the file re-created (truncated) */
        char **nm = NULL; int cnt = ldb_get_children(imgdir, &nm), q; unsigned long maxnum = 0; char maxname[64] = "-";
        for (q = 0; q < cnt; q++) {
          char *e = NULL; unsigned long x = strtoul(nm[q], &e, 10);
          if (e != nm[q] && (!strcmp(e, ".log") || !strcmp(e, ".ldb") || !strcmp(e, ".sst")) && x >= maxnum) { maxnum = x; snprintf(maxname, sizeof(maxname), "%s", nm[q]); }
          if (!strncmp(nm[q], "MANIFEST-", 9)) { x = strtoul(nm[q] + 9, NULL, 10); if (x >= maxnum) { maxnum = x; snprintf(maxname, sizeof(maxname), "%s", nm[q]); } }
        }
        if (cnt >= 0) ldb_free_children(nm, cnt);
        printf("recnext %d %d next=%llu max=%lu name=%s\n", n, v, (unsigned long long)db2->versions->next_file_number, maxnum, maxname);
      }
      printf("crash %d %d rc=%d", n, v, rc);
      if (rc == LDB_OK) {
        printf(" lognum=%lld lastseq=%llu ", g_first_apply_lognum >= 0 ? g_first_apply_lognum : (long long)db2->versions->log_number, (unsigned long long)db2->versions->last_sequence);
        dump_internal(db2);
        if (follow) {
          int k; uint64_t seq0 = db2->versions->last_sequence + 1; int wrc = 0;
          for (k = 0; k < 3 && wrc == 0; k++) {
            char kb[64], vb[64]; ldb_slice_t ks, vs; ldb_writeopt_t wo = *ldb_writeopt_default; wo.sync = 1;
            snprintf(kb, sizeof(kb), "zz-follow-%d", k); snprintf(vb, sizeof(vb), "f%d-%d-%d", n, v, k);
            ks = ldb_string(kb); vs = ldb_string(vb);
            wrc = ldb_put(db2, &ks, &vs, &wo);
          }
          /* writes made after recovery must take precedence over recovered data: overwrite the newest recovered keys */
          { ldb_iter_t *it = ldb_test_internal_iterator(db2); static uint8_t okey[8][256]; static size_t olen[8]; static uint64_t oseq[8]; int no = 0, j;
            for (j = 0; j < 8; j++) { olen[j] = 0; oseq[j] = 0; }
            for (ldb_iter_first(it); ldb_iter_valid(it); ldb_iter_next(it)) {
              ldb_slice_t kk = ldb_iter_key(it); uint64_t tr, sq; int slot = -1;
              if (kk.size < 8 || kk.size - 8 > 250) continue;
              tr = ldb_fixed64_decode((const uint8_t *)kk.data + kk.size - 8); sq = tr >> 8;
              if (kk.size - 8 >= 10 && !memcmp(kk.data, "zz-follow-", 10)) continue;
              for (j = 0; j < no; j++) if (olen[j] == kk.size - 8 && !memcmp(okey[j], kk.data, olen[j])) { slot = -2; break; }
              if (slot == -2) continue;       /* internal iterator yields the newest version of a key first */
              if (no < 8) slot = no++; else { int m = 0; for (j = 1; j < 8; j++) if (oseq[j] < oseq[m]) m = j; if (oseq[m] < sq) slot = m; }
              if (slot >= 0) { memcpy(okey[slot], kk.data, kk.size - 8); olen[slot] = kk.size - 8; oseq[slot] = sq; }
            }
            ldb_iter_destroy(it);
            printf(" over=");
            for (j = 0; j < no && wrc == 0; j++) {
              char vb[64]; ldb_slice_t ks, vs; ldb_writeopt_t wo = *ldb_writeopt_default; wo.sync = (j % 2);
              snprintf(vb, sizeof(vb), "o%d-%d-%d", n, v, j);
              ks = ldb_slice(okey[j], olen[j]); vs = ldb_string(vb);
              wrc = ldb_put(db2, &ks, &vs, &wo);
              printf("%s", j ? "," : ""); print_key(stdout, okey[j], olen[j]);
            }
            if (no == 0) printf(".");
          }
          ldb_close(db2); db2 = NULL;
          fputc('\n', stdout);
          rc = ldb_open(imgdir, &o2, &db2);
          printf("crash2 %d %d rc=%d wrc=%d seq0=%llu", n, v, rc, wrc, (unsigned long long)seq0);
          if (rc == LDB_OK) { printf(" lastseq=%llu ", (unsigned long long)db2->versions->last_sequence); dump_internal(db2); }
        }
        if (db2) ldb_close(db2);
      }
      fputc('\n', stdout);
      flush_bg_events_discard();
    }
  }
  g_journal = saved; g_fault_at = savedfault;
}

static void handle(char *line) {
  static char *f[MAXF]; int nf;
  if (!strncmp(line, "ensureopen ", 11)) {
    /* ensureopen <dir> [opts]: `open` unless a handle is open already (after opens that may have failed under a fault) */
    if (g_db) { printf("ensureopen noop\n"); return; }
    memmove(line + 4, line + 10, strlen(line + 10) + 1); memcpy(line, "open", 4);
  }
  nf = split_fields(line, f, MAXF);
  if (nf >= 2 && !strcmp(f[0], "open")) {
    int rc;
    if (g_db) { printf("err already open\n"); return; }
    snprintf(g_dir, sizeof(g_dir), "%s", f[1]);
    { ldb_dbopt_t prev = g_opt; const char *prevcmp = g_cmpname; int prevfold = g_fold;
    if (!parse_opts(f, nf, 2)) { printf("err bad opts\n"); return; }
    if (g_journal) { snprintf(g_jroot, sizeof(g_jroot), "%s", g_dir); jmark("open-begin"); }
    rc = ldb_open(g_dir, &g_opt, &g_db);
    if (g_journal) jmark("open-end %d", rc);
    if (rc != LDB_OK) { g_db = NULL; if (prevcmp) { g_opt = prev; g_cmpname = prevcmp; g_fold = prevfold; } } }
    flush_bg_events();
    if (rc == LDB_OK) printf("opts mfs=%llu\n", (unsigned long long)g_opt.max_file_size);
    printf("open %d cmp=%s\n", rc, g_cmpname);
    if (g_db && g_faultmode) { t_nofault++; printf("recovered %llu ", (unsigned long long)g_db->versions->last_sequence); dump_internal(g_db); fputc('\n', stdout); t_nofault--;
      /* the dump has opened every table: evict them again, a freshly opened database has a cold table cache (so that what
         follows -- a compaction, a get -- has to open and read its tables inside the fault window) */
      { int level; size_t i; ldb_mutex_lock(&g_db->mutex);
        for (level = 0; level < LDB_NUM_LEVELS; level++) for (i = 0; i < g_db->versions->current->files[level].length; i++)
          ldb_tables_evict(g_db->table_cache, ((ldb_filemeta_t *)g_db->versions->current->files[level].items[i])->number);
        ldb_mutex_unlock(&g_db->mutex); } }
    if (g_journal) jprint_new();
    if (g_db) { wait_quiescent(); flush_bg_events(); g_structural = 0; dump_ver(); dump_mem("mem", g_db->mem); }
  } else if (nf == 1 && !strcmp(f[0], "close")) {
    int i;
    if (!g_db) { printf("closed close\n"); return; }
    for (i = 0; i < MAXIT; i++) if (g_it[i]) { ldb_iter_destroy(g_it[i]); g_it[i] = NULL; }
    for (i = 0; i < MAXSNAP; i++) if (g_snap[i]) { ldb_release(g_db, g_snap[i]); g_snap[i] = NULL; }
    wait_quiescent(); flush_bg_events();
    if (g_journal) jmark("close-begin");
    ldb_close(g_db); g_db = NULL;
    if (g_journal) jmark("close-end");
    if (g_cache) { ldb_lru_destroy(g_cache); g_cache = NULL; g_opt.block_cache = NULL; }
    flush_bg_events();
    if (g_journal) jprint_new();
    printf("close\n");
  } else if (nf == 2 && !strcmp(f[0], "lockprobe")) {
    /* lockprobe <dir>: can ANOTHER PROCESS open the database right now?  (fork + exec of ourselves in probe mode) */
    pid_t pid; int st = 0; fflush(stdout);
    pid = fork();
    if (pid == 0) { execl("/proc/self/exe", "wl", "--probe", f[1], (char *)0); _exit(97); }
    waitpid(pid, &st, 0);
    printf("lockprobe %d\n", WIFEXITED(st) ? WEXITSTATUS(st) : 98);
  } else if (nf >= 2 && !strcmp(f[0], "open2")) {
    /* open2 <dir> [opts]: a second ldb_open while the first handle (if any) stays open; the handle is closed at once */
    ldb_t *db2 = NULL; ldb_dbopt_t save = g_opt; const char *savecmp = g_cmpname; int rc; int savefold = g_fold;
    if (!parse_opts(f, nf, 2)) { printf("err bad opts\n"); g_opt = save; g_fold = savefold; g_cmpname = savecmp; return; }
    if (g_journal) jmark("open2-begin");
    rc = ldb_open(f[1], &g_opt, &db2);
    if (g_journal) jmark("open2-end %d", rc);
    if (rc == LDB_OK) ldb_close(db2);
    g_opt = save; g_cmpname = savecmp; g_fold = savefold;
    flush_bg_events_discard();
    printf("open2 %d\n", rc);
    if (g_journal) jprint_new();
  } else if (nf == 2 && !strcmp(f[0], "backup")) {
    int rc;
    if (!g_db) { printf("err not open\n"); return; }
    rc = ldb_backup(g_db, f[1]);
    printf("backup %d %s%s\n", rc, f[1], !strcmp(f[1], g_dir) ? " self" : "");
    after_op();
  } else if (nf == 2 && !strcmp(f[0], "bcheck")) {
    /* bcheck <dir>: open the backup/copy as an independent database, dump everything a reader can see, close */
    ldb_t *db2 = NULL; ldb_dbopt_t o2 = g_opt; int rc; int saved = g_journal;
    g_journal = 0;
    o2.create_if_missing = 0; o2.info_log = NULL; o2.block_cache = NULL;
    rc = ldb_open(f[1], &o2, &db2);
    printf("bcheck %s rc=%d ", f[1], rc);
    if (rc == LDB_OK) { dump_internal(db2); ldb_close(db2); } else printf(".");
    fputc('\n', stdout);
    flush_bg_events_discard();
    g_journal = saved;
  } else if (nf == 3 && !strcmp(f[0], "copy")) {
    int rc = ldb_copy(f[1], f[2], &g_opt);
    printf("copy %d %s\n", rc, f[2]);
  } else if (nf == 2 && !strcmp(f[0], "foreign")) {
    /* create a file the database does not own inside its directory */
    char path[1024]; FILE *fp; snprintf(path, sizeof(path), "%s/%s", g_dir, f[1]);
    fp = fopen(path, "w"); if (fp) { fputs("foreign\n", fp); fclose(fp); }
    printf("foreign %s\n", f[1]);
  } else if (nf == 1 && !strcmp(f[0], "destroy")) {
    int rc;
    if (g_db) { printf("err destroy needs a closed db\n"); return; }
    rc = ldb_destroy(g_dir, &g_opt);
    printf("destroy %d\n", rc);
    do_ls();
  } else if (nf == 1 && !strcmp(f[0], "lsclosed")) {
    do_ls();
  } else if (nf == 1 && !strcmp(f[0], "expectfail")) {
    printf("expectfail\n");
  } else if (nf == 5 && !strcmp(f[0], "corruptcopy")) {
    /* corruptcopy <srcdir> <dstdir> <file-kind: ldb|log|MANIFEST|CURRENT>:<index> <mutation>
       copy the closed database and damage one file of the copy; mutation = x:<pos>:<mask> | s:<pos>:<val> | t:<pos> | z:<pos>:<len>
       with <pos> = absolute offset or p<permille> of the file size */
    char **names = NULL; int n, i, idx = 0, hit = -1, cnt = 0; char kind[32]; char src[1024], dst[1024]; char *colon;
    if (g_db) { printf("err corruptcopy needs a closed db\n"); return; }
    snprintf(kind, sizeof(kind), "%s", f[3]); colon = strchr(kind, ':'); if (colon) { *colon = 0; idx = atoi(colon + 1); }
    snprintf(src, sizeof(src), "rm -rf '%s' && mkdir -p '%s'", f[2], f[2]); if (system(src) != 0) { /* ignore */ }
    n = ldb_get_children(f[1], &names);
    { int a, b; for (a = 0; a < n; a++) for (b = a + 1; b < n; b++) if (strcmp(names[a], names[b]) > 0) { char *t = names[a]; names[a] = names[b]; names[b] = t; } }
    for (i = 0; i < n; i++) {
      FILE *in, *out; static unsigned char buf[1 << 16]; size_t r;
      if (!strcmp(names[i], ".") || !strcmp(names[i], "..") || !strcmp(names[i], "LOCK") || !strncmp(names[i], "LOG", 3) || !strcmp(names[i], "lost")) continue;
      snprintf(src, sizeof(src), "%s/%s", f[1], names[i]); snprintf(dst, sizeof(dst), "%s/%s", f[2], names[i]);
      in = fopen(src, "rb"); out = fopen(dst, "wb");
      if (in && out) while ((r = fread(buf, 1, sizeof(buf), in)) > 0) fwrite(buf, 1, r, out);
      if (in) fclose(in); if (out) fclose(out);
      if (strstr(names[i], kind) != NULL) { if (cnt == idx || hit < 0) hit = i; cnt++; }
    }
    if (hit >= 0) {
      struct stat st; unsigned long long pos = 0, a = 0; char m = f[4][0]; const char *p = f[4] + 2; FILE *fp;
      snprintf(dst, sizeof(dst), "%s/%s", f[2], names[hit]);
      if (stat(dst, &st) != 0) st.st_size = 0;
      if (*p == 'p') { pos = (unsigned long long)st.st_size * strtoull(p + 1, NULL, 10) / 1000ULL; } else pos = strtoull(p, NULL, 10);
      { const char *q = strchr(p, ':'); if (q) a = strtoull(q + 1, NULL, 10); }
      if (m == 't') { if (truncate(dst, (off_t)(pos < (unsigned long long)st.st_size ? pos : (unsigned long long)st.st_size)) != 0) { /* ignore */ } }
      else if (st.st_size > 0 && (fp = fopen(dst, "r+b")) != NULL) {
        unsigned char c = 0; if (pos >= (unsigned long long)st.st_size) pos = st.st_size - 1;
        fseek(fp, (long)pos, SEEK_SET);
        if (m == 'z') { unsigned long long k; for (k = 0; k < a && pos + k < (unsigned long long)st.st_size; k++) fputc(0, fp); }
        else { if (fread(&c, 1, 1, fp) != 1) c = 0; fseek(fp, (long)pos, SEEK_SET); fputc(m == 'x' ? (c ^ (unsigned char)a) : (unsigned char)a, fp); }
        fclose(fp);
      }
      printf("corrupt %s %s %s size=%llu pos=%llu\n", !strcmp(kind, "ldb") ? "table" : (!strcmp(kind, "log") ? "log" : (!strcmp(kind, "MANIFEST") ? "manifest" : "current")), names[hit], f[4], (unsigned long long)st.st_size, pos);
    } else printf("corrupt none - %s size=0 pos=0\n", f[4]);
    if (n >= 0) ldb_free_children(names, n);
  } else if (nf == 1 && !strcmp(f[0], "scanall")) {
    /* full forward and backward scan with checksum verification: status + what was seen */
    ldb_readopt_t ro = *ldb_readopt_default; ldb_iter_t *it; int dirn;
    if (!g_db) { printf("scanall closed\n"); return; }
    ro.verify_checksums = 1;
    for (dirn = 0; dirn < 2; dirn++) {
      int first = 1;
      it = ldb_iterator(g_db, &ro);
      printf("scan %s ", dirn ? "bwd" : "fwd");
      for (dirn ? ldb_iter_last(it) : ldb_iter_first(it); ldb_iter_valid(it); dirn ? ldb_iter_prev(it) : ldb_iter_next(it)) {
        ldb_slice_t k = ldb_iter_key(it), v = ldb_iter_value(it);
        if (!first) fputc(',', stdout); first = 0;
        print_key(stdout, k.data, k.size); fputc('=', stdout); val_token(stdout, v.data, v.size);
      }
      if (first) fputc('.', stdout);
      printf(" status=%d\n", ldb_iter_status(it));
      ldb_iter_destroy(it);
    }
    after_op();
  } else if (nf == 2 && !strcmp(f[0], "nowait")) {
    /* 1: table writes and MANIFEST syncs are slow; 2: only MANIFEST syncs are slow (level 0 does not pile up, so the
       writer is not stopped while a compaction installs its result) */
    g_nowait = atoi(f[1]) != 0; g_slow_tables = atoi(f[1]);
    printf("loosemode %d\n", g_nowait);
  } else if (nf == 2 && !strcmp(f[0], "verify")) {
    g_verify = atoi(f[1]);
    printf("verify %d\n", g_verify);
  } else if (nf == 2 && !strcmp(f[0], "repair")) {
    /* repair <variant>: db must be closed.  variant 0: MANIFEST-* and CURRENT removed; 1: only CURRENT removed;
       2: MANIFEST cut in half; 3: nothing removed (repair of an intact database) */
    int variant = atoi(f[1]), rc; char **names = NULL; int n, i; char path[1024];
    if (g_db) { printf("err repair needs a closed db\n"); return; }
    n = ldb_get_children(g_dir, &names);
    for (i = 0; i < n; i++) {
      int is_manifest = !strncmp(names[i], "MANIFEST-", 9), is_current = !strcmp(names[i], "CURRENT");
      snprintf(path, sizeof(path), "%s/%s", g_dir, names[i]);
      if ((variant == 0 && (is_manifest || is_current)) || (variant == 1 && is_current)) unlink(path);
      else if (variant == 2 && is_manifest) { struct stat st; if (stat(path, &st) == 0 && truncate(path, st.st_size / 2) != 0) { /* ignore */ } }
    }
    if (n >= 0) ldb_free_children(names, n);
    rc = ldb_repair(g_dir, &g_opt);
    printf("repair %d %d\n", variant, rc);
    g_ndumped = 0;   /* repair may rewrite / renumber tables: dump everything again after the reopen */
  } else if (nf == 1 && !strcmp(f[0], "dumpall")) {
    /* contents of every table of the current version (`rfile` lines) + the version: used after a repair */
    int level; size_t i; ldb_version_t *v;
    if (!g_db) { printf("err not open\n"); return; }
    wait_quiescent(); flush_bg_events();
    ldb_mutex_lock(&g_db->mutex);
    v = g_db->versions->current;
    for (level = 0; level < LDB_NUM_LEVELS; level++)
      for (i = 0; i < v->files[level].length; i++) {
        const ldb_filemeta_t *fm = v->files[level].items[i];
        fputc('r', stdout); dump_table(stdout, g_db->dbname, &g_db->options, fm->number, fm->file_size);
      }
    ldb_mutex_unlock(&g_db->mutex);
    printf("repaired-state\n");
    dump_ver(); 
    ldb_mutex_lock(&g_db->mutex); dump_mem("mem", g_db->mem); ldb_mutex_unlock(&g_db->mutex);
  } else if (nf == 1 && !strcmp(f[0], "faultmode")) {
    g_faultmode = 1;
    printf("faultmode\n");
  } else if (nf == 2 && !strcmp(f[0], "journal")) {
    g_journal = !strcmp(f[1], "on");
    if (!strcmp(f[1], "reset")) jreset();
  } else if (nf >= 2 && !strcmp(f[0], "fault")) {
    /* fault <k|-1> [errno] [persistent:0|1] [partial:0|1|2 (2 = short count, then the retry fails)] [kinds] : the k-th faultable call from now on fails */
    g_short_fd = -1; g_fault_count = 0; g_fault_fired = 0; memset(g_kind_count, 0, sizeof(g_kind_count));
    g_fault_at = atol(f[1]);
    g_fault_errno = nf > 2 ? atoi(f[2]) : 28;
    g_fault_persistent = nf > 3 ? atoi(f[3]) : 0;
    g_fault_partial = nf > 4 ? atoi(f[4]) : 0;
    snprintf(g_fault_kinds, sizeof(g_fault_kinds), "%s", nf > 5 ? f[5] : "");
    printf("fault-armed %ld\n", g_fault_at);
  } else if (nf == 1 && !strcmp(f[0], "faultstat")) {
    { int i; printf("faultstat calls=%ld fired=%ld", g_fault_count, g_fault_fired);
      for (i = 0; i < 10; i++) printf(" %s=%ld", g_kind_names[i], g_kind_count[i]);
      fputc('\n', stdout); }
  } else if ((nf == 4 || nf == 5) && !strcmp(f[0], "crashscan")) {
    if (g_db) { printf("err crashscan needs a closed db\n"); return; }
    crash_points(1, nJ, atoi(f[1]), f[2], f[3], nf == 5 ? (!strcmp(f[4], "nested") ? 2 : 1) : 0);
  } else if ((nf == 4 || nf == 5) && !strcmp(f[0], "crashat")) {
    /* crashat <n|-1> <variants> <imgdir> [follow]: one journal prefix (-1 = everything so far); the database may stay open */
    int n = atoi(f[1]); if (n < 0 || n > nJ) n = nJ;
    if (g_journal) jprint_new();
    crash_points(n, n, 1, f[2], f[3], nf == 5);
  } else if (!g_db) {
    printf("closed %s\n", f[0]);
  } else if ((nf == 3 || nf == 4) && !strcmp(f[0], "put")) {
    char *ops = malloc(strlen(f[1]) + strlen(f[2]) + 8); sprintf(ops, "p:%s:%s", f[1], f[2]);
    do_write(ops, nf == 4); free(ops); after_op();
  } else if ((nf == 2 || nf == 3) && !strcmp(f[0], "del")) {
    char *ops = malloc(strlen(f[1]) + 8); sprintf(ops, "d:%s", f[1]);
    do_write(ops, nf == 3); free(ops); after_op();
  } else if ((nf == 2 || nf == 3) && !strcmp(f[0], "batch")) {
    do_write(f[1], nf == 3); after_op();
  } else if ((nf == 2 || nf == 3) && !strcmp(f[0], "get")) {
    ldb_readopt_t ro = *ldb_readopt_default; ldb_slice_t k, v; int rc; uint64_t seq; int sid = nf == 3 ? atoi(f[2]) : -1;
    if (!parse_bytes(f[1], &g_a)) { printf("err bad key\n"); return; }
    if (sid >= 0 && (sid >= MAXSNAP || !g_snap[sid])) { printf("err bad snap\n"); return; }
    if (sid >= 0) { ro.snapshot = g_snap[sid]; seq = g_snap[sid]->sequence; } else seq = g_db->versions->last_sequence;
    ro.verify_checksums = g_verify;
    k = ldb_slice(g_a.p, g_a.n);
    rc = ldb_get(g_db, &k, &v, &ro);
    printf("get "); print_key(stdout, g_a.p, g_a.n); printf(" %llu ", (unsigned long long)seq);
    if (rc == LDB_OK) { val_token(stdout, v.data, v.size); ldb_free(v.data); }
    else if (rc == LDB_NOTFOUND) printf("notfound");
    else printf("err:%d", rc);
    fputc('\n', stdout);
    after_op();
  } else if (nf == 2 && !strcmp(f[0], "snap")) {
    int sid = atoi(f[1]);
    if (sid < 0 || sid >= MAXSNAP || g_snap[sid]) { printf("err bad snap\n"); return; }
    g_snap[sid] = ldb_snapshot(g_db);
    printf("snap %d %llu\n", sid, (unsigned long long)g_snap[sid]->sequence);
  } else if (nf == 2 && !strcmp(f[0], "rel")) {
    int sid = atoi(f[1]);
    if (sid < 0 || sid >= MAXSNAP || !g_snap[sid]) { printf("err bad snap\n"); return; }
    printf("rel %d %llu\n", sid, (unsigned long long)g_snap[sid]->sequence);
    ldb_release(g_db, g_snap[sid]); g_snap[sid] = NULL;
  } else if (nf == 1 && !strcmp(f[0], "flushmem")) {
    uint64_t lognum = g_db->logfile_number; int rc = ldb_test_compact_memtable(g_db);
    if (g_db->logfile_number != lognum) printf("switch\n");
    if (rc != LDB_OK) printf("operr flushmem %d\n", rc);
    after_op();
  } else if (nf == 4 && !strcmp(f[0], "compact")) {
    ldb_slice_t b, e, *bp = NULL, *ep = NULL;
    if (strcmp(f[2], "*")) { parse_bytes(f[2], &g_a); b = ldb_slice(g_a.p, g_a.n); bp = &b; }
    if (strcmp(f[3], "*")) { parse_bytes(f[3], &g_b); e = ldb_slice(g_b.p, g_b.n); ep = &e; }
    ldb_test_compact_range(g_db, atoi(f[1]), bp, ep);
    after_op();
  } else if (nf == 1 && !strcmp(f[0], "compactall")) {
    uint64_t lognum = g_db->logfile_number;
    ldb_compact(g_db, NULL, NULL);
    if (g_db->logfile_number != lognum) printf("switch\n");
    after_op();
  } else if (nf == 1 && !strcmp(f[0], "memdump")) {
    ldb_mutex_lock(&g_db->mutex);
    dump_mem("mem", g_db->mem); dump_mem("imm", g_db->imm);
    ldb_mutex_unlock(&g_db->mutex);
  } else if (nf == 1 && !strcmp(f[0], "ver")) {
    dump_ver();
  } else if (nf == 1 && !strcmp(f[0], "ls")) {
    do_ls();
  } else if ((nf == 2 || nf == 3) && !strcmp(f[0], "iopen")) {
    /* iopen <id> [snapid]: long-lived iterator (pins memtables and the current version) */
    int id = atoi(f[1]); ldb_readopt_t ro = *ldb_readopt_default; uint64_t seq;
    int sid = nf == 3 ? atoi(f[2]) : -1;
    if (id < 0 || id >= MAXIT || g_it[id]) { printf("err bad iterator id\n"); return; }
    if (sid >= 0 && (sid >= MAXSNAP || !g_snap[sid])) { printf("err bad snap\n"); return; }
    if (sid >= 0) { ro.snapshot = g_snap[sid]; seq = g_snap[sid]->sequence; } else seq = g_db->versions->last_sequence;
    g_it[id] = ldb_iterator(g_db, &ro); g_itseq[id] = seq;
    printf("iopen %d %llu\n", id, (unsigned long long)seq);
  } else if (nf == 3 && !strcmp(f[0], "iop")) {
    int id = atoi(f[1]);
    if (id < 0 || id >= MAXIT || !g_it[id]) { printf("err bad iterator id\n"); return; }
    run_iter_ops(g_it[id], g_itseq[id], f[2], id);
    after_op();
  } else if (nf == 2 && !strcmp(f[0], "iclose")) {
    int id = atoi(f[1]);
    if (id < 0 || id >= MAXIT || !g_it[id]) { printf("err bad iterator id\n"); return; }
    ldb_iter_destroy(g_it[id]); g_it[id] = NULL;
    printf("iclose %d\n", id);
    after_op();
  } else if (nf == 3 && !strcmp(f[0], "iter")) {
    /* iter <snapid|-> <ops>: F L N P S:<key> GE:/GT:/LE:/LT:<key>; one `it` line per op */
    ldb_readopt_t ro = *ldb_readopt_default; ldb_iter_t *it; static char *of[MAXL]; int n, i; uint64_t seq;
    int sid = strcmp(f[1], "-") ? atoi(f[1]) : -1;
    if (sid >= 0 && (sid >= MAXSNAP || !g_snap[sid])) { printf("err bad snap\n"); return; }
    if (sid >= 0) { ro.snapshot = g_snap[sid]; seq = g_snap[sid]->sequence; } else seq = g_db->versions->last_sequence;
    it = ldb_iterator(g_db, &ro);
    (void)n; (void)i; (void)of;
    run_iter_ops(it, seq, f[2], -1);
    ldb_iter_destroy(it);
    after_op();
  } else {
    printf("err bad command\n");
  }
}

int main(int argc, char **argv) {
  char *line = NULL; size_t cap = 0;
  if (argc == 3 && !strcmp(argv[1], "--probe")) {
    /* would ldb_open get past the lock?  Take and release the advisory lock exactly as ldb_open does, without
       running recovery (which would modify the database behind the recording process's back) */
    char lockname[1024]; ldb_filelock_t *lock = NULL; int rc;
    if (!ldb_lock_filename(lockname, sizeof(lockname), argv[2])) return 2;
    rc = ldb_lock_file(lockname, &lock);
    if (rc == LDB_OK) { ldb_unlock_file(lock); return 0; }
    return 1;
  }
  vb_init(&g_a); vb_init(&g_b);
  setvbuf(stdout, NULL, _IOFBF, 1 << 20);
  while (getline(&line, &cap, stdin) > 0) {
    if (line[0] == '#' || line[0] == '\n') continue;
    handle(line);
  }
  if (g_db) { wait_quiescent(); ldb_close(g_db); g_db = NULL; }
  flush_bg_events();
  free(line);
  return 0;
}
