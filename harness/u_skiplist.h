/* skiplist.c / memtable.c: the REAL memtable (ldb_memtable_create/add/get, ldb_memiter_*, and through them the
 * real arena, skiplist and ldb_rand of the objects linked from /repo) driven op by op, plus a structural dump.
 *
 * The dump needs the private layouts `struct ldb_skipnode_s` (skiplist.c) and `struct ldb_memtable_s`
 * (memtable.c).  Both .c files are #included below with every EXTERN symbol renamed (vsk_* / vmt_*), so that
 *   - the struct definitions (and the static helpers ldb_skipnode_next, ldb_skiplist_randheight, ...) are the
 *     ones of the source tree, not copies that could drift;
 *   - nothing clashes at link time: skiplist.o and memtable.o stay in the link, `exclude=[...]` is unchanged,
 *     and every call below that is not a static helper goes to the REAL objects (the renamed extern copies in
 *     this translation unit are never called). */
#include "util/arena.h"
#include "util/buffer.h"
#include "util/coding.h"
#include "util/random.h"
#include "table/iterator.h"
#include "dbformat.h"
#include "skiplist.h"
#include "memtable.h"

#define ldb_skiplist_init vsk_skiplist_init
#define ldb_skiplist_insert vsk_skiplist_insert
#define ldb_skiplist_contains vsk_skiplist_contains
#define ldb_skipiter_init vsk_skipiter_init
#define ldb_skipiter_valid vsk_skipiter_valid
#define ldb_skipiter_key vsk_skipiter_key
#define ldb_skipiter_next vsk_skipiter_next
#define ldb_skipiter_prev vsk_skipiter_prev
#define ldb_skipiter_seek vsk_skipiter_seek
#define ldb_skipiter_first vsk_skipiter_first
#define ldb_skipiter_last vsk_skipiter_last
#include "skiplist.c"
#define ldb_memtable_create vmt_memtable_create
#define ldb_memtable_destroy vmt_memtable_destroy
#define ldb_memtable_ref vmt_memtable_ref
#define ldb_memtable_unref vmt_memtable_unref
#define ldb_memtable_usage vmt_memtable_usage
#define ldb_memtable_add vmt_memtable_add
#define ldb_memtable_get vmt_memtable_get
#define ldb_memiter_create vmt_memiter_create
#include "memtable.c"
#undef ldb_skiplist_init
#undef ldb_skiplist_insert
#undef ldb_skiplist_contains
#undef ldb_skipiter_init
#undef ldb_skipiter_valid
#undef ldb_skipiter_key
#undef ldb_skipiter_next
#undef ldb_skipiter_prev
#undef ldb_skipiter_seek
#undef ldb_skipiter_first
#undef ldb_skipiter_last
#undef ldb_memtable_create
#undef ldb_memtable_destroy
#undef ldb_memtable_ref
#undef ldb_memtable_unref
#undef ldb_memtable_usage
#undef ldb_memtable_add
#undef ldb_memtable_get
#undef ldb_memiter_create

#define SK_MAXN 4096

typedef struct { uint8_t *uk; size_t ukn; uint64_t seq; unsigned kind; } sk_ins;

static sk_ins g_sk_ins[SK_MAXN];
static int g_sk_n;

static int sk_digits(const char *s) {
  if (!*s) return 0;
  for (; *s; s++) if (*s < '0' || *s > '9') return 0;
  return 1;
}

static int sk_parse_seq(const char *s, uint64_t *out) {
  unsigned long long v;
  if (!sk_digits(s) || strlen(s) > 18) return 0;
  v = strtoull(s, NULL, 10);
  if (v >= (1ULL << 56)) return 0;
  *out = v;
  return 1;
}

static int sk_parse_kind(const char *s, unsigned *out) {
  if (!sk_digits(s) || strlen(s) > 3 || atoi(s) > 255) return 0;
  *out = (unsigned)atoi(s);
  return 1;
}

/* exact-size heap copy (ASan sees any over-read) */
static uint8_t *sk_copy(const uint8_t *p, size_t n) {
  uint8_t *q = (uint8_t *)malloc(n ? n : 1);
  if (n) memcpy(q, p, n);
  return q;
}

/* length-prefixed internal key, exact size */
static uint8_t *sk_memkey(const uint8_t *uk, size_t ukn, uint64_t seq, unsigned kind) {
  uint8_t *buf = (uint8_t *)malloc(ukn + 8 + 5), *zp = buf;
  zp = ldb_varint32_write(zp, ukn + 8);
  if (ukn) memcpy(zp, uk, ukn);
  zp += ukn;
  ldb_fixed64_write(zp, (seq << 8) | kind);
  return buf;
}

/* ordinal (1-based insertion index) of a node, by its decoded key */
static int sk_ordinal(ldb_skipnode_t *node) {
  ldb_slice_t k = ldb_slice_decode(node->key);
  uint64_t num; int i;
  if (k.size < 8) return -1;
  num = ldb_fixed64_decode(k.data + k.size - 8);
  for (i = 0; i < g_sk_n; i++) {
    sk_ins *e = &g_sk_ins[i];
    if (e->ukn == k.size - 8 && ((e->seq << 8) | e->kind) == num && (e->ukn == 0 || !memcmp(e->uk, k.data, e->ukn)))
      return i + 1;
  }
  return -1;
}

static void sk_dump(ldb_memtable_t *mt) {
  const ldb_skiplist_t *list = &mt->table;
  int mh = ldb_skiplist_maxheight(list), level;
  printf("D%d", mh);
  for (level = mh - 1; level >= 0; level--) {
    ldb_skipnode_t *x = ldb_skipnode_next(list->head, level);
    int first = 1, guard = 0;
    fputc('/', stdout);
    if (!x) fputc('-', stdout);
    for (; x && guard <= g_sk_n; x = ldb_skipnode_next(x, level), guard++) {
      if (!first) fputc('.', stdout);
      first = 0;
      printf("%d", sk_ordinal(x));
    }
    if (x) fputs(".cycle", stdout);
  }
}

static void sk_show_iter(ldb_iter_t *it) {
  if (ldb_iter_valid(it)) {
    ldb_slice_t k = ldb_iter_key(it), v = ldb_iter_value(it);
    uint64_t num;
    if (k.size < 8) { fputs("short", stdout); return; }
    num = ldb_fixed64_decode(k.data + k.size - 8);
    show_bytes(stdout, k.data, k.size - 8);
    printf(",%llu,%u,", (unsigned long long)(num >> 8), (unsigned)(num & 0xff));
    show_bytes(stdout, v.data, v.size);
  } else fputc('-', stdout);
}

/* splits "a:b:c" in place; returns the number of parts (max 6) */
static int sk_parts(char *s, char **pf) {
  int n = 0; char *p = s;
  for (;;) {
    char *q = strchr(p, ':');
    if (n >= 6) return 99;
    pf[n++] = p;
    if (!q) break;
    *q = 0; p = q + 1;
  }
  return n;
}

/* syntax check of one op (on a scratch copy) */
static int sk_check_op(const char *o) {
  char tmp[8192]; char *pf[6]; int np; uint64_t seq; unsigned kind;
  if (strlen(o) >= sizeof(tmp)) return 0;
  strcpy(tmp, o);
  np = sk_parts(tmp, pf);
  if (np == 1) return !strcmp(o, "F") || !strcmp(o, "L") || !strcmp(o, "N") || !strcmp(o, "P") || !strcmp(o, "D");
  if (!strcmp(pf[0], "i")) return np == 5 && parse_bytes(pf[1], &g_a) && sk_parse_seq(pf[2], &seq) && sk_parse_kind(pf[3], &kind) && parse_bytes(pf[4], &g_b);
  if (!strcmp(pf[0], "c")) return np == 4 && parse_bytes(pf[1], &g_a) && sk_parse_seq(pf[2], &seq) && sk_parse_kind(pf[3], &kind);
  if (!strcmp(pf[0], "g") || !strcmp(pf[0], "S")) return np == 3 && parse_bytes(pf[1], &g_a) && sk_parse_seq(pf[2], &seq);
  return 0;
}

static int sk_run(const ldb_comparator_t *ucmp, char *ops) {
  static char *of[MAXL]; int no = split_on(ops, ',', of, MAXL), i;
  ldb_comparator_t ikc; ldb_memtable_t *mt; ldb_iter_t *it;
  for (i = 0; i < no; i++) if (!sk_check_op(of[i])) return 0;
  ldb_ikc_init(&ikc, ucmp);
  mt = ldb_memtable_create(&ikc);
  ldb_memtable_ref(mt);
  it = ldb_memiter_create(mt);
  g_sk_n = 0;
  if (no == 0) fputc('.', stdout);
  for (i = 0; i < no; i++) {
    char *pf[6]; int np = sk_parts(of[i], pf); char op = pf[0][0];
    uint64_t seq = 0; unsigned kind = 0;
    (void)np;
    if (i) fputc(';', stdout);
    if (op == 'i' || op == 'c') {
      uint8_t *mk; int present;
      parse_bytes(pf[1], &g_a); sk_parse_seq(pf[2], &seq); sk_parse_kind(pf[3], &kind);
      mk = sk_memkey(g_a.p, g_a.n, seq, kind);
      present = ldb_skiplist_contains(&mt->table, mk);
      free(mk);
      if (op == 'c') { fputc(present ? '1' : '0', stdout); continue; }
      if (present) { fputs("dup", stdout); continue; }      /* the C insert only asserts against duplicates */
      if (g_sk_n >= SK_MAXN) { fputs("toomany", stdout); continue; }
      {
        ldb_slice_t k, v; uint8_t *kc, *vc;
        parse_bytes(pf[4], &g_b);
        kc = sk_copy(g_a.p, g_a.n); vc = sk_copy(g_b.p, g_b.n);
        k.data = kc; k.size = g_a.n; k.alloc = 0;
        v.data = vc; v.size = g_b.n; v.alloc = 0;
        ldb_memtable_add(mt, seq, (ldb_valtype_t)kind, &k, &v);
        free(vc);
        g_sk_ins[g_sk_n].uk = kc; g_sk_ins[g_sk_n].ukn = g_a.n; g_sk_ins[g_sk_n].seq = seq; g_sk_ins[g_sk_n].kind = kind;
        g_sk_n++;
        fputs("ok", stdout);
      }
    } else if (op == 'g') {
      ldb_lkey_t lk; ldb_slice_t uk; ldb_buffer_t val; uint8_t *kc; int status = LDB_OK, r;
      parse_bytes(pf[1], &g_a); sk_parse_seq(pf[2], &seq);
      kc = sk_copy(g_a.p, g_a.n);
      uk.data = kc; uk.size = g_a.n; uk.alloc = 0;
      ldb_lkey_init(&lk, &uk, seq);
      ldb_buffer_init(&val);
      r = ldb_memtable_get(mt, &lk, &val, &status);
      if (!r) fputs("nf", stdout);
      else if (status == LDB_NOTFOUND) fputs("del", stdout);
      else { fputs("v:", stdout); show_bytes(stdout, val.data, val.size); }
      ldb_buffer_clear(&val);
      ldb_lkey_clear(&lk);
      free(kc);
    } else if (op == 'S') {
      ldb_buffer_t ik; ldb_pkey_t pk; ldb_slice_t uk, t; uint8_t *tk;
      parse_bytes(pf[1], &g_a); sk_parse_seq(pf[2], &seq);
      uk.data = g_a.p; uk.size = g_a.n; uk.alloc = 0;
      ldb_buffer_init(&ik);
      ldb_pkey_init(&pk, &uk, seq, LDB_VALTYPE_SEEK);
      ldb_pkey_export(&ik, &pk);
      tk = sk_copy(ik.data, ik.size);
      t.data = tk; t.size = ik.size; t.alloc = 0;
      ldb_iter_seek(it, &t);
      free(tk); ldb_buffer_clear(&ik);
      sk_show_iter(it);
    } else if (op == 'F') { ldb_iter_first(it); sk_show_iter(it); }
    else if (op == 'L') { ldb_iter_last(it); sk_show_iter(it); }
    else if (op == 'N' || op == 'P') {
      if (!ldb_iter_valid(it)) { fputs("skip", stdout); continue; }
      if (op == 'N') ldb_iter_next(it); else ldb_iter_prev(it);
      sk_show_iter(it);
    } else sk_dump(mt);
  }
  ldb_iter_destroy(it);
  ldb_memtable_unref(mt);
  for (i = 0; i < g_sk_n; i++) free(g_sk_ins[i].uk);
  g_sk_n = 0;
  return 1;
}

static int handle_skiplist(char **f, int nf) {
  if (nf == 3 && !strcmp(f[0], "skl")) {
    const ldb_comparator_t *c = parse_cmp(f[1]);
    if (!c || !f[2][0] || !sk_run(c, f[2])) printf("bad-op");   /* empty ops field: the model side trims it away */
  } else if (nf == 3 && !strcmp(f[0], "rndh")) {
    /* heights drawn by the static ldb_skiplist_randheight (this translation unit's copy of the source)
     * from the REAL ldb_rand_* of util/random.o */
    unsigned long long seed, n, i; ldb_skiplist_t dummy;
    if (!sk_digits(f[1]) || !sk_digits(f[2]) || strlen(f[1]) > 10 || strlen(f[2]) > 4) { printf("bad-op"); return 1; }
    seed = strtoull(f[1], NULL, 10); n = strtoull(f[2], NULL, 10);
    if (seed >= (1ULL << 32) || n == 0 || n > 4096) { printf("bad-op"); return 1; }
    memset(&dummy, 0, sizeof(dummy));
    ldb_rand_init(&dummy.rnd, (uint32_t)seed);
    for (i = 0; i < n; i++) printf(i ? ",%d" : "%d", ldb_skiplist_randheight(&dummy));
  } else if (nf == 5 && !strcmp(f[0], "mtenc")) {
    /* the raw arena bytes of one entry and what ldb_memiter_key / ldb_memiter_value read back */
    uint64_t seq; unsigned kind; ldb_comparator_t ikc; ldb_memtable_t *mt; ldb_iter_t *it;
    ldb_slice_t k, v, ik, iv; uint8_t *kc, *vc; const uint8_t *raw; size_t total;
    if (!parse_bytes(f[1], &g_a) || !sk_parse_seq(f[2], &seq) || !sk_parse_kind(f[3], &kind) || !parse_bytes(f[4], &g_b)) { printf("bad-op"); return 1; }
    ldb_ikc_init(&ikc, ldb_bytewise_comparator);
    mt = ldb_memtable_create(&ikc);
    ldb_memtable_ref(mt);
    kc = sk_copy(g_a.p, g_a.n); vc = sk_copy(g_b.p, g_b.n);
    k.data = kc; k.size = g_a.n; k.alloc = 0;
    v.data = vc; v.size = g_b.n; v.alloc = 0;
    ldb_memtable_add(mt, seq, (ldb_valtype_t)kind, &k, &v);
    free(kc); free(vc);
    it = ldb_memiter_create(mt);
    ldb_iter_first(it);
    ik = ldb_iter_key(it); iv = ldb_iter_value(it);
    raw = ldb_skipnode_next(mt->table.head, 0)->key;
    total = (size_t)((iv.data + iv.size) - raw);
    show_bytes(stdout, raw, total); fputc(' ', stdout);
    show_bytes(stdout, ik.data, ik.size); fputc(' ', stdout);
    show_bytes(stdout, iv.data, iv.size);
    ldb_iter_destroy(it);
    ldb_memtable_unref(mt);
  } else return 0;
  return 1;
}
