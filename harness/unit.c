/* Function-level correspondence harness: reads one request per line, prints one response per line.
 * Compiled against the scratch copy of /repo/src; `#include`s repo .c files to reach statics
 * (the corresponding objects are left out of the link by tools/vlib.py). */
#include "common.h"
#include "util/crc32c.c"      /* crc32c_generic, crc32c_sse42, tables */
#include "util/buffer.h"
#include "util/slice.h"
#include "util/coding.h"
#include "util/status.h"
#include "log_format.h"
#include "log_writer.h"
#include "log_reader.h"

#define MAXF 64
#define MAXL 4096

static vbuf g_a, g_b, g_c;

/* ---- log reader reporter ---- */
typedef struct { ldb_reporter_t base; vbuf *out; } vreporter;
static FILE *g_ev;
static int g_first;
static void ev_sep(void) { if (!g_first) fputc(' ', g_ev); g_first = 0; }
static void report_cb(ldb_reporter_t *r, size_t bytes, int status) {
  (void)r; (void)status;
  ev_sep(); fprintf(g_ev, "d:%lu", (unsigned long)bytes);
}

static void do_logr(int checksum, const uint8_t *p, size_t n) {
  ldb_reader_t lr; ldb_reporter_t rep; ldb_slice_t src, rec; ldb_buffer_t scratch;
  memset(&rep, 0, sizeof(rep));
  rep.corruption = report_cb;
  src.data = (void *)p; src.size = n;
#ifdef __cplusplus
#endif
  ldb_reader_init(&lr, NULL, &rep, checksum, 0);
  lr.src = &src;
  ldb_buffer_init(&scratch);
  g_ev = stdout; g_first = 1;
  while (ldb_reader_read_record(&lr, &rec, &scratch)) {
    ev_sep(); fputs("r:", stdout); show_bytes(stdout, rec.data, rec.size);
  }
  ldb_buffer_clear(&scratch);
  ldb_reader_clear(&lr);
}

static void do_logw(uint64_t len0, char *recs, ldb_buffer_t *dst) {
  static char *rf[MAXL]; int nr, i;
  ldb_writer_t lw;
  ldb_writer_init(&lw, NULL, len0);
  lw.dst = dst;
  nr = split_on(recs, ',', rf, MAXL);
  for (i = 0; i < nr; i++) {
    ldb_slice_t s;
    if (!parse_bytes(rf[i], &g_a)) { printf("bad-op"); return; }
    s.data = g_a.p; s.size = g_a.n;
    ldb_writer_add_record(&lw, &s);
  }
}

static int handle_core(char **f, int nf) {
  if (nf == 2 && (!strcmp(f[0], "v32enc") || !strcmp(f[0], "v64enc"))) {
    uint8_t buf[16]; uint8_t *e; unsigned long long v = strtoull(f[1], NULL, 10);
    if (f[0][1] == '3') e = ldb_varint32_write(buf, (uint32_t)v); else e = ldb_varint64_write(buf, v);
    print_hex(stdout, buf, e - buf);
  } else if (nf == 2 && !strcmp(f[0], "v32dec")) {
    const uint8_t *xp; size_t xn; uint32_t z;
    if (!parse_bytes(f[1], &g_a)) { printf("bad-op"); return 1; }
    xp = g_a.p; xn = g_a.n;
    if (ldb_varint32_read(&z, &xp, &xn)) printf("ok %lu %lu", (unsigned long)z, (unsigned long)xn); else printf("fail");
  } else if (nf == 2 && !strcmp(f[0], "v64dec")) {
    const uint8_t *xp; size_t xn; uint64_t z;
    if (!parse_bytes(f[1], &g_a)) { printf("bad-op"); return 1; }
    xp = g_a.p; xn = g_a.n;
    if (ldb_varint64_read(&z, &xp, &xn)) printf("ok %llu %lu", (unsigned long long)z, (unsigned long)xn); else printf("fail");
  } else if (nf == 2 && !strcmp(f[0], "f32")) {
    uint8_t buf[8]; unsigned long long v = strtoull(f[1], NULL, 10);
    ldb_fixed32_write(buf, (uint32_t)v); print_hex(stdout, buf, 4); printf(" %lu", (unsigned long)ldb_fixed32_decode(buf));
  } else if (nf == 2 && !strcmp(f[0], "f64")) {
    uint8_t buf[8]; unsigned long long v = strtoull(f[1], NULL, 10);
    ldb_fixed64_write(buf, v); print_hex(stdout, buf, 8); printf(" %llu", (unsigned long long)ldb_fixed64_decode(buf));
  } else if (nf == 2 && !strcmp(f[0], "slice")) {
    ldb_slice_t in, z;
    if (!parse_bytes(f[1], &g_a)) { printf("bad-op"); return 1; }
    in.data = g_a.p; in.size = g_a.n;
    if (ldb_slice_slurp(&z, &in)) { printf("ok "); show_bytes(stdout, z.data, z.size); printf(" %lu", (unsigned long)in.size); }
    else printf("fail");
  } else if (nf == 3 && !strcmp(f[0], "crc")) {
    /* all three implementations and several alignments must agree; print the common value */
    uint32_t z = (uint32_t)strtoull(f[1], NULL, 10), r0, r; int al, bad = 0;
    if (!parse_bytes(f[2], &g_a)) { printf("bad-op"); return 1; }
    r0 = crc32c_generic(z, g_a.p ? g_a.p : (const uint8_t *)"", g_a.n);
    for (al = 0; al < 8 && !bad; al++) {
      g_b.n = 0; vb_reserve(&g_b, g_a.n + 16);
      if (g_a.n) memcpy(g_b.p + al, g_a.p, g_a.n);
      r = crc32c_generic(z, g_b.p + al, g_a.n); if (r != r0) bad = 1;
#ifdef HAVE_X64_CRC
      if (has_sse42()) { r = crc32c_sse42(z, g_b.p + al, g_a.n); if (r != r0) bad = 2; }
#endif
      ldb_crc32c_init();
      r = ldb_crc32c_extend(z, g_b.p + al, g_a.n); if (r != r0) bad = 3;
    }
    if (bad) printf("paths-disagree %d", bad); else printf("%lu", (unsigned long)r0);
  } else if (nf == 2 && !strcmp(f[0], "mask")) {
    uint32_t v = (uint32_t)strtoull(f[1], NULL, 10);
    printf("%lu %lu", (unsigned long)ldb_crc32c_mask(v), (unsigned long)ldb_crc32c_unmask(v));
  } else if (nf == 3 && !strcmp(f[0], "logw")) {
    ldb_buffer_t dst; ldb_buffer_init(&dst);
    do_logw(strtoull(f[1], NULL, 10), f[2], &dst);
    show_bytes(stdout, dst.data, dst.size);
    ldb_buffer_clear(&dst);
  } else if (nf == 3 && !strcmp(f[0], "logr")) {
    if (!parse_bytes(f[2], &g_a)) { printf("bad-op"); return 1; }
    do_logr(atoi(f[1]), g_a.p, g_a.n);
  } else if (nf == 4 && !strcmp(f[0], "logwr")) {
    ldb_buffer_t dst; static char *mf[MAXL]; int nm, i; size_t j;
    ldb_buffer_init(&dst);
    do_logw(0, f[2], &dst);
    nm = split_on(f[3], ',', mf, MAXL);
    for (i = 0; i < nm; i++) {
      unsigned long long a = 0, b = 0; char k = mf[i][0];
      if (k == 't') { if (sscanf(mf[i], "t:%llu", &a) != 1) { printf("bad-op"); return 1; } if (a < dst.size) dst.size = a; }
      else {
        if (sscanf(mf[i] + 1, ":%llu:%llu", &a, &b) != 2) { printf("bad-op"); return 1; }
        if (k == 's') { if (a < dst.size) dst.data[a] = (uint8_t)b; }
        else if (k == 'x') { if (a < dst.size) dst.data[a] ^= (uint8_t)b; }
        else if (k == 'z') { for (j = a; j < a + b && j < dst.size; j++) dst.data[j] = 0; }
        else { printf("bad-op"); return 1; }
      }
    }
    printf("%lu ", (unsigned long)dst.size);
    do_logr(atoi(f[1]), dst.data, dst.size);
    ldb_buffer_clear(&dst);
  } else {
    return 0;
  }
  return 1;
}

#include "u_formats.h"
#include "u_filter.h"
#include "u_block.h"
#include "u_snappy.h"
#include "u_iterstack.h"
#include "u_table.h"
#include "u_wfile.h"
#include "u_policy.h"
#include "u_skiplist.h"
#include "u_cache.h"

static void handle(char *line) {
  static char *f[MAXF]; int nf = split_fields(line, f, MAXF);
  if (handle_core(f, nf)) return;
  if (handle_formats(f, nf)) return;
  if (handle_filter(f, nf)) return;
  if (handle_block(f, nf)) return;
  if (handle_snappy(f, nf)) return;
  if (handle_iterstack(f, nf)) return;
  if (handle_table(f, nf)) return;
  if (handle_wfile(f, nf)) return;
  if (handle_policy(f, nf)) return;
  if (handle_skiplist(f, nf)) return;
  if (handle_cache(f, nf)) return;
  printf("bad-op");
}

int main(void) {
  char *line = NULL; size_t cap = 0;
  vb_init(&g_a); vb_init(&g_b); vb_init(&g_c);
  while (getline(&line, &cap, stdin) > 0) {
    handle(line);
    fputc('\n', stdout);
  }
  free(line);
  vb_free(&g_a); vb_free(&g_b); vb_free(&g_c);
  return 0;
}
