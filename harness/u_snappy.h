/* snappy: encode / decode / decode_size (src/util/snappy.c through its public interface) */
#include "util/snappy.h"

#define SNAPPY_DECODE_CAP 67108864UL   /* must agree with Drv.snappyDecodeCap */

/* encode g_a into a fresh exactly-sized buffer (snappy_encode_size bytes, so ASan sees overruns);
 * returns NULL when snappy_encode_size refuses */
static uint8_t *snappy_enc_alloc(const uint8_t *xp, size_t xn, size_t *zn) {
  size_t cap; uint8_t *z;
  if (!snappy_encode_size(&cap, xn)) return NULL;
  z = (uint8_t *)malloc(cap ? cap : 1);
  *zn = snappy_encode(z, xp, xn);
  if (*zn > cap) { fprintf(stderr, "ERROR: snappy_encode wrote %lu > encode_size %lu\n", (unsigned long)*zn, (unsigned long)cap); abort(); }
  return z;
}

/* input copied to an exactly-sized heap buffer so that reads past the end are caught */
static uint8_t *sn_exact_copy(const uint8_t *p, size_t n) {
  uint8_t *q = (uint8_t *)malloc(n ? n : 1);
  if (n) memcpy(q, p, n);
  return q;
}

/* prints ok <bytes> / fail / toobig */
static void snappy_dec_print(const uint8_t *xp, size_t xn) {
  size_t zn; uint8_t *z; uint8_t *in = sn_exact_copy(xp, xn);
  if (!snappy_decode_size(&zn, in, xn)) { printf("fail"); free(in); return; }
  if (zn > SNAPPY_DECODE_CAP) { printf("toobig"); free(in); return; }
  z = (uint8_t *)malloc(zn ? zn : 1);
  if (snappy_decode(z, in, xn)) { printf("ok "); show_bytes(stdout, z, zn); }
  else printf("fail");
  free(z); free(in);
}

static int handle_snappy(char **f, int nf) {
  if (nf == 2 && (!strcmp(f[0], "senc") || !strcmp(f[0], "sencx"))) {
    size_t zn; uint8_t *z, *in;
    if (!parse_bytes(f[1], &g_a)) { printf("bad-op"); return 1; }
    in = sn_exact_copy(g_a.p, g_a.n);
    z = snappy_enc_alloc(in, g_a.n, &zn);
    if (!z) { printf("fail"); free(in); return 1; }
    if (f[0][4] == 'x' && zn <= 65536) print_hex(stdout, z, zn); else show_bytes(stdout, z, zn);
    free(z); free(in);
  } else if (nf == 2 && !strcmp(f[0], "sencsize")) {
    size_t zn; unsigned long long v = strtoull(f[1], NULL, 10);
    if (snappy_encode_size(&zn, (size_t)v)) printf("ok %lu", (unsigned long)zn); else printf("fail");
  } else if (nf == 2 && !strcmp(f[0], "sdsize")) {
    size_t zn; uint8_t *in;
    if (!parse_bytes(f[1], &g_a)) { printf("bad-op"); return 1; }
    in = sn_exact_copy(g_a.p, g_a.n);
    if (snappy_decode_size(&zn, in, g_a.n)) printf("ok %lu", (unsigned long)zn); else printf("fail");
    free(in);
  } else if (nf == 2 && !strcmp(f[0], "sdec")) {
    if (!parse_bytes(f[1], &g_a)) { printf("bad-op"); return 1; }
    snappy_dec_print(g_a.p, g_a.n);
  } else if (nf == 2 && !strcmp(f[0], "srt")) {
    size_t zn; uint8_t *z, *in;
    if (!parse_bytes(f[1], &g_a)) { printf("bad-op"); return 1; }
    in = sn_exact_copy(g_a.p, g_a.n);
    z = snappy_enc_alloc(in, g_a.n, &zn);
    if (!z) { printf("fail"); free(in); return 1; }
    snappy_dec_print(z, zn);
    free(z); free(in);
  } else {
    return 0;
  }
  return 1;
}
