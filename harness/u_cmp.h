#ifndef VERIF_U_CMP_H
#define VERIF_U_CMP_H
#include "util/comparator.h"
#include "util/slice.h"
/* ---- comparators shared with the model (Cmp.bytewise / reverse / lenFirst) ---- */
static int rev_compare(const ldb_comparator_t *c, const ldb_slice_t *x, const ldb_slice_t *y) {
  (void)c; return ldb_compare(ldb_bytewise_comparator, y, x);
}
static int len_compare(const ldb_comparator_t *c, const ldb_slice_t *x, const ldb_slice_t *y) {
  (void)c;
  if (x->size < y->size) return -1;
  if (x->size > y->size) return 1;
  return ldb_compare(ldb_bytewise_comparator, x, y);
}
static const ldb_comparator_t rev_comparator = { "verif.ReverseBytewise", rev_compare, NULL, NULL, NULL, NULL };
static const ldb_comparator_t len_comparator = { "verif.LengthFirst", len_compare, NULL, NULL, NULL, NULL };

static const ldb_comparator_t *parse_cmp(const char *s) {
  if (!strcmp(s, "bw")) return ldb_bytewise_comparator;
  if (!strcmp(s, "rev")) return &rev_comparator;
  if (!strcmp(s, "len")) return &len_comparator;
  return NULL;
}
#endif
