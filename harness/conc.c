/* Concurrency harness: the real database driven by several threads under the deterministic scheduler
 * (sched_port.c replaces src/util/port.c).  `#include`s db_impl.c to snapshot mutex-protected state
 * while the mutex is held.
 *
 * usage: conc <dbdir> <workload-seed> <sched-seed> <mode:0 random|1 pct> <writers> <readers> <ops> <valsize> <flags>
 *   flags: bit0 sync writes mixed in, bit1 a compaction thread, bit2 snapshot readers, bit3 batches with marker keys,
 *          bit4 iterator readers, bit5 one write in four carries a 140-340 KB value (group-commit size limit),
 *          bit6 one write(2) to the log fails with EIO (background error: every later write fails, waiters must still be woken)
 * Output (stdout):
 *   thr <tid> <role> <index>
 *   inv <tid> <n> <op> <args> @<step>        ret <tid> <n> <result> @<step>
 *   cs  <tid> <exit> sig=<tids> bc=<0|1> q=<tids> ls=<n> imm=<0|1> sched=<0|1> err=<0|1> shut=<0|1> l0=<n> need=<0|1> lognum=<n>
 *       loglen=<bytes written to the newest log> synced=<bytes of it covered by an fsync> @<step>
 *   slp <tid> @<step>
 *   final <key>=<version> ...      done steps=<n> switches=<n>
 * Keys have a single writer thread: key "w<i>k<j>"; values are "<version>:<padding>", version increasing per key.
 */
#define _GNU_SOURCE
#include "common.h"
#include <pthread.h>
#include <unistd.h>
#include "sched_port.h"
#include "db_impl.c"

/* ---- how much of the newest write-ahead log has been written / fsynced (libc interposition, as in iojournal.h) ---- */
#include <sys/syscall.h>
#include <fcntl.h>
#include <stdarg.h>
#include <errno.h>
static int g_logfd = -1; static long g_loglen = 0, g_logsynced = 0;
int open(const char *path, int flags, ...) {
  mode_t mode = 0; int fd; size_t n = strlen(path);
  if (flags & O_CREAT) { va_list ap; va_start(ap, flags); mode = va_arg(ap, int); va_end(ap); }
  fd = syscall(SYS_openat, AT_FDCWD, path, flags, mode);
  if (fd >= 0 && n > 4 && !strcmp(path + n - 4, ".log") && (flags & O_ACCMODE) != O_RDONLY) { g_logfd = fd; g_loglen = 0; g_logsynced = 0; }
  return fd;
}
int open64(const char *path, int flags, ...) {
  mode_t mode = 0;
  if (flags & O_CREAT) { va_list ap; va_start(ap, flags); mode = va_arg(ap, int); va_end(ap); }
  return open(path, flags, mode);
}
static long g_fail_log_write = -1, g_log_writes = 0;   /* flag bit6: the k-th write(2) to a log fails with EIO */
ssize_t write(int fd, const void *buf, size_t n) {
  ssize_t r;
  if (fd == g_logfd && g_fail_log_write >= 0 && g_log_writes++ == g_fail_log_write) { errno = EIO; return -1; }
  r = syscall(SYS_write, fd, buf, n);
  if (fd == g_logfd && r > 0) g_loglen += r;
  return r;
}
int fsync(int fd) { int r = syscall(SYS_fsync, fd); if (fd == g_logfd && r == 0) g_logsynced = g_loglen; return r; }
int fdatasync(int fd) { int r = syscall(SYS_fdatasync, fd); if (fd == g_logfd && r == 0) g_logsynced = g_loglen; return r; }
int close(int fd) { if (fd == g_logfd) g_logfd = -1; return syscall(SYS_close, fd); }

static ldb_t *g_db = NULL;
static int g_nw, g_nr, g_nops, g_valsize, g_flags;
static uint64_t g_wseed;
static pthread_mutex_t g_out = PTHREAD_MUTEX_INITIALIZER;   /* only one thread runs at a time; kept for safety */
static int g_tracing = 0;

static uint64_t mix(uint64_t z) { z = (z ^ (z >> 30)) * 0xbf58476d1ce4e5b9ULL; z = (z ^ (z >> 27)) * 0x94d049bb133111ebULL; return z ^ (z >> 31); }
static uint64_t rnd_at(uint64_t a, uint64_t b, uint64_t c) { return mix(g_wseed * 0x9e3779b97f4a7c15ULL + a * 1000003ULL + b * 10007ULL + c); }

static const char *cv_name(void *cond, char *buf) {
  if (g_db && cond == (void *)&g_db->background_work_finished_signal) return "bg";
  { int o = sched_cond_owner(cond); if (o >= 0) { sprintf(buf, "w%d", o); return buf; } }
  return "other";
}

static void release_hook(void *mutex, int kind, void *cond) {
  char buf[32]; void **objs; int *kinds; int n, i, first; ldb_waiter_t *w; int bc = 0;
  if (!g_tracing || !g_db || mutex != (void *)&g_db->mutex) return;
  printf("cs %d %s%s sig=", sched_self(), kind == 0 ? "u" : "w:", kind == 0 ? "" : cv_name(cond, buf));
  n = sched_signals(&objs, &kinds); first = 1;
  for (i = 0; i < n; i++) {
    if (objs[i] == (void *)&g_db->background_work_finished_signal) { if (kinds[i] == 1) bc = 1; continue; }
    { int o = sched_cond_owner(objs[i]); if (o >= 0 && kinds[i] == 0) { printf("%s%d", first ? "" : ",", o); first = 0; } }
  }
  if (first) printf(".");
  printf(" bc=%d q=", bc);
  first = 1;
  for (w = g_db->writers.head; w != NULL; w = w->next) { printf("%s%d%s", first ? "" : ",", sched_cond_owner(&w->cv), w->done ? "d" : ""); first = 0; }
  if (first) printf(".");
  printf(" ls=%llu imm=%d sched=%d err=%d shut=%d l0=%d need=%d lognum=%llu loglen=%ld synced=%ld @%ld\n",
         (unsigned long long)g_db->versions->last_sequence, g_db->imm != NULL, g_db->background_compaction_scheduled,
         g_db->bg_error != LDB_OK, (int)ldb_atomic_load(&g_db->shutting_down, ldb_order_acquire),
         ldb_versions_files(g_db->versions, 0), ldb_versions_needs_compaction(g_db->versions),
         (unsigned long long)g_db->logfile_number, g_loglen, g_logsynced, sched_now());
  sched_clear_signals();
  /* C14 under concurrency: above level 0 the files of the current version are sorted and disjoint (checked while the mutex is held) */
  { static int reported = 0; int level; size_t i;
    ldb_version_t *v = g_db->versions->current;
    const ldb_comparator_t *uc = ldb_user_comparator(g_db);
    for (level = 1; level < LDB_NUM_LEVELS && !reported; level++)
      for (i = 1; i < v->files[level].length; i++) {
        const ldb_filemeta_t *a = v->files[level].items[i - 1], *b = v->files[level].items[i];
        /* internal-key order: two neighbours may share a user key at the boundary (versions of one key kept apart by live
           snapshots and cut over two output files -- what add_boundary_inputs exists for); what may not happen is that the
           largest internal key of one file is not below the smallest of the next */
        (void)uc;
        if (ldb_compare(&g_db->versions->icmp, &a->largest, &b->smallest) >= 0) {
          printf("OVERLAP level=%d files=%llu,%llu @%ld\n", level, (unsigned long long)a->number, (unsigned long long)b->number, sched_now());
          reported = 1; break;
        }
      }
  }
}

static void acquire_hook(void *mutex) {
  if (g_db && mutex == (void *)&g_db->mutex) sched_clear_signals();
  if (!g_tracing || !g_db || mutex != (void *)&g_db->mutex) return;
  printf("acq %d @%ld\n", sched_self(), sched_now());
}

static void key_for(char *buf, int wi, int kj) { sprintf(buf, "w%dk%d", wi, kj); }

#define KEYS_PER_WRITER 4
static int g_version[32][KEYS_PER_WRITER];   /* last version written (by the single writer of that key) */

static void make_val(ldb_buffer_t *out, int version, int size) {
  char head[32]; int n = sprintf(head, "%d:", version);
  ldb_buffer_reset(out);
  ldb_buffer_append(out, (uint8_t *)head, n);
  while ((int)out->size < size) ldb_buffer_push(out, 'x');
}

static int parse_version(const ldb_slice_t *v) {
  char tmp[24]; size_t n = v->size < 20 ? v->size : 20; memcpy(tmp, v->data, n); tmp[n] = 0;
  return atoi(tmp);
}

static void writer_thread(void *arg) {
  int wi = (int)(intptr_t)arg, i; ldb_buffer_t val; char kb[32];
  ldb_buffer_init(&val);
  printf("thr %d W %d\n", sched_self(), wi);
  for (i = 0; i < g_nops; i++) {
    uint64_t r = rnd_at(1, wi, i); int kj = (int)(r % KEYS_PER_WRITER); int sync = (g_flags & 1) && ((r >> 8) % 4 == 0); int rc;
    ldb_writeopt_t wo = *ldb_writeopt_default; ldb_slice_t ks, vs;
    int size = g_valsize > 0 ? (int)(16 + (r >> 16) % (uint64_t)g_valsize) : 16;
    /* bit5: now and then a value far above the 128 KiB group-commit allowance, queued between small writes */
    if ((g_flags & 32) && (r >> 52) % 4 == 0) size = 140000 + (int)((r >> 30) % 200000);
    wo.sync = sync;
    if ((g_flags & 8) && (r >> 40) % 3 == 0) {
      /* batch: the same new version on every key of this writer (atomicity marker) */
      ldb_batch_t b; int j, ver = g_version[wi][0] + 1, m;
      for (j = 0; j < KEYS_PER_WRITER; j++) if (g_version[wi][j] + 1 > ver) ver = g_version[wi][j] + 1;
      ldb_batch_init(&b);
      for (j = 0; j < KEYS_PER_WRITER; j++) { key_for(kb, wi, j); ks = ldb_string(kb); make_val(&val, ver, size / 2 + 8); vs = ldb_slice(val.data, val.size); ldb_batch_put(&b, &ks, &vs); }
      printf("inv %d %d B w%d %d %d @%ld\n", sched_self(), i, wi, ver, sync, sched_now());
      rc = ldb_write(g_db, &b, &wo);
      printf("ret %d %d %d @%ld\n", sched_self(), i, rc, sched_now());
      if (rc == LDB_OK) for (m = 0; m < KEYS_PER_WRITER; m++) g_version[wi][m] = ver;
      ldb_batch_clear(&b);
    } else if ((r >> 44) % 11 == 0 && g_version[wi][kj] > 0) {
      key_for(kb, wi, kj); ks = ldb_string(kb);
      g_version[wi][kj]++;
      printf("inv %d %d D %s %d %d @%ld\n", sched_self(), i, kb, g_version[wi][kj], sync, sched_now());
      rc = ldb_del(g_db, &ks, &wo);
      printf("ret %d %d %d @%ld\n", sched_self(), i, rc, sched_now());
    } else {
      key_for(kb, wi, kj); ks = ldb_string(kb);
      g_version[wi][kj]++;
      make_val(&val, g_version[wi][kj], size); vs = ldb_slice(val.data, val.size);
      printf("inv %d %d P %s %d %d @%ld\n", sched_self(), i, kb, g_version[wi][kj], sync, sched_now());
      rc = ldb_put(g_db, &ks, &vs, &wo);
      printf("ret %d %d %d @%ld\n", sched_self(), i, rc, sched_now());
    }
  }
  ldb_buffer_clear(&val);
}

static void reader_thread(void *arg) {
  int ri = (int)(intptr_t)arg, i; char kb[32];
  printf("thr %d R %d\n", sched_self(), ri);
  for (i = 0; i < g_nops; i++) {
    uint64_t r = rnd_at(2, ri, i); int wi = (int)(r % (uint64_t)(g_nw > 0 ? g_nw : 1)), kj = (int)((r >> 8) % KEYS_PER_WRITER);
    ldb_slice_t ks, v; int rc;
    if ((g_flags & 4) && (r >> 20) % 3 == 0) {
      /* snapshot: read every key of one writer through it (a batch must be seen whole or not at all) */
      const ldb_snapshot_t *snap; ldb_readopt_t ro = *ldb_readopt_default; int j;
      printf("inv %d %d S w%d @%ld\n", sched_self(), i, wi, sched_now());
      snap = ldb_snapshot(g_db);
      printf("snap %d %d %llu @%ld\n", sched_self(), i, (unsigned long long)snap->sequence, sched_now());
      ro.snapshot = snap;
      { char line[768]; int len = sprintf(line, "ret %d %d", sched_self(), i); int first[KEYS_PER_WRITER];
      for (j = 0; j < KEYS_PER_WRITER; j++) {
        key_for(kb, wi, j); ks = ldb_string(kb);
        rc = ldb_get(g_db, &ks, &v, &ro);
        if (rc == LDB_OK) { first[j] = parse_version(&v); len += sprintf(line + len, " %s=%d", kb, first[j]); ldb_free(v.data); } else if (rc == LDB_NOTFOUND) { first[j] = -1; len += sprintf(line + len, " %s=-", kb); } else { first[j] = -2 - rc; len += sprintf(line + len, " %s=E%d", kb, rc); }
      }
      /* a snapshot is immutable: the same keys read again through it (other threads have run in between: every get is a
         scheduling point), last key first, must give what the first pass gave */
      for (j = KEYS_PER_WRITER - 1; j >= 0; j--) {
        int again;
        key_for(kb, wi, j); ks = ldb_string(kb);
        rc = ldb_get(g_db, &ks, &v, &ro);
        if (rc == LDB_OK) { again = parse_version(&v); ldb_free(v.data); } else if (rc == LDB_NOTFOUND) again = -1; else again = -2 - rc;
        if (again != first[j]) len += sprintf(line + len, " CHANGED:%s:%d:%d", kb, first[j], again);
      }
      printf("%s @%ld\n", line, sched_now()); }
      ldb_release(g_db, snap);
    } else if ((g_flags & 16) && (r >> 24) % 5 == 0) {
      ldb_iter_t *it; int n = 0, bad = 0; char prev[64] = "";
      printf("inv %d %d I @%ld\n", sched_self(), i, sched_now());
      it = ldb_iterator(g_db, ldb_readopt_default);
      { static __thread char line[8192]; int len = sprintf(line, "ret %d %d", sched_self(), i);
      for (ldb_iter_first(it); ldb_iter_valid(it); ldb_iter_next(it)) {
        ldb_slice_t k = ldb_iter_key(it), vv = ldb_iter_value(it); char kk[64]; size_t kn = k.size < 60 ? k.size : 60;
        memcpy(kk, k.data, kn); kk[kn] = 0;
        if (strcmp(prev, kk) >= 0) bad = 1;
        strcpy(prev, kk);
        if (len < 8000) len += sprintf(line + len, " %s=%d", kk, parse_version(&vv)); n++;
      }
      if (ldb_iter_status(it) != LDB_OK) len += sprintf(line + len, " STATUS=%d", ldb_iter_status(it));
      if (bad) len += sprintf(line + len, " UNSORTED");
      ldb_iter_destroy(it);
      printf("%s @%ld\n", line, sched_now()); }
    } else {
      key_for(kb, wi, kj); ks = ldb_string(kb);
      printf("inv %d %d G %s @%ld\n", sched_self(), i, kb, sched_now());
      rc = ldb_get(g_db, &ks, &v, NULL);
      if (rc == LDB_OK) { printf("ret %d %d %s=%d @%ld\n", sched_self(), i, kb, parse_version(&v), sched_now()); ldb_free(v.data); }
      else if (rc == LDB_NOTFOUND) printf("ret %d %d %s=- @%ld\n", sched_self(), i, kb, sched_now());
      else printf("ret %d %d %s=E%d @%ld\n", sched_self(), i, kb, rc, sched_now());
    }
  }
}

static void compact_thread(void *arg) {
  int i; (void)arg;
  printf("thr %d M 0\n", sched_self());
  for (i = 0; i < 2; i++) {
    printf("inv %d %d C @%ld\n", sched_self(), i, sched_now());
    ldb_compact(g_db, NULL, NULL);
    printf("ret %d %d 0 @%ld\n", sched_self(), i, sched_now());
  }
}

int main(int argc, char **argv) {
  ldb_dbopt_t opt = *ldb_dbopt_default; int rc, i, nthreads = 0; ldb_thread_t th[64]; char cmd[1200];
  uint64_t sseed; int mode;
  if (argc < 10) { fprintf(stderr, "usage\n"); return 2; }
  g_wseed = strtoull(argv[2], NULL, 10); sseed = strtoull(argv[3], NULL, 10); mode = atoi(argv[4]);
  g_nw = atoi(argv[5]); g_nr = atoi(argv[6]); g_nops = atoi(argv[7]); g_valsize = atoi(argv[8]); g_flags = atoi(argv[9]);
  if (g_nw > 30) g_nw = 30;
  setvbuf(stdout, NULL, _IOFBF, 1 << 20);
  snprintf(cmd, sizeof(cmd), "rm -rf '%s'", argv[1]);
  if (!getenv("CONC_KEEP") && system(cmd) != 0) { /* ignore */ }
  sched_seed(sseed);
  sched_mode(mode, 40L * (g_nw + g_nr) * g_nops);
  sched_max_steps(400000L + 4000L * (g_nw + g_nr) * g_nops);
  sched_release_hook = release_hook; sched_acquire_hook = acquire_hook;
  opt.create_if_missing = 1; opt.write_buffer_size = 64 << 10; opt.compression = LDB_NO_COMPRESSION;
  rc = ldb_open(argv[1], &opt, &g_db);
  if (rc != LDB_OK) { printf("open-failed %d\n", rc); return 2; }
  printf("thr %d main 0\n", sched_self());
  if (g_flags & 64) { g_log_writes = 0; g_fail_log_write = (long)(rnd_at(9, 9, 9) % 14); }
  g_tracing = 1;
  for (i = 0; i < g_nw; i++) ldb_thread_create(&th[nthreads++], writer_thread, (void *)(intptr_t)i);
  for (i = 0; i < g_nr; i++) ldb_thread_create(&th[nthreads++], reader_thread, (void *)(intptr_t)i);
  if (g_flags & 2) ldb_thread_create(&th[nthreads++], compact_thread, NULL);
  for (i = 0; i < nthreads; i++) ldb_thread_join(&th[i]);
  /* final state, read by the main thread after all API calls returned */
  { static char line[16384]; int len = sprintf(line, "final"); int wi, kj; char kb[32]; ldb_slice_t ks, v;
    for (wi = 0; wi < g_nw; wi++) for (kj = 0; kj < KEYS_PER_WRITER; kj++) {
      key_for(kb, wi, kj); ks = ldb_string(kb);
      rc = ldb_get(g_db, &ks, &v, NULL);
      if (rc == LDB_OK) { len += sprintf(line + len, " %s=%d", kb, parse_version(&v)); ldb_free(v.data); } else if (rc == LDB_NOTFOUND) len += sprintf(line + len, " %s=-", kb); else len += sprintf(line + len, " %s=E%d", kb, rc);
    }
    printf("%s\n", line); }
  printf("inv %d 0 X @%ld\n", sched_self(), sched_now());
  ldb_close(g_db);
  g_tracing = 0;
  printf("ret %d 0 0 @%ld\n", sched_self(), sched_now());
  printf("done steps=%ld switches=%ld\n", sched_now(), sched_switch_count());
  fflush(stdout);
  snprintf(cmd, sizeof(cmd), "rm -rf '%s'", argv[1]);
  if (!getenv("CONC_KEEP") && system(cmd) != 0) { /* ignore */ }
  return 0;
}
