/* write batch, internal keys / comparators, version edits, file names */
#include "util/comparator.h"
#include "util/vector.h"
#include "util/rbt.h"
#include "dbformat.h"
#include "write_batch.h"
#include "version_edit.h"
#include "filename.h"

#include "u_cmp.h"
static int sgn(int r) { return r < 0 ? -1 : (r > 0 ? 1 : 0); }

/* ---- batch ---- */
typedef struct { int first; } ophandler_state;
static void h_put(ldb_handler_t *h, const ldb_slice_t *k, const ldb_slice_t *v) {
  ophandler_state *st = h->state;
  if (!st->first) fputc(',', stdout); st->first = 0;
  fputs("p:", stdout); show_bytes(stdout, k->data, k->size); fputc(':', stdout); show_bytes(stdout, v->data, v->size);
}
static void h_del(ldb_handler_t *h, const ldb_slice_t *k) {
  ophandler_state *st = h->state;
  if (!st->first) fputc(',', stdout); st->first = 0;
  fputs("d:", stdout); show_bytes(stdout, k->data, k->size);
}

/* parse "p:k:v,d:k,..." into batch; returns 0 on syntax error */
static int build_batch(ldb_batch_t *b, unsigned long long seq, char *ops) {
  static char *of[MAXL]; int n = split_on(ops, ',', of, MAXL), i;
  ldb_batch_set_sequence(b, seq);
  for (i = 0; i < n; i++) {
    char *pf[4]; int np = split_on(of[i], ':', pf, 4);
    ldb_slice_t k, v;
    if (np == 3 && !strcmp(pf[0], "p")) {
      if (!parse_bytes(pf[1], &g_a) || !parse_bytes(pf[2], &g_b)) return 0;
      k.data = g_a.p; k.size = g_a.n; v.data = g_b.p; v.size = g_b.n;
      ldb_batch_put(b, &k, &v);
    } else if (np == 2 && !strcmp(pf[0], "d")) {
      if (!parse_bytes(pf[1], &g_a)) return 0;
      k.data = g_a.p; k.size = g_a.n;
      ldb_batch_del(b, &k);
    } else return 0;
  }
  return 1;
}

static void iterate_and_print(ldb_batch_t *b, int with_hdr) {
  /* ldb_batch_iterate calls the handler as it goes; buffer the op list so the status can be printed first */
  ldb_handler_t h; ophandler_state st; int rc;
  char *mem = NULL; size_t memn = 0; FILE *save = stdout; FILE *ms = open_memstream(&mem, &memn);
  st.first = 1; memset(&h, 0, sizeof(h)); h.state = &st; h.put = h_put; h.del = h_del;
  stdout = ms;
  rc = ldb_batch_iterate(b, &h);
  fflush(ms); stdout = save; fclose(ms);
  printf("%s %s", rc == LDB_OK ? "ok" : "corrupt", memn ? mem : ".");
  free(mem);
  if (with_hdr && b->rep.size >= 12)
    printf(" seq=%llu count=%lu", (unsigned long long)ldb_batch_sequence(b), (unsigned long)(uint32_t)ldb_batch_count(b));
}

/* ---- edits ---- */
static int build_edit(ldb_edit_t *e, char *fs) {
  static char *it[MAXL]; int n = split_on(fs, ';', it, MAXL), i;
  for (i = 0; i < n; i++) {
    char *pf[8]; int np = split_on(it[i], ':', pf, 8);
    if (np == 2 && !strcmp(pf[0], "c")) {
      if (!parse_bytes(pf[1], &g_a)) return 0;
      vb_push(&g_a, 0); ldb_edit_set_comparator_name(e, (const char *)g_a.p);
    } else if (np == 2 && !strcmp(pf[0], "l")) ldb_edit_set_log_number(e, strtoull(pf[1], NULL, 10));
    else if (np == 2 && !strcmp(pf[0], "p")) ldb_edit_set_prev_log_number(e, strtoull(pf[1], NULL, 10));
    else if (np == 2 && !strcmp(pf[0], "n")) ldb_edit_set_next_file(e, strtoull(pf[1], NULL, 10));
    else if (np == 2 && !strcmp(pf[0], "s")) ldb_edit_set_last_sequence(e, strtoull(pf[1], NULL, 10));
    else if (np == 3 && !strcmp(pf[0], "cp")) {
      ldb_ikey_t k;
      if (!parse_bytes(pf[2], &g_a)) return 0;
      ldb_buffer_init(&k); ldb_buffer_set(&k, g_a.p, g_a.n);
      ldb_edit_set_compact_pointer(e, atoi(pf[1]), &k);
      ldb_buffer_clear(&k);
    } else if (np == 3 && !strcmp(pf[0], "df")) ldb_edit_remove_file(e, atoi(pf[1]), strtoull(pf[2], NULL, 10));
    else if (np == 6 && !strcmp(pf[0], "nf")) {
      ldb_ikey_t a, b;
      if (!parse_bytes(pf[4], &g_a) || !parse_bytes(pf[5], &g_b)) return 0;
      ldb_buffer_init(&a); ldb_buffer_set(&a, g_a.p, g_a.n);
      ldb_buffer_init(&b); ldb_buffer_set(&b, g_b.p, g_b.n);
      ldb_edit_add_file(e, atoi(pf[1]), strtoull(pf[2], NULL, 10), strtoull(pf[3], NULL, 10), &a, &b);
      ldb_buffer_clear(&a); ldb_buffer_clear(&b);
    } else return 0;
  }
  return 1;
}

static void show_edit(const ldb_edit_t *e) {
  int first = 1; size_t i; rb_iter_t it;
#define SEP() do { if (!first) fputc(';', stdout); first = 0; } while (0)
  if (e->has_comparator) { SEP(); fputs("c:", stdout); show_bytes(stdout, e->comparator.data, e->comparator.size); }
  if (e->has_log_number) { SEP(); printf("l:%llu", (unsigned long long)e->log_number); }
  if (e->has_prev_log_number) { SEP(); printf("p:%llu", (unsigned long long)e->prev_log_number); }
  if (e->has_next_file_number) { SEP(); printf("n:%llu", (unsigned long long)e->next_file_number); }
  if (e->has_last_sequence) { SEP(); printf("s:%llu", (unsigned long long)e->last_sequence); }
  for (i = 0; i < e->compact_pointers.length; i++) {
    const ikey_entry_t *en = e->compact_pointers.items[i];
    SEP(); printf("cp:%d:", en->level); show_bytes(stdout, en->key.data, en->key.size);
  }
  rb_set_each(&e->deleted_files, it) {
    const file_entry_t *en = rb_key_ptr(it);
    SEP(); printf("df:%d:%llu", en->level, (unsigned long long)en->number);
  }
  for (i = 0; i < e->new_files.length; i++) {
    const meta_entry_t *en = e->new_files.items[i];
    SEP(); printf("nf:%d:%llu:%llu:", en->level, (unsigned long long)en->meta.number, (unsigned long long)en->meta.file_size);
    show_bytes(stdout, en->meta.smallest.data, en->meta.smallest.size); fputc(':', stdout);
    show_bytes(stdout, en->meta.largest.data, en->meta.largest.size);
  }
  if (first) fputc('.', stdout);
#undef SEP
}

static int handle_formats(char **f, int nf) {
  if (nf == 3 && !strcmp(f[0], "benc")) {
    ldb_batch_t b; ldb_batch_init(&b);
    if (!build_batch(&b, strtoull(f[1], NULL, 10), f[2])) { printf("bad-op"); ldb_batch_clear(&b); return 1; }
    show_bytes(stdout, b.rep.data, b.rep.size);
    ldb_batch_clear(&b);
  } else if (nf == 2 && !strcmp(f[0], "biter")) {
    ldb_batch_t b; ldb_slice_t c;
    if (!parse_bytes(f[1], &g_c)) { printf("bad-op"); return 1; }
    ldb_batch_init(&b);
    /* ldb_batch_set_contents asserts size >= 12; recovery checks that before calling it (db_impl.c), so
       shorter inputs are given to the iterator directly through rep */
    c.data = g_c.p; c.size = g_c.n;
    ldb_buffer_copy(&b.rep, &c);
    iterate_and_print(&b, 1);
    ldb_batch_clear(&b);
  } else if (nf == 5 && !strcmp(f[0], "bapp")) {
    ldb_batch_t a, b; ldb_batch_init(&a); ldb_batch_init(&b);
    if (!build_batch(&a, strtoull(f[1], NULL, 10), f[2]) || !build_batch(&b, strtoull(f[3], NULL, 10), f[4])) { printf("bad-op"); }
    else {
      ldb_batch_append(&a, &b);
      show_bytes(stdout, a.rep.data, a.rep.size); fputc(' ', stdout);
      iterate_and_print(&a, 1);
    }
    ldb_batch_clear(&a); ldb_batch_clear(&b);
  } else if (nf == 4 && !strcmp(f[0], "bmut")) {
    ldb_batch_t b; unsigned long long x = 0, y = 0; ldb_batch_init(&b);
    if (!build_batch(&b, strtoull(f[1], NULL, 10), f[2])) { printf("bad-op"); ldb_batch_clear(&b); return 1; }
    if (sscanf(f[3], "t:%llu", &x) == 1) { if (x < b.rep.size) b.rep.size = x; }
    else if (sscanf(f[3], "s:%llu:%llu", &x, &y) == 2) { if (x < b.rep.size) b.rep.data[x] = (uint8_t)y; }
    else { printf("bad-op"); ldb_batch_clear(&b); return 1; }
    iterate_and_print(&b, 0);
    ldb_batch_clear(&b);
  } else if (nf == 4 && !strcmp(f[0], "ucmp")) {
    const ldb_comparator_t *c = parse_cmp(f[1]); ldb_slice_t x, y;
    if (!c || !parse_bytes(f[2], &g_a) || !parse_bytes(f[3], &g_b)) { printf("bad-op"); return 1; }
    x.data = g_a.p; x.size = g_a.n; y.data = g_b.p; y.size = g_b.n;
    printf("%d", sgn(ldb_compare(c, &x, &y)));
  } else if (nf == 3 && !strcmp(f[0], "usep")) {
    ldb_buffer_t s; ldb_slice_t l;
    if (!parse_bytes(f[1], &g_a) || !parse_bytes(f[2], &g_b)) { printf("bad-op"); return 1; }
    ldb_buffer_init(&s); ldb_buffer_set(&s, g_a.p, g_a.n); l.data = g_b.p; l.size = g_b.n;
    ldb_shortest_separator(ldb_bytewise_comparator, &s, &l);
    show_bytes(stdout, s.data, s.size); ldb_buffer_clear(&s);
  } else if (nf == 2 && !strcmp(f[0], "usucc")) {
    ldb_buffer_t s;
    if (!parse_bytes(f[1], &g_a)) { printf("bad-op"); return 1; }
    ldb_buffer_init(&s); ldb_buffer_set(&s, g_a.p, g_a.n);
    ldb_short_successor(ldb_bytewise_comparator, &s);
    show_bytes(stdout, s.data, s.size); ldb_buffer_clear(&s);
  } else if (nf == 4 && !strcmp(f[0], "ikenc")) {
    ldb_ikey_t k; ldb_slice_t u;
    if (!parse_bytes(f[1], &g_a)) { printf("bad-op"); return 1; }
    u.data = g_a.p; u.size = g_a.n;
    ldb_ikey_init(&k); ldb_ikey_set(&k, &u, strtoull(f[2], NULL, 10), (ldb_valtype_t)atoi(f[3]));
    show_bytes(stdout, k.data, k.size); ldb_ikey_clear(&k);
  } else if (nf == 2 && !strcmp(f[0], "pkey")) {
    ldb_pkey_t pk; ldb_slice_t x;
    if (!parse_bytes(f[1], &g_a)) { printf("bad-op"); return 1; }
    x.data = g_a.p; x.size = g_a.n;
    if (ldb_pkey_import(&pk, &x)) { printf("ok "); show_bytes(stdout, pk.user_key.data, pk.user_key.size); printf(" %llu %d", (unsigned long long)pk.sequence, (int)pk.type); }
    else printf("fail");
  } else if ((nf == 4 && (!strcmp(f[0], "icmp") || !strcmp(f[0], "isep"))) || (nf == 3 && !strcmp(f[0], "isucc"))) {
    const ldb_comparator_t *c = parse_cmp(f[1]); ldb_comparator_t ikc; ldb_slice_t x, y; ldb_buffer_t s;
    if (!c || !parse_bytes(f[2], &g_a) || (nf == 4 && !parse_bytes(f[3], &g_b))) { printf("bad-op"); return 1; }
    if (g_a.n < 8 || (nf == 4 && g_b.n < 8)) { printf("bad-op"); return 1; }
    ldb_ikc_init(&ikc, c);
    x.data = g_a.p; x.size = g_a.n; y.data = g_b.p; y.size = g_b.n;
    if (!strcmp(f[0], "icmp")) printf("%d", sgn(ldb_compare(&ikc, &x, &y)));
    else {
      ldb_buffer_init(&s); ldb_buffer_set(&s, g_a.p, g_a.n);
      if (!strcmp(f[0], "isep")) { if (ikc.shortest_separator) ldb_shortest_separator(&ikc, &s, &y); }
      else { if (ikc.short_successor) ldb_short_successor(&ikc, &s); }
      show_bytes(stdout, s.data, s.size); ldb_buffer_clear(&s);
    }
  } else if (nf == 2 && !strcmp(f[0], "eenc")) {
    ldb_edit_t e, e2; ldb_buffer_t out;
    ldb_edit_init(&e); ldb_edit_init(&e2); ldb_buffer_init(&out);
    if (!build_edit(&e, f[1])) printf("bad-op");
    else {
      ldb_edit_export(&out, &e);
      show_bytes(stdout, out.data, out.size); fputc(' ', stdout);
      if (ldb_edit_import(&e2, &out)) show_edit(&e2); else printf("fail");
    }
    ldb_buffer_clear(&out); ldb_edit_clear(&e); ldb_edit_clear(&e2);
  } else if (nf == 2 && !strcmp(f[0], "edec")) {
    ldb_edit_t e; ldb_slice_t x;
    if (!parse_bytes(f[1], &g_a)) { printf("bad-op"); return 1; }
    x.data = g_a.p; x.size = g_a.n;
    ldb_edit_init(&e);
    if (ldb_edit_import(&e, &x)) { printf("ok "); show_edit(&e); } else printf("fail");
    ldb_edit_clear(&e);
  } else if (nf == 2 && !strcmp(f[0], "fname")) {
    ldb_filetype_t t; uint64_t num; size_t i;
    static const char *names[] = { "log", "lock", "table", "desc", "current", "temp", "info" };
    if (!parse_bytes(f[1], &g_a)) { printf("bad-op"); return 1; }
    for (i = 0; i < g_a.n; i++) if (g_a.p[i] == 0 || g_a.p[i] >= 0x80) { printf("bad-op"); return 1; }
    vb_push(&g_a, 0);
    if (ldb_parse_filename(&t, &num, (const char *)g_a.p)) printf("%s %llu", (int)t >= 0 && (int)t < 7 ? names[(int)t] : "?", (unsigned long long)num);
    else printf("none");
  } else return 0;
  return 1;
}
