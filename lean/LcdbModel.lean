import LcdbModel.Model.Coding
import LcdbModel.Model.Crc32c
import LcdbModel.Model.LogFormat
import LcdbModel.Props.Consts
import LcdbModel.Props.CrcTablesOk
import LcdbModel.Props.C15
import LcdbModel.Props.CodingProps
import LcdbModel.Props.CrcProps
