/-
  Abstraction of the real system-call journal (harness/iojournal.h `j` lines) into the events of the
  storage-protocol model (Model/Disk.lean), and incremental evaluation of the monitor `Mon.step`.
  WAL records are identified by the harness (the write(2) that completes batch b carries tag b);
  MANIFEST records are decoded here from the written bytes with the model's log reader and edit decoder.
-/
import Driver.Util
import LcdbModel.Model.Disk
import LcdbModel.Model.LogFormat
import LcdbModel.Model.VersionEdit
import LcdbModel.Model.FileName
open Lcdb Drv
namespace IoAbs
open Lcdb.Disk

structure AbsState where
  mon : Mon := {}
  manifests : List (Nat × Bytes × Nat) := []     -- MANIFEST number ↦ (bytes written so far, records already emitted)
  tableBytes : List (Nat × Nat) := []            -- table number ↦ bytes written so far
  reported : Bool := false
  reportedDel : Bool := false
  nEvents : Nat := 0
  nEdits : Nat := 0
  problems : List String := []

def fnameOf (name : String) : Option FName :=
  match parseFileName name with
  | some (.log, n) => some (.log n)
  | some (.table, n) => some (.table n)
  | some (.desc, n) => some (.manifest n)
  | some (.temp, n) => some (.tmp n)
  | some (.current, _) => some .current
  | _ => none

def AbsState.feed (s : AbsState) (e : Ev) (ctx : String) : AbsState :=
  let m' := s.mon.step e
  let s := { s with mon := m', nEvents := s.nEvents + 1 }
  let s := if !m'.ok && !s.reported then
             { s with reported := true, problems := s.problems ++ [s!"MISMATCH[conforms] {ctx}: {m'.why}"] }
           else s
  if !m'.okDel && !s.reportedDel then
    { s with reportedDel := true, problems := s.problems ++ [s!"MISMATCH[conformsdel] {ctx}: a log was unlinked while some crash image (one that loses a not yet fsynced CURRENT switch) would still need it"] }
  else s

def tableChunks (s : AbsState) (t : Nat) : Nat :=
  match bodyOf s.mon.w (.table t) with
  | some b => b.recs.length
  | none => 0

def toAEdit (s : AbsState) (e : Edit) : AEdit :=
  { logNum := e.logNumber,
    newTables := e.newFiles.map fun f =>
      -- size in chunks if the table is on disk with exactly the recorded byte size, else an impossible size
      let bytes := ((s.tableBytes.find? (fun p => p.1 == f.number)).map (·.2)).getD 0
      (f.number, if bytes == f.size then tableChunks s f.number else 1000000000),
    delTables := e.deletedFiles.map (·.2) }

def ptrOf (bs : Bytes) : Option Nat :=
  match String.fromUTF8? (ByteArray.mk bs.toArray) with
  | some str =>
    if str.startsWith "MANIFEST-" && str.endsWith "\n" then ((str.drop 9).dropEnd 1).toString.toNat? else none
  | none => none

/-- one journal line (fields after `j <idx>`) -/
def AbsState.line (s : AbsState) (idx : String) (fields : List String) : AbsState :=
  let ctx := s!"journal event {idx} ({" ".intercalate (fields.take 3)})"
  match fields with
  | ["create", name, trunc] =>
    match fnameOf name with
    | some f =>
      let exists_ := (bodyOf s.mon.w f).isSome
      if trunc == "1" || !exists_ then
        let s := match f with
          | .manifest n => { s with manifests := (n, [], 0) :: s.manifests.filter (fun p => p.1 != n) }
          | .table n => { s with tableBytes := (n, 0) :: s.tableBytes.filter (fun p => p.1 != n) }
          | _ => s
        s.feed (.create f) ctx
      else s   -- reopened for append (log / MANIFEST reuse): same body
    | none => s
  | ["write", name, len, tag, data] =>
    match fnameOf name, len.toNat? with
    | some (.log n), _ =>
      match tag.toInt? with
      | some t => if t ≥ 0 then s.feed (.append (.log n) (.batch t.toNat)) ctx else s
      | none => s
    | some (.table n), some l =>
      let cur := ((s.tableBytes.find? (fun p => p.1 == n)).map (·.2)).getD 0
      let s := { s with tableBytes := (n, cur + l) :: s.tableBytes.filter (fun p => p.1 != n) }
      s.feed (.append (.table n) .chunk) ctx
    | some (.manifest n), _ =>
      match parseBytes data with
      | some bs =>
        let (old, emitted) := ((s.manifests.find? (fun p => p.1 == n)).map (·.2)).getD ([], 0)
        let all := old ++ bs
        let recs := recordsOf (readAllEvents true all)
        let fresh := recs.drop emitted
        let s := { s with manifests := (n, all, recs.length) :: s.manifests.filter (fun p => p.1 != n) }
        fresh.foldl (fun s r =>
          match editDecode r with
          | some e => { (s.feed (.append (.manifest n) (.edit (toAEdit s e))) ctx) with nEdits := s.nEdits + 1 }
          | none => { s with problems := s.problems ++ [s!"MISMATCH[conforms] {ctx}: MANIFEST record that the model's edit decoder rejects"] }) s
      | none => s
    | some (.tmp n), _ =>
      match (parseBytes data).bind ptrOf with
      | some m => s.feed (.append (.tmp n) (.ptr m)) ctx
      | none => { s with problems := s.problems ++ [s!"MISMATCH[conforms] {ctx}: pointer file contents are not 'MANIFEST-<n>\\n'"] }
    | _, _ => s
  | ["sync", name] => match fnameOf name with
    | some f => s.feed (.sync f) ctx
    | none => s
  | ["syncdir", _] => s.feed .syncDir ctx
  | ["rename", a, b] =>
    match fnameOf a, fnameOf b with
    | some fa, some fb => s.feed (.rename fa fb) ctx
    | _, _ => s       -- LOG -> LOG.old
  | ["unlink", name] => match fnameOf name with
    | some f => s.feed (.unlink f) ctx
    | none => s
  | ["mark", "wack", seq0, _cnt, _log, sync] =>
    match seq0.toNat? with
    | some b => s.feed (.ack b (sync == "1")) ctx
    | none => s
  | _ => s

end IoAbs
