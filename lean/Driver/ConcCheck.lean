/-
  conccheck: acceptor that replays a transcript of the real database running under the deterministic scheduler
  (harness/conc.c) on the concurrency protocol model `Lcdb.Conc.step`.

  Every critical section of `db->mutex` is one `cs` line.  For each of them the acceptor enumerates the labels (or short
  label sequences) the model allows for the thread that ran it, applies `Conc.step`, and keeps the resulting model
  states that agree with what the implementation reported when it released the mutex:
    the writer queue with its `done` flags, imm / scheduled / bg_error / shutting_down, the published sequence,
    how the mutex was released (unlock, wait on the thread's own condition variable, wait on background_work_finished),
    which writers' condition variables were signalled, whether background_work_finished was broadcast,
    whether a background job was handed to the pool.
  Data-dependent choices (memtable full? level-0 count? group size?) are exactly the nondeterminism of the labels, so the
  simulation is an NFA simulation: a set of candidate states, usually of size 1.  If the set becomes empty the
  implementation took a step the model does not have: `MISMATCH[conc]`.

  Not in the model (reported as `skip`): runs with a manual-compaction thread (`thr <t> M`).
-/
import LcdbModel.Model.Conc
open Lcdb.Conc

namespace CC

structure Obs where
  tid : Nat
  exit : String            -- "u" | "w:bg" | "w:w<t>"
  sig : List Nat           -- owners of the condition variables signalled (0 = the pool's: a background job was posted)
  bc : Bool
  q : List (Nat × Bool)    -- thread id, done flag
  ls : Nat
  imm : Bool
  sched : Bool
  err : Bool
  shut : Bool
  lognum : Nat
  need : Bool := false
  deriving Repr

def kv (fields : List String) (k : String) : Option String :=
  (fields.find? (fun f => f.startsWith (k ++ "="))).map fun f => (f.drop (k.length + 1)).toString

def parseQ (s : String) : List (Nat × Bool) :=
  if s == "." || s == "" then [] else
  (s.splitOn ",").filterMap fun x =>
    if x.endsWith "d" then ((x.dropEnd 1).toString.toNat?).map (·, true) else (x.toNat?).map (·, false)

def parseSig (s : String) : List Nat :=
  if s == "." || s == "" then [] else (s.splitOn ",").filterMap (·.toNat?)

def parseObs (fields : List String) : Option Obs :=
  match fields with
  | "cs" :: tid :: exit :: rest =>
    match tid.toNat?, kv rest "sig", kv rest "bc", kv rest "q", (kv rest "ls").bind (·.toNat?), kv rest "imm", kv rest "sched", kv rest "err", kv rest "shut", (kv rest "lognum").bind (·.toNat?) with
    | some t, some sg, some bc, some q, some ls, some imm, some sched, some err, some shut, some ln =>
      some { tid := t, exit := exit, sig := parseSig sg, bc := bc == "1", q := parseQ q, ls := ls, imm := imm == "1", sched := sched == "1", err := err == "1", shut := shut == "1", lognum := ln,
             need := kv rest "need" == some "1" }
    | _, _, _, _, _, _, _, _, _, _ => none
  | _ => none

/-- what a thread is doing, read off the `thr` / `inv` lines (the same in every branch of the simulation) -/
structure Ctx where
  tid : Nat
  role : String := "bg"        -- "W" | "R" | "M" | "main" | "bg"
  op : String := ""            -- P D B | G S I | X
  opIdx : Nat := 0
  sync : Bool := false
  entries : Nat := 1
  nCs : Nat := 0               -- critical sections seen inside the current operation
  deriving Repr

def wid (tid opIdx : Nat) : Nat := tid * 100000 + opIdx * 100
def rid (tid opIdx j : Nat) : Nat := tid * 100000 + opIdx * 100 + 50 + j
def tidOf (modelId : Nat) : Nat := modelId / 100000

structure Sim where
  states : List St := []
  ctxs : List Ctx := []
  counts : List (Nat × Nat) := []      -- batch id ↦ number of entries (for the published sequence)
  ls0 : Option Nat := none
  problems : List String := []
  nCs : Nat := 0
  nLabels : Nat := 0
  maxStates : Nat := 0
  nAmbiguous : Nat := 0
  skip : Bool := false
  lineNo : Nat := 0
  dead : Bool := false

def Sim.ctx (s : Sim) (t : Nat) : Ctx := (s.ctxs.find? (·.tid == t)).getD { tid := t }
def Sim.setCtx (s : Sim) (c : Ctx) : Sim := { s with ctxs := c :: s.ctxs.filter (·.tid != c.tid) }
def Sim.problem (s : Sim) (msg : String) : Sim := { s with problems := s.problems ++ [s!"{msg} (transcript line {s.lineNo})"], dead := true }

def allChoices (st : St) : List RoomChoice :=
  [.fail, .delay, .waitFlush, .waitL0, .switchFail] ++
  (List.range (st.queue.length + 1)).flatMap fun g => [.begin false (g + 1), .begin true (g + 1)]

def mids : List Label :=
  [false, true].flatMap fun a => [false, true].flatMap fun b => [false, true].map fun c => Label.bgMid a b c

/-- label sequences the background worker may perform within one critical section, most economical first; the data
    dependent parameters are read off the observation (flush installed? broadcast? error recorded? compaction still needed?) -/
def bgCandidates (o : Obs) (st : St) : List (List Label) :=
  let pre : List Label := if st.bg == .posted then [.bgStart] else []
  let flushDone := st.imm && !o.imm
  let errNow := !st.bgError && o.err
  let mid : List Label := [.bgMid flushDone o.bc errNow]
  let fin : List Label := [.bgFinish o.need]
  let fin' : List Label := [.bgFinish (!o.need)]
  -- a section of a running job that changes nothing the model tracks (file deletion, statistics, ...) is no model step at all
  let stutter : List (List Label) := if st.bg == .working then [[]] else []
  stutter ++ ([pre, pre ++ mid, pre ++ fin, pre ++ fin', pre ++ [.bgMid flushDone false errNow] ++ fin, pre ++ [.bgMid flushDone false errNow] ++ fin']).filter (!·.isEmpty)

def broadcasts : Label → Bool
  | .bgFinish _ => true
  | .bgMid _ b e => b || e
  | .wCommit _ sf => sf
  | .wEnter _ .switchFail => true
  | .wWake _ .switchFail => true
  | _ => false

/-- apply a label sequence; also reports whether some step handed a job to the pool -/
def applyLabels (st : St) : List Label → Option (St × Bool)
  | [] => some (st, false)
  | l :: ls =>
    match step st l with
    | none => none
    | some st1 =>
      let posted := st1.bg == .posted && st.bg != .posted
      (applyLabels st1 ls).map fun (st2, p) => (st2, p || posted)

def pcClass (st : St) (c : Ctx) : String :=
  if c.role == "W" then
    match getW st (wid c.tid c.opIdx) with
    | some w => if w.pc == .asleepW then s!"w:w{c.tid}" else if w.pc == .asleepBg then "w:bg" else "u"
    | none => "u"
  else if c.role == "main" then (if st.closer == .asleepBg then "w:bg" else "u")
  else "u"

def publishedEntries (counts : List (Nat × Nat)) (st : St) : Nat :=
  st.committed.foldl (fun n b => n + ((counts.find? (·.1 == b)).map (·.2)).getD 1) 0

/-- does the model state after the step agree with what the implementation reported? -/
def agrees (s : Sim) (c : Ctx) (o : Obs) (before after : St) (labels : List Label) (posted : Bool) : Bool :=
  let qOk := after.queue.map tidOf == o.q.map (·.1) &&
             (after.queue.zip o.q).all (fun (m, (_, d)) => match getW after m with | some w => w.done == d | none => false)
  let flagsOk := after.imm == o.imm && after.bgScheduled == o.sched && after.bgError == o.err && after.shuttingDown == o.shut
  let exitOk := pcClass after c == o.exit
  -- a group whose log write failed is not committed, but the implementation still consumes its sequence numbers
  -- (versions->last_sequence is set after the write whatever its outcome): the baseline is re-read after such a step
  let failedCommit := labels.any fun l => match l with | .wCommit _ true => true | _ => false
  let lsOk := failedCommit || match s.ls0 with
    | some l0 => l0 + publishedEntries s.counts after == o.ls
    | none => true
  -- writers woken through their own condition variable
  let woken := (after.writers.filter fun w => w.pc == .wokenW && (match getW before w.tid with | some w0 => w0.pc == .asleepW | none => false)).map (tidOf ·.tid)
  let asleepBefore := (before.writers.filter (·.pc == .asleepW)).map (tidOf ·.tid)
  let sigW := (o.sig.filter (· != 0)).filter (asleepBefore.contains ·)
  let sigOk := woken.all (sigW.contains ·) && sigW.all (woken.contains ·)
  let bcOk := labels.any broadcasts == o.bc
  let postOk := posted == o.sig.contains 0
  qOk && flagsOk && exitOk && lsOk && sigOk && bcOk && postOk

def dedup (xs : List St) : List St :=
  xs.foldl (fun acc x => if acc.any (fun y => reprStr y == reprStr x) then acc else acc ++ [x]) []

def Sim.stepAll (s : Sim) (c : Ctx) (o : Obs) (cands : St → List (List Label)) (addW : Option Writer) (addR : List Reader) (firstOnly : Bool := false) : Sim :=
  let next := s.states.flatMap fun st0 =>
    let st := { st0 with writers := st0.writers ++ (match addW with | some w => if (getW st0 w.tid).isSome then [] else [w] | none => []),
                         readers := st0.readers ++ addR.filter (fun r => (getR st0 r.tid).isNone) }
    let ok := (cands st).filterMap fun ls =>
      match applyLabels st ls with
      | some (st', posted) => if agrees s c o st st' ls posted then some st' else none
      | none => none
    -- roles whose labels are determined by the observation: the first (most economical) explanation is taken
    if firstOnly then ok.take 1 else ok
  let next := dedup next
  let s := { s with nCs := s.nCs + 1, maxStates := max s.maxStates next.length, nAmbiguous := s.nAmbiguous + (if next.length > 1 then 1 else 0) }
  if next.isEmpty then
    s.problem s!"MISMATCH[conc] no step of the Conc model explains the critical section of thread {o.tid} (role {c.role}, op {c.op}#{c.opIdx}, section {c.nCs}): released by '{o.exit}', queue {o.q.map (·.1)}, seq {o.ls}, imm={o.imm} sched={o.sched} err={o.err} shut={o.shut} need={o.need}, signalled {o.sig}, broadcast={o.bc}; {s.states.length} candidate state(s) before"
  else { s with states := next }

def handleCs (s : Sim) (o : Obs) : Sim :=
  let s := if s.ls0.isNone then { s with ls0 := some o.ls } else s
  let c := s.ctx o.tid
  let s1 :=
    if c.role == "W" then
      let id := wid c.tid c.opIdx
      let w : Writer := { tid := id, batch := id, sync := c.sync }
      let cands := fun (st : St) =>
        match getW st id with
        | some x =>
          if x.pc == .idle then (allChoices st).map fun ch => [Label.wEnter id ch]
          else if x.pc == .io then [[.wCommit id false], [.wCommit id true]]
          else (allChoices st).map fun ch => [Label.wWake id ch]
        | none => []
      s.stepAll c o cands (some w) []
    else if c.role == "R" || (c.role == "main" && c.op != "X") then
      -- G: capture, release.  S: snapshot section, then capture/release for each key, then the release of the snapshot.
      -- I (and the reads the main thread makes before closing): sections of iterator creation / read sampling / destruction.
      let isGet := c.role == "R" && (c.op == "G" || (c.op == "S" && c.nCs ≥ 1 && c.nCs ≤ 8))
      if isGet then
        let j := if c.op == "G" then 0 else (c.nCs - 1) / 2
        let first := if c.op == "G" then c.nCs == 0 else (c.nCs - 1) % 2 == 0
        let id := rid c.tid c.opIdx j
        if first then s.stepAll c o (fun _ => [[.rCapture id]]) none [{ tid := id }] true
        else s.stepAll c o (fun st => let seek := o.need && !st.needsCompaction
                                      [[.rRead id, .rRelease id seek], [.rRead id, .rRelease id (!seek)]]) none [] true
      else
        -- a section that only touches the snapshot list / reference counts; a read sample may ask for a compaction
        let id := rid c.tid c.opIdx (10 + c.nCs % 39)
        s.stepAll c o (fun st => if o.need && !st.needsCompaction then [[.rCapture id, .rRead id, .rRelease id true], []]
                                 else [[], [.rCapture id, .rRead id, .rRelease id true]]) none [{ tid := id }] true
    else if c.role == "main" then
      s.stepAll c o (fun st => if st.closer == .idle then [[.close]] else [[.closeWake]]) none [] true
    else if c.role == "bg" then
      s.stepAll c o (bgCandidates o) none [] true
    else s
  -- re-read the sequence baseline (see `agrees`): only ever needed after a failed commit
  let s1 := match s1.states.head?, s1.ls0 with
    | some st, some l0 => if o.err && l0 + publishedEntries s1.counts st != o.ls && o.ls ≥ publishedEntries s1.counts st
                          then { s1 with ls0 := some (o.ls - publishedEntries s1.counts st) } else s1
    | _, _ => s1
  s1.setCtx { c with nCs := c.nCs + 1 }

def handleLine (s : Sim) (line : String) : Sim :=
  let s := { s with lineNo := s.lineNo + 1 }
  if s.dead || s.skip then s else
  let fields := line.trimAscii.toString.splitOn " "
  match fields with
  | ["thr", tid, role, _] =>
    match tid.toNat? with
    | some t => if role == "M" then { s with skip := true } else s.setCtx { tid := t, role := role }
    | none => s
  | "inv" :: tid :: n :: op :: rest =>
    match tid.toNat?, n.toNat? with
    | some t, some k =>
      let c := s.ctx t
      -- writer ops: P key ver sync | D key ver sync | B w<i> ver sync  (the field before @step is the sync flag)
      let args := rest.filter (fun f => !f.startsWith "@")
      let sync := (op == "P" || op == "D" || op == "B") && args.getLast? == some "1"
      let entries := if op == "B" then 4 else 1
      let s := s.setCtx { c with op := op, opIdx := k, sync := sync, entries := entries, nCs := 0 }
      if op == "P" || op == "D" || op == "B" then { s with counts := (wid t k, entries) :: s.counts } else s
    | _, _ => s
  | "ret" :: tid :: _ :: rest =>
    match tid.toNat? with
    | some t =>
      let c := s.ctx t
      if c.role == "W" then
        let ok := (rest.head?.getD "") == "0"
        let keep := s.states.filter fun st => match getW st (wid c.tid c.opIdx) with | some w => w.pc == .returned ok | none => false
        if keep.isEmpty && !s.states.isEmpty then s.problem s!"MISMATCH[conc] write {c.op}#{c.opIdx} of thread {t} returned {rest.head?.getD "?"}, which no candidate model state allows"
        else { s with states := keep }
      else s
    | none => s
  | ["slp", tid, _] =>
    match tid.toNat? with
    | some t =>
      let c := s.ctx t
      let keep := s.states.filter fun st => match getW st (wid c.tid c.opIdx) with | some w => w.pc == .delayed | none => false
      if keep.isEmpty && !s.states.isEmpty then s.problem s!"MISMATCH[conc] thread {t} took the slowdown sleep, which no candidate model state allows" else { s with states := keep }
    | none => s
  | "cs" :: _ =>
    match parseObs fields with
    | some o => handleCs s o
    | none => s.problem "MISMATCH[conc] unparsable cs line"
  | "done" :: _ =>
    if s.states.any allDone || s.states.isEmpty then s else s.problem "MISMATCH[conc] the run ended but in the model some thread has not returned"
  | _ => s

partial def loop (h : IO.FS.Stream) (s : Sim) : IO Sim := do
  let line ← h.getLine
  if line.isEmpty then return s
  loop h (handleLine s line)

end CC

def main : IO Unit := do
  let stdin ← IO.getStdin
  let s0 : CC.Sim := { states := [initSt [] []] }
  let s ← CC.loop stdin s0
  for p in s.problems.take 5 do
    IO.println p
  IO.println s!"done sections={s.nCs} maxstates={s.maxStates} ambiguous={s.nAmbiguous} skipped={if s.skip then 1 else 0} problems={s.problems.length}"
