/-
  tracecheck: validates a transcript of the real database (harness/wl.c) against the Lsm model.

  For every line it replays the corresponding model step, evaluates the *hypotheses of the theorems*
  (`stepOk`, `invCheck`) on what was observed, recomputes every `get`/iterator answer from the model
  state (correspondence) and from the plain history of writes (the property's own oracle).
  Output: one line per problem (`MISMATCH …` model ≠ implementation, `VIOLATION …` property oracle
  failed), then a `done …` summary line with counters.
-/
import Driver.Util
import LcdbModel.Model.Lsm
import LcdbModel.Model.DbIter
import Driver.IoAbs
import LcdbModel.Model.Files
import LcdbModel.Model.Compaction
import LcdbModel.Model.Policy
open Lcdb Drv

structure BatchRec where
  seq0 : Nat
  count : Nat
  log : Nat
  sync : Bool
  jBegin : Nat
  jAck : Nat
  entries : List Entry
  failed : Bool := false
  deriving Repr

structure TS where
  cmp : Cmp := .bytewise
  st : DbState := { mem := [], imm := none, levels := List.replicate 7 [], lastSeq := 0, snaps := [], nextFile := 0 }
  files : List (Nat × Nat × Run) := []        -- dumped table contents by file number: (num, size, run)
  history : List Entry := []                  -- every acknowledged write (the property's oracle state)
  isOpen : Bool := false
  everOpened : Bool := false
  justOpened : Bool := false
  logNum : Nat := 0
  manifestNum : Nat := 0
  problems : List String := []
  lineNo : Nat := 0
  nGets : Nat := 0
  nWrites : Nat := 0
  nFlush : Nat := 0
  nCompact : Nat := 0
  nTrivial : Nat := 0
  nRecover : Nat := 0
  nInv : Nat := 0
  nIter : Nat := 0
  nVer : Nat := 0
  nLs : Nat := 0
  maxFiles : Nat := 0
  levelsUsed : Nat := 0
  iter : Option (Nat × DbIterState) := none   -- current user iterator: (sequence, state)
  longIters : List (Nat × Nat × List (Bytes × String) × DbIterState) := []   -- id ↦ (sequence, pinned visible map, cursor)
  pinned : List (Nat × List Nat) := []       -- iterator id ↦ table numbers of the version it pins
  gcSinceIterClose : Bool := true
  repairing : Bool := false                   -- between `repair` and `repaired-state`
  preRepair : Run := []                       -- every entry the database held before the repair (tables, memtables)
  rfiles : List (Nat × Nat × Run) := []
  repairedStale : Bool := false               -- after repair, file numbering disagrees with data age (known finding F3)
  nRepairs : Nat := 0
  known : List String := []
  expectFail : Bool := false
  inFailedOpen : Bool := false
  backups : List (String × Run) := []
  foreign : List String := []
  nLifecycle : Nat := 0
  corruptMode : Option String := none         -- damaged-copy mode: `table` (strict) or `log`/`manifest`/`current` (weak)
  nCorrupt : Nat := 0
  nCorruptReads : Nat := 0
  nCorruptErrors : Nat := 0
  destroyed : Bool := false
  nLongIterOps : Nat := 0
  lastW : List WOp := []
  lastWF : List WOp := []
  faultMode : Bool := false
  faultArmed : Bool := false
  nFailedOpens : Nat := 0
  looseMode : Bool := false                   -- background work overlaps later calls: structural correspondence suspended
  lastOver : List Bytes := []
  nWerr : Nat := 0
  nFailedBatches : Nat := 0
  lastBegin : Nat := 0
  batches : List BatchRec := []               -- every batch whose write began, in order
  logUnlinks : List (Nat × Nat) := []         -- (journal index, log number)
  lastCrash : Option (Nat × Nat × Run) := none
  nCrash : Nat := 0
  nCrash2 : Nat := 0
  nCrashN : Nat := 0
  pendingNested : List (Nat × Nat × String × Run) := []
  nCrashNontrivial : Nat := 0
  nJ : Nat := 0
  mfs : Nat := 2097152                        -- options.max_file_size (`opts` line)
  nInputs : Nat := 0                          -- compactions whose input sets were recomputed with Policy.setupStage1
  nPickLevel : Nat := 0                       -- flushes whose level was recomputed with Policy.pickLevel
  nPickDeep : Nat := 0                        -- of them below level 0
  csnap : Option Nat := none                  -- smallest snapshot of the compaction whose edit comes next (`csnap` line)
  nDropLoop : Nat := 0                        -- compactions whose output was recomputed with Compaction.expectedOutput
  nDropped : Nat := 0                         -- entries those compactions dropped
  nDropBase : Nat := 0                        -- of them deletion markers (rule B)
  io : IoAbs.AbsState := {}

def TS.problem (t : TS) (kind : String) (msg : String) : TS :=
  -- after an injected I/O fault the engine legitimately stops flushing/compacting and refuses writes: the structural
  -- correspondence (stepOk / Inv / layout / memtable dumps) is suspended, the property oracles are not
  if (t.faultMode || t.looseMode) && kind.startsWith "MISMATCH" && !(kind.startsWith "MISMATCH[other]" && !t.looseMode) && !(kind.startsWith "MISMATCH[conforms") then t
  else { t with problems := t.problems ++ [s!"{kind} line={t.lineNo} {msg}"] }

def parseEntry (s : String) : Option Entry :=
  match s.splitOn ":" with
  | k :: seq :: kind :: rest =>
    match parseBytes k, seq.toNat?, kind.toNat? with
    | some k, some sq, some kd => some { ukey := k, seq := sq, kind := kd, val := ":".intercalate rest }
    | _, _, _ => none
  | _ => none

def parseEntries (s : String) : Option Run := parseList parseEntry s ","

def parseWOp (s : String) : Option WOp :=
  match s.splitOn ":" with
  | "p" :: k :: rest => (parseBytes k).map fun k => { ukey := k, kind := 1, val := ":".intercalate rest }
  | ["d", k] => (parseBytes k).map fun k => { ukey := k, kind := 0, val := "-" }
  | _ => none

structure AddRec where
  level : Nat
  num : Nat
  size : Nat
  sk : Bytes
  sp : Nat
  lk : Bytes
  lp : Nat

def parseAdd (s : String) : Option AddRec :=
  match s.splitOn ":" with
  | ["add", l, n, sz, sk, sp, lk, lp] =>
    match l.toNat?, n.toNat?, sz.toNat?, parseBytes sk, sp.toNat?, parseBytes lk, lp.toNat? with
    | some l, some n, some sz, some sk, some sp, some lk, some lp => some { level := l, num := n, size := sz, sk := sk, sp := sp, lk := lk, lp := lp }
    | _, _, _, _, _, _, _ => none
  | _ => none

def parseDel (s : String) : Option (Nat × Nat) :=
  match s.splitOn ":" with
  | ["del", l, n] => match l.toNat?, n.toNat? with
    | some l, some n => some (l, n)
    | _, _ => none
  | _ => none

def parseVerFile (s : String) : Option (Nat × Nat × Bytes × Nat × Bytes × Nat) :=
  match s.splitOn ":" with
  | [n, sz, sk, sp, lk, lp] =>
    match n.toNat?, sz.toNat?, parseBytes sk, sp.toNat?, parseBytes lk, lp.toNat? with
    | some n, some sz, some sk, some sp, some lk, some lp => some (n, sz, sk, sp, lk, lp)
    | _, _, _, _, _, _ => none
  | _ => none

def TS.fileMeta (t : TS) (a : AddRec) : Option FileMeta :=
  match t.files.find? (fun (n, _, _) => n == a.num) with
  | some (_, _, run) => some { num := a.num, size := a.size, sk := a.sk, sp := a.sp, lk := a.lk, lp := a.lp, run := run }
  | none => none

def showRunBrief (r : Run) : String :=
  ",".intercalate ((r.take 6).map fun e => s!"{hexOfBytes e.ukey}:{e.seq}:{e.kind}") ++ (if r.length > 6 then s!",…({r.length})" else "")

def TS.checkInv (t : TS) (what : String) : TS :=
  let t := { t with nInv := t.nInv + 1,
                    maxFiles := max t.maxFiles (allFiles t.st).length,
                    levelsUsed := max t.levelsUsed ((t.st.levels.filter (fun l => !l.isEmpty)).length) }
  match invCheck t.cmp t.st with
  | none => { t with repairedStale := false }
  | some clause => if t.repairedStale && clause == "recency" then t else t.problem s!"MISMATCH[inv:{clause}]" s!"Inv clause {clause} fails after {what}"

def TS.doStep (t : TS) (s : Step) (what : String) : TS :=
  let t := if decide (stepOk t.cmp t.st s) then t else t.problem "MISMATCH[step]" s!"stepOk fails for {what}"
  ({ t with st := applyStep t.cmp t.st s }).checkInv what

/-- merge all runs of recovery tables and compare with the unflushed data (sorted) -/
def sameEntries (c : Cmp) (a b : Run) : Bool :=
  let sa := a.mergeSort (fun x y => entryLt c x y || x == y)
  let sb := b.mergeSort (fun x y => entryLt c x y || x == y)
  sa == sb

def handleEdit (t : TS) (spec : String) (rc : String) : TS :=
  if rc != "rc=0" then t   -- a failed apply installs nothing
  else
  let t := { t with gcSinceIterClose := true }   -- every successful version install is followed by ldb_remove_obsolete_files
  match spec.splitOn ";" with
  | [ds, as] =>
    match parseList parseDel ds ",", parseList parseAdd as "," with
    | some dels, some adds =>
      match adds.mapM t.fileMeta with
      | none => t.problem "MISMATCH[other]" "edit adds a table whose contents were not dumped"
      | some metas =>
        let addsM := adds.zip metas
        if t.repairing then t    -- between a repair and the dump that follows, the model state is rebuilt from the dump
        else if !t.isOpen then
          -- recovery: logs replayed into level-0 tables; nothing may be lost or invented
          if !dels.isEmpty || adds.any (fun a => a.level != 0) then t.problem "MISMATCH[other]" "recovery edit deletes files or adds above level 0"
          else
            let unflushed := (t.st.imm.getD []) ++ t.st.mem
            let recovered := metas.flatMap (·.run)
            let t := if sameEntries t.cmp unflushed recovered || t.faultMode then t   -- under injected faults the structural state is not tracked; reads and the recovered dump judge
                     else t.problem "VIOLATION[recover]" s!"recovery tables hold [{showRunBrief recovered}] but the unflushed writes were [{showRunBrief unflushed}]"
            let t := { t with st := { t.st with mem := [], imm := none, snaps := [] }, nRecover := t.nRecover + 1 }
            let sorted := metas.mergeSort (fun a b => decide (a.num ≤ b.num))
            sorted.foldl (fun t f => t.doStep (.addL0 f) s!"recovery table {f.num}") t
        else if dels.isEmpty then
          match addsM with
          | [] => if t.st.imm == some [] then t.doStep .dropImm "drop empty imm" else t
          | [(a, f)] =>
            if t.st.imm.isSome then
              -- the level is the one pick_level_for_memtable_output chooses on this version (Model/Policy.lean), or 0 (a flush
              -- made inline by a running compaction, and every flush of recovery, goes to level 0)
              let t := match Policy.pickLevel t.cmp t.st.levels t.mfs f.sk f.lk with
                | some l =>
                  let t := { t with nPickLevel := t.nPickLevel + 1, nPickDeep := t.nPickDeep + (if a.level > 0 then 1 else 0) }
                  if a.level == l || a.level == 0 then t
                  else t.problem "MISMATCH[picklevel]" s!"flush of table {f.num} went to level {a.level}; pick_level_for_memtable_output yields {l} on this version"
                | none => t.problem "MISMATCH[picklevel]" "pick_level_for_memtable_output of the model faults"
              { (t.doStep (.flush a.level f) s!"flush of imm to level {a.level} as table {f.num}") with nFlush := t.nFlush + 1 }
            else t.problem "MISMATCH[other]" s!"edit adds table {f.num} with no deletion while no immutable memtable exists"
          | _ => t.problem "MISMATCH[other]" "edit adds several tables without deleting any"
        else
          let level := dels.foldl (fun m (l, _) => min m l) 7
          let in0 := (dels.filter (fun (l, _) => l == level)).map (·.2)
          let in1 := (dels.filter (fun (l, _) => l == level + 1)).map (·.2)
          if dels.any (fun (l, _) => l != level && l != level + 1) || adds.any (fun a => a.level != level + 1) then
            t.problem "MISMATCH[other]" "compaction edit touches levels other than L and L+1"
          else
            let trivial := metas.length == 1 && in0.length == 1 && in1.isEmpty && metas.all (fun f => in0.contains f.num)
            -- mechanism, not only contract: the tables a compaction wrote must hold exactly what the drop loop of
            -- Model/Compaction.lean yields from the model's copies of the input files (theorem
            -- Compaction.expectedOutput_meets_contract ties that function to clause (c) of stepOk)
            let t := match t.csnap with
              | none => t
              | some sm =>
                let t := { t with csnap := none }
                if trivial then t else
                let f0 := pickNums (t.st.level level) in0
                let f1 := pickNums (t.st.level (level + 1)) in1
                let exp := Compaction.expectedOutput t.cmp t.st level f0 f1 sm
                let got : Run := metas.flatMap (fun (f : FileMeta) => f.run)
                let nin := (f0 ++ f1).foldl (fun n (f : FileMeta) => n + f.run.length) 0
                let t := if sm ≤ smallestProtected t.st then t
                         else t.problem "MISMATCH[csnap]" s!"compaction L{level} worked with smallest snapshot {sm}, above a protected sequence ({smallestProtected t.st}): entries a live snapshot needs may be dropped"
                let t := { t with nDropLoop := t.nDropLoop + 1, nDropped := t.nDropped + (nin - got.length),
                                  nDropBase := t.nDropBase + ((f0 ++ f1).foldl (fun n (f : FileMeta) => n + (f.run.filter (fun (e : Entry) => e.kind == 0)).length) 0 - (got.filter (fun (e : Entry) => e.kind == 0)).length) }
                if exp == got then t
                else
                  let extra := got.filter (fun e => !exp.contains e)
                  let missing := exp.filter (fun e => !got.contains e)
                  t.problem "MISMATCH[droploop]" s!"compaction L{level} in0={in0} in1={in1} smallest={sm}: the output tables hold {got.length} entries, the drop loop of the model yields {exp.length}; kept but should be dropped: [{showRunBrief extra}]; dropped but should be kept: [{showRunBrief missing}]"
            -- the input sets are a fixed point of setup_other_inputs (Model/Policy.lean): the level-N inputs are closed under
            -- boundary files, the level-N+1 inputs are exactly the files overlapping their range plus boundary files
            -- (theorem Policy.setupOtherInputs_establishes_contract derives clauses (a), (a') of stepOk from that)
            let t :=
              let lv := t.st.level level
              let lv1 := t.st.level (level + 1)
              let f0 := pickNums lv in0
              let f1 := pickNums lv1 in1
              let same := fun (a b : List FileMeta) => a.all (fun x => b.any (fun y => y.num == x.num)) && b.all (fun x => a.any (fun y => y.num == x.num))
              if f0.isEmpty || level + 1 ≥ 7 then t else
              let t := { t with nInputs := t.nInputs + 1 }
              match Policy.setupStage1 t.cmp lv lv1 f0 with
              | none => t.problem "MISMATCH[inputs]" s!"compaction L{level} in0={in0} in1={in1}: setup_other_inputs of the model faults on these inputs"
              | some s =>
                if same s.in0 f0 && same s.in1 f1 then t
                else t.problem "MISMATCH[inputs]" s!"compaction L{level} in0={in0} in1={in1}: from these level-{level} inputs setup_other_inputs yields in0={s.in0.map (·.num)} in1={s.in1.map (·.num)} (boundary files / overlapping level-{level + 1} files differ)"
            let t := t.doStep (.compact level in0 in1 metas) s!"compaction L{level} in0={in0} in1={in1} outs={metas.map (·.num)}"
            if trivial then { t with nTrivial := t.nTrivial + 1 } else { t with nCompact := t.nCompact + 1 }
    | _, _ => t.problem "MISMATCH[other]" "unparsable edit"
  | _ => t.problem "MISMATCH[other]" "unparsable edit"

def handleVer (t : TS) (lastSeq nextFile logNum immFlag : String) (levels : String) : TS :=
  let t := { t with nVer := t.nVer + 1 }
  match lastSeq.toNat?, nextFile.toNat?, logNum.toNat? with
  | some ls, some nf, some ln =>
    let parsed := (levels.splitOn "|").map fun lv =>
      match lv.splitOn "=" with
      | [_, fs] => parseList parseVerFile fs ","
      | _ => none
    if parsed.any (·.isNone) || parsed.length != 7 then t.problem "MISMATCH[other]" "unparsable ver line"
    else if t.repairing && t.rfiles.isEmpty then t     -- layout right after a repair: rebuilt from the dump that follows
    else if t.repairing && !t.rfiles.isEmpty then
      -- after repair + reopen the model state is rebuilt from what the implementation reports; the property
      -- oracle compares it with everything that was on disk before
      let real := parsed.map (·.getD [])
      let levels : List (List FileMeta) := real.map fun files => files.filterMap fun (n, sz, sk, sp, lk, lp) =>
        (t.rfiles.find? (fun p => p.1 == n)).map fun (_, _, run) => ({ num := n, size := sz, sk := sk, sp := sp, lk := lk, lp := lp, run := run } : FileMeta)
      let st' : DbState := { mem := [], imm := none, levels := levels, lastSeq := ls, snaps := [], nextFile := nf }
      let after := allEntries st'
      -- the reopen may already have compacted the repaired level 0, so compare what a reader can see: the newest
      -- version of every key (entries shadowed by newer ones may legitimately be gone)
      let keys := userKeys t.cmp t.preRepair
      let lostE := (keys.filter (fun k => view t.cmp after k (2 ^ 62) != view t.cmp t.preRepair k (2 ^ 62))).filterMap
                     (fun k => newestVisible t.cmp t.preRepair k (2 ^ 62))
      let newE := after.filter (fun e => !t.preRepair.contains e)
      -- from here on the reference is what survived: the surviving entries, then the writes made after the repair
      let t := { t with st := st', repairing := false, logNum := ln, isOpen := true, history := after }
      let t := if lostE.isEmpty then t else t.problem "VIOLATION[repair]" s!"after repair the newest surviving version of some keys is not what the database shows: [{showRunBrief lostE}]"
      let t := if newE.isEmpty then t else t.problem "VIOLATION[repair]" s!"repair invented entries: [{showRunBrief newE}]"
      let maxSeq := after.foldl (fun m e => max m e.seq) 0
      let t := if ls ≥ maxSeq then t else t.problem "VIOLATION[repair]" s!"after repair the last sequence {ls} is below a sequence on disk {maxSeq}"
      let t := if (allFiles st').all (fun f => f.num < nf) then t else t.problem "VIOLATION[repair]" s!"after repair next_file_number {nf} is not above every table on disk"
      -- structural invariant of the repaired state: everything but level-0 recency must hold; recency failing is finding F3
      match invCheck t.cmp st' with
      | none => t
      | some "recency" => { t with repairedStale := true }
      | some clause => t.problem "VIOLATION[repair]" s!"repaired state violates the level invariant: {clause}"
    else
      let real := parsed.map (·.getD [])
      let model := t.st.levels.map fun files => files.map fun f => (f.num, f.size, f.sk, f.sp, f.lk, f.lp)
      let t := if real == model then t else t.problem "MISMATCH[layout]" s!"level layout differs: implementation {real.map (·.map (·.1))} model {model.map (·.map (·.1))}"
      let t := if ls == t.st.lastSeq then t else t.problem "MISMATCH[layout]" s!"last sequence {ls} vs model {t.st.lastSeq}"
      let t := if (immFlag == "1") == t.st.imm.isSome then t else t.problem "MISMATCH[layout]" s!"imm presence {immFlag} vs model {t.st.imm.isSome}"
      let t := { t with st := { t.st with nextFile := max t.st.nextFile nf }, logNum := ln }
      -- file-number allocator: everything live is below next_file_number
      if (allFiles t.st).all (fun f => f.num < nf) then t else t.problem "VIOLATION[files]" s!"a live table has a number >= next_file_number {nf}"
  | _, _, _ => t.problem "MISMATCH[other]" "unparsable ver line"

def isTable (n : String) : Option Nat :=
  if n.endsWith ".ldb" then (n.dropEnd 4).toString.toNat? else if n.endsWith ".sst" then (n.dropEnd 4).toString.toNat? else none
def isLog (n : String) : Option Nat := if n.endsWith ".log" then (n.dropEnd 4).toString.toNat? else none

def handleLs (t : TS) (names : String) : TS :=
  let t := { t with nLs := t.nLs + 1 }
  let ns := if names == "." then [] else names.splitOn ","
  if t.destroyed then
    -- destroy removes the database's own files and nothing else
    let t := { t with destroyed := false }
    let owned := ns.filter (fun n => (parseFileName n).isSome)
    let t := if owned.isEmpty then t else t.problem "VIOLATION[lifecycle]" s!"destroy left database files behind: {owned}"
    let gone := t.foreign.filter (fun n => !ns.contains n)
    if gone.isEmpty then t else t.problem "VIOLATION[lifecycle]" s!"destroy removed files that do not belong to the database: {gone}"
  else if !t.isOpen then t else
  -- the keep rules of ldb_remove_obsolete_files (Model/Files.lean) evaluated on the model state: at a quiescent
  -- point (no iterator, no compaction) the only live version is the current one and nothing is pending
  let gs : Files.GcState := { liveVersions := [(allFiles t.st).map (·.num)] ++ t.pinned.map (·.2), pending := [], logNumber := t.logNum, prevLogNumber := 0,
                              manifestNumber := t.manifestNum, nextFile := t.st.nextFile, bgError := false }
  let garbage := ns.filter (fun n => !Files.keep gs n)
  -- files of a version that was pinned by an iterator are collected by the next garbage collection after the iterator is gone
  let t := if garbage.isEmpty || !t.gcSinceIterClose then t
           else t.problem "VIOLATION[files]" s!"files that the keep rules would delete are still there at a quiescent point: {garbage} (live tables {(allFiles t.st).map (·.num)}, log number {t.logNum}, manifest {t.manifestNum})"
  let tables := ns.filterMap isTable
  let live := (allFiles t.st).map (·.num) ++ (t.pinned.flatMap (·.2))
  let t := if live.all (fun n => tables.contains n) then t
           else t.problem "VIOLATION[files]" s!"live table files missing from the directory: {live.filter (fun n => !tables.contains n)}"
  let logs := ns.filterMap isLog
  let t := if logs.length ≤ 1 || t.st.imm.isSome then t else t.problem "VIOLATION[files]" s!"more than one log at a quiescent point: {logs}"
  let manifests := ns.filter (fun n => n.startsWith "MANIFEST-")
  let t := if manifests.length == 1 then t else t.problem "VIOLATION[files]" s!"expected exactly one MANIFEST, found {manifests}"
  if ns.contains "CURRENT" then t else t.problem "VIOLATION[files]" "CURRENT is missing"

def lastView (c : Cmp) (es : List Entry) (k : Bytes) : Option String := view c es k (2 ^ 62)

/-- oracle for one reopened crash image (C02/C03/C05): see DESIGN.md section 7 -/
def crashCheck (t : TS) (n v : Nat) (rc : String) (recLog : Int) (run : Run) : TS :=
  let t := { t with nCrash := t.nCrash + 1 }
  -- variant 5 (zero block in the middle of a log) is damage outside the crash model of C02/C05: refusing to open is allowed
  -- (it is what paranoid_checks asks for); what is judged is that nothing invented or partial comes back when it does open
  if rc != "rc=0" && v == 5 then { t with lastCrash := none, pendingNested := [] } else
  if rc != "rc=0" then t.problem "VIOLATION[crashopen]" s!"reopening crash image n={n} variant={v} failed: {rc}" else
  let begun := t.batches.filter (fun b => b.jBegin < n)
  let acked := begun.filter (fun b => b.jAck < n)
  let unlinked := (t.logUnlinks.filter (fun p => p.1 < n)).map (·.2)
  let required := if v == 0 then acked else acked.filter (fun b => b.sync || unlinked.contains b.log)
  let hEntries := begun.flatMap (·.entries)
  -- (2) nothing invented
  let invented := run.filter (fun e => !hEntries.contains e)
  let t := if invented.isEmpty then t else t.problem "VIOLATION[crashinvented]" s!"crash image n={n} variant={v}: recovered entries that were never written: [{showRunBrief invented}]"
  -- per log: the last batch that left a trace in the recovered database
  let pOf := fun (l : Nat) => (begun.filter (fun b => !b.failed && b.log == l && b.entries.any (fun e => run.contains e))).foldl (fun m b => max m b.seq0) 0
  -- a write that returned an error may or may not have reached the log: it counts as present iff it left a trace
  -- variant 5 (a zero block inside the unsynced part of a log): what survives is no longer a prefix of the log, so a batch
  -- counts as present iff it left a trace; the atomicity clause below makes sure it is then there as a whole
  -- the recovered database may already have compacted (a background compaction can run between the reopen and the dump, and
  -- without snapshots it drops every shadowed entry): an entry also counts as there when a recovered entry of the same key
  -- with a higher sequence shadows it, or when it is a deletion marker with nothing older left below it -- in both cases no
  -- read can tell the difference, and (3) below still compares every key's answer
  let covered := fun (e : Entry) => run.contains e || run.any (fun r => r.ukey == e.ukey && r.seq > e.seq)
                                    || (e.kind == 0 && !run.any (fun r => r.ukey == e.ukey && r.seq < e.seq))
  let inS := fun (b : BatchRec) => if b.failed || v == 5 then b.entries.any (fun e => run.contains e) || (v == 5 && decide ((b.log : Int) < recLog))
                                   else decide ((b.log : Int) < recLog) || b.seq0 ≤ pOf b.log || b.entries.all covered
  let sEntries := (begun.filter inS).flatMap (·.entries)
  -- (4) everything required survived
  let lost := required.filter (fun b => !inS b)
  let t := if lost.isEmpty then t
           else t.problem (if v == 0 then "VIOLATION[crashkill]" else "VIOLATION[crashsync]") s!"crash image n={n} variant={v}: acknowledged batches missing after recovery (first sequence numbers {lost.map (·.seq0)}, recovered log number {recLog})"
  -- (5) all-or-nothing per batch: an entry of a batch is back while another entry of the same batch is gone, although no later
  --     write to that key exists that could have shadowed it (a shadowed entry, or a tombstone with nothing below it, may legitimately
  --     have been compacted away)
  let torn := begun.filter fun b =>
    b.entries.any (fun e => run.contains e) &&
    b.entries.any (fun e => e.kind != 0 && !run.contains e && !hEntries.any (fun x => x.ukey == e.ukey && x.seq > e.seq))
  let t := if torn.isEmpty then t
           else t.problem "VIOLATION[batchatomic]" s!"crash image n={n} variant={v}: the batch starting at sequence {(torn.map (·.seq0)).headD 0} was recovered in part"
  -- (3) the recovered contents are those of a per-log prefix of what was written
  let keys := userKeys t.cmp hEntries
  let bad := keys.filter (fun k => lastView t.cmp run k != lastView t.cmp sEntries k)
  let t := if bad.isEmpty then t
           else t.problem "VIOLATION[crashview]" s!"crash image n={n} variant={v}: for key {hexOfBytes (bad.headD [])} the recovered database answers {lastView t.cmp run (bad.headD [])} but the surviving writes dictate {lastView t.cmp sEntries (bad.headD [])}"
  let mine := t.pendingNested.filter (fun p => p.1 == n && p.2.1 == v)
  let t := mine.foldl (fun t (_, _, where_, r2) =>
    let inv2 := r2.filter (fun e => !hEntries.contains e)
    let t := if inv2.isEmpty then t else t.problem "VIOLATION[crashnested]" s!"second crash (recovery step/variant {where_}) inside the recovery of crash image n={n} variant={v}: entries that were never written: [{showRunBrief inv2}]"
    let bad2 := keys.filter (fun k => lastView t.cmp r2 k != lastView t.cmp run k)
    if bad2.isEmpty then t
    else t.problem "VIOLATION[crashnested]" s!"second crash (recovery step/variant {where_}) inside the recovery of crash image n={n} variant={v}: key {hexOfBytes (bad2.headD [])} reads {lastView t.cmp r2 (bad2.headD [])}, the undisturbed recovery of the same image gives {lastView t.cmp run (bad2.headD [])} (something more was lost)") t
  { t with lastCrash := some (n, v, run), pendingNested := [], nCrashNontrivial := t.nCrashNontrivial + (if run.isEmpty then 0 else 1) }

def followKey (k : Nat) : Bytes := ("zz-follow-" ++ toString k).toUTF8.toList

def crash2Check (t : TS) (n v : Nat) (rc wrc : String) (seq0 : Nat) (run : Run) : TS :=
  let t := { t with nCrash2 := t.nCrash2 + 1 }
  if rc != "rc=0" then t.problem "VIOLATION[crashopen]" s!"second reopen after follow-up writes on crash image n={n} variant={v} failed: {rc}" else
  if wrc != "wrc=0" then t.problem "VIOLATION[crashfollow]" s!"a write after recovering crash image n={n} variant={v} failed: {wrc}" else
  match t.lastCrash with
  | some (n', v', r1) =>
    if n' != n || v' != v then t.problem "MISMATCH[other]" "crash2 without matching crash" else
    let maxOld := r1.foldl (fun m e => max m e.seq) 0
    let t := if seq0 > maxOld then t else t.problem "VIOLATION[crashfollow]" s!"after recovering crash image n={n} variant={v} new writes got sequence {seq0}, not above the recovered maximum {maxOld}"
    let badFollow := (List.range 3).filter fun k => lastView t.cmp run (followKey k) != some s!"{hexOfBytes (s!"f{n}-{v}-{k}").toUTF8.toList}"
    let t := if badFollow.isEmpty then t else t.problem "VIOLATION[crashfollow]" s!"crash image n={n} variant={v}: follow-up writes {badFollow} made after recovery are not there after the next reopen"
    let badOver := (t.lastOver.zipIdx).filter fun (k, j) => lastView t.cmp run k != some s!"{hexOfBytes (s!"o{n}-{v}-{j}").toUTF8.toList}"
    let t := if badOver.isEmpty then t
             else t.problem "VIOLATION[crashfollow]" s!"crash image n={n} variant={v}: key {hexOfBytes ((badOver.headD ([], 0)).1)} was overwritten after recovery, but after the next reopen it reads {lastView t.cmp run (badOver.headD ([], 0)).1} (recovered data took precedence over a later write)"
    let keys := userKeys t.cmp r1
    let bad := keys.filter (fun k => !(k.take 10 == "zz-follow-".toUTF8.toList) && !t.lastOver.contains k && lastView t.cmp run k != lastView t.cmp r1 k)
    if bad.isEmpty then t else t.problem "VIOLATION[crashfollow]" s!"crash image n={n} variant={v}: key {hexOfBytes (bad.headD [])} changed across the second reopen"
  | none => t.problem "MISMATCH[other]" "crash2 without crash"

def parseIterOp (op : String) : Option IterOp :=
  match op.splitOn ":" with
  | ["F"] => some .first
  | ["L"] => some .last
  | ["N"] => some .next
  | ["P"] => some .prev
  | ["S", k] => (parseBytes k).map .seek
  | ["GE", k] => (parseBytes k).map .seekGe
  | ["GT", k] => (parseBytes k).map .seekGt
  | ["LE", k] => (parseBytes k).map .seekLe
  | ["LT", k] => (parseBytes k).map .seekLt
  | _ => none

def handleIt (t : TS) (seq op valid key val status : String) : TS :=
  match seq.toNat? with
  | some s =>
    let t := { t with nIter := t.nIter + 1 }
    -- the model iterator is created at the first op of an `iter` command (F/L/seek all reposition from scratch)
    let entries := allEntries t.st
    let vis := visibleMap t.cmp entries s
    let c0 : DbIterState := match t.iter with | some (s', c) => if s' == s then c else .invalid | none => .invalid
    match (parseIterOp op).map (mapCursorStep t.cmp vis c0) with
    | none => t.problem "MISMATCH[other]" s!"unparsable iterator op {op}"
    | some c1 =>
      let exp := match mapCursorGet vis c1 with
        | some (k, v) => s!"1 {hexOfBytes k} {v}"
        | none => "0 - -"
      let got := s!"{valid} {key} {val}"
      let t := { t with iter := some (s, c1) }
      if t.faultMode && status != "0" then { t with iter := some (s, c1) } else
      let t := if status == "0" then t else t.problem "VIOLATION[iter]" s!"iterator status {status} after {op}"
      if got == exp then t else t.problem (if s < t.st.lastSeq then "VIOLATION[snapiter]" else "VIOLATION[iter]") s!"iterator at sequence {s} after {op}: implementation ({got}), a sorted map of the visible entries dictates ({exp})"
  | none => t.problem "MISMATCH[other]" "unparsable it line"


/-- every value ever written to `k` (any version) -/
def everWritten (c : Cmp) (hist : List Entry) (k : Bytes) : List String :=
  (hist.filter (fun e => c.compare e.ukey k == .eq && e.kind == 1)).map (·.val)

/-- lines while a damaged copy of the database is being read (C11): with table damage (strict) every answer is the
    correct one or an error; with log / MANIFEST / CURRENT damage (weak) records may be lost or the open may fail, but no
    value that was never written may appear -/
def handleCorruptLine (t : TS) (fields : List String) : TS :=
  let strict := t.corruptMode == some "table"
  match fields with
  | ["get", key, _seq, res] =>
    match parseBytes key with
    | some k =>
      let t := { t with nCorruptReads := t.nCorruptReads + 1 }
      if res.startsWith "err:" then { t with nCorruptErrors := t.nCorruptErrors + 1 } else
      let show_ := fun (o : Option String) => match o with | some v => v | none => "notfound"
      let o := show_ (view t.cmp t.history k (2 ^ 62))
      if strict then
        (if res == o then t else t.problem "VIOLATION[corrupt]" s!"damaged table file: get {key} returned {res} without an error; the correct answer is {o}")
      else
        (if res == "notfound" || (everWritten t.cmp t.history k).contains res then t
         else t.problem "VIOLATION[corrupt]" s!"damaged {t.corruptMode.getD "?"} file: get {key} returned {res}, a value that was never written to that key")
    | none => t.problem "MISMATCH[other]" "unparsable get"
  | ["scan", dirn, items, status] =>
    let t := { t with nCorruptReads := t.nCorruptReads + 1 }
    let pairs := if items == "." then [] else (items.splitOn ",").filterMap fun it => match it.splitOn "=" with
      | [k, v] => (parseBytes k).map (fun kb => (kb, v))
      | _ => none
    if status != "status=0" then { t with nCorruptErrors := t.nCorruptErrors + 1 } else
    let vis := visibleMap t.cmp t.history (2 ^ 62)
    let expected := if dirn == "bwd" then vis.reverse else vis
    if strict then
      (if pairs == expected then t
       else t.problem "VIOLATION[corrupt]" s!"damaged table file: a {dirn} scan finished with OK status but returned {pairs.length} entries; the database holds {expected.length} live keys (first difference near {hexOfBytes ((pairs.zip expected).find? (fun (a, b) => a != b) |>.map (·.2.1) |>.getD [])})")
    else
      let bad := pairs.filter (fun (k, v) => !(everWritten t.cmp t.history k).contains v)
      (if bad.isEmpty then t else t.problem "VIOLATION[corrupt]" s!"damaged {t.corruptMode.getD "?"} file: a scan returned a value that was never written for key {hexOfBytes (bad.headD ([], "")).1}")
  | "open" :: rc :: _ => { t with isOpen := rc == "0" }
  | ["close"] => { t with isOpen := false }
  | "err" :: rest => t.problem "MISMATCH[other]" ("harness error: " ++ " ".intercalate rest)
  | _ => t     -- version dumps, edits, table dumps of the damaged copy are not compared with the model

def handleLine (t : TS) (line : String) : TS :=
  let t := { t with lineNo := t.lineNo + 1 }
  let fields := line.trimAscii.toString.splitOn " "
  let t := match fields with
    | "j" :: idx :: rest =>
      let t := if t.inFailedOpen then
          (match rest with
           | "mark" :: "open-end" :: _ => { t with inFailedOpen := false }
           | kind :: name :: _ =>
             let owned := match parseFileName name with
               | some (.log, _) | some (.table, _) | some (.desc, _) | some (.current, _) | some (.temp, _) => true
               | _ => false
             if owned && (kind == "write" || kind == "unlink" || kind == "rename" || (kind == "create" && rest.getD 2 "" == "1")) then
               t.problem "VIOLATION[lifecycle]" s!"an open that was refused modified the database: {kind} {name}"
             else t
           | _ => t)
        else t
      if t.faultMode then t else { t with io := t.io.line idx rest }
    | _ => t
  if t.corruptMode.isSome && (match fields with | "corrupt" :: _ => false | _ => true) then handleCorruptLine t fields else
  match fields with
  | "corrupt" :: cls :: _ => { t with corruptMode := some cls, isOpen := false, nCorrupt := t.nCorrupt + 1, iter := none }
  | "closed" :: _ => t
  | ["verify", _] => t
  | ["open", rc, c] =>
    if rc != "0" then
      (if t.expectFail then { t with expectFail := false, inFailedOpen := true, nLifecycle := t.nLifecycle + 1 }
       else if t.faultMode && t.faultArmed then { t with isOpen := false, nFailedOpens := t.nFailedOpens + 1 }   -- an open may fail while I/O errors are being injected
       else if t.faultMode then t.problem "VIOLATION[faultreopen]" s!"after the injected I/O error was gone the database could not be opened: rc={rc}"
       else t.problem "VIOLATION[reopen]" s!"a database that was closed{if t.repairing then " and repaired" else ""} without any fault or damage could not be opened again: rc={rc}")
    else
      let t := if t.expectFail then t.problem "VIOLATION[lifecycle]" "an open that must be refused (wrong comparator) succeeded" else t
      let t := { t with expectFail := false }
      let cmp := if c == "cmp=rev" then Cmp.reverse else if c == "cmp=len" then Cmp.lenFirst else Cmp.bytewise
      -- a reopen with nothing replayed still empties the (already empty) memtables
      let st := if t.repairing then { t.st with snaps := [], mem := [], imm := none } else { t.st with snaps := [] }
      { t with cmp := cmp, isOpen := true, everOpened := true, justOpened := true, gcSinceIterClose := true, longIters := [], pinned := [], st := st }
  | ["close"] => { t with isOpen := false, iter := none }
  | ["switch"] => t.doStep .switchMem "memtable switch"
  | ["w", ops] =>
    match parseList parseWOp ops "," with
    | some os =>
      let base := t.st.lastSeq
      let hist := os.zipIdx.map fun (o, i) => ({ ukey := o.ukey, seq := base + 1 + i, kind := o.kind, val := o.val } : Entry)
      let t := t.doStep (.write os) "write"
      { t with history := t.history ++ hist, nWrites := t.nWrites + 1, lastW := os }
    | none => t.problem "MISMATCH[other]" "unparsable write"
  | ["werr", rc] => if t.faultMode then { t with nWerr := t.nWerr + 1 } else t.problem "MISMATCH[other]" s!"write failed rc={rc}"
  | ["repair", _variant, rc] =>
    let t := { t with nRepairs := t.nRepairs + 1, repairing := true, preRepair := allEntries t.st, rfiles := [] }
    if rc == "0" then t else t.problem "VIOLATION[repair]" s!"ldb_repair failed rc={rc}"
  | ["rfile", num, size, entries] =>
    match num.toNat?, size.toNat?, parseEntries entries with
    | some n, some sz, some run => { t with rfiles := (n, sz, run) :: t.rfiles, files := (n, sz, run) :: t.files.filter (fun p => p.1 != n) }
    | _, _, _ => t.problem "MISMATCH[other]" "unparsable rfile dump"
  | ["repaired-state"] => t    -- the `ver` line that follows rebuilds the model state
  | ["expectfail"] => { t with expectFail := true }
  | ["open2", rc] =>
    let t := { t with nLifecycle := t.nLifecycle + 1 }
    if t.isOpen && rc == "0" then t.problem "VIOLATION[lifecycle]" "the database directory was opened a second time while a handle is open"
    else if !t.isOpen && rc != "0" then t.problem "VIOLATION[lifecycle]" s!"open after close failed rc={rc} (lock not released?)"
    else t
  | ["lockprobe", x] =>
    let t := { t with nLifecycle := t.nLifecycle + 1 }
    if t.isOpen && x == "0" then t.problem "VIOLATION[lifecycle]" "another process could open the database while this process holds it open (the advisory lock is not held)"
    else if !t.isOpen && t.everOpened && x != "0" then t.problem "VIOLATION[lifecycle]" "another process cannot open the database after it was closed (lock not released)"
    else t
  | ["backup", rc, name] =>
    let t := { t with nLifecycle := t.nLifecycle + 1 }
    if (t.backups.any (fun p => p.1 == name)) then
      -- the destination exists already (an earlier backup): a refusal is fine, and the earlier backup must stay as it was
      -- (the `bcheck` that follows compares it with what it held); a success replaces it
      if rc != "0" then t else { t with backups := (name, allEntries t.st) :: t.backups.filter (fun p => p.1 != name) }
    else if rc != "0" then t.problem "VIOLATION[lifecycle]" s!"backup failed rc={rc}"
    else { t with backups := (name, allEntries t.st) :: t.backups.filter (fun p => p.1 != name) }
  | ["backup", rc, _, "self"] =>
    -- backup onto the database's own directory: must be refused; the reads, the close and the reopen that follow show
    -- whether the source is still intact
    let t := { t with nLifecycle := t.nLifecycle + 1 }
    if rc == "0" then t.problem "VIOLATION[lifecycle]" "a backup of the database onto its own directory was reported as successful" else t
  | ["copy", rc, name] =>
    let t := { t with nLifecycle := t.nLifecycle + 1 }
    if rc != "0" then t.problem "VIOLATION[lifecycle]" s!"copy failed rc={rc}"
    else { t with backups := (name, allEntries t.st) :: t.backups.filter (fun p => p.1 != name) }
  | ["bcheck", name, rc, entries] =>
    let t := { t with nLifecycle := t.nLifecycle + 1 }
    match t.backups.find? (fun p => p.1 == name), parseEntries entries with
    | some (_, src), some run =>
      if rc != "rc=0" then t.problem "VIOLATION[lifecycle]" s!"backup {name} cannot be opened: {rc}"
      else
        let keys := userKeys t.cmp (src ++ run)
        let bad := keys.filter (fun k => lastView t.cmp run k != lastView t.cmp src k)
        let invented := run.filter (fun e => !t.history.contains e)
        let t := if invented.isEmpty then t else t.problem "VIOLATION[lifecycle]" s!"backup {name} holds entries that were never written: [{showRunBrief invented}]"
        if bad.isEmpty then t else t.problem "VIOLATION[lifecycle]" s!"backup {name}: key {hexOfBytes (bad.headD [])} reads {lastView t.cmp run (bad.headD [])}, the source had {lastView t.cmp src (bad.headD [])} when the backup was taken"
    | _, _ => t.problem "MISMATCH[other]" s!"bcheck of unknown backup {name}"
  | ["foreign", name] => { t with foreign := name :: t.foreign }
  | ["destroy", rc] =>
    let t := { t with nLifecycle := t.nLifecycle + 1, st := ({} : TS).st, history := [], files := [], batches := [], everOpened := false, isOpen := false, logNum := 0 }
    if rc == "0" then { t with destroyed := true } else t.problem "VIOLATION[lifecycle]" s!"destroy failed rc={rc}"
  | ["faultmode"] => { t with faultMode := true }
  | ["loosemode", x] => { t with looseMode := x == "1" }
  | ["seq0", n] =>
    match n.toNat? with
    | some s0 =>
      if s0 == t.st.lastSeq + 1 then t
      else if t.faultMode && s0 > t.st.lastSeq + 1 then { t with st := { t.st with lastSeq := s0 - 1 } }   -- sequence numbers consumed by a failed write
      else t.problem "MISMATCH[other]" s!"write starts at sequence {s0}, model expects {t.st.lastSeq + 1}"
    | none => t.problem "MISMATCH[other]" "unparsable seq0"
  | ["wf", ops] => match parseList parseWOp ops "," with
    | some os => { t with lastWF := os }
    | none => t.problem "MISMATCH[other]" "unparsable failed write"
  | ["operr", op, rc] => if t.faultMode then t else t.problem "MISMATCH[other]" s!"{op} failed rc={rc}"
  | ["recovered", lastSeq, entries] =>
    -- fault-injection runs: everything a reopen recovered.  A write that returned an error may or may not have reached
    -- the log; if any of it is back, the batch counts as written from now on (and it has to be back as a whole)
    match parseEntries entries with
    | some run =>
      let back := t.batches.filter (fun b => b.failed && b.entries.any (fun e => run.contains e) && !b.entries.all (fun e => t.history.contains e))
      let torn := back.filter (fun b => !b.entries.all (fun e => run.contains e || (run.any fun r => r.ukey == e.ukey && r.seq > e.seq)))
      let t := if torn.isEmpty then t
               else t.problem "VIOLATION[batchatomic]" s!"a batch whose write returned an error was recovered in part after a reopen (first sequence number {(torn.map (·.seq0)).headD 0})"
      -- sequence numbers consumed by writes that failed without reaching the log are handed out again after a reopen
      let ls := (lastSeq.toNat?).getD t.st.lastSeq
      { t with history := t.history ++ (back.flatMap (·.entries)).filter (fun e => !t.history.contains e), st := { t.st with lastSeq := ls } }
    | none => t.problem "MISMATCH[other]" "unparsable recovered dump"
  | ["fault-armed", k] => { t with faultArmed := k != "-1" }
  | ["ensureopen", "noop"] => t
  | "faultstat" :: _ => t
  | ["file", num, size, entries] =>
    match num.toNat?, size.toNat?, parseEntries entries with
    | some n, some sz, some run => { t with files := (n, sz, run) :: t.files }
    | _, _, _ => t.problem "MISMATCH[other]" "unparsable file dump"
  | ["csnap", n] => { t with csnap := n.toNat? }
  | ["opts", m] => { t with mfs := ((m.drop 4).toString.toNat?).getD t.mfs }
  | ["edit", spec, rc] => { (handleEdit t spec rc) with csnap := none }
  | ["ver", ls, nf, ln, immf, levels] => handleVer t ls nf ln immf levels
  | ["ver", ls, nf, ln, immf, levels, m] => { (handleVer t ls nf ln immf levels) with manifestNum := ((m.drop 2).toString.toNat?).getD 0 }
  | ["mem", entries] =>
    match parseEntries entries with
    | some run =>
      let jo := t.justOpened
      let t := { t with justOpened := false }
      if run == t.st.mem then t
      else if jo && t.faultMode then t
      else if jo then t.problem "VIOLATION[recover]" s!"after reopening, the memtable holds [{showRunBrief run}] but the writes not yet in tables were [{showRunBrief t.st.mem}]"
      else t.problem "MISMATCH[mem]" s!"memtable contents differ: implementation [{showRunBrief run}] model [{showRunBrief t.st.mem}]"
    | none => t.problem "MISMATCH[other]" "unparsable mem dump"
  | ["imm", entries] =>
    if entries == "none" then (if t.st.imm.isNone then t else t.problem "MISMATCH[mem]" "implementation has no imm, model has")
    else match parseEntries entries with
      | some run => if some run == t.st.imm then t else t.problem "MISMATCH[mem]" "immutable memtable contents differ"
      | none => t.problem "MISMATCH[other]" "unparsable imm dump"
  | ["get", key, seq, res] =>
    match parseBytes key, seq.toNat? with
    | some k, some s =>
      let t := { t with nGets := t.nGets + 1 }
      let show_ := fun (o : Option String) => match o with | some v => v | none => "notfound"
      let m := show_ (get t.cmp t.st k s)
      let o := show_ (view t.cmp t.history k (if s == t.st.lastSeq then 2 ^ 62 else s))
      if t.faultMode && res.startsWith "err:" then t else
      let t := if res == o then t
               else if t.repairedStale && res == m then
                 { t with known := if t.known.contains "F3" then t.known else t.known ++ ["F3"] }
               else t.problem (if s < t.st.lastSeq then "VIOLATION[snapget]" else "VIOLATION[get]") s!"get {key} at sequence {s} returned {res}; the latest write visible at that sequence is {o}"
      if res == m then t else t.problem "MISMATCH[get]" s!"get {key} at sequence {s}: implementation {res}, model lookup {m}"
    | _, _ => t.problem "MISMATCH[other]" "unparsable get"
  | ["snap", _, seq] =>
    match seq.toNat? with
    | some s => let t := if s == t.st.lastSeq then t else t.problem "MISMATCH[other]" s!"snapshot sequence {s} vs model last sequence {t.st.lastSeq}"
                { t with st := { t.st with snaps := t.st.snaps ++ [s] } }
    | none => t.problem "MISMATCH[other]" "unparsable snap"
  | ["rel", _, seq] =>
    match seq.toNat? with
    | some s => t.doStep (.release s) "release snapshot"
    | none => t.problem "MISMATCH[other]" "unparsable rel"
  | ["ls", names] => handleLs t names
  | ["iopen", id, seq] =>
    match id.toNat?, seq.toNat? with
    | some i, some s =>
      -- the iterator pins the memtables and the version current at its creation: its view is fixed now
      let vis := visibleMap t.cmp (allEntries t.st) s
      { t with longIters := (i, s, vis, .invalid) :: t.longIters.filter (fun p => p.1 != i),
               pinned := (i, (allFiles t.st).map (·.num)) :: t.pinned.filter (fun p => p.1 != i) }
    | _, _ => t.problem "MISMATCH[other]" "unparsable iopen"
  | ["iclose", id] => { t with longIters := t.longIters.filter (fun p => some p.1 != id.toNat?), pinned := t.pinned.filter (fun p => some p.1 != id.toNat?), gcSinceIterClose := false }
  | [tag, _seq, _op, "->", "skip"] => if tag.startsWith "it" then t else t.problem "MISMATCH[other]" s!"unknown transcript line: {line.take 80}"
  | [tag, seq, op, "->", valid, key, val, status] =>
    if !tag.startsWith "it@" then
      (if tag == "it" then handleIt t seq op valid key val status else t.problem "MISMATCH[other]" s!"unknown transcript line: {line.take 80}")
    else
    match (tag.drop 3).toString.toNat?, seq.toNat? with
    | some id, some s =>
      match t.longIters.find? (fun p => p.1 == id) with
      | some (_, s', vis, c0) =>
        let t := { t with nIter := t.nIter + 1, nLongIterOps := t.nLongIterOps + 1 }
        match (parseIterOp op).map (mapCursorStep t.cmp vis c0) with
        | none => t.problem "MISMATCH[other]" s!"unparsable iterator op {op}"
        | some c1 =>
          let exp := match mapCursorGet vis c1 with
            | some (k, v) => s!"1 {hexOfBytes k} {v}"
            | none => "0 - -"
          let got := s!"{valid} {key} {val}"
          let t := { t with longIters := (id, s', vis, c1) :: t.longIters.filter (fun p => p.1 != id) }
          let t := if s == s' then t else t.problem "MISMATCH[other]" "iterator sequence changed"
          if t.faultMode && status != "0" then t else
          let t := if status == "0" then t else t.problem "VIOLATION[liveiter]" s!"long-lived iterator {id} reports status {status} after {op} (later writes / compactions / file deletions must not disturb it)"
          if got == exp then t else t.problem "VIOLATION[liveiter]" s!"long-lived iterator {id} (view fixed at sequence {s'}) after {op}: implementation ({got}), the view fixed at its creation dictates ({exp})"
      | none => t.problem "MISMATCH[other]" s!"iterator {id} not open"
    | _, _ => t.problem "MISMATCH[other]" "unparsable it@ line"
  | "j" :: idx :: "mark" :: "wbegin" :: _ => { t with lastBegin := idx.toNat?.getD 0, nJ := t.nJ + 1 }
  | ["j", idx, "mark", "wack", seq0, cnt, log, sync] =>
    match idx.toNat?, seq0.toNat?, cnt.toNat?, log.toNat? with
    | some i, some s0, some c, some l =>
      let es := t.lastW.zipIdx.map fun (o, k) => ({ ukey := o.ukey, seq := s0 + k, kind := o.kind, val := o.val } : Entry)
      let t := if s0 + c == t.st.lastSeq + 1 && c == t.lastW.length then t
               else t.problem "MISMATCH[other]" s!"wack {s0}+{c} does not match the model's last sequence {t.st.lastSeq}"
      { t with batches := t.batches ++ [{ seq0 := s0, count := c, log := l, sync := sync == "1", jBegin := t.lastBegin, jAck := i, entries := es }], nJ := t.nJ + 1 }
    | _, _, _, _ => t.problem "MISMATCH[other]" "unparsable wack"
  | ["j", idx, "mark", "wfail", seq0, cnt, _rc] =>
    match idx.toNat?, seq0.toNat?, cnt.toNat? with
    | some i, some s0, some c =>
      let _ := c
      let es := t.lastWF.zipIdx.map fun (o, k) => ({ ukey := o.ukey, seq := s0 + k, kind := o.kind, val := o.val } : Entry)
      { t with batches := t.batches ++ [{ seq0 := s0, count := c, log := 0, sync := false, jBegin := t.lastBegin, jAck := 1000000000 + i, entries := es, failed := true }],
               nJ := t.nJ + 1, nFailedBatches := t.nFailedBatches + 1 }
    | _, _, _ => t.problem "MISMATCH[other]" "unparsable wfail"
  | ["j", idx, "unlink", name] =>
    match idx.toNat?, isLog name with
    | some i, some l => { t with logUnlinks := t.logUnlinks ++ [(i, l)], nJ := t.nJ + 1 }
    | _, _ => { t with nJ := t.nJ + 1 }
  | "j" :: _ => { t with nJ := t.nJ + 1 }
  | ["crash", n, v, rc] =>
    -- the image could not be opened (see crashCheck for variant 5)
    if v == "5" then { t with nCrash := t.nCrash + 1, lastCrash := none, pendingNested := [] }
    else { (t.problem "VIOLATION[crashopen]" s!"reopening crash image n={n} variant={v} failed: {rc}") with nCrash := t.nCrash + 1 }
  | ["crash", n, v, rc, reclog, _lastseq, entries] =>
    match n.toNat?, v.toNat?, (reclog.drop 7).toString.toInt?, parseEntries entries with
    | some n, some v, some rl, some run => { (crashCheck t n v rc rl run) with lastOver := [] }
    | _, _, _, _ => t.problem "MISMATCH[other]" s!"unparsable crash line {n} {v}"
  | ["crash", n, v, rc, reclog, _lastseq, entries, over] =>
    match n.toNat?, v.toNat?, (reclog.drop 7).toString.toInt?, parseEntries entries with
    | some n, some v, some rl, some run =>
      let ov := if over == "over=." then [] else ((over.drop 5).toString.splitOn ",").filterMap parseBytes
      { (crashCheck t n v rc rl run) with lastOver := ov }
    | _, _, _, _ => t.problem "MISMATCH[other]" s!"unparsable crash line {n} {v}"
  | ["recnext", n, v, next, mx, name] =>
    let nx := ((next.drop 5).toString.toNat?).getD 0
    let m := ((mx.drop 4).toString.toNat?).getD 0
    if nx > m then t
    else t.problem "VIOLATION[recoverynumbers]" s!"after recovering crash image n={n} variant={v} the next file number is {nx}, not above {(name.drop 5).toString} which exists in the directory: that number will be handed out again and the file re-created"
  | ["recnums", n, v, have_, created] =>
    let nums := fun (x : String) => let y := (x.splitOn "=").getD 1 "."; if y == "." then [] else (y.splitOn ",").filterMap (·.toNat?)
    let hv := nums have_
    let cr := nums created
    let bad := cr.filter (fun c => hv.any (fun h => h ≥ c))
    if bad.isEmpty then t
    else t.problem "VIOLATION[recoverynumbers]" s!"recovering crash image n={n} variant={v}: a new log {bad} was created although logs {hv} were on disk -- the file-number counter did not move past what recovery found (an older log would be replayed after newer data, or truncated before its contents are committed)"
  | ["crashn", n, v, m, v2, rc] => let _ := (m, v2); { (t.problem "VIOLATION[crashnested]" s!"reopening after a second crash inside the recovery of crash image n={n} variant={v} failed: {rc}") with nCrashN := t.nCrashN + 1 }
  | ["crashn", n, v, m, v2, rc, _reclog, _lastseq, entries] =>
    -- a second crash, inside the recovery of crash image (n, v): judged when the `crash n v` line (what the undisturbed
    -- recovery of that image yields) arrives -- the nested recovery must lose nothing further
    match n.toNat?, v.toNat?, parseEntries entries with
    | some n', some v', some run =>
      if rc != "rc=0" then { (t.problem "VIOLATION[crashnested]" s!"reopening after a second crash (recovery step {m}, variant {v2}) inside the recovery of crash image n={n} variant={v} failed: {rc}") with nCrashN := t.nCrashN + 1 }
      else { t with pendingNested := t.pendingNested ++ [(n', v', s!"{m}/{v2}", run)], nCrashN := t.nCrashN + 1 }
    | _, _, _ => t.problem "MISMATCH[other]" s!"unparsable crashn line {n} {v}"
  | ["crash2", n, v, rc, wrc, seq0, _lastseq, entries] =>
    match n.toNat?, v.toNat?, (seq0.drop 5).toString.toNat?, parseEntries entries with
    | some n, some v, some s0, some run => crash2Check t n v rc wrc s0 run
    | _, _, _, _ => t.problem "MISMATCH[other]" s!"unparsable crash2 line {n} {v}"
  | "crash2" :: n :: v :: rc :: _ => { (t.problem "VIOLATION[crashopen]" s!"second reopen after follow-up writes on crash image n={n} variant={v} failed: {rc}") with nCrash2 := t.nCrash2 + 1 }
  | "err" :: rest => t.problem "MISMATCH[other]" ("harness error: " ++ " ".intercalate rest)
  | [""] => t
  | _ => t.problem "MISMATCH[other]" s!"unknown transcript line: {line.take 80}"

partial def loop (h : IO.FS.Stream) (t : TS) : IO TS := do
  let line ← h.getLine
  if line.isEmpty then return t
  loop h (handleLine t line)

def main : IO Unit := do
  let stdin ← IO.getStdin
  let t ← loop stdin {}
  for p in (t.problems ++ t.io.problems).take 40 do
    IO.println p
  for k in t.known do
    IO.println s!"KNOWN {k}"
  IO.println s!"done lines={t.lineNo} writes={t.nWrites} gets={t.nGets} iterops={t.nIter} flushes={t.nFlush} compactions={t.nCompact} trivialmoves={t.nTrivial} droploops={t.nDropLoop} inputsets={t.nInputs} picklevels={t.nPickLevel} pickdeep={t.nPickDeep} dropped={t.nDropped} droppedtombstones={t.nDropBase} recoveries={t.nRecover} invchecks={t.nInv} vers={t.nVer} ls={t.nLs} lifecycle={t.nLifecycle} corruptions={t.nCorrupt} corruptreads={t.nCorruptReads} corrupterrors={t.nCorruptErrors} repairs={t.nRepairs} liveiterops={t.nLongIterOps} crashes={t.nCrash} crashes2={t.nCrash2} crashesnested={t.nCrashN} crashnonempty={t.nCrashNontrivial} jevents={t.nJ} ioevents={t.io.nEvents} edits={t.io.nEdits} conforms={if t.io.mon.ok then 1 else 0} conformsstrict={if t.io.mon.ok && t.io.mon.okDel then 1 else 0} werr={t.nWerr} failedopens={t.nFailedOpens} failedbatches={t.nFailedBatches} maxfiles={t.maxFiles} levelsused={t.levelsUsed} problems={t.problems.length + t.io.problems.length}"
