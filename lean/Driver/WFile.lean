import Driver.Util
import LcdbModel.Model.WFile
open Lcdb Lcdb.WFile
namespace Drv

/-
  wfile     <m|l> <oracle> <ops>             ops: a:<bytes> f s r:<bytes> c (c only as the last op)
  wfilefile <name> <sync 0/1> <oracle> <bytes>
  wcurrent  <number> <pre 0/1> <oracle>
  oracle: `-` or comma-separated answers `<kind><answer>[*count]`, kind w s o c r u (write fsync open close rename unlink),
          answer: K ok (write: everything), <k> bytes (write only), H half, M<j> all but j, I E B N V = EINTR EIO EBADF ENOSPC EINVAL
  name:   m<n> MANIFEST-n, l<n> n.log, t<n> n.ldb, d<n> n.dbtmp, C CURRENT
-/

def showErrno : Errno → String
  | .eintr => "eintr" | .eio => "eio" | .ebadf => "ebadf" | .enospc => "enospc" | .einval => "einval"

def showRc : Rc → String
  | .ok => "ok"
  | .err e => showErrno e

def fnameStr : Disk.FName → String
  | .log n => String.ofList (encodeInt n 6) ++ ".log"
  | .table n => String.ofList (encodeInt n 6) ++ ".ldb"
  | .manifest n => "MANIFEST-" ++ String.ofList (encodeInt n 6)
  | .current => "CURRENT"
  | .tmp n => String.ofList (encodeInt n 6) ++ ".dbtmp"

def showRes : Option Errno → String
  | none => ""
  | some e => "!" ++ showErrno e

def showSys : Sys → String
  | .openW f r => s!"o:{fnameStr f}{showRes r}"
  | .openDir r => s!"od{showRes r}"
  | .write req d => s!"w:{req}:{d.length}"
  | .writeErr req e => s!"w:{req}:!{showErrno e}"
  | .fsync false r => s!"s{showRes r}"
  | .fsync true r => s!"sd{showRes r}"
  | .close false r => s!"c{showRes r}"
  | .close true r => s!"cd{showRes r}"
  | .rename a b r => s!"ren:{fnameStr a}:{fnameStr b}{showRes r}"
  | .unlink a r => s!"unl:{fnameStr a}{showRes r}"

def showEvs (rc : Rc) (ev : List Sys) : String := showRc rc ++ "=" ++ ",".intercalate (ev.map showSys)

def parseErrnoLetter (s : String) : Option Errno :=
  if s == "I" then some .eintr else if s == "E" then some .eio else if s == "B" then some .ebadf
  else if s == "N" then some .enospc else if s == "V" then some .einval else none

def natLimit : Nat := 10 ^ 18

def parseNatB (s : String) : Option Nat :=
  if s.length > 18 then none else s.toNat?

def addAns (orc : Oracle) (kind : String) (a : String) (cnt : Nat) : Option Oracle :=
  if kind == "w" then
    let wa : Option WAns :=
      if a == "K" then some (.allBut 0)
      else if a == "H" then some .half
      else if a.startsWith "M" then (parseNatB (a.drop 1).toString).map .allBut
      else match parseErrnoLetter a with
        | some e => some (.err e)
        | none => (parseNatB a).map .ok
    wa.map fun x => { orc with w := orc.w ++ List.replicate cnt x }
  else
    let aa : Option Ans := if a == "K" then some .ok else (parseErrnoLetter a).map .err
    match aa with
    | none => none
    | some x =>
      let l := List.replicate cnt x
      if kind == "s" then some { orc with s := orc.s ++ l }
      else if kind == "o" then some { orc with o := orc.o ++ l }
      else if kind == "c" then some { orc with c := orc.c ++ l }
      else if kind == "r" then some { orc with r := orc.r ++ l }
      else if kind == "u" then some { orc with u := orc.u ++ l }
      else none

def parseOracleItem (orc : Oracle) (item : String) : Option Oracle :=
  if item.length < 2 then none else
  let kind := (item.take 1).toString
  let body := (item.drop 1).toString
  match body.splitOn "*" with
  | [a] => addAns orc kind a 1
  | [a, c] => match parseNatB c with
    | some n => if n ≥ 1 ∧ n ≤ 4096 then addAns orc kind a n else none
    | none => none
  | _ => none

def parseOracle (s : String) : Option Oracle :=
  if s == "-" then some {} else
  (s.splitOn ",").foldl (fun acc it => acc.bind fun o => parseOracleItem o it) (some {})

def parseFName (s : String) : Option Disk.FName :=
  if s == "C" then some .current else
  if s.length < 2 then none else
  let k := (s.take 1).toString
  match parseNatB (s.drop 1).toString with
  | none => none
  | some n =>
    if k == "m" then some (.manifest n) else if k == "l" then some (.log n) else if k == "t" then some (.table n)
    else if k == "d" then some (.tmp n) else none

inductive DOp where
  | append (d : Bytes) | flush | sync | close | record (d : Bytes)

def parseDOp (s : String) : Option DOp :=
  if s == "f" then some .flush else if s == "s" then some .sync else if s == "c" then some .close
  else if s.startsWith "a:" then (parseBytes (s.drop 2).toString).map .append
  else if s.startsWith "r:" then (parseBytes (s.drop 2).toString).map .record
  else none

/-- `c` may only be the last operation -/
def closeOnlyLast : List DOp → Bool
  | [] => true
  | [_] => true
  | .close :: _ => false
  | _ :: t => closeOnlyLast t

structure DSt where
  f : WF
  orc : Oracle
  off : Nat
  out : List String     -- reversed
  data : List Bytes     -- bytes transferred per op, reversed

def dstep (st : DSt) : DOp → DSt
  | .append d => let r := append0 writeBuffer st.f d st.orc
    { st with f := r.f, orc := r.orc, out := showEvs r.rc r.ev :: st.out, data := transferred r.ev :: st.data }
  | .flush => let r := flush st.f st.orc
    { st with f := r.f, orc := r.orc, out := showEvs r.rc r.ev :: st.out, data := transferred r.ev :: st.data }
  | .sync => let r := sync0 st.f st.orc
    { st with f := r.f, orc := r.orc, out := showEvs r.rc r.ev :: st.out, data := transferred r.ev :: st.data }
  | .close => let r := WFile.close st.f st.orc
    { st with f := r.f, orc := r.orc, out := showEvs r.rc r.ev :: st.out, data := transferred r.ev :: st.data }
  | .record d => let r := addRecordFile writeBuffer st.off d st.f st.orc
    { f := r.f, orc := r.orc, off := r.off, out := showEvs r.rc r.ev :: st.out, data := transferred r.ev :: st.data }

def fs0 (pre : Bool) : Fs :=
  { files := fun g => if pre ∧ g = .current then some [0x6f, 0x6c, 0x64, 0x0a] else none, synced := fun _ => false, cur := none }

def showListing (fs : Fs) (names : List Disk.FName) : String :=
  let present := (names.filter fun g => (fs.files g).isSome).map fnameStr
  let sorted := present.mergeSort (· ≤ ·)
  if sorted.isEmpty then "-" else ",".intercalate sorted

def showContents : Option Bytes → String
  | none => "none"
  | some b => showBytes b

def handleWFile (fields : List String) : String :=
  match fields with
  | ["wfile", kind, orc, ops] =>
    if kind != "m" && kind != "l" then "bad-op" else
    match parseOracle orc, parseList parseDOp ops "," with
    | some orc, some ops =>
      if !closeOnlyLast ops then "bad-op" else
      let st0 : DSt := { f := { buf := [], manifest := kind == "m", fdOpen := true }, orc := orc, off := 0, out := [], data := [] }
      let st := ops.foldl dstep st0
      (if st.out.isEmpty then "." else ";".intercalate st.out.reverse) ++ " " ++ showBytes st.data.reverse.flatten
    | _, _ => "bad-op"
  | ["wfilefile", name, sync, orc, bytes] =>
    match parseFName name, parseOracle orc, parseBytes bytes with
    | some nm, some orc, some d =>
      if sync != "0" && sync != "1" then "bad-op" else
      let r := writeFile writeBuffer nm d (sync == "1") orc
      let fs := Fs.run (fs0 false) r.ev
      s!"{showEvs r.rc r.ev} {showListing fs [nm]} {showContents (fs.files nm)}"
    | _, _, _ => "bad-op"
  | ["wcurrent", num, pre, orc] =>
    match num.toNat?, parseOracle orc with
    | some n, some orc =>
      if n ≥ 2 ^ 64 || num.length > 20 || (pre != "0" && pre != "1") then "bad-op" else
      let r := setCurrentFile writeBuffer n orc
      let fs := Fs.run (fs0 (pre == "1")) r.ev
      s!"{showEvs r.rc r.ev} {showListing fs [.current, .tmp n]} {showContents (fs.files .current)}"
    | _, _ => "bad-op"
  | _ => "bad-op"

end Drv
