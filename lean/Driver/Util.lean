/- line-protocol helpers shared by the drivers (no Mathlib anywhere in the import closure) -/
import LcdbModel.Model.Coding
namespace Drv
open Lcdb

def hexDigit (n : Nat) : Char := if n < 10 then Char.ofNat (48 + n) else Char.ofNat (87 + n)

def hexOfBytes (bs : Bytes) : String :=
  if bs.isEmpty then "-" else
  String.ofList (bs.foldr (fun b acc => hexDigit (b.toNat / 16) :: hexDigit (b.toNat % 16) :: acc) [])

def hexVal (c : Char) : Option Nat :=
  if '0' ≤ c ∧ c ≤ '9' then some (c.toNat - 48)
  else if 'a' ≤ c ∧ c ≤ 'f' then some (c.toNat - 87)
  else none

def parseHexGo : List Char → Bytes → Option Bytes
  | [], acc => some acc.reverse
  | [_], _ => none
  | a :: b :: rest, acc =>
    match hexVal a, hexVal b with
    | some x, some y => parseHexGo rest (UInt8.ofNat (x * 16 + y) :: acc)
    | _, _ => none

/-- pattern byte generator shared with the C harness (harness/common.h: pat_byte) -/
def patByte (seed i : Nat) : UInt8 :=
  let x := (seed * 1103515245 + 12345 + i * 2654435761) % 4294967296
  UInt8.ofNat ((x / 65536) % 256)

/-- byte-string argument: `-` empty, hex, `@seed~len` pseudo-random pattern, `=bb~len` repeated byte,
    `%seed~len~period` pattern repeating with a period (compressible); `+`-joined concatenation -/
def parseBytes1 (s : String) : Option Bytes :=
  if s == "-" then some []
  else if s.startsWith "@" then
    match (s.drop 1).toString.splitOn "~" with
    | [a, b] => match a.toNat?, b.toNat? with
      | some seed, some len => some ((List.range len).map (patByte seed))
      | _, _ => none
    | _ => none
  else if s.startsWith "=" then
    match (s.drop 1).toString.splitOn "~" with
    | [a, b] => match parseHexGo a.toList [], b.toNat? with
      | some [x], some len => some (List.replicate len x)
      | _, _ => none
    | _ => none
  else if s.startsWith "%" then
    match (s.drop 1).toString.splitOn "~" with
    | [a, b, c] => match a.toNat?, b.toNat?, c.toNat? with
      | some seed, some len, some per =>
        if per == 0 then none else some ((List.range len).map (fun i => patByte seed (i % per)))
      | _, _, _ => none
    | _ => none
  else parseHexGo s.toList []

def parseBytes (s : String) : Option Bytes :=
  (s.splitOn "+").foldl (fun acc p => match acc, parseBytes1 p with
    | some a, some b => some (a ++ b)
    | _, _ => none) (some [])

def fnv64 (bs : Bytes) : UInt64 :=
  bs.foldl (fun h b => (h ^^^ b.toUInt64) * 1099511628211) 14695981039346656037

def hex64 (x : UInt64) : String :=
  String.ofList ((List.range 16).map (fun i => hexDigit ((x.toNat / 16 ^ (15 - i)) % 16)))

/-- canonical rendering of a byte string result: full hex up to 40 bytes, else `#len:fnv64` -/
def showBytes (bs : Bytes) : String :=
  if bs.length ≤ 40 then hexOfBytes bs else s!"#{bs.length}:{hex64 (fnv64 bs)}"

def parseList (f : String → Option α) (s : String) (sep : String) : Option (List α) :=
  if s == "" || s == "." then some [] else
  (s.splitOn sep).foldr (fun p acc => match f p, acc with
    | some a, some l => some (a :: l)
    | _, _ => none) (some [])

end Drv
