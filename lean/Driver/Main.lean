import Driver.Core
import Driver.Formats
import Driver.Filter
import Driver.Block
import Driver.Snappy
import Driver.IterStack
import Driver.Table
import Driver.WFile
import Driver.Policy
import Driver.Skiplist
import Driver.LruCache
open Lcdb Drv

def handlers : List (List String → String) := [handleCore, handleFormats, handleFilter, handleBlock, handleSnappy, handleIterStack, handleTable, handleWFile, handlePolicy, handleSkiplist, handleLruCache]

def handle (line : String) : String :=
  let f := line.trimAscii.toString.splitOn " "
  let rec go : List (List String → String) → String
    | [] => "bad-op"
    | h :: hs => let r := h f; if r == "bad-op" then go hs else r
  go handlers

partial def loop (h : IO.FS.Stream) (out : IO.FS.Stream) : IO Unit := do
  let line ← h.getLine
  if line.isEmpty then return ()
  out.putStrLn (handle line)
  loop h out

def main : IO Unit := do
  let stdin ← IO.getStdin
  let stdout ← IO.getStdout
  loop stdin stdout
