import Driver.Util
import Driver.Formats
import LcdbModel.Model.Memtable
open Lcdb
namespace Drv
open Lcdb.Skiplist Lcdb.Memtable

/-- operations of `skl <cmp> <ops>` (one memtable, one memtable iterator living across all of them) -/
inductive SklOp where
  | ins (k : Bytes) (seq kind : Nat) (v : Bytes)
  | has (k : Bytes) (seq kind : Nat)
  | get (k : Bytes) (seq : Nat)
  | seek (k : Bytes) (seq : Nat)
  | first | last | next | prev
  | dump

def parseSklOp (s : String) : Option SklOp :=
  match s.splitOn ":" with
  | ["F"] => some .first
  | ["L"] => some .last
  | ["N"] => some .next
  | ["P"] => some .prev
  | ["D"] => some .dump
  | ["i", k, q, t, v] => match parseBytes k, q.toNat?, t.toNat?, parseBytes v with
    | some k, some q, some t, some v => if t < 256 && q < 2 ^ 56 then some (.ins k q t v) else none
    | _, _, _, _ => none
  | ["c", k, q, t] => match parseBytes k, q.toNat?, t.toNat? with
    | some k, some q, some t => if t < 256 && q < 2 ^ 56 then some (.has k q t) else none
    | _, _, _ => none
  | ["g", k, q] => match parseBytes k, q.toNat? with
    | some k, some q => if q < 2 ^ 56 then some (.get k q) else none
    | _, _ => none
  | ["S", k, q] => match parseBytes k, q.toNat? with
    | some k, some q => if q < 2 ^ 56 then some (.seek k q) else none
    | _, _ => none
  | _ => none

def showSklIter (mt : Memtable) (it : Iter) : Option String :=
  match it with
  | none => some "-"
  | some _ =>
    match iterEntry showBytes mt it with
    | none => none
    | some e => some s!"{showBytes e.ukey},{e.seq},{e.kind},{e.val}"

def showChain (l : List Nat) : String :=
  if l.isEmpty then "-" else ".".intercalate (l.map toString)

/-- `D<max_height>/<chain of level max_height-1>/.../<chain of level 0>`; a node is named by the ordinal of its insert -/
def showDump (sl : SkipList Bytes) : String :=
  let levels := (List.range sl.maxHeight).reverse
  s!"D{sl.maxHeight}/" ++ "/".intercalate (levels.map fun l => showChain (chain sl l))

def runSklOps : List SklOp → Memtable → Iter → List String → Option (List String)
  | [], _, _, acc => some acc.reverse
  | op :: ops, mt, it, acc =>
    match op with
    | .ins k q t v =>
      -- the harness refuses duplicates with the real ldb_skiplist_contains (the C insert only asserts)
      match contains (memKeyCmp mt.c) mt.table (encodeEntry k q t []) with
      | none => none
      | some true => runSklOps ops mt it ("dup" :: acc)
      | some false =>
        match add mt k q t v with
        | none => none
        | some mt' => runSklOps ops mt' it ("ok" :: acc)
    | .has k q t =>
      match contains (memKeyCmp mt.c) mt.table (encodeEntry k q t []) with
      | none => none
      | some b => runSklOps ops mt it ((if b then "1" else "0") :: acc)
    | .get k q =>
      match get mt k q with
      | none => none
      | some (.found v) => runSklOps ops mt it (s!"v:{showBytes v}" :: acc)
      | some .deleted => runSklOps ops mt it ("del" :: acc)
      | some .notFound => runSklOps ops mt it ("nf" :: acc)
    | .seek k q =>
      match iterSeekKey mt (ikeyEnc k q valtypeSeek) with
      | none => none
      | some it' => (showSklIter mt it').bind fun s => runSklOps ops mt it' (s :: acc)
    | .first =>
      match iterFirst mt.table with
      | none => none
      | some it' => (showSklIter mt it').bind fun s => runSklOps ops mt it' (s :: acc)
    | .last =>
      match iterLast mt.table with
      | none => none
      | some it' => (showSklIter mt it').bind fun s => runSklOps ops mt it' (s :: acc)
    | .next =>
      if !iterValid it then runSklOps ops mt it ("skip" :: acc) else
      match iterNext mt.table it with
      | none => none
      | some it' => (showSklIter mt it').bind fun s => runSklOps ops mt it' (s :: acc)
    | .prev =>
      if !iterValid it then runSklOps ops mt it ("skip" :: acc) else
      match iterPrev (memKeyCmp mt.c) mt.table it with
      | none => none
      | some it' => (showSklIter mt it').bind fun s => runSklOps ops mt it' (s :: acc)
    | .dump => runSklOps ops mt it (showDump mt.table :: acc)

/-- `rndh <seed> <n>`: the first `n` heights ldb_skiplist_randheight draws after ldb_rand_init(seed) -/
def randHeights : Nat → Nat → List Nat
  | 0, _ => []
  | n + 1, s => let (s', h) := randomHeight s; h :: randHeights n s'

def handleSkiplist (fields : List String) : String :=
  match fields with
  | ["skl", c, ops] =>
    match parseCmp c, parseList parseSklOp ops "," with
    | some c, some ops =>
      match runSklOps ops (Memtable.create c) iterInit [] with
      | none => "fault:model"
      | some rs => if rs.isEmpty then "." else ";".intercalate rs
    | _, _ => "bad-op"
  | ["rndh", seed, n] =>
    match seed.toNat?, n.toNat? with
    | some seed, some n =>
      if seed ≥ 2 ^ 32 || n > 4096 || n = 0 then "bad-op" else
      ",".intercalate ((randHeights n (randInit seed)).map toString)
    | _, _ => "bad-op"
  | ["mtenc", k, q, t, v] =>
    match parseBytes k, q.toNat?, t.toNat?, parseBytes v with
    | some k, some q, some t, some v =>
      if t < 256 && q < 2 ^ 56 then
        let buf := encodeEntry k q t v
        match decodeEntry buf with
        | some (ik, v') => s!"{showBytes buf} {showBytes ik} {showBytes v'}"
        | none => "fault:model"
      else "bad-op"
    | _, _, _, _ => "bad-op"
  | _ => "bad-op"

end Drv
