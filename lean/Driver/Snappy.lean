import Driver.Util
import LcdbModel.Model.Snappy
open Lcdb Drv
namespace Drv

/-- declared lengths above this are answered `toobig` by both sides of `sdec`
    (the C harness has to allocate the declared length before calling snappy_decode) -/
def snappyDecodeCap : Nat := 67108864

/-- full hex up to 65536 bytes (for the independent-decoder oracle), else the canonical digest -/
def showBytesX (bs : Bytes) : String :=
  if bs.length ≤ 65536 then hexOfBytes bs else showBytes bs

def handleSnappy (fields : List String) : String :=
  match fields with
  | ["senc", h] => match parseBytes h with
    | some bs => showBytes (Snappy.encode bs)
    | none => "bad-op"
  | ["sencx", h] => match parseBytes h with
    | some bs => showBytesX (Snappy.encode bs)
    | none => "bad-op"
  | ["sencsize", n] => match n.toNat? with
    | some k => match Snappy.encodeSize k with
      | some z => s!"ok {z}"
      | none => "fail"
    | none => "bad-op"
  | ["sdsize", h] => match parseBytes h with
    | some bs => match Snappy.decodeSize bs with
      | some n => s!"ok {n}"
      | none => "fail"
    | none => "bad-op"
  | ["sdec", h] => match parseBytes h with
    | some bs => match Snappy.decodeSize bs with
      | none => "fail"
      | some n =>
        if n > snappyDecodeCap then "toobig" else
        match Snappy.decode bs with
        | some out => s!"ok {showBytes out}"
        | none => "fail"
    | none => "bad-op"
  | ["srt", h] => match parseBytes h with
    | some bs => match Snappy.decode (Snappy.encode bs) with
      | some out => s!"ok {showBytes out}"
      | none => "fail"
    | none => "bad-op"
  | _ => "bad-op"

end Drv
