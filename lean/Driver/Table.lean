import Driver.Util
import Driver.Formats
import Driver.Block
import LcdbModel.Model.Table
open Lcdb
namespace Drv

/-- `bs=<n>,ri=<n>,comp=<0|1>,fb=<bits|0>,cmp=<bw|rev|len>` (all five, in this order; `fb=0` = no filter policy) -/
def parseTableOpts (s : String) : Option TableOpts :=
  match (s.splitOn ",").map (fun p => p.splitOn "=") with
  | [["bs", bs], ["ri", ri], ["comp", comp], ["fb", fb], ["cmp", c]] =>
    match bs.toNat?, ri.toNat?, parseBool01 comp, fb.toNat?, parseCmp c with
    | some bs, some ri, some comp, some fb, some c =>
      if ri = 0 then none else
      some { blockSize := bs, restartInterval := ri, compression := comp,
             filterBits := if fb = 0 then none else some fb, cmp := c }
    | _, _, _, _, _ => none
  | _ => none

/-- an entry of a table request: internal key (at least 8 bytes: `ldb_extract_user_key` computes
    `size - 8` unguarded) and value -/
def parseTableEntry (s : String) : Option (Bytes × Bytes) :=
  match parseEntry s with
  | some (k, v) => if k.length < 8 then none else some (k, v)
  | none => none

def showTStatus : TStatus → String
  | .ok => "ok" | .corrupt => "corrupt" | .io => "ioerr"

def showOpenErr : BlockErr → String
  | .corruption => "open:corrupt" | .io => "open:ioerr" | .fault => "fault:model"

def renderEntries (es : List (Bytes × Bytes)) : String :=
  ";".intercalate (es.map fun e => showBytes e.1 ++ "=" ++ showBytes e.2)

/-- full list up to 6 entries, else `#count:fnv64(rendered list)` -/
def showEntries (es : List (Bytes × Bytes)) : String :=
  if es.isEmpty then "."
  else if es.length ≤ 6 then renderEntries es
  else s!"#{es.length}:{hex64 (fnv64 (renderEntries es).toUTF8.toList)}"

def scanBudget : Nat := 100000000

def showScan (t : Table) (verify : Bool) : String :=
  match tableIterAll t verify scanBudget with
  | none => "fault:model"
  | some r => showEntries r.entries ++ " " ++ showTStatus r.status ++ (if r.complete then "" else " incomplete")

def showTwoState (it : TwoIter) : String :=
  if it.valid then s!"1,{showBytes it.key},{showBytes it.value},{showTStatus it.getStatus}"
  else s!"0,-,-,{showTStatus it.getStatus}"

def runTableOps (o : IterOps TwoIter) : List BlockOp → TwoIter → List String → Option (List String)
  | [], _, acc => some acc.reverse
  | op :: ops, it, acc =>
    let skipped := (op == .next || op == .prev) && !it.valid
    match o.apply op it with
    | none => none
    | some it' => runTableOps o ops it' ((if skipped then "skip" else showTwoState it') :: acc)

def showTableOps (t : Table) (verify : Bool) (ops : List BlockOp) : String :=
  match runTableOps (tableIterOps t verify) ops (tableIterCreate t) [] with
  | none => "fault:model"
  | some rs => if rs.isEmpty then "." else ";".intercalate rs

def showGet (t : Table) (verify : Bool) (k : Bytes) : String :=
  match tableGet t k verify with
  | none => "fault:model"
  | some r =>
    showTStatus r.status ++ (match r.found with
      | some (k, v) => s!" found {showBytes k} {showBytes v}"
      | none => " none")

/-- `x:off:val` xor, `e:off:val` xor counted from the end (`e:0:v` = last byte), `s:off:val` set, `t:len` truncate, `z:off:len` zero-fill (out-of-range parts ignored) -/
def applyTableMut (data : Bytes) (m : String) : Option Bytes :=
  match m.splitOn ":" with
  | ["t", n] => n.toNat?.map fun n => data.take n
  | ["s", o, v] => match o.toNat?, v.toNat? with
    | some o, some v => some (if o < data.length then data.set o (UInt8.ofNat v) else data)
    | _, _ => none
  | ["x", o, v] => match o.toNat?, v.toNat? with
    | some o, some v => some (if o < data.length then data.set o (data.getD o 0 ^^^ UInt8.ofNat v) else data)
    | _, _ => none
  | ["e", o, v] => match o.toNat?, v.toNat? with
    | some o, some v =>
      some (if o < data.length then
        let i := data.length - 1 - o
        data.set i (data.getD i 0 ^^^ UInt8.ofNat v) else data)
    | _, _ => none
  | ["z", o, n] => match o.toNat?, n.toNat? with
    | some o, some n =>
      let a := data.take o
      let rest := data.drop o
      some (a ++ List.replicate (min n rest.length) 0 ++ rest.drop n)
    | _, _ => none
  | _ => none

def withTable (o : TableOpts) (file : Bytes) (paranoid : Bool) (k : Table → String) : String :=
  match tableOpen o file paranoid with
  | .error e => showOpenErr e
  | .ok t => k t

def handleTable (fields : List String) : String :=
  match fields with
  | ["tbuild", o, es] => match parseTableOpts o, parseList parseTableEntry es ";" with
    | some o, some es => let f := tableBuild o es; s!"{showBytes f} {f.length}"
    | _, _ => "bad-op"
  | ["tscan", o, es, v, p] =>
    match parseTableOpts o, parseList parseTableEntry es ";", parseBool01 v, parseBool01 p with
    | some o, some es, some v, some p => withTable o (tableBuild o es) p fun t => showScan t v
    | _, _, _, _ => "bad-op"
  | ["tops", o, es, ops] =>
    match parseTableOpts o, parseList parseTableEntry es ";", parseList parseBlockOp ops "," with
    | some o, some es, some ops => withTable o (tableBuild o es) false fun t => showTableOps t false ops
    | _, _, _ => "bad-op"
  | ["tget", o, es, k] =>
    match parseTableOpts o, parseList parseTableEntry es ";", parseBytes k with
    | some o, some es, some k => withTable o (tableBuild o es) false fun t => showGet t false k
    | _, _, _ => "bad-op"
  | "tmut" :: o :: es :: ms :: v :: p :: action =>
    match parseTableOpts o, parseList parseTableEntry es ";", parseBool01 v, parseBool01 p with
    | some o, some es, some v, some p =>
      let muts := if ms == "." then [] else ms.splitOn ","
      match muts.foldl (fun acc m => acc.bind (fun d => applyTableMut d m)) (some (tableBuild o es)) with
      | none => "bad-op"
      | some f =>
        let go (k : Table → String) : String := showBytes f ++ " " ++ withTable o f p k
        match action with
        | ["scan"] => go fun t => showScan t v
        | ["get", k] => match parseBytes k with
          | some k => go fun t => showGet t v k
          | none => "bad-op"
        | ["ops", ops] => match parseList parseBlockOp ops "," with
          | some ops => go fun t => showTableOps t v ops
          | none => "bad-op"
        | _ => "bad-op"
    | _, _, _, _ => "bad-op"
  | _ => "bad-op"

end Drv
