import Driver.Util
import LcdbModel.Model.WriteBatch
import LcdbModel.Model.InternalKey
import LcdbModel.Model.VersionEdit
import LcdbModel.Model.FileName
open Lcdb
namespace Drv

def parseOp (s : String) : Option BOp :=
  match s.splitOn ":" with
  | ["p", k, v] => match parseBytes k, parseBytes v with
    | some a, some b => some (BOp.put a b)
    | _, _ => none
  | ["d", k] => (parseBytes k).map BOp.del
  | _ => none

def showOp : BOp → String
  | BOp.put k v => s!"p:{showBytes k}:{showBytes v}"
  | BOp.del k => s!"d:{showBytes k}"

def showOps (ops : List BOp) : String := if ops.isEmpty then "." else ",".intercalate (ops.map showOp)

def parseCmp (s : String) : Option Cmp :=
  if s == "bw" then some .bytewise else if s == "rev" then some .reverse else if s == "len" then some .lenFirst else none

def showOrd : Ordering → String
  | .lt => "-1" | .eq => "0" | .gt => "1"

def parseEditField (e : Edit) (s : String) : Option Edit :=
  match s.splitOn ":" with
  | ["c", h] => (parseBytes h).map fun b => { e with comparator := some b }
  | ["l", n] => n.toNat?.map fun v => { e with logNumber := some v }
  | ["p", n] => n.toNat?.map fun v => { e with prevLogNumber := some v }
  | ["n", n] => n.toNat?.map fun v => { e with nextFile := some v }
  | ["s", n] => n.toNat?.map fun v => { e with lastSeq := some v }
  | ["cp", l, k] => match l.toNat?, parseBytes k with
    | some l, some k => some { e with compactPointers := e.compactPointers ++ [(l, k)] }
    | _, _ => none
  | ["df", l, n] => match l.toNat?, n.toNat? with
    | some l, some n => some { e with deletedFiles := setInsert (l, n) e.deletedFiles }
    | _, _ => none
  | ["nf", l, n, sz, a, b] => match l.toNat?, n.toNat?, sz.toNat?, parseBytes a, parseBytes b with
    | some l, some n, some sz, some a, some b =>
      some { e with newFiles := e.newFiles ++ [{ level := l, number := n, size := sz, smallest := a, largest := b }] }
    | _, _, _, _, _ => none
  | _ => none

def showEdit (e : Edit) : String :=
  let parts : List String :=
    (match e.comparator with | some c => [s!"c:{showBytes c}"] | none => [])
    ++ (match e.logNumber with | some v => [s!"l:{v}"] | none => [])
    ++ (match e.prevLogNumber with | some v => [s!"p:{v}"] | none => [])
    ++ (match e.nextFile with | some v => [s!"n:{v}"] | none => [])
    ++ (match e.lastSeq with | some v => [s!"s:{v}"] | none => [])
    ++ e.compactPointers.map (fun (l, k) => s!"cp:{l}:{showBytes k}")
    ++ e.deletedFiles.map (fun (l, n) => s!"df:{l}:{n}")
    ++ e.newFiles.map (fun f => s!"nf:{f.level}:{f.number}:{f.size}:{showBytes f.smallest}:{showBytes f.largest}")
  if parts.isEmpty then "." else ";".intercalate parts

def showFileType : FileType → String
  | .log => "log" | .lock => "lock" | .table => "table" | .desc => "desc" | .current => "current" | .temp => "temp" | .info => "info"

def handleFormats (fields : List String) : String :=
  match fields with
  | ["benc", seq, ops] => match seq.toNat?, parseList parseOp ops "," with
    | some s, some os => showBytes (encodeBatch s os)
    | _, _ => "bad-op"
  | ["biter", h] => match parseBytes h with
    | some rep => let r := batchIterate rep
      (if r.ok then "ok" else "corrupt") ++ s!" {showOps r.applied}" ++
        (if rep.length ≥ 12 then s!" seq={batchSeq rep} count={batchCount rep}" else "")
    | none => "bad-op"
  -- build two batches from ops, append the second to the first, iterate the result
  | ["bapp", s1, ops1, s2, ops2] => match s1.toNat?, parseList parseOp ops1 ",", s2.toNat?, parseList parseOp ops2 "," with
    | some a, some o1, some b, some o2 =>
      let rep := batchAppend (encodeBatch a o1) (encodeBatch b o2)
      let r := batchIterate rep
      showBytes rep ++ " " ++ (if r.ok then "ok" else "corrupt") ++ s!" {showOps r.applied} seq={batchSeq rep} count={batchCount rep}"
    | _, _, _, _ => "bad-op"
  -- build a batch, truncate to n bytes / set byte, iterate
  | ["bmut", seq, ops, m] => match seq.toNat?, parseList parseOp ops ",", m.splitOn ":" with
    | some s, some os, ["t", n] => match n.toNat? with
      | some n => let rep := (encodeBatch s os).take n
        let r := batchIterate rep
        (if r.ok then "ok" else "corrupt") ++ s!" {showOps r.applied}"
      | none => "bad-op"
    | some s, some os, ["s", o, v] => match o.toNat?, v.toNat? with
      | some o, some v =>
        let rep0 := encodeBatch s os
        let rep := if o < rep0.length then rep0.set o (UInt8.ofNat v) else rep0
        let r := batchIterate rep
        (if r.ok then "ok" else "corrupt") ++ s!" {showOps r.applied}"
      | _, _ => "bad-op"
    | _, _, _ => "bad-op"
  | ["ucmp", c, a, b] => match parseCmp c, parseBytes a, parseBytes b with
    | some c, some a, some b => showOrd (c.compare a b)
    | _, _, _ => "bad-op"
  | ["usep", a, b] => match parseBytes a, parseBytes b with
    | some a, some b => showBytes (shortestSeparator a b)
    | _, _ => "bad-op"
  | ["usucc", a] => match parseBytes a with
    | some a => showBytes (shortSuccessor a)
    | _ => "bad-op"
  | ["ikenc", u, seq, ty] => match parseBytes u, seq.toNat?, ty.toNat? with
    | some u, some s, some t => showBytes (ikeyEnc u s t)
    | _, _, _ => "bad-op"
  | ["pkey", h] => match parseBytes h with
    | some ik => match pkeyImport ik with
      | some (u, s, t) => s!"ok {showBytes u} {s} {t}"
      | none => "fail"
    | none => "bad-op"
  | ["icmp", c, a, b] => match parseCmp c, parseBytes a, parseBytes b with
    | some c, some a, some b => if a.length < 8 || b.length < 8 then "bad-op" else showOrd (ikeyCmp c a b)
    | _, _, _ => "bad-op"
  | ["isep", c, a, b] => match parseCmp c, parseBytes a, parseBytes b with
    | some c, some a, some b => if a.length < 8 || b.length < 8 then "bad-op" else showBytes (ikeySeparator c a b)
    | _, _, _ => "bad-op"
  | ["isucc", c, a] => match parseCmp c, parseBytes a with
    | some c, some a => if a.length < 8 then "bad-op" else showBytes (ikeySuccessor c a)
    | _, _ => "bad-op"
  | ["eenc", fs] => match (if fs == "." then some [] else some (fs.splitOn ";")) with
    | some items => match items.foldl (fun acc it => acc.bind (fun e => parseEditField e it)) (some ({} : Edit)) with
      | some e => let bytes := editEncode e
        let back := match editDecode bytes with | some e' => showEdit e' | none => "fail"
        showBytes bytes ++ " " ++ back
      | none => "bad-op"
    | none => "bad-op"
  | ["edec", h] => match parseBytes h with
    | some bs => match editDecode bs with
      | some e => "ok " ++ showEdit e
      | none => "fail"
    | none => "bad-op"
  | ["fname", h] => match parseBytes h with
    | some bs => match String.fromUTF8? (ByteArray.mk bs.toArray) with
      | some name => match parseFileName name with
        | some (t, n) => s!"{showFileType t} {n}"
        | none => "none"
      | none => "bad-op"
    | none => "bad-op"
  | _ => "bad-op"

end Drv
