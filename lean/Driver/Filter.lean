import Driver.Util
import LcdbModel.Model.Bloom
import LcdbModel.Model.FilterBlock
import LcdbModel.Model.TableFormat0
open Lcdb
namespace Drv

/-- `off:key,key,...` (`off:.` for a block without keys) -/
def parseFilterBlk (s : String) : Option (Nat × List Bytes) :=
  match s.splitOn ":" with
  | [o, ks] => match o.toNat?, parseList parseBytes ks "," with
    | some off, some keys => some (off, keys)
    | _, _ => none
  | _ => none

def parseFilterSpec (s : String) : Option (List (Nat × List Bytes)) := parseList parseFilterBlk s ";"

def showBool (b : Bool) : String := if b then "1" else "0"

def policyOf (ifp : Bool) (bits : Nat) : Policy :=
  if ifp then ifpPolicy (bloomPolicy bits) else bloomPolicy bits

def handleFilter (fields : List String) : String :=
  match fields with
  | ["hash", seed, h] => match seed.toNat?, parseBytes h with
    | some s, some bs => s!"{ldbHash bs s}"
    | _, _ => "bad-op"
  | ["bloom", bits, keys] => match bits.toNat?, parseList parseBytes keys "," with
    | some b, some ks => showBytes (bloomBuild b ks)
    | _, _ => "bad-op"
  | ["bmatch", bits, filter, key] => match bits.toNat?, parseBytes filter, parseBytes key with
    | some _, some f, some k => showBool (bloomMatch f k)
    | _, _, _ => "bad-op"
  | ["bloomrt", bits, keys, probe] => match bits.toNat?, parseList parseBytes keys ",", parseBytes probe with
    | some b, some ks, some k => showBool (bloomMatch (bloomBuild b ks) k)
    | _, _, _ => "bad-op"
  | [op, bits, spec] =>
    if op == "fbuild" || op == "ifbuild" then
      match bits.toNat?, parseFilterSpec spec with
      | some b, some blocks => showBytes (filterBuild (policyOf (op == "ifbuild") b) blocks)
      | _, _ => "bad-op"
    else if op == "hdl" then
      match bits.toNat?, spec.toNat? with
      | some o, some s => hexOfBytes (handleEncode { offset := o, size := s })
      | _, _ => "bad-op"
    else "bad-op"
  | ["hdldec", h] => match parseBytes h with
    | some bs => match handleRead bs with
      | some (hd, rest) => s!"ok {hd.offset} {hd.size} {rest.length}"
      | none => "fail"
    | none => "bad-op"
  | ["footerdec", h] => match parseBytes h with
    | some bs => match footerRead bs with
      | some (f, rest) => s!"ok {f.metaindex.offset} {f.metaindex.size} {f.index.offset} {f.index.size} {rest.length}"
      | none => "fail"
    | none => "bad-op"
  | [op, a, b, c, d] =>
    if op == "fmatch" || op == "ifmatch" then
      match a.toNat?, parseBytes b, c.toNat?, parseBytes d with
      | some bits, some fb, some off, some key => showBool (filterMatch (policyOf (op == "ifmatch") bits) fb off key)
      | _, _, _, _ => "bad-op"
    else if op == "fbrt" || op == "ifbrt" then
      match a.toNat?, parseFilterSpec b, c.toNat?, parseBytes d with
      | some bits, some blocks, some off, some key =>
        let p := policyOf (op == "ifbrt") bits
        showBool (filterMatch p (filterBuild p blocks) off key)
      | _, _, _, _ => "bad-op"
    else if op == "footer" then
      match a.toNat?, b.toNat?, c.toNat?, d.toNat? with
      | some mo, some ms, some io, some is =>
        hexOfBytes (footerEncode { metaindex := { offset := mo, size := ms }, index := { offset := io, size := is } })
      | _, _, _, _ => "bad-op"
    else "bad-op"
  | _ => "bad-op"

end Drv
