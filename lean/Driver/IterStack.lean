import Driver.Util
import Driver.Formats
import LcdbModel.Model.MergeIter
import LcdbModel.Model.DbIterImpl
open Lcdb
namespace Drv

/-- `ukey:seq:kind:val` (val as a byte-string argument; the model keeps its canonical rendering) -/
def parseIsEntry (s : String) : Option Entry :=
  match s.splitOn ":" with
  | [k, q, t, v] => match parseBytes k, q.toNat?, t.toNat?, parseBytes v with
    | some k, some q, some t, some v =>
      if t < 256 && q < 2 ^ 56 then some { ukey := k, seq := q, kind := t, val := showBytes v } else none
    | _, _, _, _ => none
  | _ => none

/-- a child: `!c` / `!i` = empty iterator with an error status, else a run (`.` = empty run) -/
def parseIsChild (c : Cmp) (s : String) : Option MChild :=
  if s == "!c" then some { run := [], st := .corrupt, pos := none }
  else if s == "!i" then some { run := [], st := .ioerror, pos := none }
  else (parseList parseIsEntry s ",").map fun es => { run := mkRun c es, st := .ok, pos := none }

/-- `~` = no children at all, else `child|child|...` -/
def parseIsChildren (c : Cmp) (s : String) : Option (List MChild) :=
  if s == "~" then some [] else
  (s.splitOn "|").foldr (fun p acc => match parseIsChild c p, acc with
    | some a, some l => some (a :: l)
    | _, _ => none) (some [])

def showIStatus : IStatus → String
  | .ok => "ok" | .corrupt => "corrupt" | .ioerror => "ioerror"

inductive MOp where
  | first | last | next | prev
  | seek (k : Bytes) (seq : Nat)

def parseMOp (s : String) : Option MOp :=
  match s.splitOn ":" with
  | ["F"] => some .first
  | ["L"] => some .last
  | ["N"] => some .next
  | ["P"] => some .prev
  | ["S", k, q] => match parseBytes k, q.toNat? with
    | some k, some q => if q < 2 ^ 56 then some (.seek k q) else none
    | _, _ => none
  | _ => none

def showMergeState (mi : MergeIter) : String :=
  match mi.valid, mi.entry with
  | true, some e => s!"1,{showBytes e.ukey},{e.seq},{e.kind},{e.val}"
  | true, none => "fault:model"
  | false, _ => "0,-,0,0,-"

def runMergeOps (c : Cmp) : List MOp → MergeIter → List String → Option (List String × MergeIter)
  | [], mi, acc => some (acc.reverse, mi)
  | op :: ops, mi, acc =>
    match op with
    | .first => let mi' := mi.first c; runMergeOps c ops mi' (showMergeState mi' :: acc)
    | .last => let mi' := mi.last c; runMergeOps c ops mi' (showMergeState mi' :: acc)
    | .seek k q => let mi' := mi.seek c k (packSeqType q 1); runMergeOps c ops mi' (showMergeState mi' :: acc)
    | .next =>
      if !mi.valid then runMergeOps c ops mi ("skip" :: acc) else
      match mi.next c with
      | none => none
      | some mi' => runMergeOps c ops mi' (showMergeState mi' :: acc)
    | .prev =>
      if !mi.valid then runMergeOps c ops mi ("skip" :: acc) else
      match mi.prev c with
      | none => none
      | some mi' => runMergeOps c ops mi' (showMergeState mi' :: acc)

def parseIterOp (s : String) : Option IterOp :=
  match s.splitOn ":" with
  | ["F"] => some .first
  | ["L"] => some .last
  | ["N"] => some .next
  | ["P"] => some .prev
  | ["S", k] => (parseBytes k).map .seek
  | ["GE", k] => (parseBytes k).map .seekGe
  | ["GT", k] => (parseBytes k).map .seekGt
  | ["LE", k] => (parseBytes k).map .seekLe
  | ["LT", k] => (parseBytes k).map .seekLt
  | _ => none

def showDbIterState (I : InternalIter MergeIter) (st : DbIter MergeIter) : String :=
  let status := showIStatus (st.getStatus I)
  if st.isValid then
    match st.key? I, st.value? I with
    | some k, some v => s!"1,{showBytes k},{v},{status}"
    | _, _ => "fault:model"
  else s!"0,-,-,{status}"

def runDbIterOps (c : Cmp) (s fuel : Nat) : List IterOp → DbIter MergeIter → List String → Option (List String)
  | [], _, acc => some acc.reverse
  | op :: ops, st, acc =>
    let skipped := (op == .next || op == .prev) && !st.isValid
    match DbIter.apply (mergeIterI c) c s fuel op st with
    | none => none
    | some st' =>
      runDbIterOps c s fuel ops st' ((if skipped then "skip" else showDbIterState (mergeIterI c) st') :: acc)

def handleIterStack (fields : List String) : String :=
  match fields with
  | ["merge", c, runs, ops] =>
    match parseCmp c with
    | none => "bad-op"
    | some c =>
      match parseIsChildren c runs, parseList parseMOp ops "," with
      | some chs, some ops =>
        match runMergeOps c ops (mergeCreate chs) [] with
        | none => "fault:model"
        | some (rs, mi) =>
          (if rs.isEmpty then "." else ";".intercalate rs) ++ " " ++ showIStatus mi.status
      | _, _ => "bad-op"
  | ["dbiter", c, s, runs, ops] =>
    match parseCmp c, s.toNat? with
    | some c, some s =>
      if s ≥ 2 ^ 56 then "bad-op" else
      match parseIsChildren c runs, parseList parseIterOp ops "," with
      | some chs, some ops =>
        let fuel := dbIterFuel (chs.map (·.run))
        match runDbIterOps c s fuel ops (DbIter.create (mergeCreate chs)) [] with
        | none => "fault:model"
        | some rs => if rs.isEmpty then "." else ";".intercalate rs
      | _, _ => "bad-op"
    | _, _ => "bad-op"
  | _ => "bad-op"

end Drv
