import Driver.Util
import LcdbModel.Model.LruCache
import LcdbModel.Model.LruHTable
open Lcdb Lcdb.LruCache
namespace Drv

/-! `lru <capacity> <ops>`: a script against one sharded cache (`ldb_lru_create(capacity)`).
    ops (`,`-separated): `i:<key>:<val>:<charge>`, `l:<key>`, `r:<h#>`, `v:<h#>`, `e:<key>`, `p`, `t`, `n`
    (`h#` = the n-th handle returned so far, counting from 0).  Response: per op `<result>/<deleter calls of the op>`
    joined by `;`, then ` <usage> <deleter calls while releasing all outstanding handles>/<deleter calls of destroy>`.
    `misuse` if a script releases / reads a handle that is not outstanding (never executed in C).
    `htab <ops>`: the handle table alone (Model/LruHTable.lean), see there. -/

/-- decimal number as the C harness reads it: digits only, at most 18 of them -/
def num? (s : String) : Option Nat :=
  if s.length ≥ 1 && s.length ≤ 18 && s.toList.all Char.isDigit then s.toNat? else none

inductive LOp where
  | ins (k : Bytes) (v c : Nat) | look (k : Bytes) | rel (n : Nat) | val (n : Nat) | erase (k : Bytes) | prune | total | newid

def parseLOp (s : String) : Option LOp :=
  match s.splitOn ":" with
  | ["i", k, v, c] => match parseBytes k, num? v, num? c with
    | some k, some v, some c => if v < 2 ^ 31 && c < 2 ^ 32 then some (.ins k v c) else none
    | _, _, _ => none
  | ["l", k] => (parseBytes k).map .look
  | ["e", k] => (parseBytes k).map .erase
  | ["r", n] => (num? n).bind fun n => if n < 2 ^ 31 then some (.rel n) else none
  | ["v", n] => (num? n).bind fun n => if n < 2 ^ 31 then some (.val n) else none
  | ["p"] => some .prune
  | ["t"] => some .total
  | ["n"] => some .newid
  | _ => none

def showDels (ds : List Nat) : String :=
  if ds.isEmpty then "-" else ".".intercalate (ds.map toString)

/-- deleter calls between two states of the cache: per shard (index order) the new tail of its log -/
def newDels (c c' : Cache) : List Nat :=
  (c.shards.zip c'.shards).flatMap fun (s, s') =>
    (s'.deleted.drop s.deleted.length).filterMap fun id => (s'.entries[id]?).map (·.val)

structure LSt where
  c : Cache
  hs : List (Handle × Bool)   -- handles handed out, `true` = still outstanding
  out : List String

inductive LRes where
  | ok (st : LSt) | misuse | fault

def lruStep (st : LSt) (op : LOp) : LRes :=
  let fin (c' : Cache) (hs : List (Handle × Bool)) (r : String) : LRes :=
    .ok { c := c', hs := hs, out := s!"{r}/{showDels (newDels st.c c')}" :: st.out }
  match op with
  | .ins k v c =>
    match st.c.insert k v c with
    | none => .fault
    | some (c', h) =>
      match c'.value h with
      | none => .fault
      | some seen => fin c' (st.hs ++ [(h, true)]) s!"{st.hs.length}={seen}"
  | .look k =>
    match st.c.lookup k with
    | none => .fault
    | some (c', none) => fin c' st.hs "-"
    | some (c', some h) =>
      match c'.value h with
      | none => .fault
      | some seen => fin c' (st.hs ++ [(h, true)]) s!"{st.hs.length}={seen}"
  | .rel n =>
    match st.hs[n]? with
    | some (h, true) =>
      match st.c.release h with
      | none => .fault
      | some c' => fin c' (st.hs.set n (h, false)) "ok"
    | _ => .misuse
  | .val n =>
    match st.hs[n]? with
    | some (h, true) =>
      match st.c.value h with
      | none => .fault
      | some v => fin st.c st.hs (toString v)
    | _ => .misuse
  | .erase k =>
    match st.c.erase k with
    | none => .fault
    | some c' => fin c' st.hs "ok"
  | .prune =>
    match st.c.prune with
    | none => .fault
    | some c' => fin c' st.hs "ok"
  | .total => fin st.c st.hs (toString st.c.totalCharge)
  | .newid => let (c', id) := st.c.newId; fin c' st.hs (toString id)

def lruRun : List LOp → LSt → LRes
  | [], st => .ok st
  | op :: ops, st =>
    match lruStep st op with
    | .ok st' => lruRun ops st'
    | r => r

/-- release every outstanding handle in handle# order; deleter calls in call order -/
def releaseOutstanding : List (Handle × Bool) → Cache → List Nat → Option (Cache × List Nat)
  | [], c, acc => some (c, acc)
  | (h, true) :: rest, c, acc =>
    match c.release h with
    | none => none
    | some c' => releaseOutstanding rest c' (acc ++ newDels c c')
  | (_, false) :: rest, c, acc => releaseOutstanding rest c acc

def handleLru (cap : Nat) (ops : List LOp) : String :=
  match lruRun ops { c := Cache.create cap, hs := [], out := [] } with
  | .misuse => "misuse"
  | .fault => "fault:model"
  | .ok st =>
    let body := if st.out.isEmpty then "." else ";".intercalate st.out.reverse
    match releaseOutstanding st.hs st.c [] with
    | none => "fault:model"
    | some (c1, rdels) =>
      match c1.destroy with
      | none => "fault:model"
      | some c2 =>
        s!"{body} {st.c.totalCharge} {showDels rdels}/{showDels (newDels c1 c2)}"

/-! model-only command `lrux <capacity> <shard ops>`: ONE shard driven by raw entry ids
    (`R:<id>` releases entry id, `V:<id>` reads it) — the malformed stream (release after the final release,
    of ids never handed out, …) that is never sent to C; answers `fault` at the first faulting op. -/
inductive XOp where
  | op (o : Op) | val (id : Nat)

def parseXOp (s : String) : Option XOp :=
  match s.splitOn ":" with
  | ["i", k, v, c] => match parseBytes k, num? v, num? c with
    | some k, some v, some c => some (.op (.insert k v c))
    | _, _, _ => none
  | ["l", k] => (parseBytes k).map fun k => .op (.lookup k)
  | ["e", k] => (parseBytes k).map fun k => .op (.erase k)
  | ["R", n] => (num? n).map fun n => .op (.release n)
  | ["V", n] => (num? n).map .val
  | ["p"] => some (.op .prune)
  | ["t"] => some (.op .total)
  | _ => none

def showOut : Out → String
  | .handle none => "-"
  | .handle (some h) => s!"h{h}"
  | .unit => "ok"
  | .total n => toString n

def lruxRun : List XOp → Shard → List String → List String
  | [], s, acc => (s!"held={s.held.length},deleted={showDels (deletedVals s)}" :: acc).reverse
  | .val id :: ops, s, acc =>
    match value s id with
    | none => ("fault" :: acc).reverse
    | some v => lruxRun ops s (toString v :: acc)
  | .op o :: ops, s, acc =>
    match step s o with
    | none => ("fault" :: acc).reverse
    | some (s', out) => lruxRun ops s' (showOut out :: acc)

/-! `htab`: the handle table alone -/
def parseHOp (s : String) : Option HTable.HOp :=
  match s.splitOn ":" with
  | ["i", k, h, id] => match parseBytes k, num? h, num? id with
    | some k, some h, some id => if h < 2 ^ 32 && id < 2 ^ 31 then some (.insert k h id) else none
    | _, _, _ => none
  | ["r", k, h] => match parseBytes k, num? h with
    | some k, some h => if h < 2 ^ 32 then some (.remove k h) else none
    | _, _ => none
  | ["l", k, h] => match parseBytes k, num? h with
    | some k, some h => if h < 2 ^ 32 then some (.lookup k h) else none
    | _, _ => none
  | _ => none

def showHRes (r : Option Nat) : String := match r with | none => "-" | some id => toString id

def htabRun : List HTable.HOp → HTable.HTable → List String → String
  | [], t, acc =>
    let body := if acc.isEmpty then "." else ";".intercalate acc.reverse
    let chains := ",".intercalate (t.buckets.map fun b => if b.isEmpty then "-" else ".".intercalate (b.map fun n => toString n.id))
    s!"{body} {t.buckets.length} {t.elems} {chains}"
  | op :: ops, t, acc =>
    let (t', r) := HTable.apply t op
    htabRun ops t' (showHRes r :: acc)

def handleLruCache (fields : List String) : String :=
  match fields with
  | ["lru", cap, ops] =>
    match num? cap, parseList parseLOp ops "," with
    | some cap, some ops => if cap < 2 ^ 32 then handleLru cap ops else "bad-op"
    | _, _ => "bad-op"
  | ["lrux", cap, ops] =>
    match num? cap, parseList parseXOp ops "," with
    | some cap, some ops => ";".intercalate (lruxRun ops (Shard.empty cap) [])
    | _, _ => "bad-op"
  | ["htab", ops] =>
    match parseList parseHOp ops "," with
    | some ops => htabRun ops HTable.init []
    | none => "bad-op"
  | ["lruhash", k] =>
    match parseBytes k with
    | some k => s!"{lruHash k} {shardOf k}"
    | none => "bad-op"
  | _ => "bad-op"

end Drv
