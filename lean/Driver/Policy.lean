import Driver.Util
import Driver.Formats
import LcdbModel.Model.Policy
open Lcdb Lcdb.Policy
namespace Drv

/-! line protocol of the file-selection slice (harness/u_policy.h is the C side)

  file      = num:size:skhex:sp:lkhex:lp        (num < 2^63, size < 2^40, sp/lp < 2^64)
  files     = file,file,...   ('.' = no files; at most 64 files)
  version   = files|files|files|files|files|files|files     (exactly 7 levels)
  ikey      = khex:packed   ('*' = NULL / empty compact pointer)
  ukey      = khex          ('*' = NULL)

  pfind <cmp> <files> <khex> <packed>                      -> index
  poverlap <cmp> <0|1> <files> <lo|*> <hi|*>               -> 0|1
  pgoi <cmp> <version> <level> <ikey|*> <ikey|*>           -> nums
  ppick <cmp> <version> <mfs> <skhex> <lkhex>              -> level
  pboundary <cmp> <files> <nums>                           -> nums | inverted
  prange <cmp> <version> <mfs> <level> <ikey|*> <ikey|*>   -> null | setup | inverted | fault
  ppickc <cmp> <version> <mfs> <sizelevel|-> <level:num|-> <ikey|*>  -> null | level;setup | inverted | fault
  setup = in0;in1;grandparents;cpkhex:cppacked;trivial(0|1)    nums = n,n,... ('.' = empty)
-/

def parsePFile (s : String) : Option FileMeta :=
  match s.splitOn ":" with
  | [n, z, sk, sp, lk, lp] =>
    match n.toNat?, z.toNat?, parseBytes sk, sp.toNat?, parseBytes lk, lp.toNat? with
    | some n, some z, some sk, some sp, some lk, some lp =>
      if n < 2 ^ 63 && z < 2 ^ 40 && sp < 2 ^ 64 && lp < 2 ^ 64 then
        some { num := n, size := z, sk := sk, sp := sp, lk := lk, lp := lp, run := [] }
      else none
    | _, _, _, _, _, _ => none
  | _ => none

def parsePFiles (s : String) : Option (List FileMeta) :=
  match parseList parsePFile s "," with
  | some fs => if fs.length ≤ 64 then some fs else none
  | none => none

def parsePVersion (s : String) : Option Version :=
  let parts := s.splitOn "|"
  if parts.length != 7 then none else
  parts.foldr (fun p acc => match parsePFiles p, acc with
    | some a, some l => some (a :: l)
    | _, _ => none) (some [])

/-- `*` = NULL -/
def parsePIKey (s : String) : Option (Option IKey) :=
  if s == "*" then some none else
  match s.splitOn ":" with
  | [k, p] => match parseBytes k, p.toNat? with
    | some k, some p => if p < 2 ^ 64 then some (some (k, p)) else none
    | _, _ => none
  | _ => none

def parsePUKey (s : String) : Option (Option Bytes) :=
  if s == "*" then some none else (parseBytes s).map some

def showNums (fs : List FileMeta) : String :=
  if fs.isEmpty then "." else ",".intercalate (fs.map (fun f => toString f.num))

def showSetup (mfs : Nat) (s : Setup) : String :=
  s!"{showNums s.in0};{showNums s.in1};{showNums s.grandparents};{showBytes s.compactPointer.1}:{s.compactPointer.2};{if isTrivialMove mfs s then 1 else 0}"

/-- a file whose largest key is before its smallest key: add_boundary_inputs may not terminate, get_range may
    see an empty vector; both sides refuse such versions for the commands that reach these functions -/
def hasInverted (c : Cmp) (v : Version) : Bool :=
  v.any (fun fs => fs.any (fun f => ikl c (largest f) (smallest f)))

def parseMfs (s : String) : Option Nat :=
  match s.toNat? with
  | some m => if m < 2 ^ 32 then some m else none
  | none => none

def parseLevel (s : String) : Option Nat :=
  match s.toNat? with
  | some l => if l < 7 then some l else none
  | none => none

def handlePolicy (fields : List String) : String :=
  match fields with
  | ["pfind", c, fs, k, p] =>
    match parseCmp c, parsePFiles fs, parseBytes k, p.toNat? with
    | some c, some fs, some k, some p => if p < 2 ^ 64 then toString (findFile c fs k p) else "bad-op"
    | _, _, _, _ => "bad-op"
  | ["poverlap", c, d, fs, lo, hi] =>
    match parseCmp c, parsePFiles fs, parsePUKey lo, parsePUKey hi with
    | some c, some fs, some lo, some hi =>
      if d == "0" || d == "1" then (if someFileOverlapsRange c (d == "1") fs lo hi then "1" else "0") else "bad-op"
    | _, _, _, _ => "bad-op"
  | ["pgoi", c, v, l, b, e] =>
    match parseCmp c, parsePVersion v, parseLevel l, parsePIKey b, parsePIKey e with
    | some c, some v, some l, some b, some e =>
      match versionGoi c v l b e with
      | some r => showNums r
      | none => "fault"
    | _, _, _, _, _ => "bad-op"
  | ["ppick", c, v, m, sk, lk] =>
    match parseCmp c, parsePVersion v, parseMfs m, parseBytes sk, parseBytes lk with
    | some c, some v, some m, some sk, some lk =>
      match pickLevel c v m sk lk with
      | some l => toString l
      | none => "fault"
    | _, _, _, _, _ => "bad-op"
  | ["pboundary", c, fs, ns] =>
    match parseCmp c, parsePFiles fs, parseList (fun s => s.toNat?) ns "," with
    | some c, some fs, some ns =>
      let picked := ns.map (fun n => fs.find? (fun f => f.num == n))
      if picked.any Option.isNone then "bad-op" else
      if hasInverted c [fs] then "inverted" else
      match addBoundaryInputs c fs (picked.filterMap id) with
      | some r => showNums r
      | none => "fault"
    | _, _, _ => "bad-op"
  | ["prange", c, v, m, l, b, e] =>
    match parseCmp c, parsePVersion v, parseMfs m, parseLevel l, parsePIKey b, parsePIKey e with
    | some c, some v, some m, some l, some b, some e =>
      if hasInverted c v then "inverted" else
      match compactRange c m v l b e with
      | none => "fault"
      | some none => "null"
      | some (some s) => showSetup m s
    | _, _, _, _, _, _ => "bad-op"
  | ["ppickc", c, v, m, sz, sk, cp] =>
    match parseCmp c, parsePVersion v, parseMfs m, parsePIKey cp with
    | some c, some v, some m, some cp =>
      let sz' : Option (Option Nat) := if sz == "-" then some none else (parseLevel sz).map some
      let sk' : Option (Option (Nat × FileMeta)) :=
        if sk == "-" then some none else
        match sk.splitOn ":" with
        | [l, n] => match parseLevel l, n.toNat? with
          | some l, some n => ((v.files l).find? (fun f => f.num == n)).map (fun f => some (l, f))
          | _, _ => none
        | _ => none
      match sz', sk' with
      | some sz', some sk' =>
        if hasInverted c v then "inverted" else
        match pickCompaction c m v sz' sk' cp with
        | none => "fault"
        | some none => "null"
        | some (some (l, s)) => s!"{l};{showSetup m s}"
      | _, _ => "bad-op"
    | _, _, _, _ => "bad-op"
  | _ => "bad-op"

end Drv
