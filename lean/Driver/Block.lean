import Driver.Util
import Driver.Formats
import LcdbModel.Model.Block
open Lcdb
namespace Drv

def parseBlockOp (s : String) : Option BlockOp :=
  match s.splitOn ":" with
  | ["F"] => some .first
  | ["L"] => some .last
  | ["N"] => some .next
  | ["P"] => some .prev
  | ["S", k] => (parseBytes k).map .seek
  | ["GE", k] => (parseBytes k).map .seekGE
  | ["GT", k] => (parseBytes k).map .seekGT
  | ["LE", k] => (parseBytes k).map .seekLE
  | ["LT", k] => (parseBytes k).map .seekLT
  | _ => none

def parseEntry (s : String) : Option (Bytes × Bytes) :=
  match s.splitOn "=" with
  | [k, v] => match parseBytes k, parseBytes v with
    | some a, some b => some (a, b)
    | _, _ => none
  | _ => none

def showBStatus : BStatus → String
  | .ok => "ok" | .corrupt => "corrupt"

def showIterState (it : TIter) : String :=
  if it.valid then s!"1,{showBytes it.key},{showBytes it.value},{showBStatus it.status}"
  else s!"0,-,-,{showBStatus it.status}"

/-- run the ops; `none` = the model reached a fault -/
def runBlockOps (c : BlockCmp) : List BlockOp → TIter → List String → Option (List String)
  | [], _, acc => some acc.reverse
  | op :: ops, it, acc =>
    let skipped := (op == .next || op == .prev) && !it.valid
    match (blockIterOps c).apply op it with
    | none => none
    | some it' => runBlockOps c ops it' ((if skipped then "skip" else showIterState it') :: acc)

def iterateBlock (c : BlockCmp) (data : Bytes) (ops : List BlockOp) : String :=
  match runBlockOps c ops (blockIterCreate data) [] with
  | none => "fault:model"
  | some rs => if rs.isEmpty then "." else ";".intercalate rs

/-- mutations applied to a built block: `t:n` truncate to n bytes, `s:off:val` set byte,
    `e:off:val` set the byte `off` positions before the end (`e:0:v` is the last byte) -/
def applyBlockMut (data : Bytes) (m : String) : Option Bytes :=
  match m.splitOn ":" with
  | ["t", n] => n.toNat?.map fun n => data.take n
  | ["s", o, v] => match o.toNat?, v.toNat? with
    | some o, some v => some (if o < data.length then data.set o (UInt8.ofNat v) else data)
    | _, _ => none
  | ["e", o, v] => match o.toNat?, v.toNat? with
    | some o, some v => some (if o < data.length then data.set (data.length - 1 - o) (UInt8.ofNat v) else data)
    | _, _ => none
  | _ => none

def parseBool01 (s : String) : Option Bool :=
  if s == "0" then some false else if s == "1" then some true else none

def handleBlock (fields : List String) : String :=
  match fields with
  | ["bbuild", iv, es] => match iv.toNat?, parseList parseEntry es ";" with
    | some iv, some es => showBytes (blockBuild iv es)
    | _, _ => "bad-op"
  | ["binit", h] => match parseBytes h with
    | some d => match blockInit d with
      | some _ => s!"ok {blockNumRestarts d}"
      | none => "corrupt"
    | none => "bad-op"
  | ["biterx", c, i, h, ops] => match parseCmp c, parseBool01 i, parseBytes h, parseList parseBlockOp ops "," with
    | some c, some i, some d, some ops => iterateBlock (mkBlockCmp c i) d ops
    | _, _, _, _ => "bad-op"
  | ["bbi", iv, c, i, es, ops] =>
    match iv.toNat?, parseCmp c, parseBool01 i, parseList parseEntry es ";", parseList parseBlockOp ops "," with
    | some iv, some c, some i, some es, some ops =>
      let d := blockBuild iv es
      showBytes d ++ " " ++ iterateBlock (mkBlockCmp c i) d ops
    | _, _, _, _, _ => "bad-op"
  | ["bbim", iv, c, i, es, ms, ops] =>
    match iv.toNat?, parseCmp c, parseBool01 i, parseList parseEntry es ";", parseList parseBlockOp ops "," with
    | some iv, some c, some i, some es, some ops =>
      let muts := if ms == "." then [] else ms.splitOn ","
      match muts.foldl (fun acc m => acc.bind (fun d => applyBlockMut d m)) (some (blockBuild iv es)) with
      | some d => showBytes d ++ " " ++ iterateBlock (mkBlockCmp c i) d ops
      | none => "bad-op"
    | _, _, _, _, _ => "bad-op"
  | _ => "bad-op"

end Drv
