import Driver.Util
import LcdbModel.Model.LogFormat
open Lcdb Drv
namespace Drv

def showREvents (ev : List REvent) : String :=
  " ".intercalate (ev.map fun
    | REvent.record r => "r:" ++ showBytes r
    | REvent.drop n => s!"d:{n}")

def handleCore (fields : List String) : String :=
  match fields with
  | ["v32enc", n] | ["v64enc", n] => match n.toNat? with
    | some k => hexOfBytes (varintEnc k)
    | none => "bad-op"
  | ["v32dec", h] => match parseBytes h with
    | some bs => match varint32Read bs with
      | some (v, rest) => s!"ok {v} {rest.length}"
      | none => "fail"
    | none => "bad-op"
  | ["v64dec", h] => match parseBytes h with
    | some bs => match varint64Read bs with
      | some (v, rest) => s!"ok {v} {rest.length}"
      | none => "fail"
    | none => "bad-op"
  | ["f32", n] => match n.toNat? with
    | some k => hexOfBytes (fixedEnc 4 k) ++ s!" {fixedDec (fixedEnc 4 k)}"
    | none => "bad-op"
  | ["f64", n] => match n.toNat? with
    | some k => hexOfBytes (fixedEnc 8 k) ++ s!" {fixedDec (fixedEnc 8 k)}"
    | none => "bad-op"
  | ["slice", h] => match parseBytes h with
    | some bs => match sliceRead bs with
      | some (s, rest) => s!"ok {showBytes s} {rest.length}"
      | none => "fail"
    | none => "bad-op"
  | ["crc", init, h] => match init.toNat?, parseBytes h with
    | some z, some bs => s!"{(crcExtendTab (BitVec.ofNat 32 z) bs).toNat}"
    | _, _ => "bad-op"
  | ["mask", n] => match n.toNat? with
    | some k => s!"{(crcMask (BitVec.ofNat 32 k)).toNat} {(crcUnmask (BitVec.ofNat 32 k)).toNat}"
    | none => "bad-op"
  | ["logw", len0, recs] => match len0.toNat?, parseList parseBytes recs "," with
    | some l0, some rs => showBytes (writeAll l0 rs)
    | _, _ => "bad-op"
  | ["logr", ck, h] => match ck.toNat?, parseBytes h with
    | some c, some bs => showREvents (readAllEvents (c != 0) bs)
    | _, _ => "bad-op"
  -- write records at initial length len0 (after `pre` garbage-free prefix written by an earlier writer), mutate, read
  | ["logwr", ck, recs, muts] =>
    match ck.toNat?, parseList parseBytes recs ",", parseList (fun m => match m.splitOn ":" with
        | ["t", n] => n.toNat?.map (fun k => (0, k, 0))        -- truncate to n bytes
        | ["s", off, v] => match off.toNat?, v.toNat? with      -- set byte
          | some o, some x => some (1, o, x)
          | _, _ => none
        | ["x", off, v] => match off.toNat?, v.toNat? with      -- xor byte
          | some o, some x => some (2, o, x)
          | _, _ => none
        | ["z", off, n] => match off.toNat?, n.toNat? with      -- zero n bytes from off
          | some o, some x => some (3, o, x)
          | _, _ => none
        | _ => none) muts "," with
    | some c, some rs, some ms =>
      let bytes := writeAll 0 rs
      let bytes := ms.foldl (fun (bs : Bytes) (m : Nat × Nat × Nat) =>
        match m with
        | (0, n, _) => bs.take n
        | (1, o, x) => if o < bs.length then bs.set o (UInt8.ofNat x) else bs
        | (2, o, x) => if o < bs.length then bs.set o ((bs.getD o 0) ^^^ UInt8.ofNat x) else bs
        | (_, o, n) => (List.range bs.length).zip bs |>.map (fun (i, b) => if o ≤ i && i < o + n then 0 else b)) bytes
      s!"{bytes.length} " ++ showREvents (readAllEvents (c != 0) bytes)
    | _, _, _ => "bad-op"
  | _ => "bad-op"


end Drv
