/-
  C10 policy tables (hand-written) and the decidable checks that relate them to the tables
  re-extracted from /repo's current source (Generated.atomics, Generated.lockTable, ...).

  * `singleThreadedPhase`  functions that run while no other thread can reach the object, with the reason.
  * `knownUnlocked`        the allow-list of individual accesses that are made WITHOUT the protecting mutex
                           and are nevertheless ordered, with the reason per row.
  * `requiredOrder`        the minimal memory order of every atomic operation of the in-scope files.
  The checks compute the list of offending rows (`lockViolations`, `callViolations`, `entryViolations`,
  `atomicsViolations`, ...): Props/C10.lean proves them empty by kernel evaluation; checks/C10.py prints
  them (`#eval`) when the proof stops building after a source change.
-/
import LcdbModel.Spec.ConcTypes
import LcdbModel.Generated.Atomics
import LcdbModel.Generated.AtomicsMeta
import LcdbModel.Generated.LockTable
namespace Lcdb.ConcPolicy
open Lcdb.Conc

/-! ## lock discipline -/

/-- (function, why no other thread can reach the object while the function runs).
    A name `f<-g` is the translator's context clone: `f` as called from `g` without the mutex. -/
def singleThreadedPhase : List (String × String) := [
  ("ldb_create",
    "constructor: the ldb_t is malloc'ed here and returned only to ldb_open, which takes db->mutex before anything else touches it"),
  ("ldb_destroy_internal",
    "ldb_close / failed ldb_open: the API contract forbids using a handle that is being closed; the locked prefix sets shutting_down and waits until no background compaction is scheduled, ldb_pool_destroy then joins the workers, and only afterwards are the fields read without the mutex"),
  ("ldb_istate_create",
    "constructor of an iterator's cleanup record: malloc'ed here, reachable by others only after ldb_iter_register_cleanup (called with db->mutex held)"),
  ("lru_shard_init", "constructor (from ldb_lru_create): the cache has not been returned yet"),
  ("lru_shard_clear", "destructor (from ldb_lru_destroy): the API contract forbids using a cache that is being destroyed; it destroys the mutex itself"),
  ("lru_shard_unref<-lru_shard_clear", "lru_shard_unref as called from the destructor lru_shard_clear (see there); all other callers hold the shard mutex"),
  ("ldb_lru_create", "constructor: the ldb_lru_t is malloc'ed here and not yet returned"),
  ("ldb_pool_create", "constructor: the pool is malloc'ed here; worker threads are created later, by ldb_pool_schedule, under pool->mutex"),
  ("ldb_tables_create", "constructor of the table cache, whose fields are never written again (the struct has no mutex: the translator reports every WRITE of its fields)")
]

def singleThreadedNames : List String := singleThreadedPhase.map (·.1)

/-- an individual access made without the protecting mutex: (file, function, field, access, justification) -/
structure Unlocked where
  file : String
  function : String
  field : String
  access : Access
  why : String

def knownUnlocked : List Unlocked := [
  ⟨"src/db_impl.c", "ldb_open", "mem", .read,
    "assert(db->mem != NULL) after the unlock (debug builds only): *dbptr is assigned on the next line, so no user thread has the handle; db->mem is written only by ldb_open itself and by ldb_make_room_for_write, which needs a user ldb_write on the published handle"⟩,
  ⟨"src/db_impl.c", "ldb_write", "log", .read,
    "writer-queue token: this region is executed only by the writer at the head of db->writers (the wait loop above, under the mutex, lets a writer proceed only when &w == db->writers.head, and the head is popped only under the mutex after the region). db->log is written only under the mutex AND by the head writer (ldb_make_room_for_write) or during ldb_open: HB class `guarded [mutex, writerToken]` -- writes hold both, reads at least one"⟩,
  ⟨"src/db_impl.c", "ldb_write", "logfile", .read, "writer-queue token, as for db->log"⟩,
  ⟨"src/db_impl.c", "ldb_write", "mem", .read,
    "writer-queue token, as for db->log (db->mem is replaced only by the head writer in ldb_make_room_for_write, under the mutex; the memtable's CONTENT is written through the skiplist publication protocol, see SkiplistPub)"⟩
]

def isKnownUnlocked (r : LockRow) : Bool :=
  knownUnlocked.any (fun u => u.file == r.file && u.function == r.function && u.field == r.field && decide (u.access = r.access))

/-- a lock-table row is acceptable: the mutex is held, or it is definitely not held and the row is covered by a
    single-threaded phase or by the allow-list.  `unknown` is never acceptable. -/
def lockRowOk (r : LockRow) : Bool :=
  decide (r.held = .yes) || (decide (r.held = .no) && (singleThreadedNames.contains r.function || isKnownUnlocked r))

def lockViolations : List LockRow := Generated.lockTable.filter (fun r => !lockRowOk r)

/-- functions of other files that receive the mutex and require it to be held on entry -/
def mutexPassRequiresHeld : List (String × String) := [
  ("ldb_versions_apply", "version_set.c: unlocks *mu around the MANIFEST write and relocks it; REQUIRES *mu held on entry")
]

def callRowOk (c : CallRow) : Bool :=
  match c.expect with
  | .held => decide (c.held = .yes) || (decide (c.held = .no) && singleThreadedNames.contains c.caller)
  | .notHeld => decide (c.held = .no)
  | .passesMutex => decide (c.held = .yes) && (mutexPassRequiresHeld.map (·.1)).contains c.callee

def callViolations : List CallRow := Generated.callTable.filter (fun c => !callRowOk c)

/-- every function leaves the mutex in the state in which it was entered, and no function has irreconcilable callers -/
def entryRowOk (e : EntryRow) : Bool :=
  match e.mode with
  | .asserted | .inferred => decide (e.exit = .yes)
  | .unlocked => decide (e.exit = .no)
  | .mixed | .external => false

def entryViolations : List EntryRow := Generated.lockEntry.filter (fun e => !entryRowOk e)

/-- the state the property statement lists as protected by db->mutex must still be found under the
    "State below is protected by mutex" comment of struct ldb_s (and the other structs keep their protected state) -/
def specProtected : List (String × String × List String) := [
  ("src/db_impl.c", "ldb_s", ["mem", "imm", "logfile", "logfile_number", "log", "seed", "writers", "tmp_batch", "snapshots",
                              "pending_outputs", "background_compaction_scheduled", "manual_compaction", "versions", "bg_error", "stats"]),
  ("src/db_impl.c", "ldb_istate_s", ["version", "mem", "imm"]),
  ("src/util/cache.c", "lru_shard_s", ["usage", "list", "in_use", "table"]),
  ("src/util/cache.c", "ldb_lru_s", ["last_id"]),
  ("src/util/thread_pool.c", "ldb_pool_s", ["queue", "threads", "running", "left", "stop"])
]

def protectedMissing : List (String × String × String) :=
  specProtected.flatMap (fun (file, struct, fields) =>
    match Generated.protectedFields.find? (fun p => p.1 == file && p.2.1 == struct) with
    | none => [(file, struct, "<struct not found>")]
    | some p => (fields.filter (fun f => !p.2.2.2.contains f)).map (fun f => (file, struct, f)))

/-- every entry of `singleThreadedPhase` / `knownUnlocked` is still needed (the lists stay as short as possible) -/
def unusedAllowances : List String :=
  (singleThreadedNames.filter (fun n => !(Generated.lockTable.any (fun r => r.function == n && decide (r.held = .no))))) ++
  ((knownUnlocked.filter (fun u => !(Generated.lockTable.any (fun r =>
      u.file == r.file && u.function == r.function && u.field == r.field && decide (u.access = r.access) && decide (r.held = .no))))).map
    (fun u => u.function ++ ":" ++ u.field))

/-! ## atomics -/

/-- what the policy demands of the memory order of an operation -/
inductive Need where
  | release     -- at least release (release, acq_rel, seq_cst)
  | acquire     -- at least acquire (acquire, acq_rel, seq_cst)
  | any         -- any order, including relaxed (justified per row)
deriving DecidableEq, Repr

def Need.sat : Need → MemOrder → Bool
  | .release, o => o.isRelease
  | .acquire, o => o.isAcquire
  | .any, o => decide (o ≠ .unknown)

/-- (file, function or "*", object expression, op) ↦ minimal order, with the reason -/
structure OrderPolicy where
  file : String
  function : String
  object : String
  op : AtomicOp
  need : Need
  why : String

def requiredOrder : List OrderPolicy := [
  -- skiplist: publication of nodes (src/skiplist.c "Thread safety" comment, invariant (2))
  ⟨"src/skiplist.c", "ldb_skipnode_set", "&node->next[n]", .store, .release,
    "publishes a node link: anybody who reads through this pointer must observe a fully initialised node"⟩,
  ⟨"src/skiplist.c", "ldb_skipnode_next", "&node->next[n]", .load, .acquire,
    "follows a node link: must observe the initialised node behind it"⟩,
  ⟨"src/skiplist.c", "ldb_skipnode_set_nb", "&node->next[n]", .store, .any,
    "no-barrier variant: only inside ldb_skiplist_insert on the NEW node before it is published (nbCallers)"⟩,
  ⟨"src/skiplist.c", "ldb_skipnode_next_nb", "&node->next[n]", .load, .any,
    "no-barrier variant: only inside ldb_skiplist_insert, by the single writer reading links it (or a previous insert of the same externally synchronised writer) wrote"⟩,
  ⟨"src/skiplist.c", "ldb_skiplist_init", "&list->max_height", .init, .any, "construction: the list is not shared yet"⟩,
  ⟨"src/skiplist.c", "ldb_skiplist_maxheight", "&list->max_height", .load, .any,
    "skiplist.c comment in ldb_skiplist_insert: a reader that sees the new height sees either NULL (drops a level) or the new node at the new levels of head"⟩,
  ⟨"src/skiplist.c", "ldb_skiplist_insert", "&list->max_height", .store, .any, "same comment: max_height may be mutated without synchronisation"⟩,
  -- db_impl.c flags
  ⟨"src/db_impl.c", "ldb_create", "&db->shutting_down", .init, .any, "construction"⟩,
  ⟨"src/db_impl.c", "ldb_create", "&db->has_imm", .init, .any, "construction"⟩,
  ⟨"src/db_impl.c", "*", "&db->shutting_down", .store, .release, "flag read by the background thread outside the mutex"⟩,
  ⟨"src/db_impl.c", "*", "&db->shutting_down", .load, .acquire, "pairs with the release store in ldb_destroy_internal"⟩,
  ⟨"src/db_impl.c", "*", "&db->has_imm", .store, .release, "tells the compaction thread that db->imm became non-null / null"⟩,
  ⟨"src/db_impl.c", "ldb_do_compaction_work", "&db->has_imm", .load, .any,
    "a hint only: when it reads non-zero the thread takes db->mutex and re-reads db->imm under it (hasImmRecheck)"⟩,
  -- statistics / counters that publish no data
  ⟨"src/util/arena.c", "*", "&arena->usage", .init, .any, "memory-usage statistic"⟩,
  ⟨"src/util/arena.c", "*", "&arena->usage", .load, .any, "memory-usage statistic"⟩,
  ⟨"src/util/arena.c", "*", "&arena->usage", .fetchAdd, .any, "memory-usage statistic"⟩,
  ⟨"src/util/env_unix_impl.h", "*", "&lim->acquires_allowed", .init, .any, "resource counter (mmap / fd limiter): publishes no data"⟩,
  ⟨"src/util/env_unix_impl.h", "*", "&lim->acquires_allowed", .fetchAdd, .any, "resource counter"⟩,
  ⟨"src/util/env_unix_impl.h", "*", "&lim->acquires_allowed", .fetchSub, .any, "resource counter"⟩,
  -- test hooks (debug builds only, #ifndef NDEBUG)
  ⟨"src/util/env.c", "*", "&state->random_read_counter", .fetchAdd, .any, "test hook counter"⟩,
  ⟨"src/util/env.c", "*", "&state->manifest_write_error", .load, .acquire, "test hook flag"⟩,
  ⟨"src/util/env.c", "*", "&state->no_space", .load, .acquire, "test hook flag"⟩,
  ⟨"src/util/env.c", "*", "&state->manifest_sync_error", .load, .acquire, "test hook flag"⟩,
  ⟨"src/util/env.c", "*", "&state->data_sync_error", .load, .acquire, "test hook flag"⟩,
  ⟨"src/util/env.c", "*", "&state->delay_data_sync", .load, .acquire, "test hook flag"⟩,
  ⟨"src/util/env.c", "*", "&state->non_writable", .load, .acquire, "test hook flag"⟩
]

/-- files that are not part of the pinned (POSIX) build: their rows are listed but not judged -/
def outOfScopeFiles : List (String × String) := [
  ("src/util/env_win_impl.h", "Windows environment, not compiled in the pinned build"),
  ("src/util/port_win_impl.h", "Windows port layer, not compiled in the pinned build")
]

def OrderPolicy.matches (p : OrderPolicy) (r : AtomicRow) : Bool :=
  p.file == r.file && (p.function == "*" || p.function == r.function) && p.object == r.object && decide (p.op = r.op)

/-- the most specific policy row wins: an exact function match shadows the "*" rows -/
def policyFor (r : AtomicRow) : List OrderPolicy :=
  let exact := requiredOrder.filter (fun p => p.matches r && p.function != "*")
  if exact.isEmpty then requiredOrder.filter (fun p => p.matches r) else exact

def atomicRowOk (r : AtomicRow) : Bool :=
  decide (r.op ≠ .plain) && decide (r.op ≠ .unknown) && decide (r.order ≠ .unknown) &&
  ((outOfScopeFiles.map (·.1)).contains r.file ||
   (!(policyFor r).isEmpty && (policyFor r).all (fun p => p.need.sat r.order)))

def atomicsViolations : List AtomicRow := Generated.atomics.filter (fun r => !atomicRowOk r)

/-- the no-barrier skiplist helpers may be called only from these functions -/
def nbCallers : List (String × String × List String) := [
  ("src/skiplist.c", "ldb_skipnode_set_nb", ["ldb_skiplist_insert"]),
  ("src/skiplist.c", "ldb_skipnode_next_nb", ["ldb_skiplist_insert"])
]

def wrapperViolations : List WrapperCall :=
  Generated.atomicWrapperCalls.filter (fun c => nbCallers.any (fun p => p.1 == c.file && p.2.1 == c.callee && !p.2.2.contains c.caller))

/-- in ldb_skiplist_insert the publishing store comes (textually) after the no-barrier initialisation of the new node,
    and the insert does publish through the release helper -/
def insertPublishesLast : Bool :=
  let calls := Generated.atomicWrapperCalls.filter (fun c => c.file == "src/skiplist.c" && c.caller == "ldb_skiplist_insert")
  let nb := calls.filter (fun c => c.callee == "ldb_skipnode_set_nb")
  let pub := calls.filter (fun c => c.callee == "ldb_skipnode_set")
  !nb.isEmpty && !pub.isEmpty && nb.all (fun a => pub.all (fun b => a.line ≤ b.line))

/-- readers (the find/iterator functions) follow links only through the acquire helper -/
def readersUseAcquire : Bool :=
  ["ldb_skiplist_find_ge", "ldb_skiplist_find_lt", "ldb_skiplist_find_last", "ldb_skipiter_next", "ldb_skipiter_first"].all (fun f =>
    Generated.atomicWrapperCalls.any (fun c => c.file == "src/skiplist.c" && c.caller == f && c.callee == "ldb_skipnode_next"))

/-- the relaxed has_imm hint is re-checked under the mutex in the same function -/
def hasImmRecheck : Bool :=
  Generated.lockTable.any (fun r => r.file == "src/db_impl.c" && r.function == "ldb_do_compaction_work" && r.field == "imm" &&
    decide (r.access = .read) && decide (r.held = .yes))

/-- orders found in the current source for the two skiplist link helpers (none: helper not found) -/
def skiplistStoreOrder : Option MemOrder :=
  (Generated.atomics.find? (fun r => r.file == "src/skiplist.c" && r.function == "ldb_skipnode_set" && decide (r.op = .store))).map (·.order)

def skiplistLoadOrder : Option MemOrder :=
  (Generated.atomics.find? (fun r => r.file == "src/skiplist.c" && r.function == "ldb_skipnode_next" && decide (r.op = .load))).map (·.order)

/-- translator self-checks: the tokenizer found as many call sites as gcc's preprocessor expands, and nothing was noted as unparsed -/
def crossCheckMismatch : List (String × Nat × Nat) := Generated.atomicsCrossCheck.filter (fun r => r.2.1 != r.2.2)

def translatorNotes : List String := Generated.atomicsNotes ++ Generated.lockNotes ++ Generated.conditionalNotes

end Lcdb.ConcPolicy
