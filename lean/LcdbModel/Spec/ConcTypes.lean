/-
  Row types of the concurrency tables that tools/gen_conc.py (translators T3/T4) re-extracts from
  /repo's current source on every check (LcdbModel/Generated/Atomics.lean, AtomicsMeta.lean,
  LockTable.lean).  Hand-written; the generated files only contain lists of these rows.
-/
namespace Lcdb.Conc

/-- kind of an atomic operation.  `plain` = an object declared `ldb_atomic(T)` is used without going
    through an `ldb_atomic_*` macro; `unknown` = the translator could not parse the call site. -/
inductive AtomicOp where
  | load | store | fetchAdd | fetchSub | exchange | compareExchange | init | plain | unknown
deriving DecidableEq, Repr

/-- C11 memory orders (`ldb_order_*`); `unknown` = not recognised by the translator -/
inductive MemOrder where
  | relaxed | consume | acquire | release | acqRel | seqCst | unknown
deriving DecidableEq, Repr

/-- the order has release semantics when used on a store / RMW -/
def MemOrder.isRelease : MemOrder → Bool
  | .release | .acqRel | .seqCst => true
  | _ => false

/-- the order has acquire semantics when used on a load / RMW (`consume` is NOT counted) -/
def MemOrder.isAcquire : MemOrder → Bool
  | .acquire | .acqRel | .seqCst => true
  | _ => false

/-- T3 row: one atomic operation in the C source -/
structure AtomicRow where
  file : String
  function : String
  object : String
  op : AtomicOp
  order : MemOrder
  line : Nat
deriving DecidableEq, Repr

/-- a call (in the same file) of a function that contains an atomic operation -/
structure WrapperCall where
  file : String
  caller : String
  callee : String
  line : Nat
deriving DecidableEq, Repr

/-- an object declared `ldb_atomic(T) name` / `ldb_atomic_ptr(T) name` -/
structure AtomicDecl where
  file : String
  container : String
  name : String
  kind : String
  ctype : String
  line : Nat
deriving DecidableEq, Repr

inductive Access where
  | read | write
deriving DecidableEq, Repr

/-- is the protecting mutex held at this program point (result of the intraprocedural walk) -/
inductive Held where
  | yes | no | unknown
deriving DecidableEq, Repr

/-- T4 row: one access to a mutex-protected field.  Pseudo fields: `<cond-wait>` (the mutex must be
    held when waiting), `<assert-held>` (an `ldb_mutex_assert_held` in the source: the walk must agree),
    `<unlock-not-held>`, `<lock-while-held>` (always reported with held ≠ yes), `<refcount>` (a call of
    ldb_memtable_ref/unref or ldb_version_ref/unref: their plain reference counts are protected by db->mutex). -/
structure LockRow where
  file : String
  function : String
  field : String
  access : Access
  held : Held
  line : Nat
deriving DecidableEq, Repr

/-- what a callee expects of the protecting mutex at a call site -/
inductive Expect where
  | held          -- callee is entered with the mutex held (asserts it, or all its callers hold it)
  | notHeld       -- callee locks the mutex itself: calling it with the mutex held would self-deadlock
  | passesMutex   -- the mutex is passed to a function of another file
deriving DecidableEq, Repr

/-- how the entry state of a function is known -/
inductive EntryMode where
  | asserted      -- first statement is ldb_mutex_assert_held(&x->mutex)
  | inferred      -- static function, every call site in the file holds the mutex
  | unlocked      -- public / callback / thread entry, or every call site is without the mutex
  | mixed         -- irreconcilable call sites: every access inside is reported `unknown`
  | external      -- function of another file
deriving DecidableEq, Repr

structure CallRow where
  file : String
  caller : String
  callee : String
  expect : Expect
  held : Held
  line : Nat
  mode : EntryMode
deriving DecidableEq, Repr

structure EntryRow where
  file : String
  domain : String
  function : String
  mode : EntryMode
  exit : Held
deriving DecidableEq, Repr

end Lcdb.Conc
