/-
  Model of the buffered writable file of src/util/env_unix_impl.h and of the small-file writers above it:

    ldb_write (:416)            -> `osWrite`      the EINTR / short-write loop around write(2)
    ldb_fsync (:440)            -> `osFsync`      fsync retried on EINTR (the pinned build has no HAVE_FDATASYNC)
    ldb_try_open/ldb_open (:317)-> `osOpen`       O_CLOEXEC attempt, retry without it on EINVAL, retry on EINTR
    ldb_sync_dir (:700)         -> `syncDir`      open(dir) / fsync (EBADF, EINVAL ignored) / close
    struct ldb_wfile_s (:1273)  -> `WF`           buf (pos = buf.length), manifest, fd open
    ldb_wfile_write (:1312)     -> `wfWrite`
    ldb_wfile_append0 (:1328)   -> `append0`      copy what fits / flush / small rest to buffer / large rest direct
    ldb_wfile_flush (:1360)     -> `flush`        NOTE: pos = 0 also when the write failed
    ldb_wfile_sync0 (:1367)     -> `sync0`        dir fsync (MANIFEST only), flush, fsync
    ldb_wfile_close (:1383)     -> `close`        flush, close(2), fd = -1
    ldb_wfile_destroy (:1395)   -> `destroy`      close(2) if the descriptor is still open (no flush)
    env.c ldb_write_file (:142) -> `writeFile`    create, append, [sync], close, destroy, unlink on error
    filename.c ldb_set_current_file (:159) -> `setCurrentFile`
    log_writer.c emit_physical_record (:61) -> `emitPhysicalRecord`, ldb_writer_add_record (:108) -> `addRecordFile`

  The operating system is a parameter: an `Oracle` holds, per kind of system call, the finite script of answers
  the environment gives to the successive calls of that kind; an exhausted script answers "success" (a write then
  transfers everything it was asked to).  The output is the list of system calls issued (`Sys`), with the bytes
  each write(2) actually transferred.  `Fs` gives that list its meaning on a directory of files.

  Non-termination: `ldb_write` spins for as long as write(2) keeps answering EINTR (or 0).  An infinite stream of
  such answers is NOT representable here: scripts are finite lists, so every run of the model is a run of the C code
  under an environment that eventually makes progress.  What a finite burst does is modelled exactly.

  `ldb_env_state` testing hooks of env.c are compiled out (NDEBUG) and not modelled.
-/
import LcdbModel.Model.Coding
import LcdbModel.Model.LogFormat
import LcdbModel.Model.Disk
namespace Lcdb.WFile
open Lcdb.Disk (FName)

inductive Errno where
  | eintr | eio | ebadf | enospc | einval
  deriving Repr, DecidableEq

/-- status returned by the lcdb functions: `ldb_system_error()` returns `errno` itself -/
inductive Rc where
  | ok
  | err (e : Errno)
  deriving Repr, DecidableEq

/-- answer of the environment to one write(2) call -/
inductive WAns where
  | ok (k : Nat)        -- `k` bytes transferred (clipped to the request; 0 = no progress)
  | allBut (j : Nat)    -- all but `j` bytes of the request transferred
  | half                -- half of the request (rounded up) transferred
  | err (e : Errno)
  deriving Repr, DecidableEq

/-- bytes transferred by a call that asked for `req` bytes (0 for a failing call) -/
def WAns.xfer (req : Nat) : WAns → Nat
  | .ok k => min k req
  | .allBut j => req - j
  | .half => (req + 1) / 2
  | .err _ => 0

/-- answer to any other system call -/
inductive Ans where
  | ok
  | err (e : Errno)
  deriving Repr, DecidableEq

/-- a failure the loops do not retry -/
def WAns.isFault : WAns → Bool
  | .err e => e != .eintr
  | _ => false

def Ans.isFault : Ans → Bool
  | .err e => e != .eintr
  | .ok => false

/-- scripts of answers, one per kind of system call, consumed in call order; exhausted = success -/
structure Oracle where
  w : List WAns := []     -- write(2)
  s : List Ans := []      -- fsync(2), of files and of the directory
  o : List Ans := []      -- open(2), of files and of the directory
  c : List Ans := []      -- close(2)
  r : List Ans := []      -- rename(2)
  u : List Ans := []      -- unlink(2)
  deriving Repr

/-- one system call as issued, with its outcome (`none` = success) -/
inductive Sys where
  | openW (f : FName) (r : Option Errno)       -- open(O_TRUNC|O_WRONLY|O_CREAT)
  | openDir (r : Option Errno)                 -- open(dirname, O_RDONLY)
  | write (req : Nat) (data : Bytes)           -- write(fd, req bytes) returned data.length; `data` = bytes transferred
  | writeErr (req : Nat) (e : Errno)           -- write(fd, req bytes) returned -1
  | fsync (dir : Bool) (r : Option Errno)
  | close (dir : Bool) (r : Option Errno)
  | rename (a b : FName) (r : Option Errno)
  | unlink (a : FName) (r : Option Errno)
  deriving Repr, DecidableEq

/-- LDB_WRITE_BUFFER -/
def writeBuffer : Nat := 65536
/-- `LDB_MIN(len, 1 << 30)` in ldb_write -/
def maxReq : Nat := 1073741824

theorem maxReq_pos : 0 < maxReq := by decide

/-- the bytes that reached the descriptor -/
def transferred : List Sys → Bytes
  | [] => []
  | .write _ d :: t => d ++ transferred t
  | _ :: t => transferred t

/-! ### the loops around single system calls -/

structure WRes where
  ev : List Sys
  rc : Rc
  rest : List WAns

/-- what the loop of `ldb_write` does once the script is exhausted: every call transfers its whole request -/
def drainGo : Nat → Bytes → List Sys
  | 0, _ => []
  | fuel+1, data =>
    if data.isEmpty then [] else
    let req := min data.length maxReq
    .write req (data.take req) :: drainGo fuel (data.drop req)

/-- `ldb_write(fd, data, len)`: `while (len > 0) { do nwrite = write(fd, buf, min(len, 1<<30)); while (nwrite < 0 &&
    errno == EINTR); if (nwrite < 0) return -1; buf += nwrite; len -= nwrite; }`.  One script entry per write(2) call. -/
def osWrite : Bytes → List WAns → WRes
  | data, [] => ⟨drainGo data.length data, .ok, []⟩
  | data, a :: rest =>
    if data.isEmpty then ⟨[], .ok, a :: rest⟩ else
    let req := min data.length maxReq
    match a with
    | .err e =>
      if e = .eintr then
        let r := osWrite data rest
        ⟨.writeErr req e :: r.ev, r.rc, r.rest⟩
      else ⟨[.writeErr req e], .err e, rest⟩
    | a =>
      let r := osWrite (data.drop (a.xfer req)) rest
      ⟨.write req (data.take (a.xfer req)) :: r.ev, r.rc, r.rest⟩

structure SRes where
  ev : List Sys
  rc : Rc
  rest : List Ans

/-- `ldb_fsync`: `do rc = fsync(fd); while (rc != 0 && errno == EINTR)` -/
def osFsync (dir : Bool) : List Ans → SRes
  | [] => ⟨[.fsync dir none], .ok, []⟩
  | .ok :: rest => ⟨[.fsync dir none], .ok, rest⟩
  | .err e :: rest =>
    if e = .eintr then
      let r := osFsync dir rest
      ⟨.fsync dir (some e) :: r.ev, r.rc, r.rest⟩
    else ⟨[.fsync dir (some e)], .err e, rest⟩

/-- next answer of a script whose calls are not retried -/
def popAns : List Ans → Option Errno × List Ans
  | [] => (none, [])
  | .ok :: rest => (none, rest)
  | .err e :: rest => (some e, rest)

structure ORes where
  ev : List Sys
  r : Option Errno
  rest : List Ans

/-- `ldb_open`: `do fd = ldb_try_open(..) while (fd < 0 && errno == EINTR)`, where `ldb_try_open` first tries with
    O_CLOEXEC and, when that fails with EINVAL, once more without -/
def osOpen (mk : Option Errno → Sys) : List Ans → ORes
  | [] => ⟨[mk none], none, []⟩
  | .ok :: rest => ⟨[mk none], none, rest⟩
  | .err .eintr :: rest =>
    let r := osOpen mk rest
    ⟨mk (some .eintr) :: r.ev, r.r, r.rest⟩
  | .err .einval :: rest =>
    match rest with
    | [] => ⟨[mk (some .einval), mk none], none, []⟩
    | .ok :: rest' => ⟨[mk (some .einval), mk none], none, rest'⟩
    | .err .eintr :: rest' =>
      let r := osOpen mk rest'
      ⟨mk (some .einval) :: mk (some .eintr) :: r.ev, r.r, r.rest⟩
    | .err e :: rest' => ⟨[mk (some .einval), mk (some e)], some e, rest'⟩
  | .err e :: rest => ⟨[mk (some e)], some e, rest⟩

/-! ### the writable file -/

structure WF where
  buf : Bytes             -- file->buf[0 .. file->pos)
  manifest : Bool
  fdOpen : Bool
  deriving Repr

/-- result of an operation that may fail without ending the file's life -/
structure Res where
  ev : List Sys
  rc : Rc
  orc : Oracle
  f : WF

/-- result of a function without a file handle -/
structure FRes where
  ev : List Sys
  rc : Rc
  orc : Oracle

/-- `ldb_wfile_write` -/
def wfWrite (data : Bytes) (orc : Oracle) : FRes :=
  let r := osWrite data orc.w
  ⟨r.ev, r.rc, { orc with w := r.rest }⟩

/-- `ldb_wfile_flush`: `rc = ldb_wfile_write(file, file->buf, file->pos); file->pos = 0; return rc;` -/
def flush (f : WF) (orc : Oracle) : Res :=
  let r := wfWrite f.buf orc
  ⟨r.ev, r.rc, r.orc, { f with buf := [] }⟩

/-- `ldb_wfile_append0` with buffer capacity `cap` (LDB_WRITE_BUFFER).  `cap - pos` is a size_t subtraction in C;
    `buf.length ≤ cap` is an invariant of every reachable file (`Lcdb.WFile.run_buf_le`), so it never wraps. -/
def append0 (cap : Nat) (f : WF) (data : Bytes) (orc : Oracle) : Res :=
  let copy := min data.length (cap - f.buf.length)
  let f1 : WF := { f with buf := f.buf ++ data.take copy }
  let rest := data.drop copy
  if rest.isEmpty then ⟨[], .ok, orc, f1⟩ else
  let r := flush f1 orc
  if r.rc ≠ .ok then r else
  if rest.length < cap then ⟨r.ev, .ok, r.orc, { r.f with buf := rest }⟩
  else
    let w := wfWrite rest r.orc
    ⟨r.ev ++ w.ev, w.rc, w.orc, r.f⟩

/-- `if (rc == EBADF || rc == EINVAL) rc = LDB_OK;` in ldb_sync_dir -/
def ignoreBadf : Rc → Rc
  | .err .ebadf => .ok
  | .err .einval => .ok
  | r => r

/-- `ldb_sync_dir`: the close's result is ignored; EBADF / EINVAL of the fsync are ignored -/
def syncDir (orc : Oracle) : FRes :=
  let o := osOpen Sys.openDir orc.o
  match o.r with
  | some e => ⟨o.ev, .err e, { orc with o := o.rest }⟩
  | none =>
    let s := osFsync true orc.s
    let c := popAns orc.c
    ⟨o.ev ++ s.ev ++ [.close true c.1], ignoreBadf s.rc, { orc with o := o.rest, s := s.rest, c := c.2 }⟩

/-- `ldb_wfile_sync0` -/
def sync0 (f : WF) (orc : Oracle) : Res :=
  let d : FRes := if f.manifest then syncDir orc else ⟨[], .ok, orc⟩
  if d.rc ≠ .ok then ⟨d.ev, d.rc, d.orc, f⟩ else
  let r := flush f d.orc
  if r.rc ≠ .ok then ⟨d.ev ++ r.ev, r.rc, r.orc, r.f⟩ else
  let s := osFsync false r.orc.s
  ⟨d.ev ++ r.ev ++ s.ev, s.rc, { r.orc with s := s.rest }, r.f⟩

/-- `ldb_wfile_close`: `rc = flush; if (close(fd) != 0 && rc == LDB_OK) rc = errno; fd = -1` -/
def close (f : WF) (orc : Oracle) : Res :=
  let r := flush f orc
  let c := popAns r.orc.c
  let rc := if r.rc = .ok then (match c.1 with | some e => Rc.err e | none => Rc.ok) else r.rc
  ⟨r.ev ++ [.close false c.1], rc, { r.orc with c := c.2 }, { r.f with fdOpen := false }⟩

/-- `ldb_wfile_destroy`: `if (file->fd >= 0) close(file->fd)` — whatever is still buffered is dropped -/
def destroy (f : WF) (orc : Oracle) : List Sys × Oracle :=
  if f.fdOpen then
    let c := popAns orc.c
    ([.close false c.1], { orc with c := c.2 })
  else ([], orc)

/-- `ldb_remove_file` (the callers here ignore its result) -/
def unlinkFile (a : FName) (orc : Oracle) : List Sys × Oracle :=
  let u := popAns orc.u
  ([.unlink a u.1], { orc with u := u.2 })

/-- `ldb_is_manifest(filename)`: the base name starts with "MANIFEST" -/
def isManifest : FName → Bool
  | .manifest _ => true
  | _ => false

/-- `ldb_write_file` after the file was created: append, [sync], close, destroy, remove on error -/
def writeBody (cap : Nat) (name : FName) (data : Bytes) (shouldSync : Bool) (orc : Oracle) : FRes :=
  let f0 : WF := { buf := [], manifest := isManifest name, fdOpen := true }
  let a := append0 cap f0 data orc
  let s : Res := if a.rc = .ok ∧ shouldSync = true then sync0 a.f a.orc else ⟨[], a.rc, a.orc, a.f⟩
  let c : Res := if s.rc = .ok then close s.f s.orc else ⟨[], s.rc, s.orc, s.f⟩
  let d := destroy c.f c.orc
  let u := if c.rc ≠ .ok then unlinkFile name d.2 else ([], d.2)
  ⟨a.ev ++ s.ev ++ c.ev ++ d.1 ++ u.1, c.rc, u.2⟩

/-- `ldb_write_file(fname, data, should_sync)`: a failed create returns at once (nothing to remove) -/
def writeFile (cap : Nat) (name : FName) (data : Bytes) (shouldSync : Bool) (orc : Oracle) : FRes :=
  let o := osOpen (Sys.openW name) orc.o
  match o.r with
  | some e => ⟨o.ev, .err e, { orc with o := o.rest }⟩
  | none =>
    let b := writeBody cap name data shouldSync { orc with o := o.rest }
    ⟨o.ev ++ b.ev, b.rc, b.orc⟩

/-- `ldb_encode_int(zp, x, pad)`: decimal, left-padded with '0' to at least `pad` digits -/
def encodeInt (x pad : Nat) : List Char :=
  let d := Nat.toDigits 10 x
  List.replicate (pad - d.length) '0' ++ d

def asciiBytes (s : List Char) : Bytes := s.map fun c => UInt8.ofNat c.toNat

/-- the contents written to the pointer file: `sprintf(man, "MANIFEST-%s\n", id)` -/
def ptrBytes (n : Nat) : Bytes := asciiBytes ("MANIFEST-".toList ++ encodeInt n 6 ++ ['\n'])

/-- `ldb_set_current_file(dbname, desc_number)` on the current tree: write `<n>.dbtmp` (synced), rename it to
    CURRENT, fsync the directory (result ignored); remove the temp file on any error -/
def setCurrentFile (cap : Nat) (n : Nat) (orc : Oracle) : FRes :=
  let w := writeFile cap (.tmp n) (ptrBytes n) true orc
  if w.rc = .ok then
    let r := popAns w.orc.r
    match r.1 with
    | none =>
      let d := syncDir { w.orc with r := r.2 }
      ⟨w.ev ++ [.rename (.tmp n) .current none] ++ d.ev, .ok, d.orc⟩
    | some e =>
      let u := unlinkFile (.tmp n) { w.orc with r := r.2 }
      ⟨w.ev ++ [.rename (.tmp n) .current (some e)] ++ u.1, .err e, u.2⟩
  else
    let u := unlinkFile (.tmp n) w.orc
    ⟨w.ev ++ u.1, w.rc, u.2⟩

/-! ### the log writer driving the file -/

/-- the file part of `emit_physical_record`: append header, append payload, flush -/
def emitPhysicalRecord (cap : Nat) (f : WF) (hdr payload : Bytes) (orc : Oracle) : Res :=
  let a := append0 cap f hdr orc
  if a.rc ≠ .ok then a else
  let b := append0 cap a.f payload a.orc
  if b.rc ≠ .ok then ⟨a.ev ++ b.ev, b.rc, b.orc, b.f⟩ else
  let c := flush b.f b.orc
  ⟨a.ev ++ b.ev ++ c.ev, c.rc, c.orc, c.f⟩

structure LRes where
  ev : List Sys
  rc : Rc
  orc : Oracle
  f : WF
  off : Nat

/-- the do/while of `ldb_writer_add_record` over a file (cf. `Lcdb.addRecordGo` for the bytes): the status of the
    append of the block trailer is IGNORED by the C code; `block_offset` advances whether or not the emit succeeded;
    the loop stops at the first failed emit -/
def addRecordFileGo (cap : Nat) : Nat → Nat → Bytes → Bool → WF → Oracle → LRes
  | 0, off, _, _, f, orc => ⟨[], .ok, orc, f, off⟩
  | fuel+1, off, left, isBegin, f, orc =>
    let leftover := logBlockSize - off
    let p : Res := if leftover < logHeaderSize ∧ 0 < leftover then append0 cap f (List.replicate leftover 0) orc
                   else ⟨[], .ok, orc, f⟩
    let off1 := if leftover < logHeaderSize then 0 else off
    let avail := logBlockSize - off1 - logHeaderSize
    let fragLen := min left.length avail
    let isEnd := left.length == fragLen
    let frag := left.take fragLen
    let e := emitPhysicalRecord cap p.f ((emitPhysical (recType isBegin isEnd) frag).take logHeaderSize) frag p.orc
    let off2 := off1 + logHeaderSize + fragLen
    let rest := left.drop fragLen
    if e.rc ≠ .ok ∨ rest.isEmpty then ⟨p.ev ++ e.ev, e.rc, e.orc, e.f, off2⟩
    else
      let r := addRecordFileGo cap fuel off2 rest false e.f e.orc
      ⟨p.ev ++ e.ev ++ r.ev, r.rc, r.orc, r.f, r.off⟩

def addRecordFile (cap : Nat) (off : Nat) (rec : Bytes) (f : WF) (orc : Oracle) : LRes :=
  addRecordFileGo cap (rec.length + 2) off rec true f orc

/-! ### sequences of operations on one file -/

inductive Op where
  | append (d : Bytes)
  | flush
  | sync
  deriving Repr, DecidableEq

structure RunSt where
  f : WF
  orc : Oracle
  tr : List Sys        -- every system call so far, in issue order
  rcs : List Rc        -- the status of every operation so far, in order
  app : Bytes          -- every byte handed to append so far (the "appended stream")

def RunSt.init (manifest : Bool) (orc : Oracle) : RunSt :=
  { f := { buf := [], manifest := manifest, fdOpen := true }, orc := orc, tr := [], rcs := [], app := [] }

def applyOp (cap : Nat) (f : WF) (orc : Oracle) : Op → Res
  | .append d => append0 cap f d orc
  | .flush => flush f orc
  | .sync => sync0 f orc

def opData : Op → Bytes
  | .append d => d
  | _ => []

def step (cap : Nat) (st : RunSt) (op : Op) : RunSt :=
  let r := applyOp cap st.f st.orc op
  { f := r.f, orc := r.orc, tr := st.tr ++ r.ev, rcs := st.rcs ++ [r.rc], app := st.app ++ opData op }

def run (cap : Nat) (st : RunSt) (ops : List Op) : RunSt := ops.foldl (step cap) st

/-! ### what a list of system calls does to a directory -/

/-- files by name, whether a file's whole current contents were covered by an fsync, the file open for writing -/
structure Fs where
  files : FName → Option Bytes
  synced : FName → Bool
  cur : Option FName

def Fs.step (fs : Fs) : Sys → Fs
  | .openW f none =>
    { files := fun g => if g = f then some [] else fs.files g,
      synced := fun g => if g = f then false else fs.synced g, cur := some f }
  | .write _ d =>
    match fs.cur with
    | some f => { fs with files := fun g => if g = f then some ((fs.files f).getD [] ++ d) else fs.files g,
                          synced := fun g => if g = f then false else fs.synced g }
    | none => fs
  | .fsync false none =>
    match fs.cur with
    | some f => { fs with synced := fun g => if g = f then true else fs.synced g }
    | none => fs
  | .close false _ => { fs with cur := none }
  | .rename a b none =>
    match fs.files a with
    | some body =>
      { fs with files := fun g => if g = b then some body else if g = a then none else fs.files g,
                synced := fun g => if g = b then fs.synced a else if g = a then false else fs.synced g }
    | none => fs
  | .unlink a none =>
    { fs with files := fun g => if g = a then none else fs.files g,
              synced := fun g => if g = a then false else fs.synced g }
  | _ => fs

def Fs.run (fs : Fs) (t : List Sys) : Fs := t.foldl Fs.step fs

/-! ### abstraction to the events of the storage-protocol model (`Lcdb.Disk.Ev`)

  `Disk.Ev.append f r` is "the write(2) that completes record `r`": with short writes the record is complete at the
  call after which the file holds all of `full`. -/

def absGo (f : FName) (full : Bytes) (r : Disk.Rec) : Bytes → List Sys → List Disk.Ev
  | _, [] => []
  | _, .openW g none :: t => (if g = f then [Disk.Ev.create f] else []) ++ absGo f full r [] t
  | cur, .write _ d :: t =>
    (if cur ≠ full ∧ cur ++ d = full then [Disk.Ev.append f r] else []) ++ absGo f full r (cur ++ d) t
  | cur, .fsync false none :: t => Disk.Ev.sync f :: absGo f full r cur t
  | cur, .fsync true none :: t => Disk.Ev.syncDir :: absGo f full r cur t
  | cur, .rename a b none :: t => Disk.Ev.rename a b :: absGo f full r cur t
  | cur, .unlink a none :: t => Disk.Ev.unlink a :: absGo f full r cur t
  | cur, _ :: t => absGo f full r cur t

end Lcdb.WFile
