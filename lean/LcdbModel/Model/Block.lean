/-
  Model of src/table/block_builder.c (ldb_blockgen_*), src/table/block.c (ldb_block_init,
  decode_entry, ldb_blockiter_*) and the generic seek helpers of src/table/iterator.c
  (ldb_iter_seek_ge/gt/le/lt).

  Offsets are `Nat`.  The C code keeps them in `uint32_t`; the model is exact for blocks smaller
  than 4 GiB (every offset is bounded by the block size), which is the only range the harness can
  exercise.

  Memory safety: every C read whose bounds are not checked *at the read itself* goes through a
  primitive that returns `none` when the read would leave the buffer (or when an `assert`ed
  precondition that an NDEBUG build does not check is violated).  `none` = **fault** (undefined
  behaviour in C), to be distinguished from the *corrupt* status the C code reports.  Loops take
  fuel; running out of fuel is also reported as `none`.  `Props/BlockProps.lean` proves that on
  arbitrary bytes no operation ever returns `none`.
-/
import LcdbModel.Model.Coding
import LcdbModel.Model.InternalKey
namespace Lcdb

/-! ### Block builder -/

/-- the `while (shared < min_length && last[shared] == key[shared])` loop of ldb_blockgen_add -/
def sharedLen : Bytes → Bytes → Nat
  | a :: as, b :: bs => if a == b then sharedLen as bs + 1 else 0
  | _, _ => 0

/-- ldb_blockgen_t: buffer, restart offsets (in push order), entries since restart, last key -/
structure BlockGen where
  buffer : Bytes
  restarts : List Nat
  counter : Nat
  lastKey : Bytes
  deriving Repr

/-- ldb_blockgen_init / ldb_blockgen_reset -/
def blockGenInit : BlockGen := { buffer := [], restarts := [0], counter := 0, lastKey := [] }

/-- ldb_blockgen_add (NDEBUG: neither the ordering of keys nor `interval ≥ 1` is checked).
    `ldb_buffer_varint32` takes a `uint32_t`, hence the `% 2^32`. -/
def blockGenAdd (interval : Nat) (g : BlockGen) (key value : Bytes) : BlockGen :=
  let share := decide (g.counter < interval)
  let shared := if share then sharedLen g.lastKey key else 0
  let restarts := if share then g.restarts else g.restarts ++ [g.buffer.length]
  let counter := if share then g.counter else 0
  let nonShared := key.length - shared
  { buffer := g.buffer ++ (varintEnc (shared % 2 ^ 32) ++ varintEnc (nonShared % 2 ^ 32)
              ++ varintEnc (value.length % 2 ^ 32) ++ key.drop shared ++ value)
    restarts := restarts
    counter := counter + 1
    lastKey := g.lastKey.take shared ++ key.drop shared }

/-- ldb_blockgen_finish: restart array as fixed32 (truncating), then the count -/
def blockGenFinish (g : BlockGen) : Bytes :=
  g.buffer ++ (g.restarts.map (fixedEnc 4)).flatten ++ fixedEnc 4 g.restarts.length

def blockGenAddAll (interval : Nat) (g : BlockGen) (entries : List (Bytes × Bytes)) : BlockGen :=
  entries.foldl (fun g e => blockGenAdd interval g e.1 e.2) g

/-- init, add every entry, finish -/
def blockBuild (interval : Nat) (entries : List (Bytes × Bytes)) : Bytes :=
  blockGenFinish (blockGenAddAll interval blockGenInit entries)

/-! ### ldb_block_init -/

/-- `data[off .. off+4)` decoded as fixed32; `none` (fault) when the read leaves the buffer -/
def readFixed32At (data : Bytes) (off : Nat) : Option Nat :=
  if data.length < off + 4 then none else some (fixedDec ((data.drop off).take 4))

/-- ldb_block_restarts: the last four bytes (the caller has checked `size ≥ 4`) -/
def blockNumRestarts (data : Bytes) : Nat := fixedDec (data.drop (data.length - 4))

/-- ldb_block_init: `some restart_offset`, or `none` for the error marker `size := 0` -/
def blockInit (data : Bytes) : Option Nat :=
  if data.length < 4 then none
  else
    let n := blockNumRestarts data
    if n > (data.length - 4) / 4 then none
    else some (data.length - (1 + n) * 4)

/-! ### decode_entry -/

/-- decode_entry on the window `[p, limit)` of `xn = limit - p ≥ 3` bytes, of which `hdr` holds the
    first `min xn 15` (three varint32 never span more than 15 bytes, and each read is bounded by
    the bytes that remain, so the truncation is unobservable — proved: `decodeEntryWin_take`,
    `decodeEntry_eq_whole` in Lemmas/BlockExtras.lean; it keeps the executable model from copying
    the whole block for every entry).  Result `(shared, non_shared, value_length,
    header bytes)`; `none` = NULL.  The fast path (three one-byte varints) is kept as in the C. -/
def decodeEntryWin (hdr : Bytes) (xn : Nat) : Option (Nat × Nat × Nat × Nat) :=
  match hdr with
  | b0 :: b1 :: b2 :: _ =>
    if b0.toNat < 128 && b1.toNat < 128 && b2.toNat < 128 then
      if xn - 3 < b1.toNat + b2.toNat then none
      else some (b0.toNat, b1.toNat, b2.toNat, 3)
    else
      match varint32Read hdr with
      | none => none
      | some (s, r1) =>
        match varint32Read r1 with
        | none => none
        | some (ns, r2) =>
          match varint32Read r2 with
          | none => none
          | some (vl, r3) =>
            let h := hdr.length - r3.length
            if xn - h < ns + vl then none
            else some (s, ns, vl, h)
  | _ => none

inductive Dec where
  | fault                                                   -- `limit` lies outside the buffer
  | bad                                                     -- NULL
  | ok (shared nonShared valueLen keyOff : Nat)             -- keyOff = offset of the key delta
  deriving Repr, DecidableEq

/-- decode_entry(data + p, data + limit).  The function "will not dereference past limit", so
    the caller owes `limit ≤ size`; otherwise fault. -/
def decodeEntry (data : Bytes) (p limit : Nat) : Dec :=
  if limit < p then .bad
  else if limit - p < 3 then .bad
  else if data.length < limit then .fault
  else
    match decodeEntryWin ((data.drop p).take (min (limit - p) 15)) (limit - p) with
    | none => .bad
    | some (s, ns, vl, hdr) => .ok s ns vl (p + hdr)

/-! ### Block iterator -/

inductive BStatus where
  | ok | corrupt
  deriving Repr, DecidableEq

/-- comparator handed to ldb_blockiter_create: `internal` is `comparator->user_comparator != NULL`
    (then `cmp` is ldb_ikc_compare over that user comparator) -/
structure BlockCmp where
  internal : Bool
  cmp : Bytes → Bytes → Ordering

/-- the comparators the harness can hand to ldb_blockiter_create: a user comparator, or
    ldb_ikc_init wrapped around it -/
def mkBlockCmp (c : Cmp) (internal : Bool) : BlockCmp :=
  if internal then { internal := true, cmp := ikeyCmp c } else { internal := false, cmp := c.compare }

/-- do_compare.  ldb_ikc_compare reads the last 8 bytes of both keys (`size - 8` underflows for
    shorter keys): fault. -/
def BlockCmp.compare (c : BlockCmp) (x y : Bytes) : Option Ordering :=
  if c.internal && (x.length < 8 || y.length < 8) then none else some (c.cmp x y)

/-- ldb_blockiter_t.  `value = some (off, len)` is the slice `data[off .. off+len)`;
    `none` is the NULL slice left by ldb_slice_init / ldb_slice_reset. -/
structure BlockIter where
  data : Bytes
  restarts : Nat
  numRestarts : Nat
  current : Nat
  restartIndex : Nat
  key : Bytes
  value : Option (Nat × Nat)
  status : BStatus
  deriving Repr

namespace BlockIter

def valid (it : BlockIter) : Bool := it.current < it.restarts

def valueBytes (it : BlockIter) : Bytes :=
  match it.value with
  | none => []
  | some (o, n) => (it.data.drop o).take n

/-- next_entry_offset: `(value.data + value.size) - data`; meaningless for the NULL slice: fault -/
def nextEntryOffset (it : BlockIter) : Option Nat := it.value.map (fun v => v.1 + v.2)

/-- get_restart_point (with the `offset > restarts` clamp).  Fault when `index ≥ num_restarts`
    (the disabled assert) or when the fixed32 lies outside the buffer. -/
def getRestartPoint (it : BlockIter) (index : Nat) : Option Nat :=
  if index < it.numRestarts then
    match readFixed32At it.data (it.restarts + index * 4) with
    | none => none
    | some off => some (if off > it.restarts then it.restarts else off)
  else none

/-- seek_to_restart_point -/
def seekToRestartPoint (it : BlockIter) (index : Nat) : Option BlockIter :=
  match it.getRestartPoint index with
  | none => none
  | some off => some { it with key := [], restartIndex := index, value := some (off, 0) }

/-- ldb_blockiter_corruption -/
def corruption (it : BlockIter) : BlockIter :=
  { it with current := it.restarts, restartIndex := it.numRestarts, status := .corrupt,
            key := [], value := none }

/-- the no-more-entries exit used by parse_next_key and prev -/
def markInvalid (it : BlockIter) : BlockIter :=
  { it with current := it.restarts, restartIndex := it.numRestarts }

/-- the `while (restart_index + 1 < num_restarts && get_restart_point(restart_index + 1) < current)`
    loop at the end of parse_next_key -/
def bumpRestart (it : BlockIter) : Nat → Nat → Option Nat
  | 0, _ => none
  | fuel + 1, ri =>
    if ri + 1 < it.numRestarts then
      match it.getRestartPoint (ri + 1) with
      | none => none
      | some off => if off < it.current then bumpRestart it fuel (ri + 1) else some ri
    else some ri

/-- parse_next_key: `(return value, new state)` -/
def parseNextKey (c : BlockCmp) (it : BlockIter) : Option (Bool × BlockIter) :=
  match it.nextEntryOffset with
  | none => none
  | some cur =>
    if cur ≥ it.restarts then some (false, it.markInvalid)
    else
      match decodeEntry it.data cur it.restarts with
      | .fault => none
      | .bad => some (false, it.corruption)
      | .ok shared nonShared valueLen kp =>
        if it.key.length < shared then some (false, it.corruption)
        else if c.internal && shared + nonShared < 8 then some (false, it.corruption)
        else
          let it1 := { it with current := cur
                               key := it.key.take shared ++ (it.data.drop kp).take nonShared
                               value := some (kp + nonShared, valueLen) }
          match it1.bumpRestart (it1.numRestarts + 1) it1.restartIndex with
          | none => none
          | some ri => some (true, { it1 with restartIndex := ri })

/-- ldb_blockiter_next (caller has checked validity) -/
def next (c : BlockCmp) (it : BlockIter) : Option BlockIter :=
  (it.parseNextKey c).map (·.2)

/-- the first loop of ldb_blockiter_prev: `some none` = "no more entries" -/
def prevScan (it : BlockIter) (original : Nat) : Nat → Nat → Option (Option Nat)
  | 0, _ => none
  | fuel + 1, ri =>
    match it.getRestartPoint ri with
    | none => none
    | some off =>
      if off ≥ original then
        if ri = 0 then some none else prevScan it original fuel (ri - 1)
      else some (some ri)

/-- `do {} while (parse_next_key(iter) && next_entry_offset(iter) < bound)` of prev, and
    `while (parse_next_key(iter) && next_entry_offset(iter) < restarts) {}` of last -/
def skipUntil (c : BlockCmp) (bound : Nat) : Nat → BlockIter → Option BlockIter
  | 0, _ => none
  | fuel + 1, it =>
    match it.parseNextKey c with
    | none => none
    | some (false, it') => some it'
    | some (true, it') =>
      match it'.nextEntryOffset with
      | none => none
      | some neo => if neo < bound then skipUntil c bound fuel it' else some it'

/-- ldb_blockiter_prev (caller has checked validity) -/
def prev (c : BlockCmp) (it : BlockIter) : Option BlockIter :=
  let original := it.current
  match it.prevScan original (it.restartIndex + 1) it.restartIndex with
  | none => none
  | some none => some it.markInvalid
  | some (some ri) =>
    match it.seekToRestartPoint ri with
    | none => none
    | some it1 => skipUntil c original (it.restarts + 1) it1

/-- ldb_blockiter_first -/
def first (c : BlockCmp) (it : BlockIter) : Option BlockIter :=
  match it.seekToRestartPoint 0 with
  | none => none
  | some it1 => (it1.parseNextKey c).map (·.2)

/-- ldb_blockiter_last -/
def last (c : BlockCmp) (it : BlockIter) : Option BlockIter :=
  match it.seekToRestartPoint (it.numRestarts - 1) with
  | none => none
  | some it1 => skipUntil c it.restarts (it.restarts + 1) it1

/-- the binary search over the restart array in ldb_blockiter_seek:
    `some none` = corruption, `some (some left)` = result -/
def seekBin (c : BlockCmp) (target : Bytes) (it : BlockIter) : Nat → Nat → Nat → Option (Option Nat)
  | 0, _, _ => none
  | fuel + 1, left, right =>
    if left < right then
      let mid := (left + right + 1) / 2
      match it.getRestartPoint mid with
      | none => none
      | some ro =>
        match decodeEntry it.data ro it.restarts with
        | .fault => none
        | .bad => some none
        | .ok shared nonShared _ kp =>
          if shared ≠ 0 then some none
          else if c.internal && nonShared < 8 then some none
          else
            match c.compare ((it.data.drop kp).take nonShared) target with
            | none => none
            | some .lt => seekBin c target it fuel mid right
            | some _ => seekBin c target it fuel left (mid - 1)
    else some (some left)

/-- the final `for (;;)` of ldb_blockiter_seek -/
def seekLinear (c : BlockCmp) (target : Bytes) : Nat → BlockIter → Option BlockIter
  | 0, _ => none
  | fuel + 1, it =>
    match it.parseNextKey c with
    | none => none
    | some (false, it') => some it'
    | some (true, it') =>
      match c.compare it'.key target with
      | none => none
      | some .lt => seekLinear c target fuel it'
      | some _ => some it'

/-- ldb_blockiter_seek -/
def seek (c : BlockCmp) (target : Bytes) (it : BlockIter) : Option BlockIter :=
  if c.internal && target.length < 8 then some it.corruption
  else
    let start : Option (Option (Nat × Nat × Ordering)) :=
      if it.valid then
        match c.compare it.key target with
        | none => none
        | some .lt => some (some (it.restartIndex, it.numRestarts - 1, .lt))
        | some .gt => some (some (0, it.restartIndex, .gt))
        | some .eq => some none
      else some (some (0, it.numRestarts - 1, .eq))
    match start with
    | none => none
    | some none => some it          -- "We're seeking to the key we're already at."
    | some (some (left, right, ckc)) =>
      match seekBin c target it (right - left + 1) left right with
      | none => none
      | some none => some it.corruption
      | some (some left') =>
        let skipSeek := left' == it.restartIndex && ckc == .lt
        let it1 := if skipSeek then some it else it.seekToRestartPoint left'
        match it1 with
        | none => none
        | some it1 => seekLinear c target (it.restarts + 1) it1

end BlockIter

/-! ### ldb_blockiter_create and the iterator vtable -/

/-- what ldb_blockiter_create returns: the empty iterator (with a status) or a block iterator -/
inductive TIter where
  | empty (status : BStatus)
  | block (it : BlockIter)
  deriving Repr

/-- ldb_block_init followed by ldb_blockiter_create -/
def blockIterCreate (data : Bytes) : TIter :=
  match blockInit data with
  | none => .empty .corrupt                       -- "bad block contents"
  | some ro =>
    let n := blockNumRestarts data
    if n = 0 then .empty .ok
    else .block { data := data, restarts := ro, numRestarts := n, current := ro,
                  restartIndex := n, key := [], value := none, status := .ok }

namespace TIter

def valid : TIter → Bool
  | .empty _ => false
  | .block it => it.valid

def status : TIter → BStatus
  | .empty s => s
  | .block it => it.status

def key : TIter → Bytes
  | .empty _ => []
  | .block it => it.key

def value : TIter → Bytes
  | .empty _ => []
  | .block it => it.valueBytes

def lift (f : BlockIter → Option BlockIter) : TIter → Option TIter
  | .empty s => some (.empty s)
  | .block it => (f it).map .block

def first (c : BlockCmp) : TIter → Option TIter := lift (BlockIter.first c)
def last (c : BlockCmp) : TIter → Option TIter := lift (BlockIter.last c)
def next (c : BlockCmp) : TIter → Option TIter := lift (BlockIter.next c)
def prev (c : BlockCmp) : TIter → Option TIter := lift (BlockIter.prev c)
def seek (c : BlockCmp) (t : Bytes) : TIter → Option TIter := lift (BlockIter.seek c t)

end TIter

/-! ### generic seek helpers of iterator.c over an abstract iterator -/

/-- the vtable of ldb_iter_t together with `iter->cmp`; `none` results are faults -/
structure IterOps (σ : Type) where
  valid : σ → Bool
  key : σ → Bytes
  compare : Bytes → Bytes → Option Ordering
  first : σ → Option σ
  last : σ → Option σ
  next : σ → Option σ
  prev : σ → Option σ
  seek : Bytes → σ → Option σ

namespace IterOps
variable {σ : Type} (o : IterOps σ)

/-- ldb_iter_seek_ge -/
def seekGE (t : Bytes) (s : σ) : Option σ := o.seek t s

/-- ldb_iter_seek_gt -/
def seekGT (t : Bytes) (s : σ) : Option σ :=
  match o.seek t s with
  | none => none
  | some s1 =>
    if o.valid s1 then
      match o.compare (o.key s1) t with
      | none => none
      | some .eq => o.next s1
      | some _ => some s1
    else some s1

/-- ldb_iter_seek_le -/
def seekLE (t : Bytes) (s : σ) : Option σ :=
  match o.seek t s with
  | none => none
  | some s1 =>
    if o.valid s1 then
      match o.compare (o.key s1) t with
      | none => none
      | some .gt => o.prev s1
      | some _ => some s1
    else o.last s1

/-- ldb_iter_seek_lt -/
def seekLT (t : Bytes) (s : σ) : Option σ :=
  match o.seek t s with
  | none => none
  | some s1 => if o.valid s1 then o.prev s1 else o.last s1

end IterOps

/-- the operations a caller can apply to an iterator -/
inductive BlockOp where
  | first | last | next | prev
  | seek (t : Bytes) | seekGE (t : Bytes) | seekGT (t : Bytes) | seekLE (t : Bytes) | seekLT (t : Bytes)
  deriving Repr, DecidableEq

/-- `next`/`prev` require a valid iterator (the C code asserts it, an NDEBUG build would be
    undefined): on an invalid iterator they are not issued and the state is kept -/
def IterOps.apply {σ : Type} (o : IterOps σ) (op : BlockOp) (s : σ) : Option σ :=
  match op with
  | .first => o.first s
  | .last => o.last s
  | .next => if o.valid s then o.next s else some s
  | .prev => if o.valid s then o.prev s else some s
  | .seek t => o.seek t s
  | .seekGE t => o.seekGE t s
  | .seekGT t => o.seekGT t s
  | .seekLE t => o.seekLE t s
  | .seekLT t => o.seekLT t s

/-- a whole sequence of operations; `none` as soon as one of them faults -/
def IterOps.run {σ : Type} (o : IterOps σ) : List BlockOp → σ → Option σ
  | [], s => some s
  | op :: ops, s =>
    match o.apply op s with
    | none => none
    | some s' => o.run ops s'

/-- the block iterator (as returned by ldb_blockiter_create) behind the generic interface -/
def blockIterOps (c : BlockCmp) : IterOps TIter :=
  { valid := TIter.valid, key := TIter.key, compare := c.compare,
    first := TIter.first c, last := TIter.last c, next := TIter.next c, prev := TIter.prev c,
    seek := TIter.seek c }

/-! ### sequential parse of a whole block (used by the round-trip theorem) -/

/-- `first` then `next` until invalid, collecting `(key, value)`; `none` on fault, corruption
    or when the block cannot be opened -/
def collectGo (c : BlockCmp) : Nat → BlockIter → List (Bytes × Bytes) → Option (List (Bytes × Bytes))
  | 0, _, _ => none
  | fuel + 1, it, acc =>
    if it.valid then
      match it.next c with
      | none => none
      | some it' => collectGo c fuel it' (acc ++ [(it.key, it.valueBytes)])
    else if it.status = .ok then some acc else none

/-- bytewise, non-internal comparator (the metaindex block's) -/
def bytewiseBlockCmp : BlockCmp := { internal := false, cmp := bytesCmp }

/-- decode every entry of a block in order with the iterator's own entry decoder -/
def blockParse (data : Bytes) : Option (List (Bytes × Bytes)) :=
  match blockIterCreate data with
  | .empty .ok => some []
  | .empty .corrupt => none
  | .block it =>
    match it.first bytewiseBlockCmp with
    | none => none
    | some it1 => collectGo bytewiseBlockCmp (data.length + 1) it1 []

end Lcdb
