/-
  Model of src/util/crc32c.{c,h}: CRC-32C (Castagnoli, reflected polynomial 0x82F63B78).

  `crcBit`/`crcByteSpec` is the bitwise definition of the published CRC-32C;
  `crcByteTab` is the byte-at-a-time table form the C code uses in `STEP1`
  (`crc32c_generic`); `mask`/`unmask` are `ldb_crc32c_mask/unmask`.
-/
import LcdbModel.Model.Coding
namespace Lcdb

abbrev W32 := BitVec 32

def crcPoly : W32 := 0x82F63B78#32

/-- one bit of the reflected LFSR -/
def crcBit (l : W32) : W32 :=
  if l.getLsbD 0 then (l >>> 1) ^^^ crcPoly else l >>> 1

def crcBit8 (l : W32) : W32 := crcBit (crcBit (crcBit (crcBit (crcBit (crcBit (crcBit (crcBit l)))))))

/-- bitwise specification of feeding one byte -/
def crcByteSpec (l : W32) (b : UInt8) : W32 := crcBit8 (l ^^^ (b.toBitVec.zeroExtend 32))

/-- the 256-entry table, by definition `crcBit8 i` -/
def crcTable : List W32 := (List.range 256).map (fun i => crcBit8 (BitVec.ofNat 32 i))

def crcTableGet (i : Nat) : W32 := crcTable.getD i 0

/-- `STEP1` of crc32c_generic: `l = table[(l & 0xff) ^ b] ^ (l >> 8)` -/
def crcByteTab (l : W32) (b : UInt8) : W32 :=
  crcTableGet ((l &&& 0xff#32) ^^^ (b.toBitVec.zeroExtend 32)).toNat ^^^ (l >>> 8)

/-- the register after feeding `bs` (bitwise spec) -/
def crcFeed (l : W32) (bs : Bytes) : W32 := bs.foldl crcByteSpec l

/-- ldb_crc32c_extend(z, bs): pre- and post-conditioned with all ones -/
def crcExtend (z : W32) (bs : Bytes) : W32 := crcFeed (z ^^^ 0xFFFFFFFF#32) bs ^^^ 0xFFFFFFFF#32

/-- ldb_crc32c_value -/
def crc32c (bs : Bytes) : W32 := crcExtend 0 bs

/-- executable fast path used by the driver (proved equal to `crcExtend`) -/
def crcExtendTab (z : W32) (bs : Bytes) : W32 :=
  bs.foldl crcByteTab (z ^^^ 0xFFFFFFFF#32) ^^^ 0xFFFFFFFF#32

def maskDelta : W32 := 0xa282ead8#32

/-- ldb_crc32c_mask: rotate right by 15 and add the delta -/
def crcMask (c : W32) : W32 := ((c >>> 15) ||| (c <<< 17)) + maskDelta

/-- ldb_crc32c_unmask -/
def crcUnmask (m : W32) : W32 :=
  let rot := m - maskDelta
  (rot >>> 17) ||| (rot <<< 15)

end Lcdb
