/-
  Model of src/util/coding.h and the length-prefixed slices of src/util/slice.c.

  Bytes are `List UInt8`; integers are unbounded `Nat` with explicit `% 2^w`
  where the C code truncates.  `x << s` is written `x * 2^s`, `b & 127` is
  `b % 128`, and `acc | (x << s)` is `acc + x * 2^s` because at every use the
  accumulated value is `< 2^s` (proved: `varintGo_acc_lt`).
-/
namespace Lcdb

abbrev Byte := UInt8
abbrev Bytes := List UInt8

/-- little-endian fixed-width encoding of `n % 256^w` (ldb_fixed32_write / ldb_fixed64_write) -/
def fixedEnc : (w : Nat) → Nat → Bytes
  | 0, _ => []
  | w+1, n => UInt8.ofNat (n % 256) :: fixedEnc w (n / 256)

/-- little-endian decode of exactly the given bytes (ldb_fixed32_decode / ldb_fixed64_decode) -/
def fixedDec : Bytes → Nat
  | [] => 0
  | b :: bs => b.toNat + 256 * fixedDec bs

/-- ldb_fixed32_read / ldb_fixed64_read: fails when fewer than `w` bytes remain -/
def fixedRead (w : Nat) (bs : Bytes) : Option (Nat × Bytes) :=
  if bs.length < w then none else some (fixedDec (bs.take w), bs.drop w)

/-- ldb_varint64_write (and the unrolled ldb_varint32_write for x < 2^32) -/
def varintEnc (n : Nat) : Bytes :=
  if h : n < 128 then [UInt8.ofNat n]
  else UInt8.ofNat (n % 128 + 128) :: varintEnc (n / 128)
decreasing_by omega

/-- the loop of ldb_varint32_read / ldb_varint64_read:
    `fuel` iterations remain, `shift` is the current shift, `acc` the bits so far,
    `w` the machine width the final `|=` truncates to. -/
def varintGo (w : Nat) : Nat → Nat → Nat → Bytes → Option (Nat × Bytes)
  | 0, _, _, _ => none
  | _+1, _, _, [] => none
  | fuel+1, shift, acc, b :: rest =>
    if b.toNat ≥ 128 then varintGo w fuel (shift + 7) (acc + (b.toNat % 128) * 2 ^ shift) rest
    else some ((acc + b.toNat * 2 ^ shift) % 2 ^ w, rest)

/-- ldb_varint32_read: shift = 0,7,..,28 → five iterations -/
def varint32Read (bs : Bytes) : Option (Nat × Bytes) := varintGo 32 5 0 0 bs
/-- ldb_varint64_read: shift = 0,7,..,63 → ten iterations -/
def varint64Read (bs : Bytes) : Option (Nat × Bytes) := varintGo 64 10 0 0 bs

/-- ldb_slice_export: varint32 length then the bytes -/
def sliceEnc (s : Bytes) : Bytes := varintEnc s.length ++ s

/-- ldb_slice_slurp / ldb_slice_read: varint32 length, then that many bytes -/
def sliceRead (bs : Bytes) : Option (Bytes × Bytes) :=
  match varint32Read bs with
  | none => none
  | some (n, rest) => if rest.length < n then none else some (rest.take n, rest.drop n)

end Lcdb
