/-
  Specification side of the user iterator (C07): the sorted map of live keys visible at a
  sequence, and a cursor over it with the positioning operations of the public API
  (first/last/next/prev/seek and seek_ge/gt/le/lt of table/iterator.c:146-183).

  The *implementation-side* models (merging iterator, two-level iterator, db_iter.c) are in
  Model/MergeIter.lean / Model/DbIterImpl.lean; theorems relate them to this cursor.
-/
import LcdbModel.Model.Lsm
namespace Lcdb

/-- distinct user keys of a set of entries in comparator order -/
def userKeys (c : Cmp) (es : List Entry) : List Bytes :=
  let sorted := (es.map (·.ukey)).mergeSort (fun a b => c.compare a b != .gt)
  sorted.foldr (fun k acc => match acc with
    | [] => [k]
    | k' :: _ => if c.compare k k' == .eq then acc else k :: acc) []

/-- the live key/value pairs visible at sequence `s`, in comparator order -/
def visibleMap (c : Cmp) (es : List Entry) (s : Nat) : List (Bytes × String) :=
  (userKeys c es).filterMap fun k =>
    match newestVisible c es k s with
    | some e => if e.kind == 1 then some (e.ukey, e.val) else none
    | none => none

inductive DbIterState where
  | invalid
  | at (idx : Nat)
  deriving Repr, DecidableEq

def mapCursorGet (m : List (Bytes × String)) : DbIterState → Option (Bytes × String)
  | .invalid => none
  | .at i => m[i]?

def cursorOfIdx (m : List (Bytes × String)) (i : Nat) : DbIterState := if i < m.length then .at i else .invalid

/-- index of the first element with key >= target -/
def firstGe (c : Cmp) (m : List (Bytes × String)) (k : Bytes) : Nat :=
  (m.takeWhile (fun p => c.compare p.1 k == .lt)).length

def firstGt (c : Cmp) (m : List (Bytes × String)) (k : Bytes) : Nat :=
  (m.takeWhile (fun p => c.compare p.1 k != .gt)).length

inductive IterOp where
  | first | last | next | prev
  | seek (k : Bytes) | seekGe (k : Bytes) | seekGt (k : Bytes) | seekLe (k : Bytes) | seekLt (k : Bytes)
  deriving Repr, DecidableEq

/-- what a sorted map dictates -/
def mapCursorStep (c : Cmp) (m : List (Bytes × String)) (st : DbIterState) : IterOp → DbIterState
  | .first => cursorOfIdx m 0
  | .last => if m.isEmpty then .invalid else .at (m.length - 1)
  | .next => match st with | .at i => cursorOfIdx m (i + 1) | .invalid => .invalid
  | .prev => match st with | .at i => if i == 0 then .invalid else .at (i - 1) | .invalid => .invalid
  | .seek k | .seekGe k => cursorOfIdx m (firstGe c m k)
  | .seekGt k => cursorOfIdx m (firstGt c m k)
  | .seekLe k => let i := firstGt c m k; if i == 0 then .invalid else .at (i - 1)
  | .seekLt k => let i := firstGe c m k; if i == 0 then .invalid else .at (i - 1)

end Lcdb
