/-
  Concurrency protocol model (L5) of lcdb's write path, background work and readers, at
  critical-section granularity (db_impl.c: ldb_write 2191-2310, ldb_make_room_for_write 1790-1880,
  ldb_build_batch_group 1722, ldb_maybe_schedule_compaction 1614, ldb_background_call 1633,
  ldb_get 2074, ldb_destroy_internal 518).

  A *step* is one critical section of `db->mutex` (from acquiring it -- by lock or by waking up from a
  condition wait -- to releasing it -- by unlock or by a condition wait) or one lock-free phase.
  Data-dependent decisions of the real code (memtable full? level-0 count? compaction needed? how many
  queued writers does the leader merge?) are nondeterministic choices carried by the step label, so
  theorems hold for every outcome; the trace checker reads the choices off the observed execution.

  Condition variables: `wait` atomically releases the mutex and sleeps; a sleeper becomes runnable only
  by `signal`/`broadcast` (no spurious wake-ups: the stronger assumption for liveness, and the code
  re-checks its predicate in a loop anyway).
-/
namespace Lcdb.Conc

abbrev Tid := Nat

/-- where a writer thread is, between critical sections -/
inductive WPc where
  | idle            -- ldb_write not yet called
  | asleepW         -- waiting on its own condition variable (queued behind the head)
  | wokenW          -- signalled, has not re-acquired the mutex yet
  | asleepBg        -- head of the queue, waiting on background_work_finished (memtable full / too many L0 files)
  | wokenBg
  | delayed         -- head, released the mutex for the 1 ms slowdown sleep
  | io              -- head, appending the group's record to the log and inserting into the memtable (no mutex)
  | returned (ok : Bool)
  deriving Repr, DecidableEq

structure Writer where
  tid : Tid
  batch : Nat              -- abstract batch id (what the write does is irrelevant to the protocol)
  sync : Bool
  pc : WPc := .idle
  done : Bool := false     -- w.done, set by the leader that committed this writer's batch
  status : Bool := true    -- w.status handed over by the leader
  usedDelay : Bool := false
  deriving Repr, DecidableEq

inductive RPc where
  | idle | reading (seq : Nat) | releasing (seq : Nat) | returned (seq : Nat)
  deriving Repr, DecidableEq

structure Reader where
  tid : Tid
  pc : RPc := .idle
  deriving Repr, DecidableEq

inductive BgPc where
  | parked                  -- no job posted / finished
  | posted                  -- ldb_pool_schedule queued ldb_background_call, the worker has not locked the mutex yet
  | working                 -- inside ldb_background_call, between two of its critical sections (mutex released for I/O)
  deriving Repr, DecidableEq

inductive CPc where
  | idle | asleepBg | wokenBg | returned
  deriving Repr, DecidableEq

structure St where
  writers : List Writer
  readers : List Reader
  queue : List Tid := []            -- db->writers, head first
  inflight : List Tid := []         -- the group the current leader is writing (leader first); [] when nobody is in `io`
  lastSeq : Nat := 0                -- number of committed batches (published sequence)
  committed : List Nat := []        -- batch ids in commit order
  imm : Bool := false               -- db->imm != NULL
  needsCompaction : Bool := false   -- ldb_versions_needs_compaction
  bgScheduled : Bool := false       -- db->background_compaction_scheduled
  bg : BgPc := .parked
  bgError : Bool := false
  shuttingDown : Bool := false
  closer : CPc := .idle
  /-- ghost: real-time log of invocations and responses, for the linearizability statement -/
  log : List (Tid × Bool × Nat) := []     -- (thread, isResponse, lastSeq at that moment)
  /-- ghost: the commit groups in commit order (`committed = groups.flatten`), for the group-atomicity statement -/
  groups : List (List Nat) := []
  deriving Repr

def getW (st : St) (t : Tid) : Option Writer := st.writers.find? (·.tid == t)
def setW (st : St) (w : Writer) : St := { st with writers := st.writers.map fun x => if x.tid == w.tid then w else x }
def getR (st : St) (t : Tid) : Option Reader := st.readers.find? (·.tid == t)
def setR (st : St) (r : Reader) : St := { st with readers := st.readers.map fun x => if x.tid == r.tid then r else x }

/-- ldb_maybe_schedule_compaction -/
def maybeSchedule (st : St) : St :=
  if st.bgScheduled || st.shuttingDown || st.bgError then st
  else if !st.imm && !st.needsCompaction then st
  else { st with bgScheduled := true, bg := .posted }

/-- cond_signal on a writer's own cv: wakes it if it sleeps there -/
def signalW (st : St) (t : Tid) : St :=
  match getW st t with
  | some w => if w.pc == .asleepW then setW st { w with pc := .wokenW } else st
  | none => st

/-- cond_broadcast on background_work_finished_signal: wakes every sleeper on it -/
def broadcastBg (st : St) : St :=
  let st := { st with writers := st.writers.map fun w => if w.pc == .asleepBg then { w with pc := .wokenBg } else w }
  if st.closer == .asleepBg then { st with closer := .wokenBg } else st

/-- what the head writer does with the mutex held, after the queue bookkeeping: the outcomes of ldb_make_room_for_write
    followed by either starting the group's I/O or failing -/
inductive RoomChoice where
  | fail                       -- bg_error set: the write returns the error
  | delay                      -- L0 slowdown: unlock, sleep 1 ms, lock again (at most once per write)
  | waitFlush                  -- memtable full and imm still being flushed: wait on background_work_finished
  | waitL0                     -- too many level-0 files: wait on background_work_finished
  | switchFail                 -- the memtable switch happens, but closing the old log file failed: bg_error recorded, write fails
  | begin (switch : Bool) (group : Nat)   -- (optionally switch memtables first) then lead a group of `group` queued writers
  deriving Repr, DecidableEq

inductive Label where
  | wEnter (t : Tid) (c : RoomChoice)        -- ldb_write called: push on the queue; if head, act per `c`, else sleep on own cv
  | wWake (t : Tid) (c : RoomChoice)         -- woken (own cv / bg cv / after the delay): re-acquire; done → return; head → act per `c`; else sleep again
  | wCommit (t : Tid) (syncFailed : Bool)    -- leader after I/O: publish the sequence, hand results to followers, wake the next head
  | rCapture (t : Tid)                       -- reader: lock, capture (mem, imm, version, sequence), unlock
  | rRead (t : Tid)                          -- reader: lock-free lookup in what it captured
  | rRelease (t : Tid) (seekCompaction : Bool)   -- reader: lock, update stats (may trigger a compaction), unref, unlock
  | bgStart                                  -- worker locks; starts work unless shutting down / error (then only the final part remains)
  | bgMid (flushDone : Bool) (bcast : Bool) (err : Bool)   -- a critical section in the middle of the work: `flushDone` installs the flushed
                                             -- memtable (imm := none); `bcast`: broadcasts (db_impl.c:1352 does when the flush ran inside a
                                             -- compaction); `err`: records a background error (which always broadcasts, db_impl.c:1106)
  | bgFinish (stillNeeds : Bool)             -- last critical section of ldb_background_call: scheduled := 0, reschedule, broadcast
  | close                                    -- ldb_close: shutting_down := 1; wait while a background call is scheduled
  | closeWake
  deriving Repr, DecidableEq

/-- "notify new head of write queue": signal the cv of the writer that is now at the front, if any -/
def signalHead (st : St) : St :=
  match st.queue with | h :: _ => signalW st h | [] => st

/-- the head writer gives up with an error: it pops itself (it is its own `last_writer`), wakes the next head and
    returns the error (ldb_write after a failed ldb_make_room_for_write) -/
def failAct (st : St) (w : Writer) : St :=
  signalHead (setW { st with queue := st.queue.drop 1, log := st.log ++ [(w.tid, true, st.lastSeq)] } { w with pc := .returned false })

/-- the head writer's continuation inside a critical section (mutex held, `w` is the head, not done) -/
def headAct (st : St) (w : Writer) (c : RoomChoice) : Option St :=
  if st.bgError then
    -- make_room yields the background error; the writer pops itself, wakes the next head, returns the error
    if c != .fail then none else some (failAct st w)
  else match c with
  | .fail =>
    -- creating the new log file for a memtable switch failed (db_impl.c:1843): make_room returns the error WITHOUT
    -- setting bg_error; possible only when a switch is attempted, i.e. when there is no immutable memtable
    if st.imm then none else some (failAct st w)
  | .delay =>
    if w.usedDelay then none else some (setW st { w with pc := .delayed, usedDelay := true })
  | .waitFlush =>
    if st.imm then some (setW st { w with pc := .asleepBg }) else none
  | .waitL0 =>
    if st.needsCompaction then some (setW st { w with pc := .asleepBg }) else none
  | .switchFail =>
    -- the switch to a new memtable is carried out, but closing the old log file failed (db_impl.c:1853-1863):
    -- ldb_record_background_error sets bg_error and broadcasts, imm := mem, ldb_maybe_schedule_compaction does nothing
    -- (bg_error), and the next round of the loop yields the error: the write fails like in the `.fail` case
    if st.imm then none else some (failAct (broadcastBg { st with imm := true, bgError := true }) w)
  | .begin switch group =>
    -- a switch needs the previous immutable memtable to be gone
    if switch && st.imm then none
    else if group == 0 || group > st.queue.length then none
    else
      let st := if switch then maybeSchedule { st with imm := true } else st
      let members := st.queue.take group
      -- ldb_build_batch_group never lets a sync writer join a non-sync leader's group
      if !w.sync && members.any (fun m => match getW st m with | some x => x.sync && x.tid != w.tid | none => true) then none
      else some (setW { st with inflight := members } { w with pc := .io })

/-- the leader hands the result to one follower: done := 1, status, signal its cv -/
def followStep (ok : Bool) (st : St) (m : Tid) : St :=
  match getW st m with
  | some f => signalW (setW st { f with done := true, status := ok }) m
  | none => st

/-- the leader after its I/O (mutex re-acquired): publish, hand over to the followers, pop the group, wake the next head -/
def commitAct (st : St) (w : Writer) (syncFailed : Bool) : St :=
  let group := st.inflight
  let ok := !syncFailed
  -- sequence published for the whole group at once; batches in queue order
  let batches := group.filterMap fun m => (getW st m).map (·.batch)
  let st := if ok then { st with lastSeq := st.lastSeq + group.length, committed := st.committed ++ batches,
                                 groups := st.groups ++ [batches] } else st
  -- ldb_record_background_error broadcasts background_work_finished (db_impl.c:1106)
  let st := if syncFailed then broadcastBg { st with bgError := true } else st
  let st := { st with queue := st.queue.drop group.length, inflight := [] }
  -- followers: done := 1, status, signal
  let st := (group.drop 1).foldl (followStep ok) st
  signalHead (setW { st with log := st.log ++ [(w.tid, true, st.lastSeq)] } { w with pc := .returned ok })

def step (st : St) : Label → Option St
  | .wEnter t c =>
    match getW st t with
    | some w =>
      if w.pc != .idle || st.shuttingDown then none else
      let st := { st with queue := st.queue ++ [t], log := st.log ++ [(t, false, st.lastSeq)] }
      if st.queue.head? == some t then headAct st w c
      else if c != .fail then none      -- `c` is irrelevant for a follower; fixed to `.fail` to keep labels canonical
      else some (setW st { w with pc := .asleepW })
    | none => none
  | .wWake t c =>
    match getW st t with
    | some w =>
      if w.pc != .wokenW && w.pc != .wokenBg && w.pc != .delayed then none
      else if w.done then
        if c != .fail then none else
        some (setW { st with log := st.log ++ [(t, true, st.lastSeq)] } { w with pc := .returned w.status })
      else if st.queue.head? == some t then headAct st w c
      else if c != .fail then none
      else some (setW st { w with pc := .asleepW })
    | none => none
  | .wCommit t syncFailed =>
    match getW st t with
    | some w =>
      if w.pc != .io || st.inflight.head? != some t then none else
      some (commitAct st w syncFailed)
    | none => none
  | .rCapture t =>
    match getR st t with
    | some r => if r.pc != .idle || st.shuttingDown then none
                else some (setR { st with log := st.log ++ [(t, false, st.lastSeq)] } { r with pc := .reading st.lastSeq })
    | none => none
  | .rRead t =>
    match getR st t with
    | some r => (match r.pc with | .reading s => some (setR st { r with pc := .releasing s }) | _ => none)
    | none => none
  | .rRelease t seek =>
    match getR st t with
    | some r =>
      (match r.pc with
       | .releasing s =>
         let st := if seek then maybeSchedule { st with needsCompaction := true } else st
         some (setR { st with log := st.log ++ [(t, true, st.lastSeq)] } { r with pc := .returned s })
       | _ => none)
    | none => none
  | .bgStart =>
    if st.bg != .posted then none else some { st with bg := .working }
  | .bgMid flushDone bcast err =>
    if st.bg != .working then none
    -- Shutdown does not stop a job at once: a flush whose MANIFEST write was in flight when
    -- `close` set shutting_down still installs its result (db_impl.c:1151 tests the flag only before ldb_versions_apply), and a
    -- compaction records the error "deleting DB during compaction" at its next test (db_impl.c:1441, 1478); either way the
    -- job then runs into `bgFinish`
    -- the same holds for a background error recorded meanwhile by a writer (failed log write): a flush whose MANIFEST write
    -- is in flight still installs its result.  An error is recorded at most once (ldb_record_background_error keeps the first).
    else if st.bgError && err then none
    else if flushDone && !st.imm then none
    else
      let st := if flushDone then { st with imm := false } else st
      let st := if err then { st with bgError := true } else st
      some (if bcast || err then broadcastBg st else st)
  | .bgFinish stillNeeds =>
    if st.bg != .working then none
    else
      let st := { st with bgScheduled := false, bg := .parked, needsCompaction := stillNeeds }
      some (broadcastBg (maybeSchedule st))
  | .close =>
    if st.closer != .idle then none
    -- API contract: close is called after every other call has returned
    else if st.writers.any (fun w => match w.pc with | .idle => false | .returned _ => false | _ => true) then none
    else if st.readers.any (fun r => match r.pc with | .idle => false | .returned _ => false | _ => true) then none
    else
      let st := { st with shuttingDown := true }
      if st.bgScheduled then some { st with closer := .asleepBg } else some { st with closer := .returned }
  | .closeWake =>
    if st.closer != .wokenBg then none
    else if st.bgScheduled then some { st with closer := .asleepBg } else some { st with closer := .returned }

def initSt (ws : List Writer) (rs : List Reader) : St := { writers := ws, readers := rs }

inductive Reachable (ws : List Writer) (rs : List Reader) : St → Prop where
  | init : Reachable ws rs (initSt ws rs)
  | step {st st'} (l : Label) : Reachable ws rs st → step st l = some st' → Reachable ws rs st'

/-- every thread that was started has returned -/
def allDone (st : St) : Bool :=
  st.writers.all (fun w => match w.pc with | .idle => true | .returned _ => true | _ => false) &&
  st.readers.all (fun r => match r.pc with | .idle => true | .returned _ => true | _ => false) &&
  (st.closer == .idle || st.closer == .returned)

/-- the labels that start a new operation (everything else continues one that is already in flight) -/
def isInvocation : Label → Bool
  | .wEnter .. => true
  | .rCapture .. => true
  | .close => true
  | _ => false

/-- run a list of labels -/
def run (st : St) : List Label → Option St
  | [] => some st
  | l :: ls => (step st l).bind fun st' => run st' ls

end Lcdb.Conc
