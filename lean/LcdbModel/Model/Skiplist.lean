/-
  Model of src/skiplist.c (single-threaded behaviour: the data structure) and of the generator
  `ldb_rand_*` of src/util/random.c that `ldb_skiplist_randheight` draws node heights from.

  * Nodes live in a list indexed by `Nat` ("pointers" are indices; NULL is `none`).  Node 0 is the
    head (`ldb_skiplist_init`: key = NULL, height LDB_MAX_HEIGHT = 12, all links NULL); the node created
    by the n-th insert has index n.  A node is its key and its `next` array (length = its height).
  * Keys are an abstract type `α` compared by `cmp : α → α → Ordering`
    (`ldb_skiplist_compare`; the memtable instantiates it, see Model/Memtable.lean).
  * Loops (`find_ge`, `find_lt`, `find_last`) take fuel; `searchFuel = nodes + max_height` is proved
    sufficient for every list built by `insert` (Props/SkiplistProps.lean, `levels_nested_sorted`).
  * Nothing is totalised silently: a link read out of range, the key of the head (NULL in C), an
    uninitialised `prev[i]`, fuel exhaustion and the duplicate insertion the C code only asserts
    against all yield `none` (= fault).
  * The memory-order aspect of one insert is Model/SkiplistPub.lean (C10); here links are plain.
  * `find_ge` is always given a `prev` array here; callers that pass NULL in C (`contains`, `seek`)
    ignore it.
  Core Lean only.
-/
namespace Lcdb.Skiplist

/-- LDB_MAX_HEIGHT -/
def kMaxHeight : Nat := 12

/-! ## util/random.c -/

/-- M = 2^31 - 1 -/
def randM : Nat := 2147483647
/-- A = 16807 -/
def randA : Nat := 16807

/-- ldb_rand_init: `seed & 0x7fffffff`, the two bad seeds 0 and M replaced by 1 -/
def randInit (seed : Nat) : Nat :=
  let s := (seed % 2 ^ 32) % 2 ^ 31
  if s = 0 ∨ s = randM then 1 else s

/-- ldb_rand_next on the state (a uint32): `product = seed * A` in uint64,
    `seed = (uint32)((product >> 31) + (product & M))`, one conditional subtraction of M -/
def randNext (s : Nat) : Nat :=
  let product := (s * randA) % 2 ^ 64
  let s1 := (product / 2 ^ 31 + product % 2 ^ 31) % 2 ^ 32
  if s1 > randM then s1 - randM else s1

/-- ldb_rand_uniform: (new state, value); `n = 0` returns 0 WITHOUT advancing the generator -/
def randUniform (s n : Nat) : Nat × Nat :=
  if n = 0 then (s, 0) else (randNext s, randNext s % n)

/-- ldb_rand_one_in -/
def randOneIn (s n : Nat) : Nat × Bool :=
  let (s', v) := randUniform s n
  (s', v == 0)

/-- the loop of ldb_skiplist_randheight: `while (height < 12 && one_in(4)) height++`;
    `fuel = 12 - height` (at fuel 0 the first conjunct is false and the generator is not advanced) -/
def randHeightGo : Nat → Nat → Nat → Nat × Nat
  | 0, h, s => (s, h)
  | fuel + 1, h, s =>
    let (s', b) := randOneIn s 4
    if b then randHeightGo fuel (h + 1) s' else (s', h)

/-- ldb_skiplist_randheight: (new generator state, height) -/
def randomHeight (s : Nat) : Nat × Nat := randHeightGo (kMaxHeight - 1) 1 s

/-! ## nodes -/

structure Node (α : Type) where
  /-- `none` for the head (key = NULL) -/
  key : Option α
  /-- `next[0..height-1]` -/
  next : List (Option Nat)
  deriving Repr

structure SkipList (α : Type) where
  nodes : List (Node α)
  maxHeight : Nat
  /-- `list->rnd.seed` -/
  rnd : Nat
  deriving Repr

/-- ldb_skiplist_init -/
def SkipList.init {α : Type} : SkipList α :=
  { nodes := [{ key := none, next := List.replicate kMaxHeight none }], maxHeight := 1, rnd := randInit 0xdeadbeef }

variable {α : Type}

/-- ldb_skipnode_next(x, lvl) -/
def getNext (sl : SkipList α) (x lvl : Nat) : Option (Option Nat) :=
  match sl.nodes[x]? with
  | none => none
  | some n => n.next[lvl]?

/-- ldb_skipnode_set(x, lvl, v) -/
def setNext (sl : SkipList α) (x lvl : Nat) (v : Option Nat) : Option (SkipList α) :=
  match sl.nodes[x]? with
  | none => none
  | some n =>
    if lvl < n.next.length then some { sl with nodes := sl.nodes.set x { n with next := n.next.set lvl v } }
    else none

/-- `x->key`; fault for the head (NULL) and for a dangling index -/
def keyOf (sl : SkipList α) (x : Nat) : Option α :=
  match sl.nodes[x]? with
  | none => none
  | some n => n.key

def heightOf (sl : SkipList α) (x : Nat) : Nat :=
  match sl.nodes[x]? with
  | none => 0
  | some n => n.next.length

/-- fuel that suffices for every search loop (proved) -/
def searchFuel (sl : SkipList α) : Nat := sl.nodes.length + sl.maxHeight

/-- ldb_skiplist_key_after_node: `node != NULL && compare(node->key, key) < 0` -/
def keyIsAfterNode (cmp : α → α → Ordering) (sl : SkipList α) (key : α) : Option Nat → Option Bool
  | none => some false
  | some n => (keyOf sl n).map fun k => cmp k key == .lt

/-- the loop of ldb_skiplist_find_ge -/
def findGEGo (cmp : α → α → Ordering) (sl : SkipList α) (key : α) :
    Nat → Nat → Nat → List (Option Nat) → Option (Option Nat × List (Option Nat))
  | 0, _, _, _ => none
  | fuel + 1, x, level, prev =>
    match getNext sl x level with
    | none => none
    | some next =>
      match keyIsAfterNode cmp sl key next with
      | none => none
      | some true =>
        match next with
        | some n => findGEGo cmp sl key fuel n level prev
        | none => none
      | some false =>
        if level = 0 then some (next, prev.set level (some x))
        else findGEGo cmp sl key fuel x (level - 1) (prev.set level (some x))

/-- ldb_skiplist_find_ge: (first node at or after `key`, prev[0..11]); `prev[i]` is set for
    `i < max_height` and left uninitialised (`none`) above -/
def findGE (cmp : α → α → Ordering) (sl : SkipList α) (key : α) : Option (Option Nat × List (Option Nat)) :=
  if sl.maxHeight = 0 then none else
  findGEGo cmp sl key (searchFuel sl) 0 (sl.maxHeight - 1) (List.replicate kMaxHeight none)

/-- the loop of ldb_skiplist_find_lt: `next == NULL || compare(next->key, key) >= 0` -/
def findLTGo (cmp : α → α → Ordering) (sl : SkipList α) (key : α) : Nat → Nat → Nat → Option Nat
  | 0, _, _ => none
  | fuel + 1, x, level =>
    match getNext sl x level with
    | none => none
    | some next =>
      match keyIsAfterNode cmp sl key next with
      | none => none
      | some true =>
        match next with
        | some n => findLTGo cmp sl key fuel n level
        | none => none
      | some false => if level = 0 then some x else findLTGo cmp sl key fuel x (level - 1)

/-- ldb_skiplist_find_lt: the last node with a key < `key`, the head (0) if there is none -/
def findLT (cmp : α → α → Ordering) (sl : SkipList α) (key : α) : Option Nat :=
  if sl.maxHeight = 0 then none else findLTGo cmp sl key (searchFuel sl) 0 (sl.maxHeight - 1)

/-- the loop of ldb_skiplist_find_last -/
def findLastGo (sl : SkipList α) : Nat → Nat → Nat → Option Nat
  | 0, _, _ => none
  | fuel + 1, x, level =>
    match getNext sl x level with
    | none => none
    | some (some n) => findLastGo sl fuel n level
    | some none => if level = 0 then some x else findLastGo sl fuel x (level - 1)

/-- ldb_skiplist_find_last: the last node, the head (0) if the list is empty -/
def findLast (sl : SkipList α) : Option Nat :=
  if sl.maxHeight = 0 then none else findLastGo sl (searchFuel sl) 0 (sl.maxHeight - 1)

/-- `for (i = max_height; i < height; i++) prev[i] = head` -/
def raisePrev (prev : List (Option Nat)) (lo hi : Nat) : List (Option Nat) :=
  (List.range (hi - lo)).foldl (fun p j => p.set (lo + j) (some 0)) prev

/-- the link loop of ldb_skiplist_insert, levels `i, i+1, .., i+cnt-1` (bottom-up):
    `x->next[i] = prev[i]->next[i]; prev[i]->next[i] = x` -/
def linkGo (sl : SkipList α) (x : Nat) (prev : List (Option Nat)) : Nat → Nat → Option (SkipList α)
  | _, 0 => some sl
  | i, cnt + 1 =>
    match prev[i]? with
    | some (some p) =>
      match getNext sl p i with
      | none => none
      | some nx =>
        match setNext sl x i nx with
        | none => none
        | some sl1 =>
          match setNext sl1 p i (some x) with
          | none => none
          | some sl2 => linkGo sl2 x prev (i + 1) cnt
    | _ => none

/-- `assert(x == NULL || !equal(key, x->key))` as a test -/
def isDup (cmp : α → α → Ordering) (sl : SkipList α) (key : α) : Option Nat → Option Bool
  | none => some false
  | some n => (keyOf sl n).map fun k => cmp key k == .eq

/-- ldb_skiplist_insert after the search: raise max_height (new levels hang off the head), create the node,
    link it bottom-up -/
def insertAt (sl : SkipList α) (key : α) (height : Nat) (prev : List (Option Nat)) : Option (SkipList α) :=
  let prev := if height > sl.maxHeight then raisePrev prev sl.maxHeight height else prev
  let mh := if height > sl.maxHeight then height else sl.maxHeight
  let sl1 : SkipList α :=
    { sl with nodes := sl.nodes ++ [{ key := some key, next := List.replicate height none }], maxHeight := mh }
  linkGo sl1 sl.nodes.length prev 0 height

/-- ldb_skiplist_insert with the height given (the C code draws it from the generator: `insertRand`).
    Fault: `height` outside 1..12, or a key equal to one in the list (assert-only in C). -/
def insert (cmp : α → α → Ordering) (sl : SkipList α) (key : α) (height : Nat) : Option (SkipList α) :=
  if height = 0 ∨ height > kMaxHeight then none else
  match findGE cmp sl key with
  | none => none
  | some (x, prev) =>
    match isDup cmp sl key x with
    | none => none
    | some true => none
    | some false => insertAt sl key height prev

/-- ldb_skiplist_insert: height from ldb_skiplist_randheight -/
def insertRand (cmp : α → α → Ordering) (sl : SkipList α) (key : α) : Option (SkipList α) :=
  let (s', h) := randomHeight sl.rnd
  insert cmp { sl with rnd := s' } key h

/-- ldb_skiplist_contains -/
def contains (cmp : α → α → Ordering) (sl : SkipList α) (key : α) : Option Bool :=
  match findGE cmp sl key with
  | none => none
  | some (none, _) => some false
  | some (some n, _) => (keyOf sl n).map fun k => cmp key k == .eq

/-! ## ldb_skipiter_*: the iterator state is `iter->node` -/

abbrev Iter := Option Nat

def iterInit : Iter := none
def iterValid (it : Iter) : Bool := it.isSome

/-- ldb_skipiter_key (REQUIRES valid) -/
def iterKey (sl : SkipList α) (it : Iter) : Option α :=
  match it with
  | none => none
  | some n => keyOf sl n

/-- ldb_skipiter_next (REQUIRES valid) -/
def iterNext (sl : SkipList α) (it : Iter) : Option Iter :=
  match it with
  | none => none
  | some n => getNext sl n 0

/-- ldb_skipiter_prev (REQUIRES valid): `find_lt(node->key)`, head ↦ NULL -/
def iterPrev (cmp : α → α → Ordering) (sl : SkipList α) (it : Iter) : Option Iter :=
  match it with
  | none => none
  | some n =>
    match keyOf sl n with
    | none => none
    | some k => (findLT cmp sl k).map fun x => if x = 0 then none else some x

/-- ldb_skipiter_seek -/
def iterSeek (cmp : α → α → Ordering) (sl : SkipList α) (target : α) : Option Iter :=
  (findGE cmp sl target).map (·.1)

/-- ldb_skipiter_first -/
def iterFirst (sl : SkipList α) : Option Iter := getNext sl 0 0

/-- ldb_skipiter_last: `find_last`, head ↦ NULL -/
def iterLast (sl : SkipList α) : Option Iter :=
  (findLast sl).map fun x => if x = 0 then none else some x

/-! ## observation: the chain of every level (what the harness dumps) -/

/-- nodes reached by following `next[lvl]` from `x` (exclusive), at most `fuel` of them -/
def chainFrom (sl : SkipList α) (lvl : Nat) : Nat → Nat → List Nat
  | 0, _ => []
  | fuel + 1, x =>
    match getNext sl x lvl with
    | some (some n) => n :: chainFrom sl lvl fuel n
    | _ => []

/-- the chain of level `lvl` from the head -/
def chain (sl : SkipList α) (lvl : Nat) : List Nat := chainFrom sl lvl sl.nodes.length 0

/-- keys in iteration order (level 0) -/
def keys (sl : SkipList α) : List α := (chain sl 0).filterMap (keyOf sl)

end Lcdb.Skiplist
