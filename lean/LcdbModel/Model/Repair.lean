/-
  Model of ldb_repair (repair.c): every surviving table -- including the tables that logs were converted
  to -- is put into level 0 under its ORIGINAL file number (repair.c:584 write_descriptor), the next file
  number is above every number on disk, the last sequence is the largest sequence found in any table.
-/
import LcdbModel.Model.Lsm
import LcdbModel.Model.DbIter
namespace Lcdb

/-- level 0 as the version builder orders it after reading the repaired descriptor: by smallest key -/
def repairLevel0 (c : Cmp) (files : List FileMeta) : List FileMeta := addFiles c 0 [] files

def maxSeqOf (files : List FileMeta) : Nat := (files.flatMap (·.run)).foldl (fun m e => max m e.seq) 0
def maxNumOf (files : List FileMeta) : Nat := files.foldl (fun m f => max m f.num) 0

/-- the database state right after repair + open (before any compaction) -/
def repairState (c : Cmp) (files : List FileMeta) : DbState :=
  { mem := [], imm := none, levels := repairLevel0 c files :: List.replicate 6 [],
    lastSeq := maxSeqOf files, snaps := [], nextFile := maxNumOf files + 1 }

/-- file-number order agrees with data age: for every user key, a higher-numbered table holds only newer versions -/
def NumberOrderAgreesWithAge (c : Cmp) (files : List FileMeta) : Prop :=
  ∀ f ∈ files, ∀ g ∈ files, f.num > g.num → NewerThan c f.run g.run

end Lcdb
