/-
  Model of src/filename.c ldb_parse_filename and src/util/strutil.c ldb_decode_int.
-/
namespace Lcdb

inductive FileType where
  | log | lock | table | desc | current | temp | info
  deriving Repr, DecidableEq

def isDigit (c : Char) : Bool := '0' ≤ c && c ≤ '9'

/-- ldb_decode_int: longest digit prefix, overflow of uint64 is a failure, empty prefix is a failure -/
def decodeIntGo : List Char → Nat → Bool → Option (Nat × List Char)
  | [], x, any => if any then some (x, []) else none
  | c :: cs, x, any =>
    if isDigit c then
      let d := c.toNat - 48
      if x > (2 ^ 64 - 1) / 10 || (x == (2 ^ 64 - 1) / 10 && d > (2 ^ 64 - 1) % 10) then none
      else decodeIntGo cs (x * 10 + d) true
    else if any then some (x, c :: cs) else none

def decodeInt (s : List Char) : Option (Nat × List Char) := decodeIntGo s 0 false

def stripPrefix (p : List Char) (s : List Char) : Option (List Char) :=
  if p.isPrefixOf s then some (s.drop p.length) else none

/-- ldb_parse_filename -/
def parseFileName (name : String) : Option (FileType × Nat) :=
  let s := name.toList
  if name == "CURRENT" then some (.current, 0)
  else if name == "LOCK" then some (.lock, 0)
  else if name == "LOG" || name == "LOG.old" then some (.info, 0)
  else match stripPrefix "MANIFEST-".toList s with
    | some rest =>
      match decodeInt rest with
      | some (x, []) => some (.desc, x)
      | _ => none
    | none =>
      match decodeInt s with
      | some (x, suffix) =>
        if suffix == ".log".toList then some (.log, x)
        else if suffix == ".sst".toList || suffix == ".ldb".toList then some (.table, x)
        else if suffix == ".dbtmp".toList then some (.temp, x)
        else none
      | none => none

end Lcdb
