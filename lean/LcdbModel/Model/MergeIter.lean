/-
  Model of src/table/merger.c (the merging iterator) over abstract child iterators.

  * A child iterator is a *cursor over a run* (`MChild`: the run in internal-key order, a static
    status, a position `Option Nat`); this is what `ldb_memiter`, a table iterator or a two-level
    iterator present to the merger (the skiplist / table format are abstracted away, other slices
    tie them to runs).  An error child (`ldb_emptyiter_create(status)`) is a child with an empty
    run and a non-OK status.
  * `InternalIter σ` is the `ldb_iter_t` vtable restricted to iterators that yield internal keys:
    `entry` is `key()`‖`value()` in decoded form.  Every operation returns `Option`; `none` is a
    *fault*: the C code would call `next`/`prev`/`key` on an invalid iterator (assert-only, undefined
    in the NDEBUG build).
  * `MergeIter` mirrors `ldb_mergeiter_t`: the children array (`ldb_wrapiter_t` caches only
    `valid`/`key` of the child, it has no behaviour of its own), `current` (index of the child
    `mi->current` points to) and `direction`.
  * `find_smallest` scans children 0..n-1 and replaces the candidate only on `< 0`, so among equal
    keys the FIRST child wins; `find_largest` scans n-1..0 and replaces only on `> 0`, so among
    equal keys the LAST child wins.
  * `ldb_mergeiter_create` returns the empty iterator for n = 0 and the child itself for n = 1; the
    state machine below run with zero / one child is observationally the same (checked by the
    differential run), so no special case is modelled.
-/
import LcdbModel.Model.Lsm
namespace Lcdb

/-- status codes an iterator can report (only their identity matters) -/
inductive IStatus where
  | ok | corrupt | ioerror
  deriving Repr, DecidableEq

inductive Dir where
  | forward | reverse
  deriving Repr, DecidableEq

/-- three-way `ldb_ikc_compare` on decoded internal keys: user key ascending, packed trailer descending -/
def ikCmp3 (c : Cmp) (ak : Bytes) (ap : Nat) (bk : Bytes) (bp : Nat) : Ordering :=
  match c.compare ak bk with
  | .eq => if ap > bp then .lt else if ap < bp then .gt else .eq
  | o => o

def entryCmp (c : Cmp) (a b : Entry) : Ordering := ikCmp3 c a.ukey a.packed b.ukey b.packed

/-- the iterator vtable for iterators over internal keys; `none` = fault (see above) -/
structure InternalIter (σ : Type) where
  valid : σ → Bool
  /-- `key()` and `value()` of the current entry; `none` when the iterator is not valid -/
  entry : σ → Option Entry
  first : σ → Option σ
  last : σ → Option σ
  next : σ → Option σ
  prev : σ → Option σ
  /-- seek to the first entry at or past the internal key (user key, packed trailer) -/
  seek : Bytes → Nat → σ → Option σ
  status : σ → IStatus

/-! ### child iterators: cursors over a run -/

/-- entry under the cursor -/
def runEntry (r : Run) (p : Option Nat) : Option Entry := p.bind (r[·]?)

def runFirst (r : Run) : Option Nat := if r.isEmpty then none else some 0
def runLast (r : Run) : Option Nat := if r.isEmpty then none else some (r.length - 1)

/-- `next` on a valid cursor; `none` (fault) on an invalid one -/
def runNext (r : Run) (p : Option Nat) : Option (Option Nat) :=
  match p with
  | some i => if i < r.length then some (if i + 1 < r.length then some (i + 1) else none) else none
  | none => none

def runPrev (r : Run) (p : Option Nat) : Option (Option Nat) :=
  match p with
  | some i => if i < r.length then some (match i with | 0 => none | j + 1 => some j) else none
  | none => none

/-- first index whose entry is not before (k, pk) -/
def runSeekIdx (c : Cmp) (r : Run) (k : Bytes) (pk : Nat) : Option Nat :=
  r.findIdx? (fun e => !ikLt c e.ukey e.packed k pk)

/-- a plain cursor over one run behind the vtable (status always OK, like `ldb_memiter_status`) -/
def runIter (c : Cmp) (r : Run) : InternalIter (Option Nat) where
  valid p := (runEntry r p).isSome
  entry p := runEntry r p
  first _ := some (runFirst r)
  last _ := some (runLast r)
  next p := runNext r p
  prev p := runPrev r p
  seek k pk _ := some (runSeekIdx c r k pk)
  status _ := .ok

structure MChild where
  run : Run
  st : IStatus
  pos : Option Nat
  deriving Repr, DecidableEq

namespace MChild
def entry (ch : MChild) : Option Entry := runEntry ch.run ch.pos
def valid (ch : MChild) : Bool := ch.entry.isSome
def first (ch : MChild) : MChild := { ch with pos := runFirst ch.run }
def last (ch : MChild) : MChild := { ch with pos := runLast ch.run }
def seek (c : Cmp) (k : Bytes) (pk : Nat) (ch : MChild) : MChild := { ch with pos := runSeekIdx c ch.run k pk }
def next (ch : MChild) : Option MChild := (runNext ch.run ch.pos).map fun p => { ch with pos := p }
def prev (ch : MChild) : Option MChild := (runPrev ch.run ch.pos).map fun p => { ch with pos := p }
end MChild

/-! ### the merging iterator -/

structure MergeIter where
  children : List MChild
  current : Option Nat
  dir : Dir
  deriving Repr, DecidableEq

/-- ldb_mergeiter_init: `current = NULL`, direction forward, children as given (not positioned) -/
def mergeCreate (children : List MChild) : MergeIter :=
  { children := children, current := none, dir := .forward }

/-- the scan shared by find_smallest / find_largest: visit the (index, child) pairs in the given
    order, keep the first valid one and replace it only by a strictly `better` one -/
def pickGo (better : Entry → Entry → Bool) : List (Nat × MChild) → Option (Nat × Entry) → Option (Nat × Entry)
  | [], acc => acc
  | (i, ch) :: rest, acc =>
    let acc' := match ch.entry with
      | none => acc
      | some e => match acc with
        | none => some (i, e)
        | some (j, m) => if better e m then some (i, e) else some (j, m)
    pickGo better rest acc'

def indexed (chs : List MChild) : List (Nat × MChild) := (List.range chs.length).zip chs

/-- ldb_mergeiter_find_smallest: children in order 0..n-1, replace on `compare(child, smallest) < 0` -/
def findSmallest (c : Cmp) (chs : List MChild) : Option Nat :=
  (pickGo (fun e m => entryCmp c e m == .lt) (indexed chs) none).map (·.1)

/-- ldb_mergeiter_find_largest: children in order n-1..0, replace on `compare(child, largest) > 0` -/
def findLargest (c : Cmp) (chs : List MChild) : Option Nat :=
  (pickGo (fun e m => entryCmp c e m == .gt) (indexed chs).reverse none).map (·.1)

namespace MergeIter

def valid (mi : MergeIter) : Bool := mi.current.isSome

/-- the current child (`mi->current`) -/
def cur (mi : MergeIter) : Option MChild := mi.current.bind (mi.children[·]?)

/-- key()/value(): those of the current child -/
def entry (mi : MergeIter) : Option Entry := mi.cur.bind (·.entry)

/-- ldb_mergeiter_status: the first non-OK child status -/
def status (mi : MergeIter) : IStatus :=
  match mi.children.find? (fun ch => ch.st != .ok) with
  | some ch => ch.st
  | none => .ok

def first (c : Cmp) (mi : MergeIter) : MergeIter :=
  let chs := mi.children.map MChild.first
  { children := chs, current := findSmallest c chs, dir := .forward }

def last (c : Cmp) (mi : MergeIter) : MergeIter :=
  let chs := mi.children.map MChild.last
  { children := chs, current := findLargest c chs, dir := .reverse }

def seek (c : Cmp) (k : Bytes) (pk : Nat) (mi : MergeIter) : MergeIter :=
  let chs := mi.children.map (MChild.seek c k pk)
  { children := chs, current := findSmallest c chs, dir := .forward }

/-- re-positioning of one non-current child in `next` when the direction was reverse:
    seek(key()), and step over an entry equal to key() -/
def reposFwd (c : Cmp) (key : Entry) (ch : MChild) : Option MChild :=
  let ch1 := ch.seek c key.ukey key.packed
  match ch1.entry with
  | some e => if entryCmp c key e == .eq then ch1.next else some ch1
  | none => some ch1

/-- re-positioning of one non-current child in `prev` when the direction was forward:
    seek(key()), then `prev` if valid else `last` -/
def reposRev (c : Cmp) (key : Entry) (ch : MChild) : Option MChild :=
  let ch1 := ch.seek c key.ukey key.packed
  if ch1.valid then ch1.prev else some ch1.last

/-- apply `f` to every child except the one at index `cur` -/
def mapOthers (f : MChild → Option MChild) (cur : Nat) : List (Nat × MChild) → Option (List MChild)
  | [] => some []
  | (i, ch) :: rest =>
    match (if i = cur then some ch else f ch), mapOthers f cur rest with
    | some ch', some rest' => some (ch' :: rest')
    | _, _ => none

/-- replace child `i` by `f child`; fault when `f` faults or the index does not exist -/
def stepChild (f : MChild → Option MChild) (i : Nat) (chs : List MChild) : Option (List MChild) :=
  match chs[i]? with
  | some ch => (f ch).map fun ch' => chs.set i ch'
  | none => none

/-- ldb_mergeiter_next (REQUIRES valid) -/
def next (c : Cmp) (mi : MergeIter) : Option MergeIter :=
  match mi.current, mi.entry with
  | some cur, some key =>
    let chs1 := if mi.dir != .forward then mapOthers (reposFwd c key) cur (indexed mi.children)
                else some mi.children
    match chs1 with
    | none => none
    | some chs1 =>
      match stepChild MChild.next cur chs1 with
      | none => none
      | some chs2 => some { children := chs2, current := findSmallest c chs2, dir := .forward }
  | _, _ => none

/-- ldb_mergeiter_prev (REQUIRES valid) -/
def prev (c : Cmp) (mi : MergeIter) : Option MergeIter :=
  match mi.current, mi.entry with
  | some cur, some key =>
    let chs1 := if mi.dir != .reverse then mapOthers (reposRev c key) cur (indexed mi.children)
                else some mi.children
    match chs1 with
    | none => none
    | some chs1 =>
      match stepChild MChild.prev cur chs1 with
      | none => none
      | some chs2 => some { children := chs2, current := findLargest c chs2, dir := .reverse }
  | _, _ => none

end MergeIter

/-- the merging iterator behind the vtable -/
def mergeIterI (c : Cmp) : InternalIter MergeIter where
  valid := MergeIter.valid
  entry := MergeIter.entry
  first mi := some (mi.first c)
  last mi := some (mi.last c)
  next := MergeIter.next c
  prev := MergeIter.prev c
  seek k pk mi := some (mi.seek c k pk)
  status := MergeIter.status

/-- sort entries into a run (what inserting them into a memtable does) -/
def mkRun (c : Cmp) (es : List Entry) : Run := es.foldl (fun r e => runInsert c e r) []

end Lcdb
