/-
  Model of whole table files:
    src/table/format.c          ldb_read_block
    src/table/table_builder.c   ldb_tablegen_*
    src/table/table.c           ldb_table_open, read_meta, read_filter, blockreader,
                                ldb_tableiter_create, ldb_table_internal_get
    src/table/two_level_iterator.c

  Reused models: blocks and the block iterator (Model/Block.lean), filter block and policies
  (Model/FilterBlock.lean, Model/Bloom.lean), block handle and footer (Model/TableFormat0.lean),
  Snappy (Model/Snappy.lean), CRC-32C (Model/Crc32c.lean), internal keys (Model/InternalKey.lean).

  A file is the list of its bytes.  `ldb_rfile_pread` is `pread` below; a read that leaves the
  file is a short read (pread(2) on an fd) or EINVAL (mapped file) — `ldb_read_block` answers
  both with an error that is not LDB_CORRUPTION (`BlockErr.io`).

  Faults: the block iterator reports undefined behaviour as `none`; here every function that
  runs a block iterator returns `Option` (`none` = fault) and `readBlock`/`tableOpen` have the
  extra error `BlockErr.fault`.  `Props/TableProps.lean` (`table_no_fault`) proves that no fault
  is reachable on arbitrary bytes.

  The table is always used the way the DB uses it: comparator = `ldb_ikc_init(user comparator)`,
  filter policy = `ldb_ifp_init(bloom)`, no block cache.
-/
import LcdbModel.Model.Block
import LcdbModel.Model.FilterBlock
import LcdbModel.Model.TableFormat0
import LcdbModel.Model.Snappy
import LcdbModel.Model.Crc32c
namespace Lcdb

/-! ### ldb_read_block -/

inductive BlockErr where
  /-- LDB_CORRUPTION -/
  | corruption
  /-- the read itself failed: LDB_IOERR ("truncated block read"), EINVAL from a mapped file -/
  | io
  /-- model only: a byte outside the buffer returned by `pread` would be touched
      (unreachable: `readBlock_total`) -/
  | fault
  deriving Repr, DecidableEq

/-- LDB_TRAILER_SIZE: 1-byte type + 32-bit crc -/
def blockTrailerSize : Nat := 5

/-- `ldb_rfile_pread(file, &result, buf, count, offset)`: the bytes actually delivered -/
def pread (file : Bytes) (offset count : Nat) : Bytes := (file.drop offset).take count

/-- the `switch (data[n])` of ldb_read_block on the `n + 5` bytes that were read -/
def readBlockBody (raw : Bytes) (n : Nat) : Except BlockErr Bytes :=
  match raw[n]? with
  | none => .error .fault
  | some ty =>
    if ty = 0 then
      match sliceC raw 0 n with
      | some d => .ok d
      | none => .error .fault
    else if ty = 1 then
      match sliceC raw 0 n with
      | none => .error .fault
      | some d =>
        match Snappy.decodeSize d with
        | none => .error .corruption            -- "corrupted compressed block contents"
        | some _ =>
          match Snappy.decode d with
          | none => .error .corruption
          | some out => .ok out
    else .error .corruption                      -- "bad block type"

/-- the checksum test of ldb_read_block: `unmask(fixed32(data + n + 1)) == crc32c(data, n + 1)`;
    `none` = a read outside the buffer -/
def blockCrcOk (raw : Bytes) (n : Nat) : Option Bool :=
  match sliceC raw (n + 1) 4, sliceC raw 0 (n + 1) with
  | some cb, some body => some (crcUnmask (BitVec.ofNat 32 (fixedDec cb)) == crcExtendTab 0 body)
  | _, _ => none

/-- ldb_read_block(file, {verify_checksums}, {offset, size}) -/
def readBlock (file : Bytes) (offset size : Nat) (verify : Bool) : Except BlockErr Bytes :=
  if size > 2 ^ 64 - 1 - blockTrailerSize then .error .corruption      -- overflow check
  else
    let len := size + blockTrailerSize
    let raw := pread file offset len
    if raw.length ≠ len then .error .io                                 -- "truncated block read"
    else if verify then
      match blockCrcOk raw size with
      | none => .error .fault
      | some false => .error .corruption                                -- "block checksum mismatch"
      | some true => readBlockBody raw size
    else readBlockBody raw size

/-! ### table builder -/

structure TableOpts where
  blockSize : Nat
  restartInterval : Nat
  compression : Bool
  /-- bits per key of the bloom policy; `none` = `filter_policy == NULL` -/
  filterBits : Option Nat
  /-- the user comparator; the table's comparator is `ldb_ikc_init` over it -/
  cmp : Cmp
  deriving Repr

/-- `options->filter_policy`: the internal filter policy wrapper over bloom -/
def TableOpts.policy (o : TableOpts) : Option Policy :=
  o.filterBits.map fun b => ifpPolicy (bloomPolicy b)

/-- `ldb_bloom_name`: "filter." ‖ policy name -/
def filterKeyName : Bytes := "filter.leveldb.BuiltinBloomFilter2".toUTF8.toList

/-- the 5-byte trailer written by ldb_tablegen_write_raw_block -/
def blockTrailer (contents : Bytes) (ty : UInt8) : Bytes :=
  ty :: fixedEnc 4 (crcMask (crcExtendTab (crcExtendTab 0 contents) [ty])).toNat

/-- ldb_tablegen_write_raw_block: the bytes appended to the file -/
def rawBlockBytes (contents : Bytes) (ty : UInt8) : Bytes := contents ++ blockTrailer contents ty

/-- the compression decision of ldb_tablegen_write_block (12.5 % rule): stored contents, type -/
def compressBlock (o : TableOpts) (raw : Bytes) : Bytes × UInt8 :=
  if o.compression then
    let c := Snappy.encode raw
    if c.length < raw.length - raw.length / 8 then (c, 1) else (raw, 0)
  else (raw, 0)

/-- ldb_tablegen_write_block at file offset `offset`: appended bytes and the handle -/
def writeBlock (o : TableOpts) (offset : Nat) (raw : Bytes) : Bytes × BlockHandle :=
  let ct := compressBlock o raw
  (rawBlockBytes ct.1 ct.2, { offset := offset, size := ct.1.length })

/-- ldb_blockgen_size_estimate -/
def blockGenSizeEstimate (g : BlockGen) : Nat := g.buffer.length + g.restarts.length * 4 + 4

/-- ldb_tablegen_t without the file (the bytes are emitted step by step; `offset` = bytes so far) -/
structure TableGen where
  offset : Nat
  dataBlock : BlockGen
  indexBlock : BlockGen
  lastKey : Bytes
  filter : Option FilterGen
  /-- `pending_index_entry` with `pending_handle` -/
  pending : Option BlockHandle

/-- ldb_tablegen_init -/
def tableGenInit (o : TableOpts) : TableGen :=
  { offset := 0, dataBlock := blockGenInit, indexBlock := blockGenInit, lastKey := [],
    filter := o.policy.map fun p => FilterGen.startBlock p {} 0, pending := none }

/-- ldb_tablegen_flush: emitted bytes and the new state -/
def TableGen.flush (o : TableOpts) (st : TableGen) : Bytes × TableGen :=
  if st.dataBlock.buffer.isEmpty then ([], st)
  else
    let w := writeBlock o st.offset (blockGenFinish st.dataBlock)
    let off' := st.offset + w.1.length
    (w.1, { st with
      offset := off', dataBlock := blockGenInit, pending := some w.2
      filter := match o.policy, st.filter with
        | some p, some f => some (f.startBlock p off')
        | _, _ => st.filter })

/-- ldb_tablegen_add -/
def TableGen.add (o : TableOpts) (st : TableGen) (key value : Bytes) : Bytes × TableGen :=
  let ib := match st.pending with
    | some h => blockGenAdd 1 st.indexBlock (ikeySeparator o.cmp st.lastKey key) (handleEncode h)
    | none => st.indexBlock
  let st2 : TableGen :=
    { st with indexBlock := ib, pending := none, filter := st.filter.map (·.addKey key),
              lastKey := key, dataBlock := blockGenAdd o.restartInterval st.dataBlock key value }
  if blockGenSizeEstimate st2.dataBlock ≥ o.blockSize then st2.flush o else ([], st2)

/-- ldb_tablegen_finish: everything that is still written (last data block, filter block,
    metaindex block, index block, footer) -/
def TableGen.finish (o : TableOpts) (st0 : TableGen) : Bytes :=
  let fl := st0.flush o
  let st := fl.2
  -- filter block (never compressed)
  let fb : Bytes × Option BlockHandle × Nat :=
    match o.policy, st.filter with
    | some p, some f =>
      let c := f.finish p
      (rawBlockBytes c 0, some { offset := st.offset, size := c.length }, st.offset + c.length + blockTrailerSize)
    | _, _ => ([], none, st.offset)
  -- metaindex block
  let metaEntries : List (Bytes × Bytes) :=
    match fb.2.1 with
    | some h => [(filterKeyName, handleEncode h)]
    | none => []
  let mb := writeBlock o fb.2.2 (blockBuild o.restartInterval metaEntries)
  let off2 := fb.2.2 + mb.1.length
  -- index block
  let ib := match st.pending with
    | some h => blockGenAdd 1 st.indexBlock (ikeySuccessor o.cmp st.lastKey) (handleEncode h)
    | none => st.indexBlock
  let xb := writeBlock o off2 (blockGenFinish ib)
  fl.1 ++ (fb.1 ++ (mb.1 ++ (xb.1 ++ footerEncode { metaindex := mb.2, index := xb.2 })))

/-- ldb_tablegen_add for every entry, then ldb_tablegen_finish -/
def tableGo (o : TableOpts) : TableGen → List (Bytes × Bytes) → Bytes
  | st, [] => st.finish o
  | st, e :: es => let r := st.add o e.1 e.2; r.1 ++ tableGo o r.2 es

/-- the file written by create / add* / finish -/
def tableBuild (o : TableOpts) (entries : List (Bytes × Bytes)) : Bytes :=
  tableGo o (tableGenInit o) entries

/-! ### ldb_table_open -/

/-- iterator / get status: LDB_OK, LDB_CORRUPTION, anything else -/
inductive TStatus where
  | ok | corrupt | io
  deriving Repr, DecidableEq

def TStatus.ofB : BStatus → TStatus
  | .ok => .ok
  | .corrupt => .corrupt

/-- `BlockErr.fault` never reaches a status (callers turn it into `none` first) -/
def TStatus.ofErr : BlockErr → TStatus
  | .corruption => .corrupt
  | _ => .io

/-- ldb_table_t -/
structure Table where
  opts : TableOpts
  file : Bytes
  /-- contents of the index block -/
  index : Bytes
  /-- contents of the filter block when `table->filter != NULL` -/
  filter : Option Bytes
  metaindex : BlockHandle

/-- `table->options.comparator` -/
def Table.cmpB (t : Table) : BlockCmp := mkBlockCmp t.opts.cmp true

/-- ldb_table_read_filter: every error leaves `table->filter == NULL` -/
def readFilter (file : Bytes) (paranoid : Bool) (handleValue : Bytes) : Except BlockErr (Option Bytes) :=
  match handleRead handleValue with
  | none => .ok none
  | some (h, _) =>
    match readBlock file h.offset h.size paranoid with
    | .ok c => .ok (some c)
    | .error .fault => .error .fault
    | .error _ => .ok none

/-- the metaindex lookup of ldb_table_read_meta: the value stored under "filter.<policy name>"
    (`.ok none`: no policy, unreadable metaindex block, or no such key) -/
def findFilterHandle (o : TableOpts) (file : Bytes) (paranoid : Bool) (ft : Footer) :
    Except BlockErr (Option Bytes) :=
  match o.policy with
  | none => .ok none
  | some _ =>
    match readBlock file ft.metaindex.offset ft.metaindex.size paranoid with
    | .error .fault => .error .fault
    | .error _ => .ok none
    | .ok contents =>
      match (blockIterCreate contents).seek bytewiseBlockCmp filterKeyName with
      | none => .error .fault
      | some it => if it.valid && it.key == filterKeyName then .ok (some it.value) else .ok none

/-- ldb_table_read_meta: "do not propagate errors since meta info is not needed for operation" -/
def readMeta (o : TableOpts) (file : Bytes) (paranoid : Bool) (ft : Footer) : Except BlockErr (Option Bytes) :=
  match findFilterHandle o file paranoid ft with
  | .error e => .error e
  | .ok none => .ok none
  | .ok (some v) => readFilter file paranoid v

/-- ldb_table_open(options, file, size = file size, &table) -/
def tableOpen (o : TableOpts) (file : Bytes) (paranoid : Bool) : Except BlockErr Table :=
  if file.length < footerSize then .error .corruption       -- "file is too short to be an sstable"
  else
    match footerDecode (pread file (file.length - footerSize) footerSize) with
    | none => .error .corruption
    | some ft =>
      match readBlock file ft.index.offset ft.index.size paranoid with
      | .error e => .error e
      | .ok idx =>
        match readMeta o file paranoid ft with
        | .error e => .error e
        | .ok flt => .ok { opts := o, file := file, index := idx, filter := flt, metaindex := ft.metaindex }

/-! ### ldb_table_blockreader -/

/-- what ldb_table_blockreader returns: `ldb_emptyiter_create(rc)` or a block iterator -/
inductive DataIter where
  | failed (st : TStatus)
  | opened (it : TIter)
  deriving Repr

namespace DataIter

def valid : DataIter → Bool
  | .failed _ => false
  | .opened it => it.valid

def status : DataIter → TStatus
  | .failed s => s
  | .opened it => TStatus.ofB it.status

def key : DataIter → Bytes
  | .failed _ => []
  | .opened it => it.key

def value : DataIter → Bytes
  | .failed _ => []
  | .opened it => it.value

def lift (f : TIter → Option TIter) : DataIter → Option DataIter
  | .failed s => some (.failed s)
  | .opened it => (f it).map .opened

end DataIter

/-- ldb_table_blockreader (no block cache): `none` = fault -/
def blockReader (t : Table) (verify : Bool) (indexValue : Bytes) : Option DataIter :=
  match handleRead indexValue with
  | none => some (.failed .corrupt)
  | some (h, _) =>
    match readBlock t.file h.offset h.size verify with
    | .error .fault => none
    | .error e => some (.failed (TStatus.ofErr e))
    | .ok c => some (.opened (blockIterCreate c))

/-! ### two-level iterator -/

/-- ldb_twoiter_t.  The `ldb_wrapiter_t` caches (`valid`, `key`) are refreshed after every
    operation on the wrapped iterator, so they always equal the iterator's own answers. -/
structure TwoIter where
  index : TIter
  /-- `data_iter.iter` (`none` = NULL) -/
  data : Option DataIter
  /-- `data_block_handle` -/
  handle : Bytes
  /-- `iter->status`: first error of a data iterator that has been replaced -/
  status : TStatus
  deriving Repr

namespace TwoIter

def dataValid (it : TwoIter) : Bool :=
  match it.data with
  | some d => d.valid
  | none => false

/-- ldb_twoiter_valid -/
def valid (it : TwoIter) : Bool := it.dataValid

def key (it : TwoIter) : Bytes :=
  match it.data with
  | some d => d.key
  | none => []

def value (it : TwoIter) : Bytes :=
  match it.data with
  | some d => d.value
  | none => []

/-- ldb_twoiter_status -/
def getStatus (it : TwoIter) : TStatus :=
  if TStatus.ofB it.index.status ≠ .ok then TStatus.ofB it.index.status
  else
    match it.data with
    | some d => if d.status ≠ .ok then d.status else it.status
    | none => it.status

/-- ldb_twoiter_saverr -/
def saveErr (it : TwoIter) (s : TStatus) : TwoIter :=
  if it.status = .ok ∧ s ≠ .ok then { it with status := s } else it

/-- ldb_twoiter_set_data_iter -/
def setDataIter (it : TwoIter) (d : Option DataIter) : TwoIter :=
  let it1 := match it.data with
    | some old => it.saveErr old.status
    | none => it
  { it1 with data := d }

/-- ldb_twoiter_init_data_block.  `rd` is `block_function(arg, options, ·)`; `none` = fault -/
def initDataBlock (rd : Bytes → Option DataIter) (it : TwoIter) : Option TwoIter :=
  if !it.index.valid then some (it.setDataIter none)
  else
    let h := it.index.value
    if it.data.isSome && h == it.handle then some it
    else
      match rd h with
      | none => none
      | some d => some ({ it with handle := h }.setDataIter (some d))

/-- apply a block-iterator operation to the data iterator (if it is non-NULL) -/
def onData (f : TIter → Option TIter) (it : TwoIter) : Option TwoIter :=
  match it.data with
  | none => some it
  | some d => (d.lift f).map fun d' => { it with data := some d' }

/-- ldb_twoiter_skip_forward.  Every iteration moves the index iterator forward, so at most
    `index block size + 1` iterations happen; `none` = fault or fuel exhausted. -/
def skipForward (c : BlockCmp) (rd : Bytes → Option DataIter) : Nat → TwoIter → Option TwoIter
  | 0, _ => none
  | fuel + 1, it =>
    if it.data.isNone || !it.dataValid then
      if !it.index.valid then some (it.setDataIter none)
      else
        match it.index.next c with
        | none => none
        | some ix =>
          match initDataBlock rd { it with index := ix } with
          | none => none
          | some it1 =>
            match it1.onData (TIter.first c) with
            | none => none
            | some it2 => skipForward c rd fuel it2
    else some it

/-- ldb_twoiter_skip_backward -/
def skipBackward (c : BlockCmp) (rd : Bytes → Option DataIter) : Nat → TwoIter → Option TwoIter
  | 0, _ => none
  | fuel + 1, it =>
    if it.data.isNone || !it.dataValid then
      if !it.index.valid then some (it.setDataIter none)
      else
        match it.index.prev c with
        | none => none
        | some ix =>
          match initDataBlock rd { it with index := ix } with
          | none => none
          | some it1 =>
            match it1.onData (TIter.last c) with
            | none => none
            | some it2 => skipBackward c rd fuel it2
    else some it

/-- ldb_twoiter_seek (`fuel` bounds the skip loop) -/
def seek (c : BlockCmp) (rd : Bytes → Option DataIter) (fuel : Nat) (target : Bytes) (it : TwoIter) :
    Option TwoIter :=
  match it.index.seek c target with
  | none => none
  | some ix =>
    match initDataBlock rd { it with index := ix } with
    | none => none
    | some it1 =>
      match it1.onData (TIter.seek c target) with
      | none => none
      | some it2 => skipForward c rd fuel it2

/-- ldb_twoiter_first -/
def first (c : BlockCmp) (rd : Bytes → Option DataIter) (fuel : Nat) (it : TwoIter) : Option TwoIter :=
  match it.index.first c with
  | none => none
  | some ix =>
    match initDataBlock rd { it with index := ix } with
    | none => none
    | some it1 =>
      match it1.onData (TIter.first c) with
      | none => none
      | some it2 => skipForward c rd fuel it2

/-- ldb_twoiter_last -/
def last (c : BlockCmp) (rd : Bytes → Option DataIter) (fuel : Nat) (it : TwoIter) : Option TwoIter :=
  match it.index.last c with
  | none => none
  | some ix =>
    match initDataBlock rd { it with index := ix } with
    | none => none
    | some it1 =>
      match it1.onData (TIter.last c) with
      | none => none
      | some it2 => skipBackward c rd fuel it2

/-- ldb_twoiter_next (caller has checked validity, so the data iterator is non-NULL and valid) -/
def next (c : BlockCmp) (rd : Bytes → Option DataIter) (fuel : Nat) (it : TwoIter) : Option TwoIter :=
  match it.onData (TIter.next c) with
  | none => none
  | some it1 => skipForward c rd fuel it1

/-- ldb_twoiter_prev -/
def prev (c : BlockCmp) (rd : Bytes → Option DataIter) (fuel : Nat) (it : TwoIter) : Option TwoIter :=
  match it.onData (TIter.prev c) with
  | none => none
  | some it1 => skipBackward c rd fuel it1

end TwoIter

/-- ldb_twoiter_create(index_iter, block_function, arg, options) behind the generic iterator
    interface (`iter->cmp` is the index iterator's comparator) -/
def twoIterOps (c : BlockCmp) (rd : Bytes → Option DataIter) (fuel : Nat) : IterOps TwoIter :=
  { valid := TwoIter.valid, key := TwoIter.key, compare := c.compare,
    first := TwoIter.first c rd fuel, last := TwoIter.last c rd fuel,
    next := TwoIter.next c rd fuel, prev := TwoIter.prev c rd fuel,
    seek := TwoIter.seek c rd fuel }

/-- iterations the skip loops of a table iterator can need: every iteration moves the index
    iterator strictly forward (backward) inside the index block -/
def skipFuel (t : Table) : Nat := t.index.length + 2

/-- ldb_tableiter_create(table, {verify_checksums}): the initial state -/
def tableIterCreate (t : Table) : TwoIter :=
  { index := blockIterCreate t.index, data := none, handle := [], status := .ok }

/-- the table iterator: two-level iterator over the index block with ldb_table_blockreader -/
def tableIterOps (t : Table) (verify : Bool) : IterOps TwoIter :=
  twoIterOps t.cmpB (blockReader t verify) (skipFuel t)

/-- result of a forward scan: the entries seen, the status when the iterator became invalid,
    and whether the step budget ran out first -/
structure ScanResult where
  entries : List (Bytes × Bytes)
  status : TStatus
  complete : Bool
  deriving Repr

def scanGo (t : Table) (verify : Bool) : Nat → TwoIter → List (Bytes × Bytes) → Option ScanResult
  | 0, it, acc => some { entries := acc.reverse, status := it.getStatus, complete := false }
  | fuel + 1, it, acc =>
    if it.valid then
      match (tableIterOps t verify).next it with
      | none => none
      | some it' => scanGo t verify fuel it' ((it.key, it.value) :: acc)
    else some { entries := acc.reverse, status := it.getStatus, complete := true }

/-- `first`, then `next` until the iterator is invalid (at most `maxSteps` entries): `none` = fault -/
def tableIterAll (t : Table) (verify : Bool) (maxSteps : Nat) : Option ScanResult :=
  match (tableIterOps t verify).first (tableIterCreate t) with
  | none => none
  | some it => scanGo t verify maxSteps it []

/-! ### ldb_table_internal_get -/

/-- what ldb_table_internal_get did: the `(key, value)` handed to `handle_result` (if it was
    called) and the return code -/
structure GetResult where
  found : Option (Bytes × Bytes)
  status : TStatus
  deriving Repr, DecidableEq

/-- the filter test of ldb_table_internal_get: `some true` = the filter rules the key out;
    `none` = fault (a read outside the filter block) -/
def filterRejects (t : Table) (indexValue ikey : Bytes) : Option Bool :=
  match t.filter, t.opts.policy with
  | some fc, some p =>
    match handleRead indexValue with
    | none => some false
    | some (h, _) =>
      match filterMatchC p fc h.offset ikey with
      | none => none
      | some m => some (!m)
  | _, _ => some false

/-- ldb_table_internal_get(table, {verify_checksums}, k, ...): one seek in the index block, the
    filter test, one seek in ONE data block (no skip to the next block) -/
def tableGet (t : Table) (ikey : Bytes) (verify : Bool) : Option GetResult :=
  match (blockIterCreate t.index).seek t.cmpB ikey with
  | none => none
  | some ix =>
    let ixStatus := TStatus.ofB ix.status
    if ix.valid then
      let iv := ix.value
      match filterRejects t iv ikey with
      | none => none
      | some true => some { found := none, status := ixStatus }
      | some false =>
        match blockReader t verify iv with
        | none => none
        | some d =>
          match d.lift (TIter.seek t.cmpB ikey) with
          | none => none
          | some d' =>
            some { found := if d'.valid then some (d'.key, d'.value) else none
                   status := if d'.status = .ok then ixStatus else d'.status }
    else some { found := none, status := ixStatus }

/-! ### whole-file decoding for other tools -/

/-- open with paranoid checks, scan with checksum verification; any error is reported -/
def decodeTableFile (o : TableOpts) (bytes : Bytes) : Except String (List (Bytes × Bytes)) :=
  match tableOpen o bytes true with
  | .error .corruption => .error "open: corruption"
  | .error .io => .error "open: io error"
  | .error .fault => .error "open: model fault"
  | .ok t =>
    match tableIterAll t true (bytes.length * 32 + 64) with
    | none => .error "scan: model fault"
    | some r =>
      if !r.complete then .error "scan: step budget exhausted"
      else match r.status with
        | .ok => .ok r.entries
        | .corrupt => .error "scan: corruption"
        | .io => .error "scan: io error"

end Lcdb
