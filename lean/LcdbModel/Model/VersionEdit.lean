/-
  Model of src/version_edit.c: tagged varint encoding of version edits (MANIFEST records).
-/
import LcdbModel.Model.Coding
namespace Lcdb

def tagComparator : Nat := 1
def tagLogNumber : Nat := 2
def tagNextFileNumber : Nat := 3
def tagLastSequence : Nat := 4
def tagCompactPointer : Nat := 5
def tagDeletedFile : Nat := 6
def tagNewFile : Nat := 7
def tagPrevLogNumber : Nat := 9
def numLevels : Nat := 7

structure NewFile where
  level : Nat
  number : Nat
  size : Nat
  smallest : Bytes
  largest : Bytes
  deriving Repr, DecidableEq

structure Edit where
  comparator : Option Bytes := none
  logNumber : Option Nat := none
  prevLogNumber : Option Nat := none
  nextFile : Option Nat := none
  lastSeq : Option Nat := none
  compactPointers : List (Nat × Bytes) := []
  /-- the C red-black set ordered by (level, number): kept sorted and duplicate-free -/
  deletedFiles : List (Nat × Nat) := []
  newFiles : List NewFile := []
  deriving Repr, DecidableEq

def optField (tag : Nat) : Option Nat → Bytes
  | none => []
  | some v => varintEnc tag ++ varintEnc v

/-- ldb_edit_export -/
def editEncode (e : Edit) : Bytes :=
  (match e.comparator with | none => [] | some c => varintEnc tagComparator ++ sliceEnc c)
  ++ optField tagLogNumber e.logNumber
  ++ optField tagPrevLogNumber e.prevLogNumber
  ++ optField tagNextFileNumber e.nextFile
  ++ optField tagLastSequence e.lastSeq
  ++ (e.compactPointers.map fun (l, k) => varintEnc tagCompactPointer ++ varintEnc l ++ sliceEnc k).flatten
  ++ (e.deletedFiles.map fun (l, n) => varintEnc tagDeletedFile ++ varintEnc l ++ varintEnc n).flatten
  ++ (e.newFiles.map fun f => varintEnc tagNewFile ++ varintEnc f.level ++ varintEnc f.number ++ varintEnc f.size
        ++ sliceEnc f.smallest ++ sliceEnc f.largest).flatten

def pairLt (a b : Nat × Nat) : Bool := a.1 < b.1 || (a.1 == b.1 && a.2 < b.2)

/-- rb_set_put on the (level, number) set -/
def setInsert (x : Nat × Nat) : List (Nat × Nat) → List (Nat × Nat)
  | [] => [x]
  | y :: ys => if pairLt x y then x :: y :: ys else if x == y then y :: ys else y :: setInsert x ys

/-- ldb_level_slurp -/
def levelRead (bs : Bytes) : Option (Nat × Bytes) :=
  match varint32Read bs with
  | none => none
  | some (v, rest) => if v ≥ numLevels then none else some (v, rest)

/-- the while loop of ldb_edit_import -/
def editDecodeGo : Nat → Bytes → Edit → Option Edit
  | 0, _, _ => none
  | _+1, [], e => some e
  | fuel+1, b :: bs, e =>
    match varint32Read (b :: bs) with
    | none => none
    | some (tag, r) =>
      if tag == tagComparator then
        match sliceRead r with
        | none => none
        | some (c, r) => editDecodeGo fuel r { e with comparator := some c }
      else if tag == tagLogNumber then
        match varint64Read r with
        | none => none
        | some (v, r) => editDecodeGo fuel r { e with logNumber := some v }
      else if tag == tagPrevLogNumber then
        match varint64Read r with
        | none => none
        | some (v, r) => editDecodeGo fuel r { e with prevLogNumber := some v }
      else if tag == tagNextFileNumber then
        match varint64Read r with
        | none => none
        | some (v, r) => editDecodeGo fuel r { e with nextFile := some v }
      else if tag == tagLastSequence then
        match varint64Read r with
        | none => none
        | some (v, r) => editDecodeGo fuel r { e with lastSeq := some v }
      else if tag == tagCompactPointer then
        match levelRead r with
        | none => none
        | some (l, r) =>
          match sliceRead r with
          | none => none
          | some (k, r) => if k.length < 8 then none
                           else editDecodeGo fuel r { e with compactPointers := e.compactPointers ++ [(l, k)] }
      else if tag == tagDeletedFile then
        match levelRead r with
        | none => none
        | some (l, r) =>
          match varint64Read r with
          | none => none
          | some (n, r) => editDecodeGo fuel r { e with deletedFiles := setInsert (l, n) e.deletedFiles }
      else if tag == tagNewFile then
        match levelRead r with
        | none => none
        | some (l, r) =>
          match varint64Read r with
          | none => none
          | some (n, r) =>
            match varint64Read r with
            | none => none
            | some (sz, r) =>
              match sliceRead r with
              | none => none
              | some (s, r) =>
                match sliceRead r with
                | none => none
                | some (lg, r) =>
                  if s.length < 8 || lg.length < 8 then none
                  else editDecodeGo fuel r { e with newFiles := e.newFiles ++ [{ level := l, number := n, size := sz, smallest := s, largest := lg }] }
      else none

/-- ldb_edit_import -/
def editDecode (bs : Bytes) : Option Edit := editDecodeGo (bs.length + 1) bs {}

end Lcdb
