/-
  Happens-before model for C10 (no data race on one database handle).

  A trace is one interleaving of the events of all threads: `tr[i] = (thread, event)`.
  Events: mutex acquire / release (an `ldb_cond_wait(c, m)` is the pair `rel m` ... `acq m`: that is
  all the guarantee a condition variable gives, see `waitEvents`), thread creation / join, atomic
  loads and stores with their C11 memory order (a load names the store it reads from by the store's
  tag), and plain reads / writes of memory locations.

  `HB tr i j` (event i happens before event j) is the transitive closure of
    program order, unlock -> later lock of the same mutex, fork -> child, child -> join,
    release-store -> acquire-load that READS THAT STORE.
  A data race is a pair of conflicting plain accesses (same location, different threads, at least one
  write) that happens-before does not order.

  Core Lean only.
-/
import LcdbModel.Spec.ConcTypes
namespace Lcdb.HB
open Lcdb.Conc (MemOrder)

abbrev Tid := Nat
abbrev Loc := Nat
abbrev Mutex := Nat
abbrev AVar := Nat

inductive Ev where
  | acq (m : Mutex)
  | rel (m : Mutex)
  | signal (c : Nat)                                   -- ldb_cond_signal / broadcast: no ordering of its own
  | fork (child : Tid)
  | join (child : Tid)
  | astore (a : AVar) (o : MemOrder) (tag : Nat)       -- `tag` identifies this store (unique per trace)
  | aload (a : AVar) (o : MemOrder) (rf : Option Nat)  -- reads-from: tag of the store read; none = initial value
  | read (x : Loc)
  | write (x : Loc)
deriving DecidableEq, Repr

abbrev Trace := List (Tid × Ev)

/-- the events by which thread `t` performs `ldb_cond_wait(c, m)` (other threads' events may come in between) -/
def waitEvents (m : Mutex) : List Ev := [.rel m, Ev.acq m]

/-- plain access performed by an event: (location, isWrite) -/
def Ev.access : Ev → Option (Loc × Bool)
  | .read x => some (x, false)
  | .write x => some (x, true)
  | _ => none

/-- happens-before -/
inductive HB (tr : Trace) : Nat → Nat → Prop where
  | po {i j t e1 e2} : i < j → tr[i]? = some (t, e1) → tr[j]? = some (t, e2) → HB tr i j
  | lock {i j t1 t2 m} : i < j → tr[i]? = some (t1, Ev.rel m) → tr[j]? = some (t2, Ev.acq m) → HB tr i j
  | fork {i j t c e} : i < j → tr[i]? = some (t, Ev.fork c) → tr[j]? = some (c, e) → HB tr i j
  | join {i j t c e} : i < j → tr[i]? = some (c, e) → tr[j]? = some (t, Ev.join c) → HB tr i j
  | sw {i j t1 t2 a o1 o2 tag} : i < j → tr[i]? = some (t1, Ev.astore a o1 tag) → o1.isRelease = true →
      tr[j]? = some (t2, Ev.aload a o2 (some tag)) → o2.isAcquire = true → HB tr i j
  | trans {i j k} : HB tr i j → HB tr j k → HB tr i k

theorem HB.lt {tr : Trace} {i j : Nat} (h : HB tr i j) : i < j := by
  induction h with
  | po h _ _ => exact h
  | lock h _ _ => exact h
  | fork h _ _ => exact h
  | join h _ _ => exact h
  | sw h _ _ _ _ => exact h
  | trans _ _ ih1 ih2 => omega

theorem HB.lt_length {tr : Trace} {i j : Nat} (h : HB tr i j) : j < tr.length := by
  have aux : ∀ {k : Nat} {v : Tid × Ev}, tr[k]? = some v → k < tr.length := by
    intro k v hk
    rcases Nat.lt_or_ge k tr.length with hlt | hge
    · exact hlt
    · rw [List.getElem?_eq_none hge] at hk; cases hk
  induction h with
  | po _ _ h => exact aux h
  | lock _ _ h => exact aux h
  | fork _ _ h => exact aux h
  | join _ _ h => exact aux h
  | sw _ _ _ h _ => exact aux h
  | trans _ _ _ ih2 => exact ih2

/-- thread `t` holds mutex `m` when it performs event `i`: it acquired `m` earlier and has not released it since -/
def Holds (tr : Trace) (t : Tid) (m : Mutex) (i : Nat) : Prop :=
  ∃ a, a < i ∧ tr[a]? = some (t, Ev.acq m) ∧ ∀ k, a < k → k < i → tr[k]? ≠ some (t, Ev.rel m)

/-- well-formed traces (what the mutex implementation and the trace producer guarantee):
    * mutual exclusion: between two acquisitions of the same mutex the first acquirer released it
      (so lock events are well nested, mutexes are not recursive);
    * store tags are identifiers: two stores to the same atomic with the same tag are the same event. -/
structure WellFormed (tr : Trace) : Prop where
  mutex : ∀ (a1 a2 : Nat) (t1 t2 : Tid) (m : Mutex), a1 < a2 → tr[a1]? = some (t1, Ev.acq m) → tr[a2]? = some (t2, Ev.acq m) →
    ∃ r, a1 < r ∧ r < a2 ∧ tr[r]? = some (t1, Ev.rel m)
  tags : ∀ (i j : Nat) (t1 t2 : Tid) (a : AVar) (o1 o2 : MemOrder) (tag : Nat), tr[i]? = some (t1, Ev.astore a o1 tag) → tr[j]? = some (t2, Ev.astore a o2 tag) → i = j

/-- Two events performed by different threads while both hold the same mutex are ordered. -/
theorem ordered_of_common_mutex {tr : Trace} (wf : WellFormed tr) {i j : Nat} {t1 t2 : Tid} {e1 e2 : Ev} {m : Mutex}
    (hij : i < j) (h1 : tr[i]? = some (t1, e1)) (h2 : tr[j]? = some (t2, e2)) (hne : t1 ≠ t2)
    (hold1 : Holds tr t1 m i) (hold2 : Holds tr t2 m j) : HB tr i j := by
  obtain ⟨a1, ha1i, ha1, hno1⟩ := hold1
  obtain ⟨a2, ha2j, ha2, hno2⟩ := hold2
  rcases Nat.lt_trichotomy a1 a2 with hlt | heq | hgt
  · -- t1 acquired first: it released between a1 and a2, and not before i
    obtain ⟨r, har, hra, hr⟩ := wf.mutex a1 a2 t1 t2 m hlt ha1 ha2
    have hir : i ≤ r := by
      rcases Nat.lt_or_ge r i with hlt' | hge
      · exact absurd hr (hno1 r har hlt')
      · exact hge
    have hrj : HB tr r j := HB.trans (HB.lock hra hr ha2) (HB.po ha2j ha2 h2)
    rcases Nat.lt_or_ge i r with hlt' | hge
    · exact HB.trans (HB.po hlt' h1 hr) hrj
    · have : i = r := by omega
      subst this
      exact hrj
  · subst heq
    rw [ha1] at ha2
    cases ha2
    exact absurd rfl hne
  · -- t2 acquired first: it must have released before a1 < i < j, contradicting that it still holds at j
    obtain ⟨r, har, hra, hr⟩ := wf.mutex a2 a1 t2 t1 m hgt ha2 ha1
    exact absurd hr (hno2 r har (by omega))

/-- data race: conflicting plain accesses of different threads, unordered by happens-before -/
def Race (tr : Trace) (i j : Nat) : Prop :=
  ∃ t1 t2 e1 e2 x w1 w2, i < j ∧ tr[i]? = some (t1, e1) ∧ tr[j]? = some (t2, e2) ∧ t1 ≠ t2 ∧
    e1.access = some (x, w1) ∧ e2.access = some (x, w2) ∧ (w1 || w2) = true ∧ ¬ HB tr i j

def DRF (tr : Trace) : Prop := ∀ i j, ¬ Race tr i j

end Lcdb.HB
