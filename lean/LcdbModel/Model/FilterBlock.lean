/-
  Model of src/table/filter_block.c: the filter block builder (`ldb_filtergen_*`) and the
  filter block reader (`ldb_filter_init`, `ldb_filter_matches`).

  Layout of a filter block:
     filter_0 ‖ filter_1 ‖ … ‖ filter_{m-1} ‖ fixed32 offset_0 … fixed32 offset_{m-1}
       ‖ fixed32 array_offset ‖ base_lg (1 byte)
  filter_i covers the data blocks whose file offset lies in [i·2^base_lg, (i+1)·2^base_lg).
-/
import LcdbModel.Model.Bloom
namespace Lcdb

/-- LDB_FILTER_BASE_LG -/
def filterBaseLg : Nat := 11
/-- LDB_FILTER_BASE -/
def filterBase : Nat := 2 ^ filterBaseLg

/-! ### builder -/

/-- `ldb_filtergen_t`.  `keys`/`start` (flattened key bytes and their start indices) are the
    list `pending`; `filter_offsets` holds `result.size` values (`size_t` pushed into a
    `uint64_t` array; truncated to 32 bits only when written by `finish`). -/
structure FilterGen where
  pending : List Bytes := []
  result : Bytes := []
  offsets : List Nat := []

/-- `ldb_filtergen_generate` -/
def FilterGen.generate (p : Policy) (fb : FilterGen) : FilterGen :=
  if fb.pending.isEmpty then
    -- fast path: no keys for this filter
    { fb with offsets := fb.offsets ++ [fb.result.length] }
  else
    { pending := []
      result := fb.result ++ p.build fb.pending
      offsets := fb.offsets ++ [fb.result.length] }

/-- `n` calls of `generate` -/
def FilterGen.generateN (p : Policy) : Nat → FilterGen → FilterGen
  | 0, fb => fb
  | n + 1, fb => FilterGen.generateN p n (fb.generate p)

/-- `ldb_filtergen_start_block`: `while (filter_index > filter_offsets.length) generate()`.
    Every `generate` pushes exactly one offset, so the loop body runs
    `filter_index - filter_offsets.length` times (0 times when the index is not larger; the
    `assert(filter_index >= length)` is compiled out with NDEBUG and changes nothing). -/
def FilterGen.startBlock (p : Policy) (fb : FilterGen) (blockOffset : Nat) : FilterGen :=
  FilterGen.generateN p (blockOffset / filterBase - fb.offsets.length) fb

/-- `ldb_filtergen_add_key` -/
def FilterGen.addKey (fb : FilterGen) (key : Bytes) : FilterGen :=
  { fb with pending := fb.pending ++ [key] }

/-- `ldb_filtergen_finish`: the bytes of the finished filter block -/
def FilterGen.finish (p : Policy) (fb : FilterGen) : Bytes :=
  let fb := if fb.pending.isEmpty then fb else fb.generate p
  fb.result ++ fb.offsets.flatMap (fixedEnc 4) ++ fixedEnc 4 fb.result.length ++ [UInt8.ofNat filterBaseLg]

/-- one data block: `start_block(offset)` then `add_key` for each key -/
def FilterGen.addBlock (p : Policy) (fb : FilterGen) (blk : Nat × List Bytes) : FilterGen :=
  blk.2.foldl FilterGen.addKey (fb.startBlock p blk.1)

/-- the call sequence `(start_block add_key*)* finish` on a fresh builder -/
def filterBuild (p : Policy) (blocks : List (Nat × List Bytes)) : Bytes :=
  (blocks.foldl (FilterGen.addBlock p) {}).finish p

/-! ### reader -/

/-- `ldb_fixed32_decode(data + off)` -/
def fixed32At (data : Bytes) (off : Nat) : Nat := fixedDec ((data.drop off).take 4)

/-- bounds-checked `ldb_fixed32_decode(data + off)` -/
def fixed32AtC (data : Bytes) (off : Nat) : Option Nat :=
  if off + 4 ≤ data.length then some (fixed32At data off) else none

/-- `ldb_filter_t`: `arrayOff` is `fr->offset - fr->data`; when `ldb_filter_init` bails out
    early `data`/`offset` stay NULL and `num = 0`, so `arrayOff` is never looked at. -/
structure FilterReader where
  data : Bytes
  arrayOff : Nat
  num : Nat
  baseLg : Nat

/-- `ldb_filter_init` -/
def filterReaderInit (contents : Bytes) : FilterReader :=
  let n := contents.length
  if n < 5 then { data := contents, arrayOff := 0, num := 0, baseLg := 0 }
  else
    let baseLg := (contents.getD (n - 1) 0).toNat % 64     -- `& 63`
    let lastWord := fixed32At contents (n - 5)
    if lastWord > n - 5 then { data := contents, arrayOff := 0, num := 0, baseLg := baseLg }
    else { data := contents, arrayOff := lastWord, num := (n - 5 - lastWord) / 4, baseLg := baseLg }

/-- `ldb_filter_matches` (`blockOffset` is a `uint64_t`; `base_lg ≤ 63`) -/
def FilterReader.mayMatch (p : Policy) (fr : FilterReader) (blockOffset : Nat) (key : Bytes) : Bool :=
  let index := blockOffset / 2 ^ fr.baseLg
  if index < fr.num then
    let start := fixed32At fr.data (fr.arrayOff + index * 4)
    let limit := fixed32At fr.data (fr.arrayOff + index * 4 + 4)
    if start ≤ limit ∧ limit ≤ fr.arrayOff then
      p.mayMatch ((fr.data.drop start).take (limit - start)) key
    else if start = limit then false      -- "empty filters do not match any keys"
    else true                              -- errors are treated as potential matches
  else true

/-- reader created over `contents`, then one `mayMatch` query -/
def filterMatch (p : Policy) (contents : Bytes) (blockOffset : Nat) (key : Bytes) : Bool :=
  (filterReaderInit contents).mayMatch p blockOffset key

/-! ### bounds-checked reader: `none` = some read fell outside `contents` -/

def filterReaderInitC (contents : Bytes) : Option FilterReader :=
  let n := contents.length
  if n < 5 then some { data := contents, arrayOff := 0, num := 0, baseLg := 0 }
  else
    match contents[n - 1]?, fixed32AtC contents (n - 5) with
    | some b, some lastWord =>
      let baseLg := b.toNat % 64
      if lastWord > n - 5 then some { data := contents, arrayOff := 0, num := 0, baseLg := baseLg }
      else some { data := contents, arrayOff := lastWord, num := (n - 5 - lastWord) / 4, baseLg := baseLg }
    | _, _ => none

/-- bounds-checked slice `data[start, start+len)` -/
def sliceC (data : Bytes) (start len : Nat) : Option Bytes :=
  if start + len ≤ data.length then some ((data.drop start).take len) else none

def FilterReader.mayMatchC (p : Policy) (fr : FilterReader) (blockOffset : Nat) (key : Bytes) : Option Bool :=
  let index := blockOffset / 2 ^ fr.baseLg
  if index < fr.num then
    match fixed32AtC fr.data (fr.arrayOff + index * 4), fixed32AtC fr.data (fr.arrayOff + index * 4 + 4) with
    | some start, some limit =>
      if start ≤ limit ∧ limit ≤ fr.arrayOff then
        match sliceC fr.data start (limit - start) with
        | some filter => p.mayMatchC filter key
        | none => none
      else if start = limit then some false
      else some true
    | _, _ => none
  else some true

def filterMatchC (p : Policy) (contents : Bytes) (blockOffset : Nat) (key : Bytes) : Option Bool :=
  match filterReaderInitC contents with
  | some fr => fr.mayMatchC p blockOffset key
  | none => none

end Lcdb
