/-
  Model of src/util/snappy.c (snappy_encode_size / snappy_encode / snappy_decode_size / snappy_decode
  and the statics hash32, emit_literal, emit_copy, encode_block, decode_blocks).

  Style: `Bytes = List UInt8` at the interfaces; inside a block the encoder reads its input through
  an `Array UInt8` (random access `xp[i]`) and keeps the hash table in an `Array Nat`; the decoder
  accumulates its output in an `Array UInt8` (`zp - sp` is `out.size`).  Integers are unbounded `Nat`
  with explicit `%` where the C code truncates.  `a | b` is written `a + b` where the operands occupy
  disjoint bit ranges (each place says why), `x >> k` is `x / 2^k`, `x << k` is `x * 2^k`.

  The model follows what the C code does, including:
  * the decoder rejects a declared length above 0x7fffffff, a literal length field >= 0x7fffffff,
    a copy offset of 0 or >= 0x80000000;
  * the encoder's re-match test after a copy compares the 56-bit value `x >> 8` (x is a uint64_t)
    against a 32-bit load, without the `(uint32_t)` cast of the Go original, so it only succeeds when
    the three bytes at pos+4..pos+6 are zero (see `encGo`, state `copy`).
-/
import LcdbModel.Model.Coding
namespace Lcdb.Snappy

/-! ### constants (snappy.c, "Constants") -/

/-- `MAX_TABLE_SIZE (1 << 11)` -/
def maxTableSize : Nat := 2048
/-- `INPUT_MARGIN (16 - 1)` -/
def inputMargin : Nat := 15
/-- `MIN_BLOCK_SIZE (1 + 1 + INPUT_MARGIN)` -/
def minBlockSize : Nat := 1 + 1 + inputMargin
/-- `MAX_BLOCK_SIZE 65536` -/
def maxBlockSize : Nat := 65536
/-- the multiplier of `hash32` -/
def hashMul : Nat := 0x1e35a7bd
/-- largest accepted uncompressed length (`n > 0x7fffffff` is rejected on both sides) -/
def maxLength : Nat := 0x7fffffff
/-- initial table size `1 << 8` and shift `32 - 8` of `encode_block` -/
def initTableSize : Nat := 256
def initShift : Nat := 24
/-- initial value of `skip` in the outer loop (`skip >> 5` bytes are skipped per probe) -/
def initSkip : Nat := 32

/-! ### helpers -/

/-- `hash32(x, shift) = (x * 0x1e35a7bd) >> shift` on `uint32_t`; the argument is truncated to 32 bits
    by the call (the C code passes `x >> 8` of a `uint64_t`) -/
def hash32 (x shift : Nat) : Nat := ((x % 2 ^ 32) * hashMul % 2 ^ 32) >>> shift

/-- `xp[i]` (0 outside the buffer; the C code never reads outside, see `encGo`) -/
@[inline] def byteAt (a : Array UInt8) (i : Nat) : Nat := (a.getD i 0).toNat

/-- `load32(xp + i)` = `ldb_fixed32_decode` -/
def load32 (a : Array UInt8) (i : Nat) : Nat :=
  byteAt a i + 256 * byteAt a (i + 1) + 65536 * byteAt a (i + 2) + 16777216 * byteAt a (i + 3)

/-- `load64(xp + i)` = `ldb_fixed64_decode` -/
def load64 (a : Array UInt8) (i : Nat) : Nat := load32 a i + 2 ^ 32 * load32 a (i + 4)

/-! ### encoder: element emitters -/

/-- `emit_literal(zp, xp, xn)`: `n = xn - 1` is a `size_t` (wraps for `xn = 0`, which never happens:
    every literal token is non-empty, `encodeBlockToks_correct`); the header bytes are truncated to `uint8_t` by the stores. -/
def emitLiteral (lit : Bytes) : Bytes :=
  let n := (lit.length + 2 ^ 64 - 1) % 2 ^ 64
  if n < 60 then UInt8.ofNat (n * 4) :: lit
  else if n < 256 then UInt8.ofNat (60 * 4) :: UInt8.ofNat n :: lit
  else UInt8.ofNat (61 * 4) :: UInt8.ofNat n :: UInt8.ofNat (n / 256) :: lit

/-- one `TAG_COPY2` element: `((len - 1) << 2) | TAG_COPY2`, offset little-endian in two bytes -/
def copy2Elem (off len : Nat) : Bytes :=
  [UInt8.ofNat ((len - 1) * 4 + 2), UInt8.ofNat off, UInt8.ofNat (off / 256)]

/-- one `TAG_COPY1` element: `((off >> 8) << 5) | ((len - 4) << 2) | TAG_COPY1`, low offset byte.
    The three fields are disjoint because this is only reached with `4 <= len < 12`, `off < 2048`. -/
def copy1Elem (off len : Nat) : Bytes :=
  [UInt8.ofNat ((off / 256) * 32 + (len - 4) * 4 + 1), UInt8.ofNat off]

/-- `emit_copy(zp, off, len)` -/
def emitCopy (off len : Nat) : Bytes :=
  if _h : len ≥ 68 then copy2Elem off 64 ++ emitCopy off (len - 64)
  else if len > 64 then
    copy2Elem off 60 ++
      (if len - 60 ≥ 12 ∨ off ≥ 2048 then copy2Elem off (len - 60) else copy1Elem off (len - 60))
  else if len ≥ 12 ∨ off ≥ 2048 then copy2Elem off len
  else copy1Elem off len
termination_by len
decreasing_by omega

/-! ### encoder: one block -/

/-- what `encode_block` hands to `emit_literal` / `emit_copy` -/
inductive Tok where
  | lit (bs : Bytes)
  | copy (off len : Nat)
  deriving Repr, BEq, DecidableEq

def renderTok : Tok → Bytes
  | .lit bs => emitLiteral bs
  | .copy off len => emitCopy off len

def renderToks (ts : List Tok) : Bytes := ts.flatMap renderTok

/-- `while (size < MAX_TABLE_SIZE && size < xn) { size *= 2; shift--; }` -/
def tableGo : Nat → Nat → Nat → Nat → Nat × Nat
  | 0, size, shift, _ => (size, shift)
  | f + 1, size, shift, xn =>
    if size < maxTableSize ∧ size < xn then tableGo f (size * 2) (shift - 1) xn else (size, shift)

/-- (table size, shift) for a block of `xn` bytes -/
def tableParams (xn : Nat) : Nat × Nat := tableGo 32 initTableSize initShift xn

/-- `while (pos < xn && xp[chk] == xp[pos]) chk++, pos++;` — returns the final `pos` -/
def extendMatch (a : Array UInt8) (xn : Nat) : Nat → Nat → Nat → Nat
  | 0, _, pos => pos
  | f + 1, chk, pos =>
    if pos < xn ∧ a.getD chk 0 = a.getD pos 0 then extendMatch a xn f (chk + 1) (pos + 1) else pos

/-- The two loop heads of `encode_block`:
    `scan` = top of the first inner `for (;;)` (probing for a 4-byte match; `pos` is about to become `npos`),
    `copy` = top of the second inner `for (;;)` (a match `xp[cand..] = xp[base..]` of >= 4 bytes is known). -/
inductive EncSt where
  | scan (tbl : Array Nat) (next skip npos emit : Nat)
  | copy (tbl : Array Nat) (base cand : Nat)

/-- label `finish:` -/
def finish (a : Array UInt8) (xn emit : Nat) : List Tok :=
  if emit < xn then [Tok.lit (a.extract emit xn).toList] else []

/-- The body of `encode_block` after initialisation.  One unit of fuel per loop-head visit; every visit
    advances the position, so `xn` units suffice (fuel exhaustion falls through to `finish`, which
    keeps the function total and correct; it is never reached from `encodeBlock`: `encodeBlockToks_fuel`).
    Table stores are `uint16_t` stores (`% 65536`; positions are < 65536 inside a block). -/
def encGo (a : Array UInt8) (xn limit shift : Nat) : Nat → EncSt → List Tok
  | 0, .scan _ _ _ _ emit => finish a xn emit
  | 0, .copy _ base _ => finish a xn base
  | f + 1, .scan tbl next skip npos emit =>
    let pos := npos
    let npos' := pos + skip / 32
    let skip' := skip + skip / 32
    if npos' > limit then finish a xn emit
    else
      let cand := tbl.getD next 0
      let tbl' := tbl.setIfInBounds next (pos % 65536)
      let next' := hash32 (load32 a npos') shift
      if load32 a pos = load32 a cand then
        Tok.lit (a.extract emit pos).toList :: encGo a xn limit shift f (.copy tbl' pos cand)
      else
        encGo a xn limit shift f (.scan tbl' next' skip' npos' emit)
  | f + 1, .copy tbl base cand =>
    let pos := extendMatch a xn (xn - (base + 4)) (cand + 4) (base + 4)
    let tok := Tok.copy ((base - cand) % 2 ^ 32) ((pos - base) % 2 ^ 32)
    if pos ≥ limit then tok :: finish a xn pos
    else
      let x := load64 a (pos - 1)
      let prev := hash32 x shift
      let tbl1 := tbl.setIfInBounds prev ((pos - 1) % 65536)
      let cur := hash32 (x / 256) shift
      let cand' := tbl1.getD cur 0
      let tbl2 := tbl1.setIfInBounds cur (pos % 65536)
      -- C: `(x >> 8) != load32(xp + cand)` with x a uint64_t: a 56-bit against a 32-bit value
      if x / 256 ≠ load32 a cand' then
        tok :: encGo a xn limit shift f (.scan tbl2 (hash32 (x / 65536) shift) initSkip (pos + 1) pos)
      else
        tok :: encGo a xn limit shift f (.copy tbl2 pos cand')

/-- `encode_block(zp, xp, xn)` as a token list (requires `MIN_BLOCK_SIZE <= xn <= MAX_BLOCK_SIZE` in C) -/
def encodeBlockToks (blk : Bytes) : List Tok :=
  let a := blk.toArray
  let xn := a.size
  let limit := xn - inputMargin
  let (size, shift) := tableParams xn
  let tbl : Array Nat := Array.replicate size 0
  let next := hash32 (load32 a 1) shift
  encGo a xn limit shift xn (.scan tbl next initSkip 1 0)

def encodeBlock (blk : Bytes) : Bytes := renderToks (encodeBlockToks blk)

/-! ### snappy_encode_size / snappy_encode -/

/-- `snappy_encode_size`: `none` when the function returns 0 -/
def encodeSize (xn : Nat) : Option Nat :=
  if xn > maxLength then none
  else
    let n := 32 + xn + xn / 6
    if n > maxLength then none else some n

/-- the `while (xn >= MAX_BLOCK_SIZE)` loop (k = number of full blocks left) and the tail -/
def encodeBody : Nat → Bytes → Bytes
  | 0, x =>
    if x.length > 0 then
      if x.length ≥ minBlockSize then encodeBlock x else emitLiteral x
    else []
  | k + 1, x => encodeBlock (x.take maxBlockSize) ++ encodeBody k (x.drop maxBlockSize)

/-- `snappy_encode`: `ldb_varint32_write(zp, xn)` truncates `xn` to `uint32_t` -/
def encode (x : Bytes) : Bytes :=
  varintEnc (x.length % 2 ^ 32) ++ encodeBody (x.length / maxBlockSize) x

/-! ### decoder -/

/-- the copy at the bottom of the `decode_blocks` loop: `memcpy` when `off >= len` (no overlap),
    else the forward byte loop `zp[i] = (zp - off)[i]`; both are the forward byte copy -/
def copyFwd (out : Array UInt8) (off : Nat) : Nat → Array UInt8
  | 0 => out
  | n + 1 => copyFwd (out.push (out.getD (out.size - off) 0)) off n

/-- the code after the `switch` for the three copy tags -/
def copyStep (out : Array UInt8) (zn off len : Nat) (rest : Bytes) :
    Option (Array UInt8 × Nat × Bytes) :=
  if off = 0 ∨ off ≥ 0x80000000 then none
  else if out.size < off ∨ len > zn then none
  else some (copyFwd out off len, zn - len, rest)

/-- literal length field: `x = tag >> 2`; 60..63 announce 1..4 little-endian length bytes
    (`if (xn < k) return 0` then the bytes are assembled) -/
def litLen (x : Nat) (xs : Bytes) : Option (Nat × Bytes) :=
  if x < 60 then some (x, xs) else fixedRead (x - 59) xs

/-- the rest of `case TAG_LITERAL` once the length field `x` is known -/
def literalStep (out : Array UInt8) (zn x : Nat) (xs1 : Bytes) :
    Option (Array UInt8 × Nat × Bytes) :=
  if x ≥ 0x7fffffff then none
  else if x + 1 > zn ∨ x + 1 > xs1.length then none
  else some (out ++ xs1.take (x + 1), zn - (x + 1), xs1.drop (x + 1))

/-- One iteration of the `while (xn > 0)` loop of `decode_blocks`: `t` is `xp[0]`, `xs` what follows.
    State: `out` = bytes produced so far (`zp - sp = out.size`), `zn` = bytes still to produce. -/
def decodeElem (out : Array UInt8) (zn : Nat) (t : UInt8) (xs : Bytes) :
    Option (Array UInt8 × Nat × Bytes) :=
  match t.toNat % 4 with
  | 0 =>
    -- TAG_LITERAL
    match litLen (t.toNat / 4) xs with
    | none => none
    | some (x, xs1) => literalStep out zn x xs1
  | 1 =>
    -- TAG_COPY1: len = 4 + ((tag >> 2) & 7), off = ((tag & 0xe0) << 3) | xp[1]
    match xs with
    | b1 :: rest => copyStep out zn (t.toNat / 32 * 256 + b1.toNat) (4 + t.toNat / 4 % 8) rest
    | _ => none
  | 2 =>
    -- TAG_COPY2: len = 1 + (tag >> 2), 16-bit offset
    match xs with
    | b1 :: b2 :: rest => copyStep out zn (fixedDec [b1, b2]) (1 + t.toNat / 4) rest
    | _ => none
  | _ =>
    -- TAG_COPY4: len = 1 + (tag >> 2), 32-bit offset
    match xs with
    | b1 :: b2 :: b3 :: b4 :: rest => copyStep out zn (fixedDec [b1, b2, b3, b4]) (1 + t.toNat / 4) rest
    | _ => none

theorem copyStep_rest {out : Array UInt8} {zn off len : Nat} {rest : Bytes}
    {r : Array UInt8 × Nat × Bytes} (h : copyStep out zn off len rest = some r) : r.2.2 = rest := by
  unfold copyStep at h
  split at h
  · cases h
  · split at h
    · cases h
    · cases h; rfl

theorem litLen_rest_le {x : Nat} {xs : Bytes} {r : Nat × Bytes} (h : litLen x xs = some r) :
    r.2.length ≤ xs.length := by
  unfold litLen at h
  split at h
  · cases h; exact Nat.le_refl _
  · unfold fixedRead at h
    split at h
    · cases h
    · cases h; simp

theorem literalStep_rest_le {out : Array UInt8} {zn x : Nat} {xs1 : Bytes}
    {r : Array UInt8 × Nat × Bytes} (h : literalStep out zn x xs1 = some r) :
    r.2.2.length ≤ xs1.length := by
  unfold literalStep at h
  split at h
  · cases h
  · split at h
    · cases h
    · cases h; simp

/-- a successful iteration leaves at most what followed the tag byte (termination of `decodeBlocks`) -/
theorem decodeElem_rest_le {out : Array UInt8} {zn : Nat} {t : UInt8} {xs : Bytes}
    {r : Array UInt8 × Nat × Bytes} (h : decodeElem out zn t xs = some r) :
    r.2.2.length ≤ xs.length := by
  unfold decodeElem at h
  split at h
  · split at h
    · cases h
    · rename_i x xs1 hx
      have h1 := litLen_rest_le hx
      have h2 := literalStep_rest_le h
      exact Nat.le_trans h2 h1
  · split at h
    · rw [copyStep_rest h]; simp
    · cases h
  · split at h
    · rw [copyStep_rest h]; simp; omega
    · cases h
  · split at h
    · rw [copyStep_rest h]; simp; omega
    · cases h

/-- `decode_blocks(zp, zn, xp, xn)`: `some out` iff the C function returns 1 (then `out` is the buffer) -/
def decodeBlocks (out : Array UInt8) (zn : Nat) (xs : Bytes) : Option Bytes :=
  match xs with
  | [] => if zn ≠ 0 then none else some out.toList
  | t :: xs' =>
    match h : decodeElem out zn t xs' with
    | none => none
    | some r => decodeBlocks r.1 r.2.1 r.2.2
termination_by xs.length
decreasing_by
  have := decodeElem_rest_le h
  simp only [List.length_cons]; omega

/-- `snappy_decode_size`: `none` when it returns 0 -/
def decodeSize (bs : Bytes) : Option Nat :=
  match varint32Read bs with
  | none => none
  | some (n, _) => if n > maxLength then none else some n

/-- `snappy_decode` into a buffer of `decodeSize` bytes: `none` when it returns 0 -/
def decode (bs : Bytes) : Option Bytes :=
  match varint32Read bs with
  | none => none
  | some (zn, rest) => if zn > maxLength then none else decodeBlocks #[] zn rest

end Lcdb.Snappy
