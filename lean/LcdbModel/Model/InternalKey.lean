/-
  Model of src/dbformat.c and src/util/comparator.c: bytewise comparator with its
  shortest-separator / short-successor, internal keys (user key ‖ fixed64 (seq << 8 | type)),
  the internal key comparator and its separator / successor wrappers.
-/
import LcdbModel.Model.Coding
namespace Lcdb

/-- slice_compare: memcmp on the common prefix, then length -/
def bytesCmp : Bytes → Bytes → Ordering
  | [], [] => .eq
  | [], _ :: _ => .lt
  | _ :: _, [] => .gt
  | a :: as, b :: bs => if a < b then .lt else if a > b then .gt else bytesCmp as bs

/-- user comparators available to the executable model (the harness registers the same three) -/
inductive Cmp where
  | bytewise
  | reverse        -- reverse bytewise, no separator/successor callbacks
  | lenFirst       -- shorter keys first, then bytewise; no separator/successor callbacks
  deriving Repr, DecidableEq

def Cmp.compare : Cmp → Bytes → Bytes → Ordering
  | .bytewise, a, b => bytesCmp a b
  | .reverse, a, b => bytesCmp b a
  | .lenFirst, a, b => if a.length < b.length then .lt else if a.length > b.length then .gt else bytesCmp a b

def Cmp.hasShortening : Cmp → Bool
  | .bytewise => true
  | _ => false

/-- shortest_separator (bytewise): find the first differing index; if neither is a prefix of the
    other and the byte can be incremented staying below the limit's byte, truncate there -/
def shortestSeparator : Bytes → Bytes → Bytes
  | [], _ => []
  | a :: as, [] => a :: as
  | a :: as, b :: bs =>
    if a == b then a :: shortestSeparator as bs
    else if a.toNat < 255 && a.toNat + 1 < b.toNat then [a + 1]
    else a :: as

/-- short_successor (bytewise): increment the first non-0xff byte and truncate after it -/
def shortSuccessor : Bytes → Bytes
  | [] => []
  | a :: as => if a != 255 then [a + 1] else a :: shortSuccessor as

def maxSequence : Nat := 2 ^ 56 - 1
def valtypeSeek : Nat := 1

def packSeqType (seq ty : Nat) : Nat := seq * 256 + ty

/-- ldb_pkey_export / ldb_ikey_set -/
def ikeyEnc (ukey : Bytes) (seq ty : Nat) : Bytes := ukey ++ fixedEnc 8 (packSeqType seq ty)

def ikeyUser (ik : Bytes) : Bytes := ik.take (ik.length - 8)
def ikeyNum (ik : Bytes) : Nat := fixedDec (ik.drop (ik.length - 8))

/-- ldb_pkey_import: (user key, sequence, type) or failure -/
def pkeyImport (ik : Bytes) : Option (Bytes × Nat × Nat) :=
  if ik.length < 8 then none
  else
    let num := ikeyNum ik
    let ty := num % 256
    if ty > typeValue' then none else some (ikeyUser ik, num / 256, ty)
where typeValue' : Nat := 1

/-- ldb_ikc_compare (for keys of at least 8 bytes): user key ascending, then packed number descending -/
def ikeyCmp (c : Cmp) (x y : Bytes) : Ordering :=
  match c.compare (ikeyUser x) (ikeyUser y) with
  | .eq => let xn := ikeyNum x; let yn := ikeyNum y
           if xn > yn then .lt else if xn < yn then .gt else .eq
  | o => o

/-- ldb_ikc_shortest_separator (only installed when the user comparator has the callback) -/
def ikeySeparator (c : Cmp) (start limit : Bytes) : Bytes :=
  if !c.hasShortening then start else
  let us := ikeyUser start
  let tmp := shortestSeparator us (ikeyUser limit)
  if tmp.length < us.length && c.compare us tmp == .lt then
    tmp ++ fixedEnc 8 (packSeqType maxSequence valtypeSeek)
  else start

/-- ldb_ikc_short_successor -/
def ikeySuccessor (c : Cmp) (key : Bytes) : Bytes :=
  if !c.hasShortening then key else
  let uk := ikeyUser key
  let tmp := shortSuccessor uk
  if tmp.length < uk.length && c.compare uk tmp == .lt then
    tmp ++ fixedEnc 8 (packSeqType maxSequence valtypeSeek)
  else key

end Lcdb
