/-
  Model of file garbage collection and file-number allocation (C13):
  ldb_remove_obsolete_files (db_impl.c:644-735), ldb_versions_add_files (version_set.c:1709),
  ldb_versions_new_file_number / reuse_file_number / mark_file_number (version_set.c:1182-1190, 1629).
-/
import LcdbModel.Model.FileName
namespace Lcdb.Files

structure GcState where
  liveVersions : List (List Nat)     -- table numbers of every version still referenced (current, iterators, compactions)
  pending : List Nat                 -- pending_outputs: tables/temp files being written
  logNumber : Nat
  prevLogNumber : Nat
  manifestNumber : Nat
  nextFile : Nat
  bgError : Bool
  deriving Repr

/-- `live` of ldb_remove_obsolete_files: pending outputs plus the files of every live version -/
def liveSet (s : GcState) : List Nat := s.pending ++ s.liveVersions.flatten

/-- the keep decision for one directory entry (names that do not parse are never touched) -/
def keep (s : GcState) (name : String) : Bool :=
  match parseFileName name with
  | none => true
  | some (.log, n) => decide (n ≥ s.logNumber) || n == s.prevLogNumber
  | some (.desc, n) => decide (n ≥ s.manifestNumber)
  | some (.table, n) => (liveSet s).contains n
  | some (.temp, n) => (liveSet s).contains n
  | some (.current, _) => true
  | some (.lock, _) => true
  | some (.info, _) => true

/-- names ldb_remove_obsolete_files unlinks, given the directory listing -/
def toDelete (s : GcState) (dir : List String) : List String :=
  if s.bgError then [] else dir.filter (fun n => !keep s n)

def removeObsolete (s : GcState) (dir : List String) : List String :=
  dir.filter (fun n => !(toDelete s dir).contains n)

/-- ldb_versions_new_file_number -/
def newFileNumber (s : GcState) : Nat × GcState := (s.nextFile, { s with nextFile := s.nextFile + 1 })
/-- ldb_versions_reuse_file_number: give back the number only if it was the last one handed out -/
def reuseFileNumber (s : GcState) (n : Nat) : GcState := if s.nextFile == n + 1 then { s with nextFile := n } else s
/-- ldb_versions_mark_file_number -/
def markFileNumber (s : GcState) (n : Nat) : GcState := if s.nextFile ≤ n then { s with nextFile := n + 1 } else s

/-- the names a quiescent database owns: live tables, logs >= log number, MANIFESTs >= current, fixed names -/
def ownedAndLive (s : GcState) (name : String) : Bool :=
  match parseFileName name with
  | none => false
  | some (.log, n) => decide (n ≥ s.logNumber) || n == s.prevLogNumber
  | some (.desc, n) => decide (n ≥ s.manifestNumber)
  | some (.table, n) => (liveSet s).contains n
  | some (.temp, n) => (liveSet s).contains n
  | some _ => true

end Lcdb.Files
