/-
  Model of the handle table inside src/util/cache.c (`lru_table_t`, cache.c:100-222): open hashing,
  one singly linked chain (`next_hash`) per bucket, `length` a power of two (4 initially), resized
  when `elems > length` to the least power of two ≥ max(4, elems).

  `buckets[i]` is the chain hanging off `tbl->list[i]`, read from the head along `next_hash`.
  A node is what the table looks at of an `lru_handle_t`: key bytes, the stored `hash`, and the entry
  (its id).  The table matches on `hash` AND key (`lru_table_find`), so its key is the pair.
  `uint32_t` `hash`/`length`/`elems` are `Nat`s (hashes are given `< 2^32`; 2^32 elements are out of
  reach).  `hash & (length - 1)` is `Nat`'s `&&&`; an index outside `buckets` would be an out-of-bounds
  read in C: the model returns the table unchanged and `none`-like results there, and
  `Props/LruCacheProps.lean` (`HTable.Inv`) shows it never happens.
-/
import LcdbModel.Model.Coding
namespace Lcdb.LruCache.HTable

structure Node where
  key : Bytes
  hash : Nat
  id : Nat
deriving Repr, DecidableEq

structure HTable where
  /-- `tbl->list`, `buckets.length = tbl->length` -/
  buckets : List (List Node)
  elems : Nat
deriving Repr

/-- `hash & (length - 1)` -/
def idx (hash len : Nat) : Nat := hash &&& (len - 1)

/-- does the chain node match (cache.c:120: `hash == hash && lru_handle_equal`) -/
def Node.is (n : Node) (key : Bytes) (hash : Nat) : Bool := n.hash == hash && n.key == key

/-- `*lru_table_find(...)` within one chain -/
def chainFind (key : Bytes) (hash : Nat) : List Node → Option Node
  | [] => none
  | n :: rest => if n.is key hash then some n else chainFind key hash rest

/-- `lru_table_insert` within one chain: the slot found is overwritten (`h->next_hash = old->next_hash; *ptr = h`)
    or, if it is the trailing slot, the node is appended -/
def chainInsert (h : Node) : List Node → List Node
  | [] => [h]
  | n :: rest => if n.is h.key h.hash then h :: rest else n :: chainInsert h rest

/-- `lru_table_remove` within one chain: `*ptr = result->next_hash` -/
def chainRemove (key : Bytes) (hash : Nat) : List Node → List Node
  | [] => []
  | n :: rest => if n.is key hash then rest else n :: chainRemove key hash rest

/-- `while (new_length < elems) new_length *= 2` starting from 4 (fuel: at most 64 doublings) -/
def newLength : Nat → Nat → Nat → Nat
  | 0, len, _ => len
  | fuel + 1, len, elems => if len < elems then newLength fuel (len * 2) elems else len

/-- push a node on the FRONT of its new bucket (`h->next_hash = *ptr; *ptr = h`) -/
def pushNode (bs : List (List Node)) (n : Node) : List (List Node) :=
  bs.modify (idx n.hash bs.length) (n :: ·)

/-- `lru_table_resize` (cache.c:126-167): old buckets in index order, each chain from its head -/
def resize (t : HTable) : HTable :=
  let len := newLength 64 4 t.elems
  { t with buckets := t.buckets.flatten.foldl pushNode (List.replicate len []) }

/-- `lru_table_init` -/
def init : HTable := resize { buckets := [], elems := 0 }

/-- `lru_table_lookup` -/
def lookup (t : HTable) (key : Bytes) (hash : Nat) : Option Node :=
  (t.buckets[idx hash t.buckets.length]?).bind (chainFind key hash)

/-- `lru_table_insert`: returns the table and the replaced node (`old`) -/
def insert (t : HTable) (h : Node) : HTable × Option Node :=
  let old := lookup t h.key h.hash
  let t1 := { t with buckets := t.buckets.modify (idx h.hash t.buckets.length) (chainInsert h) }
  match old with
  | some _ => (t1, old)
  | none =>
    let t2 := { t1 with elems := t1.elems + 1 }
    (if t2.elems > t2.buckets.length then resize t2 else t2, none)

/-- `lru_table_remove` -/
def remove (t : HTable) (key : Bytes) (hash : Nat) : HTable × Option Node :=
  match lookup t key hash with
  | none => (t, none)
  | some n =>
    ({ buckets := t.buckets.modify (idx hash t.buckets.length) (chainRemove key hash), elems := t.elems - 1 }, some n)

inductive HOp where
  | insert (key : Bytes) (hash id : Nat)
  | remove (key : Bytes) (hash : Nat)
  | lookup (key : Bytes) (hash : Nat)
deriving Repr, DecidableEq

/-- one operation; the result is the id of the node returned by the C function (`none` = NULL) -/
def apply (t : HTable) : HOp → HTable × Option Nat
  | .insert k h id => let (t', old) := insert t { key := k, hash := h, id := id }; (t', old.map (·.id))
  | .remove k h => let (t', r) := remove t k h; (t', r.map (·.id))
  | .lookup k h => (t, (lookup t k h).map (·.id))

def runOps : HTable → List HOp → HTable × List (Option Nat)
  | t, [] => (t, [])
  | t, op :: ops => let (t', r) := apply t op; let (t'', rs) := runOps t' ops; (t'', r :: rs)

end Lcdb.LruCache.HTable
