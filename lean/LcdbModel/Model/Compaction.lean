/-
  The compaction work loop of `ldb_do_compaction_work` (db_impl.c:1311-1455) as a function: what the
  merging input iterator yields, which entries the drop rules (A) "hidden by a newer entry for the same
  user key at or below the smallest snapshot" and (B) "obsolete deletion marker at the base level" remove,
  and `ldb_compaction_is_base_level_for_key` (version_set.c:2303) with its monotone `level_ptrs`.

  `Model/Lsm.lean` states the *contract* a compaction has to meet (`stepOk (.compact ..)`, clause (c));
  this file is the *mechanism*.  `Props/CompactionProps.lean` proves that the mechanism meets the contract;
  `tracecheck` recomputes `expectedOutput` for every compaction the real database performs and compares it,
  entry by entry, with the tables the compaction wrote (`MISMATCH[droploop]`).

  Not modelled here: where the output is cut into files (`ldb_compaction_should_stop_before`, the
  `max_output_file_size` test: they depend on the byte size of the table being built) — the comparison is on
  the concatenation of the outputs; the inline flush of the immutable memtable (a separate `Step`); the
  early exit on `shutting_down` (such a compaction installs nothing).
-/
import LcdbModel.Model.Lsm
namespace Lcdb
namespace Compaction

/-- merge of two sorted runs in internal-key order; on a tie (the same internal key in both, which a
    well-formed database never has) the left one goes first, as `find_smallest` prefers the earlier child -/
def merge2 (c : Cmp) : Run → Run → Run
  | [], ys => ys
  | xs, [] => xs
  | x :: xs, y :: ys =>
    if entryLt c y x then y :: merge2 c (x :: xs) ys else x :: merge2 c xs (y :: ys)
termination_by xs ys => xs.length + ys.length

/-- what `ldb_inputiter_create`'s merging iterator yields from first to last: the sorted union of the
    children (level 0: one child per file; otherwise one concatenating child per level) -/
def mergeInputs (c : Cmp) (runs : List Run) : Run := runs.foldl (merge2 c) []

/-- loop state carried from one entry to the next: `has_current_user_key`/`current_user_key` and
    `last_sequence_for_key` (`none` = LDB_MAX_SEQUENCE) -/
structure LoopSt where
  curKey : Option Bytes := none
  lastSeq : Option Nat := none
  deriving Repr, DecidableEq

/-- one iteration of the loop body for a parsed key: returns (drop?, next state).
    `isBase k` is `ldb_compaction_is_base_level_for_key` -/
def stepEntry (c : Cmp) (smallest : Nat) (isBase : Bytes → Bool) (s : LoopSt) (e : Entry) : Bool × LoopSt :=
  if e.kind > 1 then
    -- `ldb_pkey_import` fails: "do not hide error keys" — kept, and the state is reset
    (false, { curKey := none, lastSeq := none })
  else
    let first : Bool := match s.curKey with
      | none => true
      | some k => c.compare e.ukey k != .eq
    let last : Option Nat := if first then none else s.lastSeq
    let drop :=
      match last with
      | some l => if l ≤ smallest then true                                   -- (A)
                  else e.kind == 0 && decide (e.seq ≤ smallest) && isBase e.ukey   -- (B)
      | none => e.kind == 0 && decide (e.seq ≤ smallest) && isBase e.ukey          -- (B)
    (drop, { curKey := some e.ukey, lastSeq := some e.seq })

/-- the whole loop over the merged input: the entries handed to the table builder, in order -/
def dropLoopFrom (c : Cmp) (smallest : Nat) (isBase : Bytes → Bool) : LoopSt → Run → Run
  | _, [] => []
  | s, e :: es =>
    let (drop, s') := stepEntry c smallest isBase s e
    if drop then dropLoopFrom c smallest isBase s' es else e :: dropLoopFrom c smallest isBase s' es

def dropLoop (c : Cmp) (smallest : Nat) (isBase : Bytes → Bool) (merged : Run) : Run :=
  dropLoopFrom c smallest isBase {} merged

/-! ### `ldb_compaction_is_base_level_for_key` -/

/-- stateless reading: no file of the levels `≥ level + 2` has the user key inside its user-key range -/
def isBaseSpec (c : Cmp) (levels : List (List FileMeta)) (level : Nat) (k : Bytes) : Bool :=
  !(levels.drop (level + 2)).any (fun files => files.any (fun f => fileContainsUser c f k))

/-- one level of the pointer walk: advance `ptr` over files whose largest user key is below `k`; answer
    whether the file it stops at contains `k`.  Returns (contains?, new pointer). -/
def walkLevel (c : Cmp) (k : Bytes) : List FileMeta → Nat → Bool × Nat
  | [], ptr => (false, ptr)
  | f :: fs, ptr =>
    if c.compare k f.lk != .gt then
      -- "we've advanced far enough"
      (c.compare k f.sk != .lt, ptr)
    else walkLevel c k fs (ptr + 1)

/-- the literal function: `ptrs` are `c->level_ptrs[level+2 ..]`, one per deeper level; the walk stops at the
    first level that contains the key (the pointers of the levels below it are left alone) -/
def isBasePtr (c : Cmp) (k : Bytes) : List (List FileMeta) → List Nat → Bool × List Nat
  | [], ptrs => (true, ptrs)
  | _ :: _, [] => (true, [])      -- not reached: one pointer per level
  | files :: rest, p :: ps =>
    let (hit, p') := walkLevel c k (files.drop p) p
    if hit then (false, p' :: ps)
    else
      let (r, ps') := isBasePtr c k rest ps
      (r, p' :: ps')

/-- the drop loop with the stateful base-level test threaded through, exactly as the C loop runs it
    (the test is evaluated only where the C code evaluates it: short-circuit of `&&`) -/
def dropLoopPtrFrom (c : Cmp) (smallest : Nat) (deeper : List (List FileMeta)) :
    LoopSt → List Nat → Run → Run
  | _, _, [] => []
  | s, ptrs, e :: es =>
    if e.kind > 1 then e :: dropLoopPtrFrom c smallest deeper { curKey := none, lastSeq := none } ptrs es
    else
      let first : Bool := match s.curKey with
        | none => true
        | some k => c.compare e.ukey k != .eq
      let last : Option Nat := if first then none else s.lastSeq
      let s' : LoopSt := { curKey := some e.ukey, lastSeq := some e.seq }
      let hidden := match last with
        | some l => decide (l ≤ smallest)
        | none => false
      if hidden then dropLoopPtrFrom c smallest deeper s' ptrs es
      else if e.kind == 0 && decide (e.seq ≤ smallest) then
        let (base, ptrs') := isBasePtr c e.ukey deeper ptrs
        if base then dropLoopPtrFrom c smallest deeper s' ptrs' es
        else e :: dropLoopPtrFrom c smallest deeper s' ptrs' es
      else e :: dropLoopPtrFrom c smallest deeper s' ptrs es

/-- the runs the input iterator is built from (version_set.c:2175): for a level-0 compaction every level-0
    input file is its own child; otherwise the files of a level are concatenated in level order -/
def inputRuns (level : Nat) (in0 in1 : List FileMeta) : List Run :=
  (if level == 0 then in0.map (·.run) else [in0.flatMap (·.run)]) ++ [in1.flatMap (·.run)]

/-- what a compaction of `in0` (level `level`) and `in1` (level `level + 1`) of state `st` hands to its
    table builders when the smallest snapshot is `smallest` -/
def expectedOutput (c : Cmp) (st : DbState) (level : Nat) (in0 in1 : List FileMeta) (smallest : Nat) : Run :=
  let deeper := st.levels.drop (level + 2)
  dropLoopPtrFrom c smallest deeper {} (deeper.map fun _ => 0) (mergeInputs c (inputRuns level in0 in1))

/-- the same with the stateless base-level test (what the contract theorem is stated over) -/
def expectedOutputSpec (c : Cmp) (st : DbState) (level : Nat) (in0 in1 : List FileMeta) (smallest : Nat) : Run :=
  dropLoop c smallest (isBaseSpec c st.levels level) (mergeInputs c (inputRuns level in0 in1))

end Compaction
end Lcdb
