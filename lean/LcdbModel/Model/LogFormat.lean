/-
  Model of src/log_writer.c and src/log_reader.c (LevelDB log format).

  Writer: `addRecord off rec` is the do/while of ldb_writer_add_record with
  `off = lw->block_offset`; it returns the bytes appended and the new offset.
  Reader: `readPhysical` is read_physical_record, `readRecord` is
  ldb_reader_read_record, both for `initial_offset = 0` (the only value the
  database, the MANIFEST reader and repair use), over an in-memory source
  (`lr->src`, the reader's own test port) -- block-wise reads of 32768 bytes.
-/
import LcdbModel.Model.Crc32c
namespace Lcdb

def logBlockSize : Nat := 32768
def logHeaderSize : Nat := 7

def tyFull : Nat := 1
def tyFirst : Nat := 2
def tyMiddle : Nat := 3
def tyLast : Nat := 4

/-- bytes of one physical record: masked crc32c(type ‖ payload), length LE16, type, payload -/
def emitPhysical (ty : Nat) (frag : Bytes) : Bytes :=
  let crc := crcMask (crcExtend (crc32c [UInt8.ofNat ty]) frag)
  fixedEnc 4 crc.toNat ++ [UInt8.ofNat (frag.length % 256), UInt8.ofNat (frag.length / 256), UInt8.ofNat ty] ++ frag

def recType (isBegin isEnd : Bool) : Nat :=
  if isBegin && isEnd then tyFull else if isBegin then tyFirst else if isEnd then tyLast else tyMiddle

/-- the do/while of ldb_writer_add_record -/
def addRecordGo : Nat → Nat → Bytes → Bool → Bytes × Nat
  | 0, off, _, _ => ([], off)
  | fuel+1, off, left, isBegin =>
    let leftover := logBlockSize - off
    let pad : Bytes := if leftover < logHeaderSize then List.replicate leftover 0 else []
    let off1 := if leftover < logHeaderSize then 0 else off
    let avail := logBlockSize - off1 - logHeaderSize
    let fragLen := min left.length avail
    let isEnd := left.length == fragLen
    let out := pad ++ emitPhysical (recType isBegin isEnd) (left.take fragLen)
    let off2 := off1 + logHeaderSize + fragLen
    let rest := left.drop fragLen
    if rest.isEmpty then (out, off2)
    else
      let r := addRecordGo fuel off2 rest false
      (out ++ r.1, r.2)

/-- ldb_writer_add_record at block offset `off` -/
def addRecord (off : Nat) (rec : Bytes) : Bytes × Nat := addRecordGo (rec.length + 2) off rec true

/-- append all records starting at block offset `off` -/
def writeFrom (off : Nat) : List Bytes → Bytes
  | [] => []
  | r :: rs => let x := addRecord off r; x.1 ++ writeFrom x.2 rs

/-- ldb_writer_init(length) then add every record: block_offset = length % 32768 -/
def writeAll (initialLength : Nat) (rs : List Bytes) : Bytes := writeFrom (initialLength % logBlockSize) rs

/-! ### reader -/

structure RState where
  buffer : Bytes
  rest : Bytes
  eof : Bool

inductive Phys where
  | data (ty : Nat) (payload : Bytes)
  | eof
  | bad
  deriving Repr, DecidableEq

/-- events produced by the reader: returned records and reporter callbacks (dropped byte counts) -/
inductive REvent where
  | record (r : Bytes)
  | drop (n : Nat)
  deriving Repr, DecidableEq

/-- read_physical_record; returns result, reported drops, new state -/
def readPhysical (checksum : Bool) (st : RState) : Phys × List REvent × RState :=
  -- refill when fewer than a header remain and the last read was a full block
  let st1 : RState :=
    if st.buffer.length < logHeaderSize && !st.eof then
      let blk := st.rest.take logBlockSize
      { buffer := blk, rest := st.rest.drop logBlockSize, eof := blk.length < logBlockSize }
    else st
  if st1.buffer.length < logHeaderSize then
    (Phys.eof, [], { st1 with buffer := [], eof := true })
  else
    let hdr := st1.buffer
    let length := (hdr.getD 4 0).toNat + 256 * (hdr.getD 5 0).toNat
    let ty := (hdr.getD 6 0).toNat
    if logHeaderSize + length > st1.buffer.length then
      if !st1.eof then (Phys.bad, [REvent.drop st1.buffer.length], { st1 with buffer := [] })
      else (Phys.eof, [], { st1 with buffer := [] })
    else if ty == 0 && length == 0 then
      (Phys.bad, [], { st1 with buffer := [] })
    else
      let payload := (hdr.drop logHeaderSize).take length
      let expect := crcUnmask (BitVec.ofNat 32 (fixedDec (hdr.take 4)))
      let actual := crc32c ((hdr.drop 6).take (1 + length))
      if checksum && actual != expect then
        (Phys.bad, [REvent.drop st1.buffer.length], { st1 with buffer := [] })
      else
        (Phys.data ty payload, [], { st1 with buffer := hdr.drop (logHeaderSize + length) })

/-- the for(;;) of ldb_reader_read_record; `fuel` bounds the number of physical reads -/
def readRecordGo (checksum : Bool) : Nat → RState → Bool → Bytes → List REvent → Option Bytes × List REvent × RState
  | 0, st, _, _, ev => (none, ev, st)
  | fuel+1, st, inFrag, scratch, ev =>
    let (p, drops, st') := readPhysical checksum st
    let ev := ev ++ drops
    match p with
    | Phys.data ty frag =>
      if ty == tyFull then
        let ev := if inFrag && scratch.length > 0 then ev ++ [REvent.drop scratch.length] else ev
        (some frag, ev, st')
      else if ty == tyFirst then
        let ev := if inFrag && scratch.length > 0 then ev ++ [REvent.drop scratch.length] else ev
        readRecordGo checksum fuel st' true frag ev
      else if ty == tyMiddle then
        if !inFrag then readRecordGo checksum fuel st' inFrag scratch (ev ++ [REvent.drop frag.length])
        else readRecordGo checksum fuel st' true (scratch ++ frag) ev
      else if ty == tyLast then
        if !inFrag then readRecordGo checksum fuel st' inFrag scratch (ev ++ [REvent.drop frag.length])
        else (some (scratch ++ frag), ev, st')
      else if ty == 5 then
        -- a stored type byte 5 collides with the internal LDB_EOF = LDB_MAX_RECTYPE + 1: reading stops
        (none, ev, st')
      else if ty == 6 then
        -- a stored type byte 6 collides with LDB_BAD_RECORD = LDB_MAX_RECTYPE + 2
        if inFrag then readRecordGo checksum fuel st' false [] (ev ++ [REvent.drop scratch.length])
        else readRecordGo checksum fuel st' inFrag scratch ev
      else
        -- unknown record type
        let n := frag.length + (if inFrag then scratch.length else 0)
        readRecordGo checksum fuel st' false [] (ev ++ [REvent.drop n])
    | Phys.eof => (none, ev, st')
    | Phys.bad =>
      if inFrag then readRecordGo checksum fuel st' false [] (ev ++ [REvent.drop scratch.length])
      else readRecordGo checksum fuel st' inFrag scratch ev

/-- repeated ldb_reader_read_record until it returns 0 -/
def readAllGo (checksum : Bool) : Nat → RState → List REvent → List REvent
  | 0, _, ev => ev
  | fuel+1, st, ev =>
    match readRecordGo checksum (fuel+1) st false [] [] with
    | (some r, ev', st') => readAllGo checksum fuel st' (ev ++ ev' ++ [REvent.record r])
    | (none, ev', _) => ev ++ ev'

def readAllEvents (checksum : Bool) (src : Bytes) : List REvent :=
  readAllGo checksum (src.length + 2) { buffer := [], rest := src, eof := false } []

def recordsOf (ev : List REvent) : List Bytes := ev.filterMap fun | REvent.record r => some r | _ => none
def dropsOf (ev : List REvent) : List Nat := ev.filterMap fun | REvent.drop n => some n | _ => none

def readAll (src : Bytes) : List Bytes × List Nat :=
  let ev := readAllEvents true src
  (recordsOf ev, dropsOf ev)

end Lcdb
