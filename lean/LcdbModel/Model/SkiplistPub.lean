/-
  Model of the lock-free publication protocol of src/skiplist.c (memtable reads running against an
  insert in progress).

  `ldb_skiplist_insert` (ONE writer at a time: "Writes require external synchronization", in the DB the
  writer at the head of the write queue):
      x = ldb_skipnode_create(key, height)          plain writes to the node's fields
      for i in 0 .. height-1:
        ldb_skipnode_set_nb(x, i, ldb_skipnode_next_nb(prev[i], i))   relaxed load, relaxed store: x is unreachable
        ldb_skipnode_set(prev[i], i, x)                               store with order `oStore`: publishes x at level i
  readers follow links with `ldb_skipnode_next` (load with order `oLoad`) and then read the node's key.

  Part A (events, for the happens-before model of Model/HB.lean): `insertEvents`.
  Part B (level-0 list as memory cells): `Mem`, `Represents`, the two writer steps `prepare` / `publish` and the reader's
         `load`; the abstract level-0 list is the ascending list of keys `L`.
  Part C (abstract interleaving of one reader with one writer): `Step`, `step`, `run`.
  Nodes are identified with their (distinct) keys; the head node is the cursor `none`.
  Core Lean only.
-/
import LcdbModel.Model.HB
namespace Lcdb.SkiplistPub
open Lcdb.HB
open Lcdb.Conc (MemOrder)

/-! ## Part A: the events of one insert -/

def keyLoc (n : Nat) : Loc := 2 * n
def heightLoc (n : Nat) : Loc := 2 * n + 1
/-- the atomic cell `n->next[level]` (LDB_MAX_HEIGHT = 12 < 16) -/
def linkVar (n level : Nat) : AVar := n * 16 + level
/-- tag of the store that makes node `n` reachable at `level` -/
def pubTag (n level : Nat) : Nat := 2 * (n * 16 + level) + 1
/-- tag of the no-barrier store that initialises `n->next[level]` -/
def ownTag (n level : Nat) : Nat := 2 * (n * 16 + level)

/-- events of levels `i, i+1, .., i+c-1` of the insert loop: relaxed load of prev's link, no-barrier store of the
    new node's own link, publishing store into prev's link -/
def linkEvents (W : Tid) (oStore : MemOrder) (n : Nat) (prevs : Nat → Nat) (rfs : Nat → Option Nat) : Nat → Nat → List (Tid × Ev)
  | _, 0 => []
  | i, c + 1 =>
    (W, Ev.aload (linkVar (prevs i) i) .relaxed (rfs i)) ::
    (W, Ev.astore (linkVar n i) .relaxed (ownTag n i)) ::
    (W, Ev.astore (linkVar (prevs i) i) oStore (pubTag n i)) ::
    linkEvents W oStore n prevs rfs (i + 1) c

/-- all events of `ldb_skiplist_insert` for node `n` of height `h` -/
def insertEvents (W : Tid) (oStore : MemOrder) (n h : Nat) (prevs : Nat → Nat) (rfs : Nat → Option Nat) : List (Tid × Ev) :=
  (W, Ev.write (keyLoc n)) :: (W, Ev.write (heightLoc n)) :: linkEvents W oStore n prevs rfs 0 h

/-- position (in `insertEvents`) of the store that publishes the node at `level` -/
def pubIndex (level : Nat) : Nat := 2 + (3 * level + 2)

theorem linkEvents_pub (W : Tid) (oStore : MemOrder) (n : Nat) (prevs : Nat → Nat) (rfs : Nat → Option Nat) :
    ∀ (c i j : Nat), j < c →
      (linkEvents W oStore n prevs rfs i c)[3 * j + 2]? =
        some (W, Ev.astore (linkVar (prevs (i + j)) (i + j)) oStore (pubTag n (i + j))) := by
  intro c
  induction c with
  | zero => intro i j h; omega
  | succ c ih =>
    intro i j h
    cases j with
    | zero => simp [linkEvents]
    | succ j =>
      have e : 3 * (j + 1) + 2 = (3 * j + 2) + 1 + 1 + 1 := by omega
      rw [e]
      simp only [linkEvents, List.getElem?_cons_succ]
      rw [ih (i + 1) j (by omega)]
      have e2 : i + 1 + j = i + (j + 1) := by omega
      rw [e2]

theorem insertEvents_pub (W : Tid) (oStore : MemOrder) (n h : Nat) (prevs : Nat → Nat) (rfs : Nat → Option Nat)
    (level : Nat) (hl : level < h) :
    (insertEvents W oStore n h prevs rfs)[pubIndex level]? =
      some (W, Ev.astore (linkVar (prevs level) level) oStore (pubTag n level)) := by
  have := linkEvents_pub W oStore n prevs rfs h 0 level hl
  simp only [Nat.zero_add] at this
  simp only [insertEvents, pubIndex]
  have e : 2 + (3 * level + 2) = (3 * level + 2) + 1 + 1 := by omega
  rw [e]
  simp only [List.getElem?_cons_succ]
  exact this

/-! ## Part B: the level-0 list in memory -/

/-- level-0 links: `head` is `head->next[0]`, `nxt k` is `next[0]` of the node with key `k` -/
structure Mem where
  head : Option Nat
  nxt : Nat → Option Nat

/-- following the pointer `p` visits exactly the nodes of the list and ends in NULL -/
def Chain (M : Mem) : Option Nat → List Nat → Prop
  | p, [] => p = none
  | p, a :: r => p = some a ∧ Chain M (M.nxt a) r

/-- the memory represents the level-0 list `L` -/
def Represents (M : Mem) (L : List Nat) : Prop := Chain M M.head L

/-- the link cell of a cursor (none = head) -/
def load (M : Mem) : Option Nat → Option Nat
  | none => M.head
  | some c => M.nxt c

def store (M : Mem) (cell : Option Nat) (v : Option Nat) : Mem :=
  match cell with
  | none => { M with head := v }
  | some c => { M with nxt := fun i => if i = c then v else M.nxt i }

/-- `x` lies after the cursor -/
def above (cur : Option Nat) (x : Nat) : Bool :=
  match cur with
  | none => true
  | some c => decide (c < x)

/-- ordered insertion of a key that is not in the list -/
def insertSorted (k : Nat) : List Nat → List Nat
  | [] => [k]
  | a :: r => if k < a then k :: a :: r else a :: insertSorted k r

/-- the cell after which key `k` is linked, searching from cell `c` through `L` (= `prev[0]` of the insert) -/
def predCell (k : Nat) : Option Nat → List Nat → Option Nat
  | c, [] => c
  | c, a :: r => if k < a then c else predCell k (some a) r

/-- writer step 1 (no-barrier): the new, still unreachable node gets its successor -/
def prepare (M : Mem) (k : Nat) (L : List Nat) : Mem := store M (some k) (load M (predCell k none L))

/-- writer step 2 (publishing store): the predecessor's link is pointed at the new node -/
def publish (M : Mem) (k : Nat) (L : List Nat) : Mem := store M (predCell k none L) (some k)

/-! ## Part C: one reader against one writer, abstractly -/

/-- a schedule step: the (single) writer links key `k` at level 0, or the reader follows one level-0 link -/
inductive Step where
  | ins (k : Nat)
  | adv


structure St where
  L : List Nat          -- keys linked at level 0, ascending
  cur : Option Nat      -- reader position (none = head)
  V : List Nat          -- keys the reader has visited, in order
  done : Bool           -- the reader reached NULL

def step (s : St) : Step → St
  | .ins k => if k ∈ s.L then s else { s with L := insertSorted k s.L }
  | .adv =>
    if s.done then s else
      match s.L.find? (above s.cur) with
      | some x => { s with cur := some x, V := s.V ++ [x] }
      | none => { s with done := true }

def run (s : St) (sched : List Step) : St := sched.foldl step s

/-- the reader starts at the head of list `L0` -/
def start (L0 : List Nat) : St := { L := L0, cur := none, V := [], done := false }

end Lcdb.SkiplistPub
