/-
  Model of the block handle and the footer of src/table/format.c
  (`ldb_handle_*`, `ldb_footer_*`).

  BlockHandle = varint64 offset ‖ varint64 size            (at most 10 + 10 bytes)
  Footer      = metaindex handle ‖ index handle ‖ zero padding up to 40 bytes
                ‖ fixed64 magic 0xdb4775248b80fb57          (always 48 bytes)
-/
import LcdbModel.Model.Coding
namespace Lcdb

/-- `ldb_handle_t`; both fields are `uint64_t` in C (values `< 2^64`) -/
structure BlockHandle where
  offset : Nat
  size : Nat
  deriving Repr, DecidableEq

/-- LDB_HANDLE_SIZE (kMaxEncodedLength) -/
def handleMaxLen : Nat := 20
/-- LDB_FOOTER_SIZE (kEncodedLength) -/
def footerSize : Nat := 2 * handleMaxLen + 8
/-- LDB_TABLE_MAGIC -/
def tableMagic : Nat := 0xdb4775248b80fb57

/-- `ldb_handle_write` / `ldb_handle_export` (the `assert`s that the fields are not `~0` are
    compiled out with NDEBUG and do not change the bytes) -/
def handleEncode (h : BlockHandle) : Bytes := varintEnc h.offset ++ varintEnc h.size

/-- `ldb_handle_read`: two varint64 -/
def handleRead (bs : Bytes) : Option (BlockHandle × Bytes) :=
  match varint64Read bs with
  | none => none
  | some (off, r1) =>
    match varint64Read r1 with
    | none => none
    | some (sz, r2) => some ({ offset := off, size := sz }, r2)

/-- `ldb_footer_t` -/
structure Footer where
  metaindex : BlockHandle
  index : BlockHandle
  deriving Repr, DecidableEq

/-- `ldb_footer_write` / `ldb_footer_export` -/
def footerEncode (f : Footer) : Bytes :=
  let hs := handleEncode f.metaindex ++ handleEncode f.index
  hs ++ List.replicate (2 * handleMaxLen - hs.length) 0 ++ fixedEnc 8 tableMagic

/-- `ldb_footer_read`: needs 48 bytes, checks the magic at [40,48), then reads the two handles
    from the start of the input.  The handle reads are handed the *whole* remaining input,
    not just the first 40 bytes (four varint64 never consume more than 40 bytes, so they
    cannot run past the magic); padding bytes, canonical form of the varints and the
    plausibility of offsets/sizes are not validated.  On success the input advances by
    exactly 48 bytes. -/
def footerRead (bs : Bytes) : Option (Footer × Bytes) :=
  if bs.length < footerSize then none
  else if fixedDec ((bs.drop (footerSize - 8)).take 8) ≠ tableMagic then none
  else
    match handleRead bs with
    | none => none
    | some (mh, r1) =>
      match handleRead r1 with
      | none => none
      | some (ih, _) => some ({ metaindex := mh, index := ih }, bs.drop footerSize)

/-- `ldb_footer_import` -/
def footerDecode (bs : Bytes) : Option Footer := (footerRead bs).map (·.1)

end Lcdb
