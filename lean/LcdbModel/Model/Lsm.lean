/-
  Relational model of lcdb's LSM state (memtable, immutable memtable, seven levels of table
  files) and of the point lookup `ldb_get` (db_impl.c:2074, version_set.c:575/639, memtable.c:146).

  * a memtable / table file is a *run*: its entries in internal-key order (the skiplist and the
    table format are abstracted away; C16 ties table bytes to runs, `ldb_memiter` order ties the
    skiplist to a run);
  * values are opaque tokens (the harness prints long values as length+hash);
  * `get` mirrors the implementation's search order exactly: mem, imm, level-0 files whose
    user-key range contains the key, newest file number first, then for each deeper level the single
    file chosen by `find_file` on the internal key, guarded by the `smallest.user_key <= key` test;
  * policies (which level a flush goes to, which files a compaction takes, where outputs are cut,
    what exactly is dropped) are not part of THIS file: `Step`/`stepOk` state the contracts they must meet.
    The mechanisms themselves are `Model/Policy.lean` (file selection) and `Model/Compaction.lean` (drop loop);
    `Props/CompactionCapstone.lean` proves that they establish `stepOk`.
-/
import LcdbModel.Model.InternalKey
namespace Lcdb

structure Entry where
  ukey : Bytes
  seq : Nat
  kind : Nat        -- 1 = value, 0 = deletion (LDB_TYPE_VALUE / LDB_TYPE_DELETION)
  val : String      -- opaque value token
  deriving Repr, DecidableEq

/-- the fixed64 trailer of the internal key: (sequence << 8) | type -/
def Entry.packed (e : Entry) : Nat := e.seq * 256 + e.kind

/-- internal-key order on (user key, packed trailer): user key ascending, trailer descending -/
def ikLt (c : Cmp) (ak : Bytes) (ap : Nat) (bk : Bytes) (bp : Nat) : Bool :=
  match c.compare ak bk with
  | .lt => true
  | .gt => false
  | .eq => decide (ap > bp)

def entryLt (c : Cmp) (a b : Entry) : Bool := ikLt c a.ukey a.packed b.ukey b.packed

abbrev Run := List Entry

/-- a run is strictly sorted in internal-key order -/
def RunSorted (c : Cmp) (r : Run) : Prop := r.Pairwise (fun a b => entryLt c a b = true)

/-- iterator Seek(target): first entry that is not before the target -/
def runSeek (c : Cmp) (r : Run) (k : Bytes) (p : Nat) : Option Entry :=
  r.find? (fun e => !ikLt c e.ukey e.packed k p)

/-- the packed trailer of a lookup key for sequence `s`: (s << 8) | LDB_VALTYPE_SEEK -/
def seekPacked (s : Nat) : Nat := s * 256 + valtypeSeek

/-- ldb_memtable_get / table lookup + save_value: seek to (k, s), accept only the same user key -/
def runGet (c : Cmp) (r : Run) (k : Bytes) (s : Nat) : Option Entry :=
  match runSeek c r k (seekPacked s) with
  | some e => if c.compare e.ukey k == .eq then some e else none
  | none => none

structure FileMeta where
  num : Nat
  size : Nat
  sk : Bytes      -- smallest: user key
  sp : Nat        --           packed trailer
  lk : Bytes      -- largest: user key
  lp : Nat
  run : Run
  deriving Repr, DecidableEq

structure DbState where
  mem : Run
  imm : Option Run
  levels : List (List FileMeta)      -- exactly `numLevels` lists
  lastSeq : Nat
  snaps : List Nat
  nextFile : Nat
  deriving Repr

def DbState.level (st : DbState) (l : Nat) : List FileMeta := st.levels.getD l []

/-- user-key range test of ldb_version_for_each_overlapping for level 0 -/
def fileContainsUser (c : Cmp) (f : FileMeta) (k : Bytes) : Bool :=
  c.compare k f.sk != .lt && c.compare k f.lk != .gt

/-- level-0 candidates, newest (largest file number) first -/
def l0Candidates (c : Cmp) (files : List FileMeta) (k : Bytes) : List FileMeta :=
  (files.filter (fun f => fileContainsUser c f k)).mergeSort (fun a b => decide (a.num ≥ b.num))

/-- find_file + the smallest-user-key guard: the one file of a deeper level that may hold (k, s) -/
def levelFile (c : Cmp) (files : List FileMeta) (k : Bytes) (p : Nat) : Option FileMeta :=
  match files.find? (fun f => !ikLt c f.lk f.lp k p) with
  | some f => if c.compare k f.sk == .lt then none else some f
  | none => none

/-- the runs consulted for (k, s), in the order the implementation consults them -/
def searchOrder (c : Cmp) (st : DbState) (k : Bytes) (s : Nat) : List Run :=
  [st.mem] ++ st.imm.toList
    ++ (l0Candidates c (st.level 0) k).map (·.run)
    ++ ((List.range (numLevels' - 1)).filterMap fun i =>
          (levelFile c (st.level (i + 1)) k (seekPacked s)).map (·.run))
where numLevels' : Nat := 7

/-- first hit along the search order -/
def getEntry (c : Cmp) (st : DbState) (k : Bytes) (s : Nat) : Option Entry :=
  (searchOrder c st k s).findSome? (fun r => runGet c r k s)

/-- ldb_get at sequence `s` (the snapshot's, or the last published sequence): `none` = NOTFOUND -/
def get (c : Cmp) (st : DbState) (k : Bytes) (s : Nat) : Option String :=
  match getEntry c st k s with
  | some e => if e.kind == 1 then some e.val else none
  | none => none

/-! ### specification side -/

def allFiles (st : DbState) : List FileMeta := st.levels.flatten

def allEntries (st : DbState) : List Entry :=
  st.mem ++ (st.imm.getD []) ++ (allFiles st).flatMap (·.run)

/-- entries of user key `k` visible at sequence `s` -/
def visibleEntries (c : Cmp) (es : List Entry) (k : Bytes) (s : Nat) : List Entry :=
  es.filter (fun e => c.compare e.ukey k == .eq && decide (e.seq ≤ s))

/-- the newest of them (greatest sequence) -/
def newestOf : List Entry → Option Entry
  | [] => none
  | e :: es => match newestOf es with
    | none => some e
    | some m => if e.seq ≥ m.seq then some e else some m

def newestVisible (c : Cmp) (es : List Entry) (k : Bytes) (s : Nat) : Option Entry :=
  newestOf (visibleEntries c es k s)

/-- what a sorted map that applied every write up to sequence `s` answers for `k` -/
def view (c : Cmp) (es : List Entry) (k : Bytes) (s : Nat) : Option String :=
  match newestVisible c es k s with
  | some e => if e.kind == 1 then some e.val else none
  | none => none

/-! ### invariant -/

def FileOk (c : Cmp) (f : FileMeta) : Prop :=
  RunSorted c f.run ∧ f.run ≠ [] ∧
  (∀ e ∈ f.run.head?, e.ukey = f.sk ∧ e.packed = f.sp) ∧
  (∀ e ∈ f.run.getLast?, e.ukey = f.lk ∧ e.packed = f.lp)

/-- levels >= 1: files in key order, pairwise disjoint (largest of one strictly before smallest of the next) -/
def LevelSorted (c : Cmp) (files : List FileMeta) : Prop :=
  files.Pairwise (fun f g => ikLt c f.lk f.lp g.sk g.sp = true)

/-- every entry of `a` for a user key is newer than every entry of `b` for the same user key -/
def NewerThan (c : Cmp) (a b : Run) : Prop :=
  ∀ x ∈ a, ∀ y ∈ b, c.compare x.ukey y.ukey = .eq → x.seq > y.seq

/-- all runs of the state in search order: mem, imm, level 0 by file number descending, level 1..6 -/
def sourceRuns (st : DbState) : List Run :=
  [st.mem] ++ st.imm.toList
    ++ ((st.level 0).mergeSort (fun a b => decide (a.num ≥ b.num))).map (·.run)
    ++ (st.levels.drop 1).map (fun files => files.flatMap (·.run))

structure Inv (c : Cmp) (st : DbState) : Prop where
  nlevels : st.levels.length = 7
  memSorted : RunSorted c st.mem
  immSorted : ∀ r ∈ st.imm, RunSorted c r
  filesOk : ∀ f ∈ allFiles st, FileOk c f
  levelsSorted : ∀ l, 1 ≤ l → LevelSorted c (st.level l)
  /-- along the search order, earlier sources hold strictly newer versions of any user key -/
  recency : (sourceRuns st).Pairwise (NewerThan c)
  seqBound : ∀ e ∈ allEntries st, e.seq ≤ st.lastSeq
  kinds : ∀ e ∈ allEntries st, e.kind ≤ 1
  numsDistinct : (allFiles st).Pairwise (fun f g => f.num ≠ g.num)
  numsBound : ∀ f ∈ allFiles st, f.num < st.nextFile
  snapsBound : ∀ s ∈ st.snaps, s ≤ st.lastSeq

instance (c : Cmp) (r : Run) : Decidable (RunSorted c r) := by unfold RunSorted; infer_instance
instance (c : Cmp) (f : FileMeta) : Decidable (FileOk c f) := by unfold FileOk; infer_instance
instance (c : Cmp) (fs : List FileMeta) : Decidable (LevelSorted c fs) := by unfold LevelSorted; infer_instance
instance (c : Cmp) (a b : Run) : Decidable (NewerThan c a b) := by unfold NewerThan; infer_instance

/-- executable form of `Inv` (what `tracecheck` evaluates on every reconstructed state);
    returns the name of the first violated clause -/
def invCheck (c : Cmp) (st : DbState) : Option String :=
  if st.levels.length ≠ 7 then some "nlevels"
  else if ¬ RunSorted c st.mem then some "memSorted"
  else if ¬ (∀ r ∈ st.imm, RunSorted c r) then some "immSorted"
  else if ¬ (∀ f ∈ allFiles st, FileOk c f) then some "filesOk"
  else if ¬ (∀ l ∈ List.range 7, 1 ≤ l → LevelSorted c (st.level l)) then some "levelsSorted"
  else if ¬ (sourceRuns st).Pairwise (NewerThan c) then some "recency"
  else if ¬ (∀ e ∈ allEntries st, e.seq ≤ st.lastSeq) then some "seqBound"
  else if ¬ (∀ e ∈ allEntries st, e.kind ≤ 1) then some "kinds"
  else if ¬ (allFiles st).Pairwise (fun f g => f.num ≠ g.num) then some "numsDistinct"
  else if ¬ (∀ f ∈ allFiles st, f.num < st.nextFile) then some "numsBound"
  else if ¬ (∀ s ∈ st.snaps, s ≤ st.lastSeq) then some "snapsBound"
  else none

/-! ### steps: contracts, not policies -/

/-- user-key ranges of two files intersect -/
def userRangesOverlap (c : Cmp) (f g : FileMeta) : Bool :=
  !(c.compare f.lk g.sk == .lt || c.compare g.lk f.sk == .lt)

def removeNums (files : List FileMeta) (nums : List Nat) : List FileMeta :=
  files.filter (fun f => !nums.contains f.num)

def pickNums (files : List FileMeta) (nums : List Nat) : List FileMeta :=
  files.filter (fun f => nums.contains f.num)

/-- insert by smallest key (every level, level 0 included, is kept in smallest-key order by the version builder;
    ties go after, i.e. by increasing file number) -/
def insertSorted (c : Cmp) (f : FileMeta) : List FileMeta → List FileMeta
  | [] => [f]
  | g :: gs => if ikLt c f.sk f.sp g.sk g.sp then f :: g :: gs else g :: insertSorted c f gs

def addFiles (c : Cmp) (_level : Nat) (files : List FileMeta) (new : List FileMeta) : List FileMeta :=
  new.foldl (fun acc f => insertSorted c f acc) files

def setLevel (st : DbState) (l : Nat) (files : List FileMeta) : DbState :=
  { st with levels := st.levels.set l files }

/-- one write-batch operation as the memtable sees it -/
structure WOp where
  ukey : Bytes
  kind : Nat
  val : String
  deriving Repr, DecidableEq

/-- insert into a sorted run (the skiplist insert) -/
def runInsert (c : Cmp) (e : Entry) : Run → Run
  | [] => [e]
  | x :: xs => if entryLt c e x then e :: x :: xs else x :: runInsert c e xs

/-- apply a batch: consecutive sequence numbers starting at lastSeq + 1 -/
def applyOps (c : Cmp) (mem : Run) (seq : Nat) : List WOp → Run
  | [] => mem
  | o :: os => applyOps c (runInsert c { ukey := o.ukey, seq := seq, kind := o.kind, val := o.val } mem) (seq + 1) os

inductive Step where
  | write (ops : List WOp)
  | switchMem                                   -- imm := mem, mem := [] (make_room_for_write)
  | flush (level : Nat) (f : FileMeta)          -- imm written as table `f` installed at `level` (imm := none)
  | dropImm                                     -- an empty immutable memtable is discarded
  | addL0 (f : FileMeta)                        -- recovery: a replayed log written as a level-0 table
  | compact (level : Nat) (in0 in1 : List Nat) (outs : List FileMeta)   -- incl. trivial move (outs = the moved file)
  | snapshot
  | release (s : Nat)
  | bumpNextFile (n : Nat)                      -- file numbers consumed by logs / manifests
  deriving Repr

def applyStep (c : Cmp) (st : DbState) : Step → DbState
  | .write ops => { st with mem := applyOps c st.mem (st.lastSeq + 1) ops, lastSeq := st.lastSeq + ops.length }
  | .switchMem => { st with imm := some st.mem, mem := [] }
  | .flush level f => { setLevel st level (addFiles c level (st.level level) [f]) with imm := none, nextFile := max st.nextFile (f.num + 1) }
  | .dropImm => { st with imm := none }
  | .addL0 f => { setLevel st 0 (addFiles c 0 (st.level 0) [f]) with nextFile := max st.nextFile (f.num + 1) }
  | .compact level in0 in1 outs =>
    let st1 := setLevel st level (removeNums (st.level level) in0)
    let st2 := setLevel st1 (level + 1) (addFiles c (level + 1) (removeNums (st.level (level + 1)) in1) outs)
    { st2 with nextFile := outs.foldl (fun m f => max m (f.num + 1)) st.nextFile }
  | .snapshot => { st with snaps := st.snaps ++ [st.lastSeq] }
  | .release s => { st with snaps := st.snaps.erase s }
  | .bumpNextFile n => { st with nextFile := max st.nextFile n }

/-- sequences at which views must be preserved by background work: every live snapshot and the present -/
def protectedSeqs (st : DbState) : List Nat := st.lastSeq :: st.snaps

def smallestProtected (st : DbState) : Nat := (protectedSeqs st).foldl min st.lastSeq

/-- user key `k` has an entry in some level deeper than `level` -/
def keyInDeeperLevels (c : Cmp) (st : DbState) (level : Nat) (k : Bytes) : Bool :=
  (st.levels.drop (level + 1)).any (fun files => files.any (fun f => f.run.any (fun e => c.compare e.ukey k == .eq)))

/-- compaction output contract (c): for user key `k` at sequence `s`, what the outputs answer equals
    what the inputs answered, except that a tombstone may turn into absence when nothing deeper holds `k` -/
def sameAnswer (c : Cmp) (st : DbState) (level : Nat) (ins outs : List Entry) (k : Bytes) (s : Nat) : Bool :=
  match newestVisible c ins k s, newestVisible c outs k s with
  | some a, some b => a == b
  | some a, none => a.kind == 0 && !keyInDeeperLevels c st (level + 1) k
  | none, none => true
  | none, some _ => false

def stepOk (c : Cmp) (st : DbState) : Step → Prop
  | .write ops => ops ≠ [] ∧ ∀ o ∈ ops, o.kind ≤ 1
  | .switchMem => st.imm = none
  | .flush level f =>
      st.imm = some f.run ∧ FileOk c f ∧ level < 7 ∧ st.nextFile ≤ f.num ∧
      (∀ l, l ≤ level → level ≠ 0 → ∀ g ∈ st.level l, userRangesOverlap c f g = false)
  | .dropImm => st.imm = some []
  | .addL0 f => FileOk c f ∧ st.mem = [] ∧ st.imm = none ∧
      (∀ g ∈ st.level 0, g.num < f.num) ∧
      (∀ r ∈ sourceRuns st, NewerThan c f.run r) ∧ (∀ e ∈ f.run, e.seq ≤ st.lastSeq ∧ e.kind ≤ 1) ∧
      (∀ x ∈ f.run, ∀ y ∈ f.run, c.compare x.ukey y.ukey = .eq → x.seq = y.seq → x = y) ∧
      (∀ g ∈ allFiles st, g.num ≠ f.num)
  | .compact level in0 in1 outs =>
      let ins := (pickNums (st.level level) in0 ++ pickNums (st.level (level + 1)) in1).flatMap (·.run)
      let outEntries := outs.flatMap (·.run)
      level + 1 < 7 ∧ in0 ≠ [] ∧
      (∀ n ∈ in0, ∃ f ∈ st.level level, f.num = n) ∧ (∀ n ∈ in1, ∃ f ∈ st.level (level + 1), f.num = n) ∧
      -- (a) what stays in `level` is newer, key by key, than what leaves it
      (∀ g ∈ removeNums (st.level level) in0, ∀ f ∈ pickNums (st.level level) in0, NewerThan c g.run f.run) ∧
      -- (a') what stays in `level+1` is newer, key by key, than every input (boundary expansion on level+1:
      --      without it a dropped tombstone could uncover an older version left in an unpicked level+1 file)
      (∀ g ∈ removeNums (st.level (level + 1)) in1, NewerThan c g.run ins) ∧
      -- (b) outputs are well-formed files and the new level+1 is sorted and disjoint
      (∀ f ∈ outs, FileOk c f) ∧
      LevelSorted c (addFiles c (level + 1) (removeNums (st.level (level + 1)) in1) outs) ∧
      (∀ f ∈ outs, (∀ g ∈ allFiles st, g.num = f.num → g ∈ pickNums (st.level level) in0 ∧ outs = [g])) ∧
      outs.Pairwise (fun f g => f.num ≠ g.num) ∧
      -- (c) outputs are drawn from the inputs and answer like them at every protected sequence
      (∀ e ∈ outEntries, e ∈ ins) ∧
      (∀ e ∈ ins, ∀ s ∈ protectedSeqs st, sameAnswer c st level ins outEntries e.ukey s = true) ∧
      (∀ e ∈ ins, ∀ e' ∈ ins, e'.seq ≥ smallestProtected st → sameAnswer c st level ins outEntries e.ukey e'.seq = true)
  | .snapshot => True
  | .release s => s ∈ st.snaps
  | .bumpNextFile _ => True

end Lcdb

namespace Lcdb
instance (c : Cmp) (st : DbState) (s : Step) : Decidable (stepOk c st s) := by
  cases s <;> simp only [stepOk] <;> infer_instance
end Lcdb
