/-
  Model of src/util/cache.c: the sharded LRU cache (`ldb_lru_t`).

  One shard (`lru_shard_t`, cache.c:228-459) is a pure state machine over `Nat`-identified entries.
  An entry id is the index of the entry in `entries` (the n-th `lru_shard_insert` of the shard
  allocates id n); ids are the handles given to the client (`lru_handle_t *`).  A freed entry stays
  in the list with `refs = 0` (the C code has called `deleter` and `ldb_free(e)`); touching it again
  is a use-after-free in C and `none` here.

  * `lru` is the circular list `lru->list` read from `list.next` (oldest) to `list.prev` (newest);
    `inUse` is `lru->in_use` in append order.  `lru_shard_remove(e)` unlinks `e` from whichever of
    the two lists it is on: `unlink` removes the id from both (they are duplicate-free and disjoint:
    invariant `Inv`, Lemmas/LruCache.lean).
  * `table` is the handle table (`lru_table_t`) ABSTRACTED as a finite map key ↦ entry id; the
    table is keyed by (key, hash) in C, and every caller passes `hash = ldb_hash(key, 0)`, so the key
    alone determines the slot.  The open-hashing implementation itself (buckets, chains, resize)
    is modelled separately in Model/LruHTable.lean and proved to be such a map.
  * `deleted` is the log of deleter calls (entry ids, in call order); the value passed to the deleter
    is `entries[id].val`.
  * `held` is a GHOST (not in C): the multiset of handles the client has been given and not yet
    released.  It influences nothing except that `release`/`value` of a handle that is not held
    answer `none` (client error: in C a use-after-free or a reference-count underflow).
  * `usage`/`charge` are `size_t` in C and wrap; the model uses `Nat` (driver and harness refuse
    charges ≥ 2^32 and scripts are short, so no wrap); `refs` is `uint32_t` (2^32 handles to one
    entry are out of reach).  Mutexes are not modelled (single client).

  `Cache` is the 16-shard wrapper (`ldb_lru_s`, cache.c:461-574): shard = top 4 bits of
  `ldb_hash(key, 0)` (Model/Bloom.lean `ldbHash`), per-shard capacity `(capacity + 15) / 16`,
  `ldb_lru_id`.
-/
import LcdbModel.Model.Bloom
namespace Lcdb.LruCache

/-- `lru_handle_t` without the links (`next_hash`, `next`, `prev` are the lists / the table) -/
structure CEntry where
  key : Bytes
  val : Nat
  charge : Nat
  /-- references, including the cache's own reference if `inCache`; 0 = freed -/
  refs : Nat
  inCache : Bool
deriving Repr, DecidableEq

structure Shard where
  capacity : Nat
  usage : Nat
  entries : List CEntry
  /-- `lru->list`, oldest first -/
  lru : List Nat
  /-- `lru->in_use` -/
  inUse : List Nat
  /-- handle table, abstracted as a map -/
  table : Bytes → Option Nat
  /-- ghost: handles held by the client -/
  held : List Nat
  /-- deleter log (entry ids) -/
  deleted : List Nat

/-- `lru_shard_init` + `capacity` -/
def Shard.empty (capacity : Nat) : Shard :=
  { capacity := capacity, usage := 0, entries := [], lru := [], inUse := [], table := fun _ => none,
    held := [], deleted := [] }

/-- `lru_table_insert` on the abstract map (the old entry, if any, is `t key` before) -/
def tableSet (t : Bytes → Option Nat) (key : Bytes) (v : Option Nat) : Bytes → Option Nat :=
  fun k => if k = key then v else t k

/-- `lru_shard_remove(e)`: unlink from whichever list the entry is on -/
def unlink (s : Shard) (id : Nat) : Shard :=
  { s with lru := s.lru.filter (· != id), inUse := s.inUse.filter (· != id) }

/-- `lru_shard_ref` (cache.c:273-280) -/
def ref (s : Shard) (id : Nat) : Option Shard :=
  match s.entries[id]? with
  | none => none
  | some e =>
    if e.refs = 0 then none else
    -- if on lru->list, move to lru->in_use
    let s1 := if e.refs = 1 ∧ e.inCache = true then
        { unlink s id with inUse := s.inUse.filter (· != id) ++ [id] } else s
    some { s1 with entries := s1.entries.set id { e with refs := e.refs + 1 } }

/-- `lru_shard_unref` (cache.c:282-301).  `assert(e->refs > 0)` / `assert(!e->in_cache)`: with NDEBUG
    the first is a use-after-free or an underflow, the second frees an entry the table and a list
    still point to; both are `none`. -/
def unref (s : Shard) (id : Nat) : Option Shard :=
  match s.entries[id]? with
  | none => none
  | some e =>
    if e.refs = 0 then none else
    let e' := { e with refs := e.refs - 1 }
    if e'.refs = 0 then
      -- deallocate: deleter(key, value); free(e)
      if e.inCache then none else
      some { s with entries := s.entries.set id e', deleted := s.deleted ++ [id] }
    else if e.inCache = true ∧ e'.refs = 1 then
      -- no longer in use; move to lru->list (newest end)
      some { unlink s id with entries := s.entries.set id e', lru := s.lru.filter (· != id) ++ [id] }
    else some { s with entries := s.entries.set id e' }

/-- `lru_shard_finish(lru, e)` (cache.c:371-386); `e` is what `lru_table_insert/remove` returned.
    `assert(e->in_cache)` is `none`. -/
def finish (s : Shard) : Option Nat → Option Shard
  | none => some s
  | some id =>
    match s.entries[id]? with
    | none => none
    | some e =>
      if e.inCache = false then none else
      let s1 := unlink s id
      let s2 := { s1 with entries := s1.entries.set id { e with inCache := false },
                          usage := s1.usage - e.charge }
      unref s2 id

/-- one iteration of the eviction / prune loops: `old = lru->list.next`,
    `lru_shard_finish(lru, lru_table_remove(&lru->table, key(old), old->hash))` -/
def evictOne (s : Shard) (old : Nat) : Option Shard :=
  match s.entries[old]? with
  | none => none
  | some e => finish { s with table := tableSet s.table e.key none } (s.table e.key)

/-- `while (lru->usage > lru->capacity && lru->list.next != &lru->list)` (cache.c:446-454).  Every
    iteration unlinks the head of `lru`; running out of fuel (`none`) would be a non-terminating C loop. -/
def evictLoop : Nat → Shard → Option Shard
  | fuel, s =>
    if s.usage > s.capacity then
      match s.lru with
      | [] => some s
      | old :: _ =>
        match fuel with
        | 0 => none
        | n + 1 => (evictOne s old).bind (evictLoop n)
    else some s

/-- `lru_shard_prune` (cache.c:395-410): the same loop without the usage test -/
def pruneLoop : Nat → Shard → Option Shard
  | fuel, s =>
    match s.lru with
    | [] => some s
    | old :: _ =>
      match fuel with
      | 0 => none
      | n + 1 => (evictOne s old).bind (pruneLoop n)

/-- `lru_shard_insert` (cache.c:412-459); returns the handle (always, also with capacity 0) -/
def insert (s : Shard) (key : Bytes) (val charge : Nat) : Option (Shard × Nat) :=
  let id := s.entries.length
  -- e->refs = 1 for the returned handle, e->in_cache = 0
  let e : CEntry := { key := key, val := val, charge := charge, refs := 1, inCache := false }
  let s0 := { s with held := s.held ++ [id] }
  let s1? : Option Shard :=
    if s.capacity > 0 then
      -- e->refs++; e->in_cache = 1; append to in_use; usage += charge; finish(table_insert(e))
      let e' := { e with refs := 2, inCache := true }
      finish { s0 with entries := s.entries ++ [e'], inUse := s.inUse ++ [id], usage := s.usage + charge,
                       table := tableSet s.table key (some id) } (s.table key)
    else
      -- don't cache (capacity == 0 turns off caching)
      some { s0 with entries := s.entries ++ [e] }
  s1?.bind fun s1 => (evictLoop (s1.lru.length) s1).map fun s2 => (s2, id)

/-- `lru_shard_lookup` (cache.c:346-360) -/
def lookup (s : Shard) (key : Bytes) : Option (Shard × Option Nat) :=
  match s.table key with
  | none => some (s, none)
  | some id => (ref s id).map fun s' => ({ s' with held := s'.held ++ [id] }, some id)

/-- `lru_shard_release` (cache.c:362-367); releasing a handle that is not held is a client error -/
def release (s : Shard) (id : Nat) : Option Shard :=
  if id ∈ s.held then (unref s id).map fun s' => { s' with held := s'.held.erase id } else none

/-- `lru_shard_erase` (cache.c:388-393) -/
def erase (s : Shard) (key : Bytes) : Option Shard :=
  finish { s with table := tableSet s.table key none } (s.table key)

/-- `lru_shard_prune` -/
def prune (s : Shard) : Option Shard := pruneLoop s.lru.length s

/-- `lru_shard_usage` -/
def totalCharge (s : Shard) : Nat := s.usage

/-- `ldb_lru_value(handle)`; of a handle that is not held: client error -/
def value (s : Shard) (id : Nat) : Option Nat :=
  if id ∈ s.held then (s.entries[id]?).bind fun e => if e.refs = 0 then none else some e.val else none

/-- body of the `for` of `lru_shard_clear`: `e->in_cache = 0; unref(e)` for every entry on `lru->list`
    (`assert(e->refs == 1)`; neither `usage` nor the table is touched: the shard is gone afterwards) -/
def clearGo : List Nat → Shard → Option Shard
  | [], s => some s
  | id :: rest, s =>
    match s.entries[id]? with
    | none => none
    | some e =>
      (unref { s with entries := s.entries.set id { e with inCache := false } } id).bind (clearGo rest)

/-- `lru_shard_clear` (cache.c:322-344).  `assert(in_use empty)`: an unreleased handle at destruction is a
    client error (the entry is leaked and its handle dangles): `none`.  The shard's lists are dead
    afterwards; the model empties them. -/
def clear (s : Shard) : Option Shard :=
  if s.inUse ≠ [] then none else
  (clearGo s.lru s).map fun s' => { s' with lru := [] }

/-- values passed to the deleter, in call order -/
def deletedVals (s : Shard) : List Nat :=
  s.deleted.filterMap fun id => (s.entries[id]?).map (·.val)

/-! ### operations as data -/

inductive Op where
  | insert (key : Bytes) (val charge : Nat)
  | lookup (key : Bytes)
  | release (id : Nat)
  | erase (key : Bytes)
  | prune
  | total
deriving Repr, DecidableEq

inductive Out where
  | handle (h : Option Nat)
  | unit
  | total (n : Nat)
deriving Repr, DecidableEq

def step (s : Shard) : Op → Option (Shard × Out)
  | .insert k v c => (insert s k v c).map fun (s', h) => (s', .handle (some h))
  | .lookup k => (lookup s k).map fun (s', h) => (s', .handle h)
  | .release id => (release s id).map fun s' => (s', .unit)
  | .erase k => (erase s k).map fun s' => (s', .unit)
  | .prune => (prune s).map fun s' => (s', .unit)
  | .total => some (s, .total (totalCharge s))

def run : Shard → List Op → Option (Shard × List Out)
  | s, [] => some (s, [])
  | s, op :: ops =>
    match step s op with
    | none => none
    | some (s', o) => (run s' ops).map fun (s'', os) => (s'', o :: os)

/-- well-formed use: only handles that are held are released.  (Decidable: it runs the model.) -/
def wf : Shard → List Op → Bool
  | _, [] => true
  | s, op :: ops =>
    (match op with
     | .release id => decide (id ∈ s.held)
     | _ => true) &&
    (match step s op with
     | none => true
     | some (s', _) => wf s' ops)

/-- release every outstanding handle (in the order they were handed out), then `lru_shard_clear` -/
def releaseAll : List Nat → Shard → Option Shard
  | [], s => some s
  | id :: rest, s => (release s id).bind (releaseAll rest)

def shutdown (s : Shard) : Option Shard := (releaseAll s.held s).bind clear

/-! ### the sharded cache -/

def shardBits : Nat := 4
def numShards : Nat := 16

/-- `ldb_lru_hash` -/
def lruHash (key : Bytes) : Nat := ldbHash key 0

/-- `ldb_lru_shard(hash) = hash >> (32 - 4)` -/
def shardOf (key : Bytes) : Nat := lruHash key / 2 ^ 28

structure Cache where
  shards : List Shard
  lastId : Nat

/-- `ldb_lru_create`: `per_shard = (capacity + 15) / 16` -/
def Cache.create (capacity : Nat) : Cache :=
  { shards := List.replicate numShards (Shard.empty ((capacity + (numShards - 1)) / numShards)), lastId := 0 }

/-- a handle of the sharded cache: (shard index, entry id).  In C the shard of a handle is recomputed
    from `handle->hash` in `ldb_lru_release`. -/
abbrev Handle := Nat × Nat

def Cache.onShard (c : Cache) (i : Nat) (f : Shard → Option (Shard × α)) : Option (Cache × α) :=
  match c.shards[i]? with
  | none => none
  | some s => (f s).map fun (s', a) => ({ c with shards := c.shards.set i s' }, a)

def Cache.insert (c : Cache) (key : Bytes) (val charge : Nat) : Option (Cache × Handle) :=
  let i := shardOf key
  c.onShard i fun s => (LruCache.insert s key val charge).map fun (s', h) => (s', (i, h))

def Cache.lookup (c : Cache) (key : Bytes) : Option (Cache × Option Handle) :=
  let i := shardOf key
  c.onShard i fun s => (LruCache.lookup s key).map fun (s', h) => (s', h.map fun h => (i, h))

def Cache.release (c : Cache) (h : Handle) : Option Cache :=
  (c.onShard h.1 fun s => (LruCache.release s h.2).map fun s' => (s', ())).map (·.1)

def Cache.erase (c : Cache) (key : Bytes) : Option Cache :=
  (c.onShard (shardOf key) fun s => (LruCache.erase s key).map fun s' => (s', ())).map (·.1)

def Cache.value (c : Cache) (h : Handle) : Option Nat :=
  (c.shards[h.1]?).bind fun s => LruCache.value s h.2

def mapM' (f : Shard → Option Shard) : List Shard → Option (List Shard)
  | [] => some []
  | s :: rest => (f s).bind fun s' => (mapM' f rest).map fun r => s' :: r

/-- `ldb_lru_prune`: every shard in index order -/
def Cache.prune (c : Cache) : Option Cache :=
  (mapM' LruCache.prune c.shards).map fun ss => { c with shards := ss }

/-- `ldb_lru_usage` -/
def Cache.totalCharge (c : Cache) : Nat := (c.shards.map LruCache.totalCharge).sum

/-- `ldb_lru_id`: `++last_id` (`uint64_t`) -/
def Cache.newId (c : Cache) : Cache × Nat :=
  let id := (c.lastId + 1) % 2 ^ 64
  ({ c with lastId := id }, id)

/-- `ldb_lru_destroy`: `lru_shard_clear` of every shard in index order -/
def Cache.destroy (c : Cache) : Option Cache :=
  (mapM' LruCache.clear c.shards).map fun ss => { c with shards := ss }

/-- deleter calls per shard, as (shard-local log length) snapshots are compared by the driver -/
def Cache.deletedCounts (c : Cache) : List Nat := c.shards.map (·.deleted.length)

end Lcdb.LruCache
