/-
  Model of src/write_batch.c: rep = fixed64 sequence ‖ fixed32 count ‖ records,
  record = 0x01 varstring varstring (put) | 0x00 varstring (delete).
-/
import LcdbModel.Model.Coding
namespace Lcdb

inductive BOp where
  | put (key value : Bytes)
  | del (key : Bytes)
  deriving Repr, DecidableEq

def batchHeaderSize : Nat := 12
def typeDeletion : Nat := 0
def typeValue : Nat := 1

def encodeOp : BOp → Bytes
  | BOp.put k v => UInt8.ofNat typeValue :: (sliceEnc k ++ sliceEnc v)
  | BOp.del k => UInt8.ofNat typeDeletion :: sliceEnc k

def encodeOps (ops : List BOp) : Bytes := (ops.map encodeOp).flatten

/-- batch contents built by ldb_batch_put/del with the sequence set by ldb_batch_set_sequence -/
def encodeBatch (seq : Nat) (ops : List BOp) : Bytes :=
  fixedEnc 8 seq ++ fixedEnc 4 ops.length ++ encodeOps ops

def batchSeq (rep : Bytes) : Nat := fixedDec (rep.take 8)
def batchCount (rep : Bytes) : Nat := fixedDec ((rep.drop 8).take 4)

/-- result of ldb_batch_iterate: the handler calls made, and whether it returned OK -/
structure IterResult where
  applied : List BOp
  ok : Bool
  deriving Repr, DecidableEq

/-- the while loop of ldb_batch_iterate over the bytes after the header; `found` counts tags seen -/
def iterateGo : Nat → Bytes → List BOp → Nat → (List BOp × Nat × Bool)
  | 0, _, acc, found => (acc, found, false)
  | _+1, [], acc, found => (acc, found, true)
  | fuel+1, tag :: rest, acc, found =>
    if tag.toNat == typeValue then
      match sliceRead rest with
      | none => (acc, found + 1, false)
      | some (k, rest1) =>
        match sliceRead rest1 with
        | none => (acc, found + 1, false)
        | some (v, rest2) => iterateGo fuel rest2 (acc ++ [BOp.put k v]) (found + 1)
    else if tag.toNat == typeDeletion then
      match sliceRead rest with
      | none => (acc, found + 1, false)
      | some (k, rest1) => iterateGo fuel rest1 (acc ++ [BOp.del k]) (found + 1)
    else (acc, found + 1, false)

/-- ldb_batch_iterate: too-small check, record loop, count check (`found` is a C int compared with the
    fixed32 count read as int: equal iff equal modulo 2^32 for the sizes that fit in memory) -/
def batchIterate (rep : Bytes) : IterResult :=
  if rep.length < batchHeaderSize then { applied := [], ok := false }
  else
    let (ops, found, ok) := iterateGo (rep.length + 1) (rep.drop batchHeaderSize) [] 0
    if !ok then { applied := ops, ok := false }
    else { applied := ops, ok := found == batchCount rep }

/-- ldb_batch_append(dst, src): add counts (mod 2^32), append the records of src -/
def batchAppend (dst src : Bytes) : Bytes :=
  dst.take 8 ++ fixedEnc 4 ((batchCount dst + batchCount src) % 2 ^ 32) ++ dst.drop 12 ++ src.drop 12

end Lcdb
