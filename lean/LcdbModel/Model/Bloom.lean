/-
  Model of src/util/hash.c (`ldb_hash`) and src/util/bloom.c (`ldb_bloom_init`, `bloom_build`,
  `bloom_match`).

  Machine arithmetic: `uint32_t` values are `Nat`s reduced `% 2^32` wherever the C code
  truncates; `x >> s` is `x / 2^s`, `x << s` is `x * 2^s`.  `a | b` / `a ^ b` are `Nat`'s
  `|||` / `^^^`.  The bit test `(data[pos/8] & (1 << (pos%8))) == 0` is `Nat.testBit`.

  The bit array being built is an `Array UInt8` (destructively updated by the compiled driver);
  everything else is `Bytes = List UInt8`.
-/
import LcdbModel.Model.Coding
namespace Lcdb

/-! ### ldb_hash -/

def hashM : Nat := 0xc6a4a793

/-- one round of the 4-bytes-at-a-time loop: `h += w; h *= m; h ^= (h >> 16)` -/
def hashMix (h w : Nat) : Nat :=
  let h := (h + w) % 2 ^ 32
  let h := (h * hashM) % 2 ^ 32
  h ^^^ (h / 2 ^ 16)

/-- the `switch (size)` for 1..3 remaining bytes; `t` is their little-endian value
    (`data[2] << 16`, `data[1] << 8`, `data[0]` are added one after the other, each `% 2^32`):
    `h += t; h *= m; h ^= (h >> 24)` -/
def hashTail (h t : Nat) : Nat :=
  let h := (h + t) % 2 ^ 32
  let h := (h * hashM) % 2 ^ 32
  h ^^^ (h / 2 ^ 24)

def hashGo (h : Nat) : Bytes → Nat
  | a :: b :: c :: d :: rest => hashGo (hashMix h (fixedDec [a, b, c, d])) rest
  | [] => h
  | [a] => hashTail h (fixedDec [a])
  | [a, b] => hashTail h (fixedDec [a, b])
  | [a, b, c] => hashTail h (fixedDec [a, b, c])

/-- `ldb_hash(data, size, seed)`; `seed ^ (size * m)` is computed in `size_t` and truncated to
    `uint32_t` by the assignment -/
def ldbHash (data : Bytes) (seed : Nat) : Nat :=
  hashGo ((seed ^^^ (data.length * hashM)) % 2 ^ 32) data

/-- `bloom_hash` -/
def bloomHash (key : Bytes) : Nat := ldbHash key 0xbc9f1d34

/-! ### bloom parameters -/

/-- `ldb_bloom_init`: `k = (size_t)(bits_per_key * 0.69)` clamped to `[1, 30]`, for
    `bits_per_key ≥ 0` (a negative `int` converts a negative `double` to `size_t`: undefined).

    The C code multiplies by the `double` nearest to 0.69 (`0.68999999999999994671…`) and
    truncates.  For `0 < n < 100` the exact product `n·69/100` is never an integer and lies at
    least `0.01` away from one, while the double product is within `1e-13` of it, so the
    truncation equals `n * 69 / 100`; for `n ≥ 44` both sides are `≥ 30` and are clamped to
    30.  (The harness compares the two for every `n` it is given.) -/
def bloomK (bitsPerKey : Nat) : Nat :=
  let k := bitsPerKey * 69 / 100
  if k < 1 then 1 else if k > 30 then 30 else k

/-- `bloom_size`: number of filter bytes for `n` keys (minimum 64 bits), without the `k` byte -/
def bloomBytes (bitsPerKey n : Nat) : Nat :=
  let bits := n * bitsPerKey
  let bits := if bits < 64 then 64 else bits
  (bits + 7) / 8

/-- `(hash >> 17) | (hash << 15)` on `uint32_t` -/
def bloomDelta (h : Nat) : Nat := (h / 2 ^ 17) ||| ((h * 2 ^ 15) % 2 ^ 32)

/-! ### build -/

/-- `data[pos / 8] |= (1 << (pos % 8))` -/
def setBit (data : Array UInt8) (pos : Nat) : Array UInt8 :=
  data.modify (pos / 8) (fun b => UInt8.ofNat (b.toNat ||| 2 ^ (pos % 8)))

/-- the probe loop of `bloom_add`: `i` iterations remain, `h` is the running hash -/
def bloomAddGo (bits delta : Nat) : Nat → Nat → Array UInt8 → Array UInt8
  | 0, _, data => data
  | i + 1, h, data => bloomAddGo bits delta i ((h + delta) % 2 ^ 32) (setBit data (h % bits))

/-- `bloom_add` -/
def bloomAdd (k bits : Nat) (data : Array UInt8) (key : Bytes) : Array UInt8 :=
  let h := bloomHash key
  bloomAddGo bits (bloomDelta h) k h data

/-- the bit array after all keys have been added (`bytes` zero bytes to start with) -/
def bloomBitsArray (bitsPerKey : Nat) (keys : List Bytes) : Array UInt8 :=
  let bytes := bloomBytes bitsPerKey keys.length
  keys.foldl (bloomAdd (bloomK bitsPerKey) (bytes * 8)) (Array.replicate bytes 0)

/-- `bloom_build`: the bytes appended to `dst` (`bytes` filter bytes, then `k`) -/
def bloomBuild (bitsPerKey : Nat) (keys : List Bytes) : Bytes :=
  (bloomBitsArray bitsPerKey keys).toList ++ [UInt8.ofNat (bloomK bitsPerKey)]

/-! ### match -/

/-- the probe loop of `bloom_match` -/
def bloomProbeGo (filter : Bytes) (bits delta : Nat) : Nat → Nat → Bool
  | 0, _ => true
  | i + 1, h =>
    let pos := h % bits
    if (filter.getD (pos / 8) 0).toNat.testBit (pos % 8) then
      bloomProbeGo filter bits delta i ((h + delta) % 2 ^ 32)
    else false

/-- `bloom_match(filter, key)` (the policy argument is unused: `k` is read from the filter) -/
def bloomMatch (filter key : Bytes) : Bool :=
  let len := filter.length
  if len < 2 then false
  else
    let bits := (len - 1) * 8
    let k := (filter.getD (len - 1) 0).toNat
    if k > 30 then true
    else
      let h := bloomHash key
      bloomProbeGo filter bits (bloomDelta h) k h

/-! ### bounds-checked variant: `none` = a read outside the filter slice -/

def bloomProbeGoC (filter : Bytes) (bits delta : Nat) : Nat → Nat → Option Bool
  | 0, _ => some true
  | i + 1, h =>
    let pos := h % bits
    match filter[pos / 8]? with
    | none => none
    | some b =>
      if b.toNat.testBit (pos % 8) then bloomProbeGoC filter bits delta i ((h + delta) % 2 ^ 32)
      else some false

def bloomMatchC (filter key : Bytes) : Option Bool :=
  let len := filter.length
  if len < 2 then some false
  else
    let bits := (len - 1) * 8
    match filter[len - 1]? with
    | none => none
    | some kb =>
      let k := kb.toNat
      if k > 30 then some true
      else
        let h := bloomHash key
        bloomProbeGoC filter bits (bloomDelta h) k h

/-! ### filter policies (`ldb_bloom_t` with its `build` / `match` function pointers) -/

structure Policy where
  build : List Bytes → Bytes
  mayMatch : Bytes → Bytes → Bool
  /-- bounds-checked `mayMatch` -/
  mayMatchC : Bytes → Bytes → Option Bool

/-- `ldb_bloom_init(&bloom, bits_per_key)` -/
def bloomPolicy (bitsPerKey : Nat) : Policy :=
  { build := bloomBuild bitsPerKey, mayMatch := bloomMatch, mayMatchC := bloomMatchC }

/-- `ldb_extract_user_key` / the inlined copy in `ldb_ifp_build`: `size - 8`.
    REQUIRES `8 ≤ size` in C (only an `assert` in `ldb_ifp_build`, nothing in `ldb_ifp_match`);
    the model truncates the subtraction at 0 where C would wrap around. -/
def stripTrailer (ikey : Bytes) : Bytes := ikey.take (ikey.length - 8)

/-- `ldb_ifp_init(&ifp, user_policy)`: InternalFilterPolicy -/
def ifpPolicy (p : Policy) : Policy :=
  { build := fun keys => p.build (keys.map stripTrailer)
    mayMatch := fun filter key => p.mayMatch filter (stripTrailer key)
    mayMatchC := fun filter key => p.mayMatchC filter (stripTrailer key) }

end Lcdb
