/-
  Model of src/memtable.c on top of Model/Skiplist.lean.

  * An entry is one arena buffer (`ldb_memtable_add`, memtable.c:109-143):
        varint32(user key size + 8) ‖ user key ‖ fixed64((seq << 8) | type) ‖ varint32(value size) ‖ value
    and the skiplist key IS that buffer (`const uint8_t *key` points at its first byte).
  * `ldb_slice_decode` (slice.h:108, GetLengthPrefixedSlice) = `sliceRead` of Model/Coding.lean:
    a varint32 of at most five bytes, then that many bytes; the C code does not check any bound
    (the buffer is trusted), the model faults (`none`).
  * the comparator of the skiplist (`ldb_skiplist_compare`, skiplist.c:186-195): decode both
    length-prefixed keys, `ldb_ikc_compare`.  `lpKey` decodes; on an undecodable buffer it yields `[]`
    — `lpKey_encodeEntry` / `lpKey_lookupKey` prove that never happens for a buffer this model builds,
    and `add` / `get` / `seek` refuse (fault) the sizes for which the C code would truncate a length.
  * `ldb_memtable_get` (memtable.c:145-199), `ldb_memiter_*` (memtable.c:205-282; `seek` re-encodes the
    target with `ldb_slice_export`).
-/
import LcdbModel.Model.Skiplist
import LcdbModel.Model.MergeIter
namespace Lcdb.Memtable
open Lcdb.Skiplist

/-- the bytes `ldb_memtable_add` writes into the arena -/
def encodeEntry (ukey : Bytes) (seq kind : Nat) (val : Bytes) : Bytes :=
  varintEnc (ukey.length + 8) ++ (ukey ++ fixedEnc 8 (packSeqType seq kind)) ++ (varintEnc val.length ++ val)

/-- what the accessors of memtable.c read back from such a buffer:
    internal key (`ldb_memiter_key`) and value (`ldb_memiter_value`) -/
def decodeEntry (buf : Bytes) : Option (Bytes × Bytes) :=
  match sliceRead buf with
  | none => none
  | some (ik, rest) =>
    match sliceRead rest with
    | none => none
    | some (v, _) => some (ik, v)

/-- the length-prefixed key of a buffer (`ldb_slice_decode(xp)`) -/
def lpKey (buf : Bytes) : Bytes :=
  match sliceRead buf with
  | some (k, _) => k
  | none => []

/-- ldb_skiplist_compare -/
def memKeyCmp (c : Cmp) (x y : Bytes) : Ordering := ikeyCmp c (lpKey x) (lpKey y)

/-- ldb_lkey_init … ldb_lkey_memtable_key: varint32(size + 8) ‖ user key ‖ fixed64(seq << 8 | LDB_VALTYPE_SEEK) -/
def lookupKey (ukey : Bytes) (seq : Nat) : Bytes :=
  varintEnc (ukey.length + 8) ++ (ukey ++ fixedEnc 8 (packSeqType seq valtypeSeek))

structure Memtable where
  c : Cmp
  table : SkipList Bytes

/-- ldb_memtable_create -/
def create (c : Cmp) : Memtable := { c := c, table := SkipList.init }

/-- argument ranges outside which the C code truncates (`varint32_write` of a size_t, `sequence << 8`) -/
def argsOk (ukey : Bytes) (seq kind : Nat) (val : Bytes) : Bool :=
  decide (ukey.length + 8 < 2 ^ 32) && decide (val.length < 2 ^ 32) && decide (seq < 2 ^ 56) && decide (kind < 256)

/-- ldb_memtable_add with the node height given -/
def addH (mt : Memtable) (ukey : Bytes) (seq kind : Nat) (val : Bytes) (height : Nat) : Option Memtable :=
  if !argsOk ukey seq kind val then none else
  (insert (memKeyCmp mt.c) mt.table (encodeEntry ukey seq kind val) height).map fun t => { mt with table := t }

/-- ldb_memtable_add -/
def add (mt : Memtable) (ukey : Bytes) (seq kind : Nat) (val : Bytes) : Option Memtable :=
  if !argsOk ukey seq kind val then none else
  (insertRand (memKeyCmp mt.c) mt.table (encodeEntry ukey seq kind val)).map fun t => { mt with table := t }

inductive GetResult where
  | found (v : Bytes)     -- return 1, value copied
  | deleted               -- return 1, *status = LDB_NOTFOUND
  | notFound              -- return 0
  deriving Repr, DecidableEq

/-- the part of ldb_memtable_get after the seek: `buf` is the entry the iterator stands on -/
def getAt (c : Cmp) (ukey : Bytes) (buf : Bytes) : Option GetResult :=
  match sliceRead buf with
  | none => none
  | some (okey, rest) =>
    if okey.length < 8 then none else
    if c.compare (ikeyUser okey) ukey == .eq then
      let tag := ikeyNum okey
      if tag % 256 = 1 then
        match sliceRead rest with
        | none => none
        | some (v, _) => some (.found v)
      else if tag % 256 = 0 then some .deleted
      else some .notFound      -- no `case` of the switch matches: falls through to `return 0`
    else some .notFound

/-- ldb_memtable_get -/
def get (mt : Memtable) (ukey : Bytes) (seq : Nat) : Option GetResult :=
  if !(decide (ukey.length + 8 < 2 ^ 32) && decide (seq < 2 ^ 56)) then none else
  match iterSeek (memKeyCmp mt.c) mt.table (lookupKey ukey seq) with
  | none => none
  | some none => some .notFound
  | some (some n) =>
    match keyOf mt.table n with
    | none => none
    | some buf => getAt mt.c ukey buf

/-! ### ldb_memiter_* (state = the skiplist iterator's node) -/

/-- ldb_memiter_seek: `ldb_slice_export(tmp, key)`, `ldb_skipiter_seek(tmp->data)` -/
def iterSeekKey (mt : Memtable) (ikey : Bytes) : Option Iter :=
  if !decide (ikey.length < 2 ^ 32) then none else
  iterSeek (memKeyCmp mt.c) mt.table (sliceEnc ikey)

/-- ldb_memiter_key ‖ ldb_memiter_value of the current node -/
def iterKV (mt : Memtable) (it : Iter) : Option (Bytes × Bytes) :=
  match iterKey mt.table it with
  | none => none
  | some buf => decodeEntry buf

/-- decoded entry under the iterator; `tok` renders a value as the opaque token of `Entry.val` -/
def iterEntry (tok : Bytes → String) (mt : Memtable) (it : Iter) : Option Entry :=
  match iterKV mt it with
  | none => none
  | some (ik, v) =>
    if ik.length < 8 then none else
    some { ukey := ikeyUser ik, seq := ikeyNum ik / 256, kind := ikeyNum ik % 256, val := tok v }

/-- the memtable iterator behind the iterator vtable (status always OK: `ldb_memiter_status`) -/
def memIter (tok : Bytes → String) (mt : Memtable) : InternalIter Iter where
  valid it := iterValid it
  entry it := iterEntry tok mt it
  first _ := iterFirst mt.table
  last _ := iterLast mt.table
  next it := iterNext mt.table it
  prev it := iterPrev (memKeyCmp mt.c) mt.table it
  seek k pk _ := iterSeekKey mt (k ++ fixedEnc 8 pk)
  status _ := .ok

end Lcdb.Memtable
