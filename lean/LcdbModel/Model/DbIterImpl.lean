/-
  Model of src/db_iter.c: the user-level iterator (`ldb_dbiter_t`) as a state machine over an
  abstract internal iterator (`InternalIter σ`, Model/MergeIter.lean), parametrised by the user
  comparator `c` and the iterator's sequence number `s`.

  Control flow is mirrored literally:
  * `findNextUserEntry fuel skipping` = `find_next_user_entry(iter, skipping, &iter->saved_key)`
    (every call site passes `&iter->saved_key` as `skip`, so writes to `skip` ARE writes to
    `saved_key`; `seek` leaves the encoded *internal* key there, `first` leaves whatever was there:
    harmless because `skipping = 0` until a deletion overwrites it);
  * `findPrevUserEntry` = `find_prev_user_entry` with the `value_type` variable;
  * `next` / `prev` with the direction switches, `seek`, `first`, `last`;
  * `parse_key`: `ldb_pkey_import` fails on a value type > 1 (`kind > 1`): `status := corrupt` (sticky)
    and the entry is skipped.  (The `size < 8` failure cannot occur for decoded entries.)
  * Not modelled (no observable effect): the read-sampling hook in `parse_key`
    (`bytes_until_read_sampling`, `random_compaction_period`, `ldb_record_read_sample(db, key)` — it only
    feeds the compaction scheduler), and the buffer management of `clear_saved_value` /
    `ldb_buffer_reinit` above 1 MiB (`saved_value` is simply emptied).
  * `none` = fault: `key`/`next`/`prev` of the internal iterator used while it is invalid, or a loop
    running out of fuel (Lemmas/DbIterImpl.lean proves neither happens).
-/
import LcdbModel.Model.MergeIter
import LcdbModel.Model.DbIter
import LcdbModel.Model.Block
namespace Lcdb

structure DbIter (σ : Type) where
  it : σ
  dir : Dir
  valid : Bool
  savedKey : Bytes
  savedValue : String
  status : IStatus        -- the iterator's own status (`iter->status`)
  deriving Repr

namespace DbIter
variable {σ : Type}

/-- ldb_dbiter_init -/
def create (it : σ) : DbIter σ :=
  { it := it, dir := .forward, valid := false, savedKey := [], savedValue := "", status := .ok }

/-- parse_key: `(parsed?, state with the status updated)` -/
def parseKey (st : DbIter σ) (e : Entry) : Bool × DbIter σ :=
  if e.kind ≤ 1 then (true, st) else (false, { st with status := .corrupt })

/-- the tail of the do-while body of find_next_user_entry: `ldb_iter_next`, then the loop test -/
def fnStep (I : InternalIter σ) (rec : Bool → DbIter σ → Option (DbIter σ)) (skipping : Bool)
    (st : DbIter σ) : Option (DbIter σ) :=
  match I.next st.it with
  | none => none
  | some it' =>
    if I.valid it' then rec skipping { st with it := it' }
    else some { st with it := it', savedKey := [], valid := false }

/-- find_next_user_entry(iter, skipping, &iter->saved_key) -/
def findNextUserEntry (I : InternalIter σ) (c : Cmp) (s : Nat) :
    Nat → Bool → DbIter σ → Option (DbIter σ)
  | 0, _, _ => none
  | fuel + 1, skipping, st =>
    match I.entry st.it with
    | none => none
    | some e =>
      let (parsed, st1) := parseKey st e
      if parsed && decide (e.seq ≤ s) then
        if e.kind == 0 then
          -- LDB_TYPE_DELETION: skip := user key; skipping := 1
          fnStep I (findNextUserEntry I c s fuel) true { st1 with savedKey := e.ukey }
        else if skipping && c.compare e.ukey st1.savedKey != .gt then
          -- entry hidden
          fnStep I (findNextUserEntry I c s fuel) skipping st1
        else
          some { st1 with valid := true, savedKey := [] }
      else
        fnStep I (findNextUserEntry I c s fuel) skipping st1

/-- the do-while loop of find_prev_user_entry; returns the state and `value_type` -/
def findPrevLoop (I : InternalIter σ) (c : Cmp) (s : Nat) :
    Nat → Nat → DbIter σ → Option (DbIter σ × Nat)
  | 0, _, _ => none
  | fuel + 1, vt, st =>
    match I.entry st.it with
    | none => none
    | some e =>
      let (parsed, st1) := parseKey st e
      let visible := parsed && decide (e.seq ≤ s)
      if visible && vt != 0 && c.compare e.ukey st1.savedKey == .lt then
        some (st1, vt)     -- break
      else
        let (st2, vt2) :=
          if visible then
            if e.kind == 0 then ({ st1 with savedKey := [], savedValue := "" }, 0)
            else ({ st1 with savedKey := e.ukey, savedValue := e.val }, e.kind)
          else (st1, vt)
        match I.prev st2.it with
        | none => none
        | some it' =>
          let st3 := { st2 with it := it' }
          if I.valid it' then findPrevLoop I c s fuel vt2 st3 else some (st3, vt2)

/-- find_prev_user_entry -/
def findPrevUserEntry (I : InternalIter σ) (c : Cmp) (s : Nat) (fuel : Nat) (st : DbIter σ) :
    Option (DbIter σ) :=
  let r := if I.valid st.it then findPrevLoop I c s fuel 0 st else some (st, 0)
  match r with
  | none => none
  | some (st1, vt) =>
    if vt == 0 then
      some { st1 with valid := false, savedKey := [], savedValue := "", dir := .forward }
    else some { st1 with valid := true }

/-- the `for (;;)` loop of ldb_dbiter_prev: step back until the user key is below saved_key;
    `(state, ran off the front?)` -/
def prevScan (I : InternalIter σ) (c : Cmp) : Nat → DbIter σ → Option (DbIter σ × Bool)
  | 0, _ => none
  | fuel + 1, st =>
    match I.prev st.it with
    | none => none
    | some it' =>
      let st1 := { st with it := it' }
      if !I.valid it' then
        some ({ st1 with valid := false, savedKey := [], savedValue := "" }, true)
      else
        match I.entry it' with
        | none => none
        | some e => if c.compare e.ukey st1.savedKey == .lt then some (st1, false) else prevScan I c fuel st1

/-- ldb_dbiter_valid -/
def isValid (st : DbIter σ) : Bool := st.valid

/-- ldb_dbiter_key (REQUIRES valid) -/
def key? (I : InternalIter σ) (st : DbIter σ) : Option Bytes :=
  if st.dir == .forward then (I.entry st.it).map (·.ukey) else some st.savedKey

/-- ldb_dbiter_value (REQUIRES valid) -/
def value? (I : InternalIter σ) (st : DbIter σ) : Option String :=
  if st.dir == .forward then (I.entry st.it).map (·.val) else some st.savedValue

/-- ldb_dbiter_status -/
def getStatus (I : InternalIter σ) (st : DbIter σ) : IStatus :=
  if st.status == .ok then I.status st.it else st.status

/-- ldb_dbiter_next (REQUIRES valid) -/
def next (I : InternalIter σ) (c : Cmp) (s : Nat) (fuel : Nat) (st : DbIter σ) : Option (DbIter σ) :=
  if st.dir == .reverse then
    let st1 := { st with dir := .forward }
    match (if !I.valid st1.it then I.first st1.it else I.next st1.it) with
    | none => none
    | some it' =>
      let st2 := { st1 with it := it' }
      if !I.valid it' then some { st2 with valid := false, savedKey := [] }
      else findNextUserEntry I c s fuel true st2
  else
    match I.entry st.it with
    | none => none
    | some e =>
      let st1 := { st with savedKey := e.ukey }
      match I.next st1.it with
      | none => none
      | some it' =>
        let st2 := { st1 with it := it' }
        if !I.valid it' then some { st2 with valid := false, savedKey := [] }
        else findNextUserEntry I c s fuel true st2

/-- ldb_dbiter_prev (REQUIRES valid) -/
def prev (I : InternalIter σ) (c : Cmp) (s : Nat) (fuel : Nat) (st : DbIter σ) : Option (DbIter σ) :=
  if st.dir == .forward then
    match I.entry st.it with
    | none => none
    | some e =>
      match prevScan I c fuel { st with savedKey := e.ukey } with
      | none => none
      | some (st1, true) => some st1          -- `return` with direction still FORWARD
      | some (st1, false) => findPrevUserEntry I c s fuel { st1 with dir := .reverse }
  else findPrevUserEntry I c s fuel st

/-- ldb_dbiter_seek: saved_key := internal key (target, sequence, LDB_VALTYPE_SEEK) -/
def seek (I : InternalIter σ) (c : Cmp) (s : Nat) (fuel : Nat) (target : Bytes) (st : DbIter σ) :
    Option (DbIter σ) :=
  let st1 := { st with dir := .forward, savedValue := "", savedKey := ikeyEnc target s valtypeSeek }
  match I.seek target (seekPacked s) st1.it with
  | none => none
  | some it' =>
    let st2 := { st1 with it := it' }
    if I.valid it' then findNextUserEntry I c s fuel false st2
    else some { st2 with valid := false }

/-- ldb_dbiter_first -/
def first (I : InternalIter σ) (c : Cmp) (s : Nat) (fuel : Nat) (st : DbIter σ) : Option (DbIter σ) :=
  let st1 := { st with dir := .forward, savedValue := "" }
  match I.first st1.it with
  | none => none
  | some it' =>
    let st2 := { st1 with it := it' }
    if I.valid it' then findNextUserEntry I c s fuel false st2
    else some { st2 with valid := false }

/-- ldb_dbiter_last -/
def last (I : InternalIter σ) (c : Cmp) (s : Nat) (fuel : Nat) (st : DbIter σ) : Option (DbIter σ) :=
  let st1 := { st with dir := .reverse, savedValue := "" }
  match I.last st1.it with
  | none => none
  | some it' => findPrevUserEntry I c s fuel { st1 with it := it' }

/-- the user iterator behind the generic `ldb_iter_t` interface (`iter->cmp` = the user comparator);
    `key` of an iterator whose key would fault is rendered `[]` (never happens, see `key?`) -/
def ops (I : InternalIter σ) (c : Cmp) (s : Nat) (fuel : Nat) : IterOps (DbIter σ) where
  valid := isValid
  key st := (key? I st).getD []
  compare a b := some (c.compare a b)
  first := first I c s fuel
  last := last I c s fuel
  next := next I c s fuel
  prev := prev I c s fuel
  seek t := seek I c s fuel t

def toBlockOp : IterOp → BlockOp
  | .first => .first | .last => .last | .next => .next | .prev => .prev
  | .seek k => .seek k | .seekGe k => .seekGE k | .seekGt k => .seekGT k
  | .seekLe k => .seekLE k | .seekLt k => .seekLT k

/-- one public operation (`next`/`prev` on an invalid iterator are not issued, as in `IterOps.apply`) -/
def apply (I : InternalIter σ) (c : Cmp) (s : Nat) (fuel : Nat) (op : IterOp) (st : DbIter σ) :
    Option (DbIter σ) :=
  (ops I c s fuel).apply (toBlockOp op) st

def run (I : InternalIter σ) (c : Cmp) (s : Nat) (fuel : Nat) : List IterOp → DbIter σ → Option (DbIter σ)
  | [], st => some st
  | op :: rest, st =>
    match apply I c s fuel op st with
    | none => none
    | some st' => run I c s fuel rest st'

end DbIter

/-- fuel that suffices for every loop of the iterator over runs of the given total length -/
def dbIterFuel (runs : List Run) : Nat := (runs.map List.length).sum + 2

end Lcdb
