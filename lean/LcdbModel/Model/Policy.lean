/-
  The file-selection mechanisms of src/version_set.c, modelled literally over `List FileMeta` levels:

    find_file (:108)  after_file/before_file (:133/:149)  some_file_overlaps_range (:165)
    ldb_version_overlap_in_level (:737)  ldb_version_pick_level_for_memtable_output (:749)
    ldb_version_get_overlapping_inputs (:797, with the level-0 restart)
    total_file_size, max_grandparent_overlap_bytes, expanded_compaction_byte_size_limit,
    max_file_size_for_level / target_file_size (:49-:105)
    ldb_versions_get_range / get_range2 (:1784/:1817)  find_largest_key (:1842)
    find_smallest_boundary_file (:1870)  add_boundary_inputs (:1912)
    ldb_versions_setup_other_inputs (:1939)  ldb_versions_pick_compaction (:2049, input choice)
    ldb_versions_compact_range (:2118)  ldb_compaction_is_trivial_move (:2276)

  Internal keys are pairs (user key, packed trailer = seq*256 + type), ordered by `ikLt`.
  A C pointer that may be NULL is an `Option`; a loop takes fuel (the fuel bounds are proved sufficient
  in Lemmas/Policy*.lean) or is structural; where the C code would run into an assert / undefined
  behaviour (get_range on an empty vector, `files[level].items[0]` of an empty level, level out of
  range) the model returns `none`.  The `run` field of `FileMeta` plays no role here.
  `max_file_size` is the only option read (`mfs`); sizes are `Nat` (the C code uses int64/uint64:
  the protocol keeps every sum far below 2^63).
-/
import LcdbModel.Model.Lsm
namespace Lcdb.Policy

/-- an internal key: user key and packed trailer -/
abbrev IKey := Bytes × Nat

def smallest (f : FileMeta) : IKey := (f.sk, f.sp)
def largest (f : FileMeta) : IKey := (f.lk, f.lp)

/-- `ldb_compare(icmp, a, b) < 0` -/
def ikl (c : Cmp) (a b : IKey) : Bool := ikLt c a.1 a.2 b.1 b.2

def numLevels : Nat := 7              -- LDB_NUM_LEVELS
def maxMemCompactLevel : Nat := 2     -- LDB_MAX_MEM_COMPACT_LEVEL
/-- packed trailer of `ldb_ikey_set(key, LDB_MAX_SEQUENCE, LDB_VALTYPE_SEEK)` -/
def maxPacked : Nat := maxSequence * 256 + valtypeSeek

abbrev Version := List (List FileMeta)
def Version.files (v : Version) (level : Nat) : List FileMeta := v.getD level []

/-! ### size parameters -/
def targetFileSize (mfs : Nat) : Nat := mfs
def maxGrandparentOverlapBytes (mfs : Nat) : Nat := 10 * targetFileSize mfs
def expandedCompactionByteSizeLimit (mfs : Nat) : Nat := 25 * targetFileSize mfs
def maxFileSizeForLevel (mfs : Nat) (_level : Nat) : Nat := targetFileSize mfs
def totalFileSize (files : List FileMeta) : Nat := (files.map (·.size)).sum

/-! ### find_file -/

/-- the `while (left < right)` loop of find_file; `h` makes every probe `files[mid]` in bounds -/
def findFileGo (c : Cmp) (files : List FileMeta) (k : Bytes) (p : Nat) (left right : Nat)
    (h : right ≤ files.length) : Nat :=
  if hlt : left < right then
    have hm : (left + right) / 2 < files.length := by omega
    if ikLt c (files[(left + right) / 2]).lk (files[(left + right) / 2]).lp k p then
      findFileGo c files k p ((left + right) / 2 + 1) right h
    else
      findFileGo c files k p left ((left + right) / 2) (by omega)
  else right
termination_by right - left
decreasing_by all_goals omega

def findFile (c : Cmp) (files : List FileMeta) (k : Bytes) (p : Nat) : Nat :=
  findFileGo c files k p 0 files.length (Nat.le_refl _)

/-! ### some_file_overlaps_range -/

/-- after_file: NULL user key is before all keys -/
def afterFile (c : Cmp) (uk : Option Bytes) (f : FileMeta) : Bool :=
  match uk with
  | none => false
  | some k => c.compare k f.lk == .gt

/-- before_file: NULL user key is after all keys -/
def beforeFile (c : Cmp) (uk : Option Bytes) (f : FileMeta) : Bool :=
  match uk with
  | none => false
  | some k => c.compare k f.sk == .lt

def someFileOverlapsRange (c : Cmp) (disjointSorted : Bool) (files : List FileMeta)
    (lo hi : Option Bytes) : Bool :=
  if !disjointSorted then
    files.any (fun f => !(afterFile c lo f || beforeFile c hi f))
  else
    let index := match lo with
      | none => 0
      | some k => findFile c files k maxPacked
    match files[index]? with
    | none => false                      -- index >= files->length
    | some f => !beforeFile c hi f

def overlapInLevel (c : Cmp) (v : Version) (level : Nat) (lo hi : Option Bytes) : Bool :=
  someFileOverlapsRange c (decide (level > 0)) (v.files level) lo hi

/-! ### ldb_version_get_overlapping_inputs -/

/-- one pass of the `for` loop over the remaining files with the current `user_begin`/`user_end`
    (`none` = the NULL pointer): the files pushed, or `.error (b', e')` = the level-0 restart with
    the widened range -/
def goiPass (c : Cmp) (level0 : Bool) (b e : Option Bytes) :
    List FileMeta → Except (Option Bytes × Option Bytes) (List FileMeta)
  | [] => .ok []
  | f :: rest =>
    if b.any (fun ub => c.compare f.lk ub == .lt) then goiPass c level0 b e rest      -- completely before
    else if e.any (fun ue => c.compare f.sk ue == .gt) then goiPass c level0 b e rest -- completely after
    else if level0 && b.any (fun ub => c.compare f.sk ub == .lt) then .error (some f.sk, e)
    else if level0 && e.any (fun ue => c.compare f.lk ue == .gt) then .error (b, some f.lk)
    else match goiPass c level0 b e rest with
      | .ok r => .ok (f :: r)
      | .error x => .error x

/-- restarts; fuel = number of passes allowed -/
def goiLoop (c : Cmp) (level0 : Bool) (files : List FileMeta) :
    Nat → Option Bytes → Option Bytes → Option (List FileMeta × Option Bytes × Option Bytes)
  | 0, _, _ => none
  | fuel + 1, b, e =>
    match goiPass c level0 b e files with
    | .ok r => some (r, b, e)
    | .error (b', e') => goiLoop c level0 files fuel b' e'

def goiFuel (files : List FileMeta) : Nat := 2 * files.length + 1

/-- result: the inputs and the final (widened) user-key range -/
def getOverlappingInputs (c : Cmp) (level0 : Bool) (files : List FileMeta) (b e : Option Bytes) :
    Option (List FileMeta × Option Bytes × Option Bytes) :=
  goiLoop c level0 files (goiFuel files) b e

/-- only the user keys of `begin`/`end` are used -/
def goi (c : Cmp) (level0 : Bool) (files : List FileMeta) (b e : Option IKey) : Option (List FileMeta) :=
  (getOverlappingInputs c level0 files (b.map (·.1)) (e.map (·.1))).map (·.1)

/-- with the `assert(level < LDB_NUM_LEVELS)` -/
def versionGoi (c : Cmp) (v : Version) (level : Nat) (b e : Option IKey) : Option (List FileMeta) :=
  if level < numLevels then goi c (level == 0) (v.files level) b e else none

/-! ### ldb_version_pick_level_for_memtable_output -/

/-- the `while (level < LDB_MAX_MEM_COMPACT_LEVEL)` loop; first argument = iterations left -/
def pickLevelGo (c : Cmp) (v : Version) (mfs : Nat) (sk lk : Bytes) : Nat → Nat → Option Nat
  | 0, level => some level
  | n + 1, level =>
    if overlapInLevel c v (level + 1) (some sk) (some lk) then some level
    else if level + 2 < numLevels then
      match versionGoi c v (level + 2) (some (sk, maxPacked)) (some (lk, 0)) with
      | none => none
      | some overlaps =>
        if totalFileSize overlaps > maxGrandparentOverlapBytes mfs then some level
        else pickLevelGo c v mfs sk lk n (level + 1)
    else pickLevelGo c v mfs sk lk n (level + 1)

def pickLevel (c : Cmp) (v : Version) (mfs : Nat) (sk lk : Bytes) : Option Nat :=
  if overlapInLevel c v 0 (some sk) (some lk) then some 0
  else pickLevelGo c v mfs sk lk maxMemCompactLevel 0

/-! ### get_range, find_largest_key, boundary files -/

def minFold (c : Cmp) (init : IKey) (files : List FileMeta) : IKey :=
  files.foldl (fun a g => if ikl c (smallest g) a then smallest g else a) init

def maxFold (c : Cmp) (init : IKey) (files : List FileMeta) : IKey :=
  files.foldl (fun a g => if ikl c a (largest g) then largest g else a) init

/-- ldb_versions_get_range; `none` = the assert on an empty vector (NULL dereference with NDEBUG) -/
def getRange (c : Cmp) : List FileMeta → Option (IKey × IKey)
  | [] => none
  | f :: fs => some (minFold c (smallest f) fs, maxFold c (largest f) fs)

def getRange2 (c : Cmp) (in1 in2 : List FileMeta) : Option (IKey × IKey) := getRange c (in1 ++ in2)

/-- find_largest_key; `none` = returns 0 (empty) -/
def findLargestKey (c : Cmp) : List FileMeta → Option IKey
  | [] => none
  | f :: fs => some (maxFold c (largest f) fs)

/-- body of the loop of find_smallest_boundary_file -/
def boundaryStep (c : Cmp) (l : IKey) (res : Option FileMeta) (f : FileMeta) : Option FileMeta :=
  if !ikl c l (smallest f) then res                     -- f->smallest <= largest_key: continue
  else if c.compare f.sk l.1 == .eq then
    match res with
    | none => some f
    | some r => if ikl c (smallest f) (smallest r) then some f else some r
  else res

def findSmallestBoundaryFile (c : Cmp) (levelFiles : List FileMeta) (l : IKey) : Option FileMeta :=
  levelFiles.foldl (boundaryStep c l) none

/-- the `while (search)` loop of add_boundary_inputs -/
def addBoundaryLoop (c : Cmp) (levelFiles : List FileMeta) : Nat → IKey → List FileMeta → Option (List FileMeta)
  | 0, _, _ => none
  | fuel + 1, l, acc =>
    match findSmallestBoundaryFile c levelFiles l with
    | none => some acc
    | some f => addBoundaryLoop c levelFiles fuel (largest f) (acc ++ [f])

def addBoundaryInputs (c : Cmp) (levelFiles inputs : List FileMeta) : Option (List FileMeta) :=
  match findLargestKey c inputs with
  | none => some inputs
  | some l => addBoundaryLoop c levelFiles (levelFiles.length + 1) l inputs

/-! ### setup_other_inputs -/

structure Setup where
  in0 : List FileMeta
  in1 : List FileMeta
  grandparents : List FileMeta
  compactPointer : IKey
  deriving Repr

/-- first part of setup_other_inputs (up to the first get_range2) -/
structure Stage where
  in0 : List FileMeta
  in1 : List FileMeta
  largest : IKey
  allStart : IKey
  allLimit : IKey

def setupStage1 (c : Cmp) (lv lv1 inputs0 : List FileMeta) : Option Stage := do
  let in0 ← addBoundaryInputs c lv inputs0
  let r ← getRange c in0
  let in1a ← goi c false lv1 (some r.1) (some r.2)
  let in1 ← addBoundaryInputs c lv1 in1a
  let all ← getRange2 c in0 in1
  pure { in0 := in0, in1 := in1, largest := r.2, allStart := all.1, allLimit := all.2 }

/-- "see if we can grow the number of inputs in `level` without changing the number of `level+1` files" -/
def setupStage2 (c : Cmp) (mfs : Nat) (level0 : Bool) (lv lv1 : List FileMeta) (s : Stage) : Option Stage :=
  if s.in1.length > 0 then do
    let e0a ← goi c level0 lv (some s.allStart) (some s.allLimit)
    let e0 ← addBoundaryInputs c lv e0a
    if e0.length > s.in0.length ∧ totalFileSize s.in1 + totalFileSize e0 < expandedCompactionByteSizeLimit mfs then do
      let nr ← getRange c e0
      let e1a ← goi c false lv1 (some nr.1) (some nr.2)
      let e1 ← addBoundaryInputs c lv1 e1a
      if e1.length = s.in1.length then do
        let all ← getRange2 c e0 e1
        pure { in0 := e0, in1 := e1, largest := nr.2, allStart := all.1, allLimit := all.2 }
      else pure s
    else pure s
  else pure s

/-- `lv`, `lv1` = files of `level`, `level+1`; `lv2` = files of `level+2` if `level + 2 < LDB_NUM_LEVELS` -/
def setupOtherInputs (c : Cmp) (mfs : Nat) (level0 : Bool) (lv lv1 : List FileMeta) (lv2 : Option (List FileMeta))
    (inputs0 : List FileMeta) : Option Setup := do
  let s1 ← setupStage1 c lv lv1 inputs0
  let s ← setupStage2 c mfs level0 lv lv1 s1
  let gp ← match lv2 with
    | none => some []
    | some l2 => goi c false l2 (some s.allStart) (some s.allLimit)
  pure { in0 := s.in0, in1 := s.in1, grandparents := gp, compactPointer := s.largest }

/-- setup_other_inputs on a version; `level + 1` must be a level (the C code reads `files[level + 1]`) -/
def versionSetup (c : Cmp) (mfs : Nat) (v : Version) (level : Nat) (inputs0 : List FileMeta) : Option Setup :=
  if level + 1 < numLevels then
    setupOtherInputs c mfs (level == 0) (v.files level) (v.files (level + 1))
      (if level + 2 < numLevels then some (v.files (level + 2)) else none) inputs0
  else none

/-! ### pick_compaction (input choice) and compact_range -/

/-- "pick the first file that comes after compact_pointer[level]" (`none` = empty compact pointer) -/
def firstAfterPointer (c : Cmp) (files : List FileMeta) (cp : Option IKey) : Option FileMeta :=
  files.find? (fun f => match cp with
    | none => true
    | some p => ikl c p (largest f))

/-- `sizeLevel` = `some compaction_level` iff `compaction_score >= 1`; `seek` = `file_to_compact(_level)`;
    `cp` = `compact_pointer[compaction_level]`.  Outer `none` = undefined behaviour, inner `none` = NULL. -/
def pickCompaction (c : Cmp) (mfs : Nat) (v : Version) (sizeLevel : Option Nat) (seek : Option (Nat × FileMeta))
    (cp : Option IKey) : Option (Option (Nat × Setup)) :=
  let seed : Option (Option (Nat × List FileMeta)) :=
    match sizeLevel, seek with
    | some level, _ =>
      if level + 1 < numLevels then
        match firstAfterPointer c (v.files level) cp with
        | some f => some (some (level, [f]))
        | none =>
          match v.files level with           -- wrap-around: files[level].items[0]
          | [] => none
          | f :: _ => some (some (level, [f]))
      else none
    | none, some (level, f) => some (some (level, [f]))
    | none, none => some none
  match seed with
  | none => none
  | some none => some none
  | some (some (level, in0)) =>
    let in0' : Option (List FileMeta) :=
      if level == 0 then
        match getRange c in0 with
        | none => none
        | some r => versionGoi c v 0 (some r.1) (some r.2)
      else some in0
    match in0' with
    | none => none
    | some in0' => (versionSetup c mfs v level in0').map (fun s => some (level, s))

/-- the size cut of compact_range for level > 0 -/
def cutInputs (limit : Nat) : List FileMeta → Nat → List FileMeta
  | [], _ => []
  | f :: fs, total => if total + f.size ≥ limit then [f] else f :: cutInputs limit fs (total + f.size)

def compactRange (c : Cmp) (mfs : Nat) (v : Version) (level : Nat) (b e : Option IKey) : Option (Option Setup) :=
  match versionGoi c v level b e with
  | none => none
  | some [] => some none
  | some inputs =>
    let inputs := if level > 0 then cutInputs (maxFileSizeForLevel mfs level) inputs 0 else inputs
    (versionSetup c mfs v level inputs).map some

def isTrivialMove (mfs : Nat) (s : Setup) : Bool :=
  s.in0.length == 1 && s.in1.length == 0 && decide (totalFileSize s.grandparents ≤ maxGrandparentOverlapBytes mfs)

end Lcdb.Policy
