/-
  Storage-protocol model (L4): what lcdb writes, syncs, renames and unlinks, at record granularity,
  the crash model of property C02, the recovery procedure of ldb_recover / ldb_versions_recover, and the
  run-time monitor `conforms` that states the ordering obligations the code is supposed to meet
  (db_impl.c:2243-2250, builder.c:35, db_impl.c:1138-1143, version_set.c:1320-1369, filename.c:159).

  Granularity.  A file is a list of *records* (a WAL record = one write batch, a MANIFEST record = one
  version edit, CURRENT/dbtmp = one pointer record, a table = opaque chunks).  A crash keeps, of every file,
  a prefix of its bytes at least as long as at its last fsync; by C15's `read_truncated` a byte prefix of a
  log reads as a prefix of its records with nothing reported, which is why prefixes of record lists are the
  right abstraction for logs and MANIFESTs.  A table or pointer file is usable only if complete.
  Directory operations (create, rename, unlink) persist in issue order, at least up to the last fsync of
  any file or directory.
-/
namespace Lcdb.Disk

inductive FName where
  | log (n : Nat)
  | table (n : Nat)
  | manifest (n : Nat)
  | current
  | tmp (n : Nat)
  deriving Repr, DecidableEq

/-- abstract version edit: the part of a MANIFEST record the storage protocol depends on -/
structure AEdit where
  logNum : Option Nat            -- "logs below this number are no longer needed"
  newTables : List (Nat × Nat)   -- (file number, size in chunks)
  delTables : List Nat
  deriving Repr, DecidableEq

inductive Rec where
  | batch (id : Nat)             -- one write batch (one logical WAL record)
  | edit (e : AEdit)
  | ptr (m : Nat)                -- contents of CURRENT / dbtmp: "MANIFEST-m\n"
  | chunk                        -- a piece of a table file
  deriving Repr, DecidableEq

inductive Ev where
  | create (f : FName)                 -- open(O_CREAT|O_TRUNC): a new, empty file under that name
  | append (f : FName) (r : Rec)       -- write(2) that completes one record (flushed from the user-space buffer)
  | sync (f : FName)                   -- fsync/fdatasync of the file
  | syncDir                            -- fsync of the directory
  | rename (a b : FName)
  | unlink (f : FName)
  | ack (batch : Nat) (sync : Bool)    -- ldb_write returned OK for this batch
  deriving Repr, DecidableEq

/-- a file body: records appended so far, and how many of them were covered by the last fsync -/
structure Body where
  recs : List Rec
  synced : Nat
  deriving Repr, DecidableEq

inductive DirOp where
  | create (f : FName) (id : Nat)      -- name now refers to the new body `id`
  | rename (a b : FName)
  | unlink (f : FName)
  deriving Repr, DecidableEq

/-- the volatile state of the file system as the running process sees it -/
structure World where
  dir : List (FName × Nat)             -- name ↦ body id
  bodies : List Body                   -- indexed by id
  dirOps : List DirOp                  -- every directory operation so far, in issue order
  dirSynced : Nat                      -- how many of them were issued before the last fsync of anything
  deriving Repr

def World.empty : World := { dir := [], bodies := [], dirOps := [], dirSynced := 0 }

def lookup (dir : List (FName × Nat)) (f : FName) : Option Nat := (dir.find? (fun p => p.1 == f)).map (·.2)
def erase (dir : List (FName × Nat)) (f : FName) : List (FName × Nat) := dir.filter (fun p => p.1 != f)

def applyDirOp (dir : List (FName × Nat)) : DirOp → List (FName × Nat)
  | .create f id => (f, id) :: erase dir f
  | .rename a b => match lookup dir a with
    | some id => (b, id) :: erase (erase dir a) b
    | none => dir
  | .unlink f => erase dir f

def modifyBody (bodies : List Body) (id : Nat) (g : Body → Body) : List Body :=
  bodies.zipIdx.map fun (b, i) => if i == id then g b else b

/-- effect of one event on the volatile world (`ack` has none) -/
def World.step (w : World) : Ev → World
  | .create f =>
    let id := w.bodies.length
    { w with dir := applyDirOp w.dir (.create f id), bodies := w.bodies ++ [{ recs := [], synced := 0 }], dirOps := w.dirOps ++ [.create f id] }
  | .append f r => match lookup w.dir f with
    | some id => { w with bodies := modifyBody w.bodies id (fun b => { b with recs := b.recs ++ [r] }) }
    | none => w
  | .sync f => match lookup w.dir f with
    | some id => { w with bodies := modifyBody w.bodies id (fun b => { b with synced := b.recs.length }), dirSynced := w.dirOps.length }
    | none => w
  | .syncDir => { w with dirSynced := w.dirOps.length }
  | .rename a b => { w with dir := applyDirOp w.dir (.rename a b), dirOps := w.dirOps ++ [.rename a b] }
  | .unlink f => { w with dir := applyDirOp w.dir (.unlink f), dirOps := w.dirOps ++ [.unlink f] }
  | .ack _ _ => w

def World.run (t : List Ev) : World := t.foldl World.step World.empty

/-- what a reopening process finds: a directory and, per name, the surviving records -/
abbrev Image := List (FName × List Rec)

/-- `img` is one of the crash images the model allows for world `w`:
    the directory is the replay of the first `j` directory operations for some `dirSynced ≤ j`,
    and every surviving body keeps a prefix of its records no shorter than its synced part. -/
def IsCrashImage (w : World) (img : Image) : Prop :=
  ∃ j, w.dirSynced ≤ j ∧ j ≤ w.dirOps.length ∧
    let dir := (w.dirOps.take j).foldl applyDirOp []
    img.map (·.1) = dir.map (·.1) ∧
    ∀ p ∈ img, ∃ id b, lookup dir p.1 = some id ∧ w.bodies[id]? = some b ∧
      ∃ n, b.synced ≤ n ∧ p.2 = b.recs.take n

/-- the kill image: the operating system survives, so everything written is there -/
def killImage (w : World) : Image :=
  w.dir.filterMap fun (f, id) => (w.bodies[id]?).map fun b => (f, b.recs)

def imgLookup (img : Image) (f : FName) : Option (List Rec) := (img.find? (fun p => p.1 == f)).map (·.2)

/-- version state accumulated from MANIFEST records -/
structure AVersion where
  logNum : Option Nat
  tables : List (Nat × Nat)
  deriving Repr, DecidableEq

def applyEdit (v : AVersion) (e : AEdit) : AVersion :=
  { logNum := match e.logNum with | some n => some n | none => v.logNum,
    tables := (v.tables.filter (fun t => !e.delTables.contains t.1)) ++ e.newTables }

def editsOf (recs : List Rec) : List AEdit := recs.filterMap fun | .edit e => some e | _ => none
def batchesOf (recs : List Rec) : List Nat := recs.filterMap fun | .batch b => some b | _ => none

def versionOf (recs : List Rec) : AVersion := (editsOf recs).foldl applyEdit { logNum := none, tables := [] }

structure Recovered where
  logNum : Nat
  tables : List (Nat × Nat)
  replayed : List Nat              -- batches replayed from the surviving logs, in log-number order
  deriving Repr, DecidableEq

def logNumbers (img : Image) : List Nat := img.filterMap fun | (.log n, _) => some n | _ => none

/-- ldb_recover: CURRENT → MANIFEST → edits → version; every table it names must be present and complete;
    logs numbered >= the version's log number are replayed in number order -/
def recover (img : Image) : Option Recovered :=
  match imgLookup img .current with
  | some [.ptr m] =>
    match imgLookup img (.manifest m) with
    | some recs =>
      let v := versionOf recs
      match v.logNum with
      | some ln =>
        if v.tables.all (fun (t, size) => match imgLookup img (.table t) with
            | some body => body.length == size
            | none => false) then
          let logs := ((logNumbers img).filter (· ≥ ln)).mergeSort (· ≤ ·)
          some { logNum := ln, tables := v.tables,
                 replayed := logs.flatMap fun n => batchesOf ((imgLookup img (.log n)).getD []) }
        else none
      | none => none
    | none => none
  | _ => none

/-! ### the monitor: ordering obligations, checked event by event -/

structure Mon where
  w : World := World.empty
  logOf : List (Nat × Nat) := []        -- batch id ↦ log number it was appended to
  ok : Bool := true
  why : String := ""
  deriving Repr

def bodyOf (w : World) (f : FName) : Option Body := (lookup w.dir f).bind fun id => w.bodies[id]?

/-- every (directory, version) pair a crash right now could make recovery start from: the directory after any
    admissible number of directory operations, CURRENT as found there (it must be a complete pointer),
    the MANIFEST it names cut at any admissible record count.  `none` entries mean "recovery would fail there". -/
def candidates (w : World) : List (Option (List (FName × Nat) × AVersion)) :=
  (List.range (w.dirOps.length + 1 - w.dirSynced)).flatMap fun d =>
    let j := w.dirSynced + d
    let dir := (w.dirOps.take j).foldl applyDirOp []
    match (lookup dir .current).bind (fun id => w.bodies[id]?) with
    | none => [none]
    | some cb =>
      -- every admissible prefix of CURRENT; only the complete pointer is usable
      (List.range (cb.recs.length + 1 - cb.synced)).flatMap fun dc =>
        match cb.recs.take (cb.synced + dc) with
        | [.ptr m] =>
          match (lookup dir (.manifest m)).bind (fun id => w.bodies[id]?) with
          | none => [none]
          | some mb =>
            (List.range (mb.recs.length + 1 - mb.synced)).map fun dm =>
              some (dir, versionOf (mb.recs.take (mb.synced + dm)))
        | _ => [none]

/-- has a database been made durable (some candidate exists and every candidate is usable)? -/
def established (w : World) : Bool := (candidates w).all (·.isSome)

def fail (m : Mon) (why : String) : Mon := if m.ok then { m with ok := false, why := why } else m

/-- O1..O5 of DESIGN.md appendix D as preconditions of the events they constrain -/
def Mon.check (m : Mon) : Ev → Mon
  | .ack b sync =>
    -- O1 / O1': the batch's record was written (and, for sync, fsynced afterwards) to a log before the ack
    match (m.logOf.find? (fun p => p.1 == b)).map (·.2) with
    | some n =>
      match bodyOf m.w (.log n) with
      | some body =>
        let idx := body.recs.idxOf (.batch b)
        if idx ≥ body.recs.length then fail m s!"ack of batch {b} whose record is not in log {n}"
        else if sync && idx ≥ body.synced then fail m s!"sync ack of batch {b} before its log record was fsynced"
        else if sync && !established m.w then fail m s!"sync ack of batch {b} while a crash could still find no usable CURRENT/MANIFEST"
        else m
      | none => fail m s!"ack of batch {b} whose log {n} no longer exists"
    | none => fail m s!"ack of batch {b} that was never appended to a log"
  | .create (.table t) =>
    -- file numbers are never reused for tables
    if m.w.dirOps.any (fun | .create (.table t') _ => t' == t | _ => false) then fail m s!"table number {t} created twice" else m
  | .create (.log n) =>
    if m.w.dirOps.any (fun | .create (.log n') _ => n' == n | _ => false) then fail m s!"log number {n} created twice" else m
  | .append (.manifest _) (.edit e) =>
    -- O2: every table the edit names is complete on disk (fsynced, with the size the edit records)
    if e.newTables.all (fun (t, size) => match bodyOf m.w (.table t) with
        | some body => body.recs.length == size && body.synced == size
        | none => false) then m
    else fail m "MANIFEST edit names a table that is not fully written and fsynced"
  | .unlink (.log n) =>
    -- O3: a log may go only when no version a crash could fall back to still needs it
    if (candidates m.w).all (fun | some (_, v) => (match v.logNum with | some ln => decide (n < ln) | none => false) | none => false) then m
    else fail m s!"log {n} unlinked while a version that a crash could recover still needs it"
  | .unlink (.table t) =>
    if (candidates m.w).all (fun | some (_, v) => !v.tables.any (fun p => p.1 == t) | none => true) then m
    else fail m s!"table {t} unlinked while a version that a crash could recover still names it"
  | .unlink (.manifest k) =>
    if (candidates m.w).all (fun | some (dir, _) => (match (lookup dir .current).bind (fun id => m.w.bodies[id]?) with
                                                    | some cb => !(cb.recs.contains (.ptr k))
                                                    | none => true)
                                 | none => true) then m
    else fail m s!"MANIFEST {k} unlinked while a CURRENT that a crash could recover names it"
  | _ => m

/-- checks that need the state *after* the event (the rename that switches CURRENT) -/
def Mon.post (m : Mon) : Ev → Mon
  | .rename _ .current =>
    -- O4: the pointer file is complete and fsynced, the MANIFEST it names is fsynced and has a snapshot record,
    --     and every table that MANIFEST names is present and complete
    match bodyOf m.w .current with
    | some cb =>
      match cb.recs with
      | [.ptr k] =>
        if cb.synced != 1 then fail m "CURRENT replaced by a pointer file that was not fsynced"
        else match bodyOf m.w (.manifest k) with
          | some mb =>
            if mb.synced != mb.recs.length then fail m s!"CURRENT switched to MANIFEST {k} before it was fsynced"
            else if (versionOf mb.recs).logNum.isNone then fail m s!"CURRENT switched to MANIFEST {k} that has no log number"
            else m
          | none => fail m s!"CURRENT names MANIFEST {k} which does not exist"
      | _ => fail m "CURRENT replaced by a file that is not a single pointer record"
    | none => m
  | _ => m

def Mon.step (m : Mon) (e : Ev) : Mon :=
  let m1 := m.check e
  let m2 : Mon := { m1 with w := m1.w.step e,
                            logOf := match e with
                              | .append (.log n) (.batch b) => (b, n) :: m1.logOf
                              | _ => m1.logOf }
  m2.post e

def monitor (t : List Ev) : Mon := t.foldl Mon.step {}

/-- the trace meets the ordering obligations -/
def Conforms (t : List Ev) : Prop := (monitor t).ok = true

instance (t : List Ev) : Decidable (Conforms t) := by unfold Conforms; infer_instance

/-- batches acknowledged with sync=1 in the trace -/
def ackedSync (t : List Ev) : List Nat := t.filterMap fun | .ack b true => some b | _ => none
def ackedAll (t : List Ev) : List Nat := t.filterMap fun | .ack b _ => some b | _ => none
/-- log numbers unlinked in the trace -/
def unlinkedLogs (t : List Ev) : List Nat := t.filterMap fun | .unlink (.log n) => some n | _ => none
/-- batch ↦ log it was appended to -/
def logOfBatch (t : List Ev) (b : Nat) : Option Nat :=
  t.findSome? fun | .append (.log n) (.batch b') => if b' == b then some n else none | _ => none

end Lcdb.Disk
