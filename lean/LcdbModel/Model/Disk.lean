/-
  Storage-protocol model (L4): what lcdb writes, syncs, renames and unlinks, at record granularity,
  the crash model of property C02, the recovery procedure of ldb_recover / ldb_versions_recover, and the
  run-time monitor `conforms` that states the ordering obligations the code is supposed to meet
  (db_impl.c:2243-2250, builder.c:35, db_impl.c:1138-1143, version_set.c:1320-1369, filename.c:159).

  Granularity.  A file is a list of *records* (a WAL record = one write batch, a MANIFEST record = one
  version edit, CURRENT/dbtmp = one pointer record, a table = opaque chunks).  A crash keeps, of every file,
  a prefix of its bytes at least as long as at its last fsync; by C15's `read_truncated` a byte prefix of a
  log reads as a prefix of its records with nothing reported, which is why prefixes of record lists are the
  right abstraction for logs and MANIFESTs.  A table or pointer file is usable only if complete.
  Directory operations (create, rename, unlink) persist in issue order, at least up to the last fsync of
  any file or directory.
-/
namespace Lcdb.Disk

inductive FName where
  | log (n : Nat)
  | table (n : Nat)
  | manifest (n : Nat)
  | current
  | tmp (n : Nat)
  deriving Repr, DecidableEq

/-- abstract version edit: the part of a MANIFEST record the storage protocol depends on -/
structure AEdit where
  logNum : Option Nat            -- "logs below this number are no longer needed"
  newTables : List (Nat × Nat)   -- (file number, size in chunks)
  delTables : List Nat
  deriving Repr, DecidableEq

inductive Rec where
  | batch (id : Nat)             -- one write batch (one logical WAL record)
  | edit (e : AEdit)
  | ptr (m : Nat)                -- contents of CURRENT / dbtmp: "MANIFEST-m\n"
  | chunk                        -- a piece of a table file
  deriving Repr, DecidableEq

inductive Ev where
  | create (f : FName)                 -- open(O_CREAT|O_TRUNC): a new, empty file under that name
  | append (f : FName) (r : Rec)       -- write(2) that completes one record (flushed from the user-space buffer)
  | sync (f : FName)                   -- fsync/fdatasync of the file
  | syncDir                            -- fsync of the directory
  | rename (a b : FName)
  | unlink (f : FName)
  | ack (batch : Nat) (sync : Bool)    -- ldb_write returned OK for this batch
  deriving Repr, DecidableEq

/-- a file body: records appended so far, and how many of them were covered by the last fsync -/
structure Body where
  recs : List Rec
  synced : Nat
  deriving Repr, DecidableEq

inductive DirOp where
  | create (f : FName) (id : Nat)      -- name now refers to the new body `id`
  | rename (a b : FName)
  | unlink (f : FName)
  deriving Repr, DecidableEq

/-- the volatile state of the file system as the running process sees it -/
structure World where
  dir : List (FName × Nat)             -- name ↦ body id
  bodies : List Body                   -- indexed by id
  dirOps : List DirOp                  -- every directory operation so far, in issue order
  dirSynced : Nat                      -- how many of them were issued before the last fsync of anything
  deriving Repr

def World.empty : World := { dir := [], bodies := [], dirOps := [], dirSynced := 0 }

def lookup (dir : List (FName × Nat)) (f : FName) : Option Nat := (dir.find? (fun p => p.1 == f)).map (·.2)
def erase (dir : List (FName × Nat)) (f : FName) : List (FName × Nat) := dir.filter (fun p => p.1 != f)

def applyDirOp (dir : List (FName × Nat)) : DirOp → List (FName × Nat)
  | .create f id => (f, id) :: erase dir f
  | .rename a b => match lookup dir a with
    | some id => (b, id) :: erase (erase dir a) b
    | none => dir
  | .unlink f => erase dir f

def modifyBody (bodies : List Body) (id : Nat) (g : Body → Body) : List Body :=
  bodies.zipIdx.map fun (b, i) => if i == id then g b else b

/-- effect of one event on the volatile world (`ack` has none) -/
def World.step (w : World) : Ev → World
  | .create f =>
    let id := w.bodies.length
    { w with dir := applyDirOp w.dir (.create f id), bodies := w.bodies ++ [{ recs := [], synced := 0 }], dirOps := w.dirOps ++ [.create f id] }
  | .append f r => match lookup w.dir f with
    | some id => { w with bodies := modifyBody w.bodies id (fun b => { b with recs := b.recs ++ [r] }) }
    | none => w
  | .sync f => match lookup w.dir f with
    | some id => { w with bodies := modifyBody w.bodies id (fun b => { b with synced := b.recs.length }), dirSynced := w.dirOps.length }
    | none => w
  | .syncDir => { w with dirSynced := w.dirOps.length }
  | .rename a b => { w with dir := applyDirOp w.dir (.rename a b), dirOps := w.dirOps ++ [.rename a b] }
  | .unlink f => { w with dir := applyDirOp w.dir (.unlink f), dirOps := w.dirOps ++ [.unlink f] }
  | .ack _ _ => w

def World.run (t : List Ev) : World := t.foldl World.step World.empty

/-- what a reopening process finds: a directory and, per name, the surviving records -/
abbrev Image := List (FName × List Rec)

/-- `img` is one of the crash images the model allows for world `w`:
    the directory is the replay of the first `j` directory operations for some `dirSynced ≤ j`,
    and every surviving body keeps a prefix of its records no shorter than its synced part. -/
def IsCrashImage (w : World) (img : Image) : Prop :=
  ∃ j, w.dirSynced ≤ j ∧ j ≤ w.dirOps.length ∧
    let dir := (w.dirOps.take j).foldl applyDirOp []
    img.map (·.1) = dir.map (·.1) ∧
    ∀ p ∈ img, ∃ id b, lookup dir p.1 = some id ∧ w.bodies[id]? = some b ∧
      ∃ n, b.synced ≤ n ∧ p.2 = b.recs.take n

/-- the kill image: the operating system survives, so everything written is there -/
def killImage (w : World) : Image :=
  w.dir.filterMap fun (f, id) => (w.bodies[id]?).map fun b => (f, b.recs)

def imgLookup (img : Image) (f : FName) : Option (List Rec) := (img.find? (fun p => p.1 == f)).map (·.2)

/-- version state accumulated from MANIFEST records -/
structure AVersion where
  logNum : Option Nat
  tables : List (Nat × Nat)
  deriving Repr, DecidableEq

def applyEdit (v : AVersion) (e : AEdit) : AVersion :=
  { logNum := match e.logNum with | some n => some n | none => v.logNum,
    tables := (v.tables.filter (fun t => !e.delTables.contains t.1)) ++ e.newTables }

def editsOf (recs : List Rec) : List AEdit := recs.filterMap fun | .edit e => some e | _ => none
def batchesOf (recs : List Rec) : List Nat := recs.filterMap fun | .batch b => some b | _ => none

def versionOf (recs : List Rec) : AVersion := (editsOf recs).foldl applyEdit { logNum := none, tables := [] }

structure Recovered where
  logNum : Nat
  tables : List (Nat × Nat)
  replayed : List Nat              -- batches replayed from the surviving logs, in log-number order
  deriving Repr, DecidableEq

def logNumbers (img : Image) : List Nat := img.filterMap fun | (.log n, _) => some n | _ => none

/-- ldb_recover: CURRENT → MANIFEST → edits → version; every table it names must be present and complete;
    logs numbered >= the version's log number are replayed in number order -/
def recover (img : Image) : Option Recovered :=
  match imgLookup img .current with
  | some [.ptr m] =>
    match imgLookup img (.manifest m) with
    | some recs =>
      let v := versionOf recs
      match v.logNum with
      | some ln =>
        if v.tables.all (fun (t, size) => match imgLookup img (.table t) with
            | some body => body.length == size
            | none => false) then
          let logs := ((logNumbers img).filter (· ≥ ln)).mergeSort (· ≤ ·)
          some { logNum := ln, tables := v.tables,
                 replayed := logs.flatMap fun n => batchesOf ((imgLookup img (.log n)).getD []) }
        else none
      | none => none
    | none => none
  | _ => none

/-! ### the monitor: ordering obligations, checked event by event

  The checks are Boolean functions of the world before (`preOk`) / after (`postOk`) the event, so that
  `Conforms` is decidable and the proofs (Lemmas/Disk.lean, Props/C02|C03|C05) can use them directly;
  `Mon.explain*` only produce the diagnostic text.

  Obligations (each is needed by a proof step; see the report / the negative examples in Props/C02.lean):
   O1   ack b: b's record is in an existing log, CURRENT exists; for sync additionally: the record is below the
        log's fsynced count and every crash image has a usable CURRENT (`established`).
   O2   append of an edit to a MANIFEST: every table it names is present, non-empty, complete and fsynced with the
        recorded size; the log number does not decrease within a MANIFEST.
   O3   unlink of a log / MANIFEST: no candidate *whose directory already contains every earlier directory operation*
        (`lastCandidates`) still needs it (directory operations persist in issue order, so crash images with an
        older directory still contain the file).  unlink of a table: no candidate at all names it.
        `Mon.okDel` / `ConformsStrict` record the stricter rule "no candidate at all needs the log", which is what
        "unsynced writes are durable once their log was deleted" needs — and which lcdb's `ldb_open` does NOT meet
        (it unlinks the replayed logs right after the CURRENT rename, without an fsync in between).
   O4   rename: only `<n>.dbtmp` → CURRENT; afterwards CURRENT is a complete fsynced pointer to a fully fsynced
        MANIFEST with a log number, all of whose tables are present and complete, and whose log number is not below
        that of any version a crash could still recover.
   W    write-once / naming discipline: CURRENT is never created, appended to or unlinked directly; no file name is
        created twice; log numbers increase; tables and pointer files are not appended to after their fsync;
        a batch id is appended once, to the newest existing log. -/

structure Mon where
  w : World := World.empty
  logOf : List (Nat × Nat) := []        -- batch id ↦ log number it was appended to
  ok : Bool := true
  why : String := ""
  /-- stricter, separate verdict (not part of `Conforms`): every log was unlinked only when *no* crash image
      at all (including those in which an earlier, not yet fsynced CURRENT switch is lost) could still need it.
      Needed only for "unsynced writes are durable once their log was deleted". -/
  okDel : Bool := true
  deriving Repr

def bodyOf (w : World) (f : FName) : Option Body := (lookup w.dir f).bind fun id => w.bodies[id]?

/-- the directory a crash finds when exactly the first `j` directory operations persisted -/
def dirAt (w : World) (j : Nat) : List (FName × Nat) := (w.dirOps.take j).foldl applyDirOp []

/-- every (directory, version) pair a crash could make recovery start from when exactly `j` directory operations
    persisted: CURRENT as found there (it must be a complete pointer), the MANIFEST it names cut at any
    admissible record count.  `none` entries mean "recovery would fail there". -/
def candidatesAt (w : World) (j : Nat) : List (Option (List (FName × Nat) × AVersion)) :=
  let dir := dirAt w j
  match (lookup dir .current).bind (fun id => w.bodies[id]?) with
  | none => [none]
  | some cb =>
    -- every admissible prefix of CURRENT; only the complete pointer is usable
    (List.range (cb.recs.length + 1 - cb.synced)).flatMap fun dc =>
      match cb.recs.take (cb.synced + dc) with
      | [.ptr m] =>
        match (lookup dir (.manifest m)).bind (fun id => w.bodies[id]?) with
        | none => [none]
        | some mb =>
          (List.range (mb.recs.length + 1 - mb.synced)).map fun dm =>
            some (dir, versionOf (mb.recs.take (mb.synced + dm)))
      | _ => [none]

/-- all candidates: the directory after any admissible number of directory operations -/
def candidates (w : World) : List (Option (List (FName × Nat) × AVersion)) :=
  (List.range (w.dirOps.length + 1 - w.dirSynced)).flatMap fun d => candidatesAt w (w.dirSynced + d)

/-- the candidates whose directory is the current one.  Directory operations persist in issue order, so an
    unlink issued now can only show up in crash images that contain every earlier directory operation:
    these are the candidates an unlink has to respect. -/
def lastCandidates (w : World) : List (Option (List (FName × Nat) × AVersion)) := candidatesAt w w.dirOps.length

/-- has a database been made durable (some candidate exists and every candidate is usable)? -/
def established (w : World) : Bool := (candidates w).all (·.isSome)

def fail (m : Mon) (why : String) : Mon := if m.ok then { m with ok := false, why := why } else m

/-- was a file of that name ever created? (file numbers are never reused) -/
def created (w : World) (f : FName) : Bool := w.dirOps.any fun | .create f' _ => f' == f | _ => false

/-- the numbers of all log files created so far, in creation order -/
def createdLogs (ops : List DirOp) : List Nat := ops.filterMap fun | .create (.log n) _ => some n | _ => none

def logOfLookup (logOf : List (Nat × Nat)) (b : Nat) : Option Nat := (logOf.find? (fun p => p.1 == b)).map (·.2)

/-- a table a version names is present in the directory, non-empty, complete and fsynced -/
def tableOk (w : World) (p : Nat × Nat) : Bool :=
  match bodyOf w (.table p.1) with
  | some body => decide (1 ≤ p.2) && body.recs.length == p.2 && body.synced == p.2
  | none => false

/-- log numbers recorded in one MANIFEST never go backwards (version_set.c:1293 asserts the same) -/
def logNumMono (old new : Option Nat) : Bool :=
  match old, new with
  | some a, some b => decide (a ≤ b)
  | _, _ => true

abbrev Cand? := Option (List (FName × Nat) × AVersion)

/-- the candidate is usable and its version has retired log `n` -/
def candLogBelow (n : Nat) : Cand? → Bool
  | some (_, v) => (match v.logNum with | some ln => decide (n < ln) | none => false)
  | none => false
/-- the candidate's version does not name table `t` -/
def candNoTable (t : Nat) : Cand? → Bool
  | some (_, v) => !v.tables.any (fun p => p.1 == t)
  | none => true
/-- the candidate's CURRENT does not name MANIFEST `k` -/
def candNotManifest (w : World) (k : Nat) : Cand? → Bool
  | some (dir, _) => (match (lookup dir .current).bind (fun id => w.bodies[id]?) with
                      | some cb => !(cb.recs.contains (.ptr k))
                      | none => true)
  | none => true
/-- the candidate's log number is at most `ln` -/
def candLogLe (ln : Nat) : Cand? → Bool
  | some (_, v) => (match v.logNum with | some l => decide (l ≤ ln) | none => true)
  | none => true

/-- O1..O5 of DESIGN.md appendix D as preconditions of the events they constrain (pure Boolean part) -/
def preOk (w : World) (logOf : List (Nat × Nat)) : Ev → Bool
  | .ack b sync =>
    -- O1 / O1': the batch's record was written (and, for sync, fsynced afterwards) to a log before the ack,
    -- and the database exists (CURRENT is there; for sync: in every crash image)
    match logOfLookup logOf b with
    | some n =>
      match bodyOf w (.log n) with
      | some body =>
        body.recs.contains (.batch b) && (bodyOf w .current).isSome &&
          (!sync || ((body.recs.take body.synced).contains (.batch b) && established w))
      | none => false
    | none => false
  | .create f =>
    -- CURRENT is only ever installed by rename; file names (numbers) are never reused; log numbers increase
    f != .current && !created w f &&
      (match f with
       | .log n => (createdLogs w.dirOps).all (fun n' => decide (n' < n))
       | _ => true)
  | .append .current _ => false
  | .append (.table t) _ =>
    -- tables and pointer files are write-once: nothing is appended after the (single) fsync
    (match bodyOf w (.table t) with | some body => body.synced == 0 | none => true)
  | .append (.tmp k) _ =>
    (match bodyOf w (.tmp k) with | some body => body.synced == 0 | none => true)
  | .append (.manifest k) (.edit e) =>
    -- O2: every table the edit names is complete on disk (fsynced, with the size the edit records);
    --     the log number never decreases within a MANIFEST
    e.newTables.all (tableOk w) &&
      (match bodyOf w (.manifest k) with
       | some mb => logNumMono (versionOf mb.recs).logNum e.logNum
       | none => true)
  | .append (.log n) (.batch b) =>
    -- a batch id is appended once, to an existing log, which is the newest log
    (logOfLookup logOf b).isNone && (bodyOf w (.log n)).isSome &&
      (createdLogs w.dirOps).all (fun n' => decide (n' ≤ n))
  | .append _ _ => true
  | .rename a b =>
    -- the only rename is `<n>.dbtmp` → CURRENT
    b == .current && (match a with | .tmp _ => true | _ => false) && (bodyOf w a).isSome
  | .unlink .current => false
  | .unlink (.log n) =>
    -- O3: a log may go only when no version a crash that contains the unlink could fall back to still needs it
    (lastCandidates w).all (candLogBelow n)
  | .unlink (.table t) => (candidates w).all (candNoTable t)
  | .unlink (.manifest k) => (lastCandidates w).all (candNotManifest w k)
  | _ => true

def Mon.pre (m : Mon) (e : Ev) : Bool := Lcdb.Disk.preOk m.w m.logOf e

/-- diagnostic for a failed precondition -/
def Mon.explain (m : Mon) : Ev → String
  | .ack b sync =>
    match logOfLookup m.logOf b with
    | some n =>
      match bodyOf m.w (.log n) with
      | some body =>
        if !body.recs.contains (.batch b) then s!"ack of batch {b} whose record is not in log {n}"
        else if (bodyOf m.w .current).isNone then s!"ack of batch {b} before CURRENT exists"
        else if sync && !(body.recs.take body.synced).contains (.batch b) then s!"sync ack of batch {b} before its log record was fsynced"
        else s!"sync ack of batch {b} while a crash could still find no usable CURRENT/MANIFEST"
      | none => s!"ack of batch {b} whose log {n} no longer exists"
    | none => s!"ack of batch {b} that was never appended to a log"
  | .create f =>
    if f == .current then "CURRENT created directly (it must be installed by rename)"
    else if created m.w f then s!"file {repr f} created twice"
    else s!"log file {repr f} created with a number that is not larger than every earlier log number"
  | .append .current _ => "append to CURRENT"
  | .append (.table t) _ => s!"append to table {t} after it was fsynced"
  | .append (.tmp k) _ => s!"append to {k}.dbtmp after it was fsynced"
  | .append (.manifest k) (.edit e) =>
    if !e.newTables.all (tableOk m.w) then s!"MANIFEST {k}: edit names a table that is not fully written and fsynced"
    else s!"MANIFEST {k}: edit lowers the log number"
  | .append (.log n) (.batch b) =>
    if (logOfLookup m.logOf b).isSome then s!"batch {b} appended twice"
    else if (bodyOf m.w (.log n)).isNone then s!"batch {b} appended to log {n} which does not exist"
    else s!"batch {b} appended to log {n} which is not the newest log"
  | .rename a b => s!"unexpected rename {repr a} -> {repr b} (only an existing <n>.dbtmp -> CURRENT is allowed)"
  | .unlink .current => "CURRENT unlinked"
  | .unlink (.log n) => s!"log {n} unlinked while a version that a crash could recover still needs it"
  | .unlink (.table t) => s!"table {t} unlinked while a version that a crash could recover still names it"
  | .unlink (.manifest k) => s!"MANIFEST {k} unlinked while a CURRENT that a crash could recover names it"
  | _ => "?"

def Mon.check (m : Mon) (e : Ev) : Mon := if m.pre e then m else fail m (m.explain e)

/-- checks that need the state *after* the event (the rename that switches CURRENT).
    O4: the pointer file is complete and fsynced, the MANIFEST it names is fsynced and carries a log number,
        every table that MANIFEST names is present and complete, and its log number is not below the log
        number of any version a crash could still fall back to. -/
def postOk (w : World) : Ev → Bool
  | .rename _ .current =>
    match bodyOf w .current with
    | some cb =>
      match cb.recs with
      | [.ptr k] =>
        cb.synced == 1 &&
        (match bodyOf w (.manifest k) with
         | some mb =>
           mb.synced == mb.recs.length &&
           (match (versionOf mb.recs).logNum with
            | some ln =>
              (versionOf mb.recs).tables.all (tableOk w) &&
              (candidates w).all (candLogLe ln)
            | none => false)
         | none => false)
      | _ => false
    | none => false
  | _ => true

def Mon.postOk (m : Mon) (e : Ev) : Bool := Lcdb.Disk.postOk m.w e

def Mon.explainPost (m : Mon) : Ev → String
  | .rename _ .current =>
    match bodyOf m.w .current with
    | some cb =>
      match cb.recs with
      | [.ptr k] =>
        if cb.synced != 1 then "CURRENT replaced by a pointer file that was not fsynced"
        else match bodyOf m.w (.manifest k) with
          | some mb =>
            if mb.synced != mb.recs.length then s!"CURRENT switched to MANIFEST {k} before it was fsynced"
            else match (versionOf mb.recs).logNum with
              | none => s!"CURRENT switched to MANIFEST {k} that has no log number"
              | some _ =>
                if !(versionOf mb.recs).tables.all (tableOk m.w) then s!"CURRENT switched to MANIFEST {k} naming a table that is missing or incomplete"
                else s!"CURRENT switched to MANIFEST {k} whose log number is below that of a version a crash could recover"
          | none => s!"CURRENT names MANIFEST {k} which does not exist"
      | _ => "CURRENT replaced by a file that is not a single pointer record"
    | none => "CURRENT missing after rename"
  | _ => "?"

def Mon.post (m : Mon) (e : Ev) : Mon := if m.postOk e then m else fail m (m.explainPost e)

/-- the strict form of O3 (see `Mon.okDel`) -/
def delOk (w : World) : Ev → Bool
  | .unlink (.log n) =>
    (candidates w).all (candLogBelow n)
  | _ => true

def Mon.delOk (m : Mon) (e : Ev) : Bool := Lcdb.Disk.delOk m.w e

/-- bookkeeping: which log a batch was appended to -/
def newLogOf (logOf : List (Nat × Nat)) : Ev → List (Nat × Nat)
  | .append (.log n) (.batch b) => (b, n) :: logOf
  | _ => logOf

def Mon.step (m : Mon) (e : Ev) : Mon :=
  let m1 := m.check e
  let m2 : Mon := { m1 with w := m1.w.step e,
                            okDel := m1.okDel && m.delOk e,
                            logOf := newLogOf m1.logOf e }
  m2.post e

def monitor (t : List Ev) : Mon := t.foldl Mon.step {}

/-- the trace meets the ordering obligations -/
def Conforms (t : List Ev) : Prop := (monitor t).ok = true

instance (t : List Ev) : Decidable (Conforms t) := by unfold Conforms; infer_instance

/-- `Conforms` plus the strict deletion rule -/
def ConformsStrict (t : List Ev) : Prop := (monitor t).ok = true ∧ (monitor t).okDel = true

instance (t : List Ev) : Decidable (ConformsStrict t) := by unfold ConformsStrict; infer_instance

/-- batches acknowledged with sync=1 in the trace -/
def ackedSync (t : List Ev) : List Nat := t.filterMap fun | .ack b true => some b | _ => none
def ackedAll (t : List Ev) : List Nat := t.filterMap fun | .ack b _ => some b | _ => none
/-- log numbers unlinked in the trace -/
def unlinkedLogs (t : List Ev) : List Nat := t.filterMap fun | .unlink (.log n) => some n | _ => none
/-- batch ↦ log it was appended to -/
def logOfBatch (t : List Ev) (b : Nat) : Option Nat :=
  t.findSome? fun | .append (.log n) (.batch b') => if b' == b then some n else none | _ => none

end Lcdb.Disk
