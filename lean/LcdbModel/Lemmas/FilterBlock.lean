/-
  Helper lemmas for LcdbModel.Model.FilterBlock (core Lean only).

  `filterLayout fs` is the byte filterLayout of a filter block holding the filters `fs`
  (empty list = "no keys in this 2 KiB range").  Part 1: the reader on `filterLayout fs` selects
  exactly `fs[idx]`.  Part 2: the builder produces `filterLayout fs` for a list `fs` in which every
  key added under block offset `off` is in (the key set of) filter `off / 2048`.
-/
import LcdbModel.Model.FilterBlock
import LcdbModel.Lemmas.Coding
import LcdbModel.Lemmas.Bloom
namespace Lcdb

/-! ### list plumbing -/

theorem extract_mid (A B C : Bytes) : ((A ++ B ++ C).drop A.length).take B.length = B := by
  rw [List.append_assoc, List.drop_left, List.take_left]

theorem extract_mid' (A B C : Bytes) (a b : Nat) (ha : a = A.length) (hb : b = B.length) :
    ((A ++ B ++ C).drop a).take b = B := by
  subst ha; subst hb; exact extract_mid A B C

theorem flatMap_fixedEnc4_length (xs : List Nat) : (xs.flatMap (fixedEnc 4)).length = 4 * xs.length := by
  induction xs with
  | nil => rfl
  | cons x xs ih => rw [List.flatMap_cons, List.length_append, ih, fixedEnc_length']; simp; omega

/-- the `i`-th little-endian word of `D ‖ words ‖ T`, counted from the end of `D` -/
theorem fixed32At_entry (D T : Bytes) (xs : List Nat) (i : Nat) (hi : i < xs.length) :
    fixed32At (D ++ xs.flatMap (fixedEnc 4) ++ T) (D.length + i * 4) = xs[i] % 2 ^ 32 := by
  have hsplit : xs = xs.take i ++ [xs[i]] ++ xs.drop (i + 1) := by
    rw [List.append_assoc, List.singleton_append, List.getElem_cons_drop hi, List.take_append_drop]
  have hflat : xs.flatMap (fixedEnc 4) =
      (xs.take i).flatMap (fixedEnc 4) ++ fixedEnc 4 xs[i] ++ (xs.drop (i + 1)).flatMap (fixedEnc 4) := by
    conv => lhs; rw [hsplit]
    rw [List.flatMap_append, List.flatMap_append, List.flatMap_singleton]
  have e : D ++ xs.flatMap (fixedEnc 4) ++ T =
      (D ++ (xs.take i).flatMap (fixedEnc 4)) ++ fixedEnc 4 xs[i] ++ ((xs.drop (i + 1)).flatMap (fixedEnc 4) ++ T) := by
    rw [hflat]; simp [List.append_assoc]
  unfold fixed32At
  have hA : D.length + i * 4 = (D ++ (xs.take i).flatMap (fixedEnc 4)).length := by
    rw [List.length_append, flatMap_fixedEnc4_length, List.length_take]
    have : min i xs.length = i := by omega
    rw [this]; omega
  rw [e, extract_mid' _ _ _ _ 4 hA (fixedEnc_length' 4 _).symm, fixedDec_fixedEnc']

/-! ### filterLayout of a filter block -/

/-- start offset of each filter inside the concatenation -/
def offsetsOf (fs : List Bytes) : List Nat :=
  (List.range fs.length).map (fun i => (fs.take i).flatten.length)

/-- all prefix lengths (one more entry than `offsetsOf`: the total length) -/
def offsetsOf' (fs : List Bytes) : List Nat :=
  (List.range (fs.length + 1)).map (fun i => (fs.take i).flatten.length)

theorem offsetsOf_length (fs : List Bytes) : (offsetsOf fs).length = fs.length := by simp [offsetsOf]
theorem offsetsOf'_length (fs : List Bytes) : (offsetsOf' fs).length = fs.length + 1 := by simp [offsetsOf']

theorem offsetsOf'_eq (fs : List Bytes) : offsetsOf' fs = offsetsOf fs ++ [fs.flatten.length] := by
  unfold offsetsOf' offsetsOf
  rw [List.range_succ, List.map_append, List.map_singleton, List.take_length]

theorem offsetsOf_append_singleton (fs : List Bytes) (f : Bytes) :
    offsetsOf (fs ++ [f]) = offsetsOf fs ++ [fs.flatten.length] := by
  rw [← offsetsOf'_eq]
  unfold offsetsOf offsetsOf'
  rw [List.length_append, List.length_singleton]
  apply List.map_congr_left
  intro i hi
  have : i ≤ fs.length := by
    have := List.mem_range.mp hi; omega
  rw [List.take_append_of_le_length this]

theorem offsetsOf'_getElem (fs : List Bytes) (i : Nat) (hi : i < (offsetsOf' fs).length) :
    (offsetsOf' fs)[i] = (fs.take i).flatten.length := by
  simp only [offsetsOf', List.getElem_map, List.getElem_range]

/-- the bytes of a filter block that holds the filters `fs` -/
def filterLayout (fs : List Bytes) : Bytes :=
  fs.flatten ++ (offsetsOf fs).flatMap (fixedEnc 4) ++ fixedEnc 4 fs.flatten.length
    ++ [UInt8.ofNat filterBaseLg]

theorem layout_eq (fs : List Bytes) :
    filterLayout fs = fs.flatten ++ (offsetsOf' fs).flatMap (fixedEnc 4) ++ [UInt8.ofNat filterBaseLg] := by
  unfold filterLayout
  rw [offsetsOf'_eq, List.flatMap_append, List.flatMap_singleton]
  simp [List.append_assoc]

theorem layout_length (fs : List Bytes) : (filterLayout fs).length = fs.flatten.length + 4 * fs.length + 5 := by
  rw [layout_eq, List.length_append, List.length_append, flatMap_fixedEnc4_length, offsetsOf'_length]
  simp; omega

theorem flatten_take_le (fs : List Bytes) (i : Nat) : (fs.take i).flatten.length ≤ fs.flatten.length := by
  conv => rhs; rw [← List.take_append_drop i fs, List.flatten_append, List.length_append]
  omega

theorem flatten_take_succ (fs : List Bytes) (i : Nat) (hi : i < fs.length) :
    (fs.take (i + 1)).flatten = (fs.take i).flatten ++ fs[i] := by
  rw [List.take_add_one, List.getElem?_eq_getElem hi, Option.toList_some, List.flatten_append,
    List.flatten_singleton]

/-- the reader, given a well-formed block, hands filter `idx` to the policy -/
theorem filterMatch_layout (p : Policy) (fs : List Bytes) (off : Nat) (key : Bytes)
    (hlen : fs.flatten.length < 2 ^ 32) (hidx : off / filterBase < fs.length) :
    filterMatch p (filterLayout fs) off key = p.mayMatch (fs[off / filterBase]'hidx) key := by
  have hn := layout_length fs
  -- the three words the reader looks at
  have hw : ∀ i (hi : i < fs.length + 1),
      fixed32At (filterLayout fs) (fs.flatten.length + i * 4) = (fs.take i).flatten.length := by
    intro i hi
    have hi' : i < (offsetsOf' fs).length := by rw [offsetsOf'_length]; exact hi
    rw [layout_eq, fixed32At_entry _ _ _ i hi', offsetsOf'_getElem]
    apply Nat.mod_eq_of_lt
    exact Nat.lt_of_le_of_lt (flatten_take_le fs i) hlen
  have hlast : fixed32At (filterLayout fs) ((filterLayout fs).length - 5) = fs.flatten.length := by
    have : (filterLayout fs).length - 5 = fs.flatten.length + fs.length * 4 := by omega
    rw [this, hw fs.length (by omega), List.take_length]
  have hlg : ((filterLayout fs).getD ((filterLayout fs).length - 1) 0).toNat % 64 = filterBaseLg := by
    have hidx1 : (filterLayout fs).length - 1 =
        (fs.flatten ++ (offsetsOf' fs).flatMap (fixedEnc 4)).length := by
      rw [List.length_append, flatMap_fixedEnc4_length, offsetsOf'_length]; omega
    rw [List.getD_eq_getElem?_getD, hidx1, layout_eq, List.getElem?_append_right (Nat.le_refl _)]
    simp [filterBaseLg]
  unfold filterMatch filterReaderInit
  have h5 : ¬ (filterLayout fs).length < 5 := by omega
  simp only [h5, if_false, hlast, hlg]
  have hle : ¬ fs.flatten.length > (filterLayout fs).length - 5 := by omega
  simp only [hle, if_false]
  unfold FilterReader.mayMatch
  simp only
  have hnum : ((filterLayout fs).length - 5 - fs.flatten.length) / 4 = fs.length := by omega
  have hbase : (2 : Nat) ^ filterBaseLg = filterBase := rfl
  rw [hnum, hbase]
  simp only [hidx, if_true]
  rw [hw (off / filterBase) (by omega)]
  have hw2 := hw (off / filterBase + 1) (by omega)
  have : fs.flatten.length + off / filterBase * 4 + 4 = fs.flatten.length + (off / filterBase + 1) * 4 := by omega
  rw [this, hw2]
  have hsucc := flatten_take_succ fs (off / filterBase) hidx
  have hc : (fs.take (off / filterBase)).flatten.length ≤ (fs.take (off / filterBase + 1)).flatten.length ∧
      (fs.take (off / filterBase + 1)).flatten.length ≤ fs.flatten.length := by
    refine ⟨?_, flatten_take_le fs _⟩
    rw [hsucc, List.length_append]; omega
  rw [if_pos hc]
  congr 1
  -- the slice [start, limit) is filter idx
  have hD : fs.flatten = (fs.take (off / filterBase)).flatten ++ fs[off / filterBase]
      ++ (fs.drop (off / filterBase + 1)).flatten := by
    rw [← hsucc, ← List.flatten_append, List.take_append_drop]
  have hfull : filterLayout fs = (fs.take (off / filterBase)).flatten ++ fs[off / filterBase]
      ++ ((fs.drop (off / filterBase + 1)).flatten ++ (offsetsOf' fs).flatMap (fixedEnc 4)
          ++ [UInt8.ofNat filterBaseLg]) := by
    rw [layout_eq]
    conv => lhs; rw [hD]
    simp [List.append_assoc]
  rw [hfull]
  apply extract_mid'
  · rfl
  · rw [hsucc, List.length_append]; omega

/-! ### builder -/

/-- a policy never produces a false negative -/
def Policy.Sound (p : Policy) : Prop :=
  ∀ (keys : List Bytes) (k : Bytes), k ∈ keys → p.mayMatch (p.build keys) k = true

/-- the filter appended by one `generate` -/
def genFilter (p : Policy) (pending : List Bytes) : Bytes :=
  if pending.isEmpty then [] else p.build pending

theorem generate_eq (p : Policy) (fb : FilterGen) :
    fb.generate p = { pending := [], result := fb.result ++ genFilter p fb.pending,
                      offsets := fb.offsets ++ [fb.result.length] } := by
  unfold FilterGen.generate genFilter
  cases hp : fb.pending with
  | nil => cases fb; simp_all
  | cons a l => simp

/-- builder state `fb` has generated exactly the filters `fs` -/
structure GenInv (fb : FilterGen) (fs : List Bytes) : Prop where
  res : fb.result = fs.flatten
  offs : fb.offsets = offsetsOf fs

/-- filter `idx` exists and matches `key` -/
def Covered (p : Policy) (fs : List Bytes) (idx : Nat) (key : Bytes) : Prop :=
  ∃ f, fs[idx]? = some f ∧ p.mayMatch f key = true

/-- `key` (added under filter index `idx`) is either covered by a generated filter or still pending
    for the filter that will be generated next -/
def Good (p : Policy) (fb : FilterGen) (fs : List Bytes) (idx : Nat) (key : Bytes) : Prop :=
  Covered p fs idx key ∨ (idx = fs.length ∧ key ∈ fb.pending)

theorem Covered_append (p : Policy) (fs : List Bytes) (f : Bytes) (idx : Nat) (key : Bytes)
    (h : Covered p fs idx key) : Covered p (fs ++ [f]) idx key := by
  obtain ⟨g, hg, hm⟩ := h
  refine ⟨g, ?_, hm⟩
  have hlt : idx < fs.length := by
    obtain ⟨h, _⟩ := List.getElem?_eq_some_iff.mp hg
    exact h
  rw [List.getElem?_append_left hlt]; exact hg

theorem generate_inv (p : Policy) (fb : FilterGen) (fs : List Bytes) (h : GenInv fb fs) :
    GenInv (fb.generate p) (fs ++ [genFilter p fb.pending]) := by
  rw [generate_eq]
  constructor
  · simp only; rw [h.res, List.flatten_append, List.flatten_singleton]
  · simp only; rw [h.offs, h.res, offsetsOf_append_singleton]

theorem generate_good (p : Policy) (hs : p.Sound) (fb : FilterGen) (fs : List Bytes) (idx : Nat) (key : Bytes)
    (h : Good p fb fs idx key) : Covered p (fs ++ [genFilter p fb.pending]) idx key := by
  rcases h with hc | ⟨hidx, hmem⟩
  · exact Covered_append p fs _ idx key hc
  · refine ⟨genFilter p fb.pending, ?_, ?_⟩
    · rw [hidx, List.getElem?_append_right (Nat.le_refl _)]; simp
    · unfold genFilter
      have hne : fb.pending.isEmpty = false := by
        cases hp : fb.pending with
        | nil => rw [hp] at hmem; simp at hmem
        | cons a l => rfl
      rw [hne]; simp only [Bool.false_eq_true, if_false]
      exact hs _ _ hmem

theorem generate_pending (p : Policy) (fb : FilterGen) : (fb.generate p).pending = [] := by
  rw [generate_eq]

/-- `n` generate calls: `n` more filters; whatever was good stays good -/
theorem generateN_spec (p : Policy) (hs : p.Sound) :
    ∀ (n : Nat) (fb : FilterGen) (fs : List Bytes), GenInv fb fs →
      ∃ fs', GenInv (FilterGen.generateN p n fb) fs' ∧ fs'.length = fs.length + n ∧
        (n = 0 → (FilterGen.generateN p n fb) = fb) ∧
        (0 < n → (FilterGen.generateN p n fb).pending = []) ∧
        ∀ idx key, Good p fb fs idx key → Good p (FilterGen.generateN p n fb) fs' idx key := by
  intro n
  induction n with
  | zero =>
    intro fb fs h
    exact ⟨fs, h, rfl, fun _ => rfl, fun h0 => absurd h0 (Nat.lt_irrefl 0), fun _ _ hg => hg⟩
  | succ n ih =>
    intro fb fs h
    obtain ⟨fs', hinv, hlen, h0, hpos, hgood⟩ := ih (fb.generate p) _ (generate_inv p fb fs h)
    refine ⟨fs', hinv, ?_, fun hz => absurd hz (Nat.succ_ne_zero n), ?_, ?_⟩
    · rw [hlen, List.length_append, List.length_singleton]; omega
    · intro _
      simp only [FilterGen.generateN]
      cases n with
      | zero => rw [h0 rfl]; exact generate_pending p fb
      | succ m => exact hpos (Nat.succ_pos m)
    · intro idx key hg
      simp only [FilterGen.generateN]
      exact hgood idx key (Or.inl (generate_good p hs fb fs idx key hg))

theorem foldl_addKey_spec (keys : List Bytes) :
    ∀ fb : FilterGen, (keys.foldl FilterGen.addKey fb).pending = fb.pending ++ keys ∧
      (keys.foldl FilterGen.addKey fb).result = fb.result ∧
      (keys.foldl FilterGen.addKey fb).offsets = fb.offsets := by
  induction keys with
  | nil => intro fb; simp
  | cons k keys ih =>
    intro fb
    simp only [List.foldl_cons]
    obtain ⟨h1, h2, h3⟩ := ih (fb.addKey k)
    refine ⟨?_, ?_, ?_⟩
    · rw [h1]; simp [FilterGen.addKey]
    · rw [h2]; rfl
    · rw [h3]; rfl

/-- one data block: afterwards exactly `off / 2048` filters exist and the block's keys are pending -/
theorem addBlock_spec (p : Policy) (hs : p.Sound) (fb : FilterGen) (fs : List Bytes) (blk : Nat × List Bytes)
    (h : GenInv fb fs) (hle : fs.length ≤ blk.1 / filterBase) :
    ∃ fs', GenInv (FilterGen.addBlock p fb blk) fs' ∧ fs'.length = blk.1 / filterBase ∧
      (∀ idx key, Good p fb fs idx key → Good p (FilterGen.addBlock p fb blk) fs' idx key) ∧
      (∀ key, key ∈ blk.2 → Good p (FilterGen.addBlock p fb blk) fs' (blk.1 / filterBase) key) := by
  unfold FilterGen.addBlock FilterGen.startBlock
  have hol : fb.offsets.length = fs.length := by rw [h.offs, offsetsOf_length]
  rw [hol]
  obtain ⟨fs', hinv, hlen, _, _, hgood⟩ := generateN_spec p hs (blk.1 / filterBase - fs.length) fb fs h
  obtain ⟨hp, hr, ho⟩ := foldl_addKey_spec blk.2 (FilterGen.generateN p (blk.1 / filterBase - fs.length) fb)
  refine ⟨fs', ⟨?_, ?_⟩, by omega, ?_, ?_⟩
  · rw [hr]; exact hinv.res
  · rw [ho]; exact hinv.offs
  · intro idx key hg
    rcases hgood idx key hg with hc | ⟨hi, hm⟩
    · exact Or.inl hc
    · exact Or.inr ⟨hi, by rw [hp]; exact List.mem_append_left _ hm⟩
  · intro key hk
    exact Or.inr ⟨by omega, by rw [hp]; exact List.mem_append_right _ hk⟩

/-- filter indexes are non-decreasing, starting at or above `n` -/
def SortedFrom : Nat → List (Nat × List Bytes) → Prop
  | _, [] => True
  | n, b :: rest => n ≤ b.1 / filterBase ∧ SortedFrom (b.1 / filterBase) rest

theorem sortedFrom_of_pairwise (blocks : List (Nat × List Bytes)) :
    ∀ n, List.Pairwise (fun a b => a.1 ≤ b.1) blocks → (∀ b ∈ blocks, n ≤ b.1 / filterBase) →
      SortedFrom n blocks := by
  induction blocks with
  | nil => intro _ _ _; trivial
  | cons b rest ih =>
    intro n hp hn
    rw [List.pairwise_cons] at hp
    refine ⟨hn b (List.mem_cons_self), ih _ hp.2 ?_⟩
    intro c hc
    exact Nat.div_le_div_right (hp.1 c hc)

theorem foldl_addBlock_spec (p : Policy) (hs : p.Sound) (blocks : List (Nat × List Bytes)) :
    ∀ (fb : FilterGen) (fs : List Bytes), GenInv fb fs → SortedFrom fs.length blocks →
      ∃ fs', GenInv (blocks.foldl (FilterGen.addBlock p) fb) fs' ∧
        (∀ idx key, Good p fb fs idx key → Good p (blocks.foldl (FilterGen.addBlock p) fb) fs' idx key) ∧
        (∀ b ∈ blocks, ∀ key ∈ b.2, Good p (blocks.foldl (FilterGen.addBlock p) fb) fs' (b.1 / filterBase) key) := by
  induction blocks with
  | nil => intro fb fs h _; exact ⟨fs, h, fun _ _ hg => hg, by simp⟩
  | cons b rest ih =>
    intro fb fs h hsorted
    obtain ⟨hle, hrest⟩ := hsorted
    obtain ⟨fs1, hinv1, hlen1, hgood1, hnew1⟩ := addBlock_spec p hs fb fs b h hle
    rw [← hlen1] at hrest
    obtain ⟨fs', hinv', hgood', hnew'⟩ := ih _ fs1 hinv1 hrest
    simp only [List.foldl_cons]
    refine ⟨fs', hinv', fun idx key hg => hgood' idx key (hgood1 idx key hg), ?_⟩
    intro c hc key hk
    rcases List.mem_cons.mp hc with rfl | hmem
    · exact hgood' _ _ (hnew1 key hk)
    · exact hnew' c hmem key hk

/-- `finish`: the result is the filterLayout of a filter list in which everything good is covered -/
theorem finish_spec (p : Policy) (hs : p.Sound) (fb : FilterGen) (fs : List Bytes) (h : GenInv fb fs) :
    ∃ fs', fb.finish p = filterLayout fs' ∧ ∀ idx key, Good p fb fs idx key → Covered p fs' idx key := by
  unfold FilterGen.finish
  cases hp : fb.pending.isEmpty with
  | true =>
    refine ⟨fs, ?_, ?_⟩
    · simp only [if_true]; unfold filterLayout; rw [h.res, h.offs]
    · intro idx key hg
      rcases hg with hc | ⟨_, hm⟩
      · exact hc
      · have : fb.pending = [] := List.isEmpty_iff.mp hp
        rw [this] at hm; simp at hm
  | false =>
    have hinv := generate_inv p fb fs h
    refine ⟨fs ++ [genFilter p fb.pending], ?_, fun idx key hg => generate_good p hs fb fs idx key hg⟩
    simp only [Bool.false_eq_true, if_false]; unfold filterLayout; rw [hinv.res, hinv.offs]

/-- the built block is the filterLayout of filters that cover every added key at its block's index -/
theorem filterBuild_spec (p : Policy) (hs : p.Sound) (blocks : List (Nat × List Bytes))
    (hsorted : List.Pairwise (fun a b => a.1 ≤ b.1) blocks) :
    ∃ fs, filterBuild p blocks = filterLayout fs ∧
      ∀ b ∈ blocks, ∀ key ∈ b.2, Covered p fs (b.1 / filterBase) key := by
  unfold filterBuild
  have h0 : GenInv ({} : FilterGen) [] := ⟨rfl, rfl⟩
  obtain ⟨fs1, hinv1, _, hnew1⟩ := foldl_addBlock_spec p hs blocks {} [] h0
    (sortedFrom_of_pairwise blocks 0 hsorted (fun _ _ => Nat.zero_le _))
  obtain ⟨fs', hfin, hcov⟩ := finish_spec p hs _ fs1 hinv1
  exact ⟨fs', hfin, fun b hb key hk => hcov _ _ (hnew1 b hb key hk)⟩

/-! ### bounds-checked reader agrees with the plain one (all reads are inside `contents`) -/

/-- the policy's `match` reads only inside the filter slice it is given -/
def Policy.Safe (p : Policy) : Prop := ∀ f k, p.mayMatchC f k = some (p.mayMatch f k)

theorem bloomPolicy_safe (bits : Nat) : (bloomPolicy bits).Safe := fun f k => bloomMatchC_eq f k

theorem ifpPolicy_safe (p : Policy) (h : p.Safe) : (ifpPolicy p).Safe := fun f k => h f (stripTrailer k)

/-- what `ldb_filter_init` guarantees about the reader it sets up -/
def FilterReader.WF (fr : FilterReader) : Prop :=
  fr.num = 0 ∨ fr.arrayOff + 4 * fr.num + 5 ≤ fr.data.length

theorem FilterReader.mayMatchC_eq (p : Policy) (hp : p.Safe) (fr : FilterReader) (hwf : fr.WF)
    (off : Nat) (key : Bytes) : fr.mayMatchC p off key = some (fr.mayMatch p off key) := by
  unfold FilterReader.mayMatchC FilterReader.mayMatch
  by_cases hidx : off / 2 ^ fr.baseLg < fr.num
  · simp only [hidx, if_true]
    have hb : fr.arrayOff + 4 * fr.num + 5 ≤ fr.data.length := by
      rcases hwf with h0 | h
      · rw [h0] at hidx; exact absurd hidx (Nat.not_lt_zero _)
      · exact h
    generalize off / 2 ^ fr.baseLg = idx at hidx ⊢
    have h1 : fr.arrayOff + idx * 4 + 4 ≤ fr.data.length := by omega
    have h2 : fr.arrayOff + idx * 4 + 4 + 4 ≤ fr.data.length := by omega
    simp only [fixed32AtC, h1, h2, if_true]
    by_cases hc : fixed32At fr.data (fr.arrayOff + idx * 4) ≤
          fixed32At fr.data (fr.arrayOff + idx * 4 + 4) ∧
        fixed32At fr.data (fr.arrayOff + idx * 4 + 4) ≤ fr.arrayOff
    · simp only [hc, and_self, if_true]
      have h3 : fixed32At fr.data (fr.arrayOff + idx * 4) +
          (fixed32At fr.data (fr.arrayOff + idx * 4 + 4) -
            fixed32At fr.data (fr.arrayOff + idx * 4)) ≤ fr.data.length := by omega
      simp only [sliceC, h3, if_true]
      exact hp _ _
    · simp only [hc, if_false]
      by_cases he : fixed32At fr.data (fr.arrayOff + idx * 4) =
          fixed32At fr.data (fr.arrayOff + idx * 4 + 4)
      · simp [he]
      · simp [he]
  · simp [hidx]

theorem filterReaderInit_wf (contents : Bytes) : (filterReaderInit contents).WF := by
  unfold filterReaderInit FilterReader.WF
  by_cases h5 : contents.length < 5
  · simp [h5]
  · simp only [h5, if_false]
    by_cases hl : fixed32At contents (contents.length - 5) > contents.length - 5
    · simp [hl]
    · simp only [hl, if_false]
      right
      omega

theorem filterReaderInitC_eq (contents : Bytes) :
    filterReaderInitC contents = some (filterReaderInit contents) := by
  unfold filterReaderInitC filterReaderInit
  by_cases h5 : contents.length < 5
  · simp [h5]
  · simp only [h5, if_false]
    have hlt : contents.length - 1 < contents.length := by omega
    have h4 : contents.length - 5 + 4 ≤ contents.length := by omega
    rw [List.getElem?_eq_getElem hlt, List.getD_eq_getElem?_getD, List.getElem?_eq_getElem hlt]
    simp only [fixed32AtC, h4, if_true, Option.getD_some]
    by_cases hl : fixed32At contents (contents.length - 5) > contents.length - 5
    · simp [hl]
    · simp [hl]

theorem filterMatchC_eq (p : Policy) (hp : p.Safe) (contents : Bytes) (off : Nat) (key : Bytes) :
    filterMatchC p contents off key = some (filterMatch p contents off key) := by
  unfold filterMatchC filterMatch
  rw [filterReaderInitC_eq]
  exact FilterReader.mayMatchC_eq p hp _ (filterReaderInit_wf contents) off key

end Lcdb
