/-
  Helper lemmas for Model/Memtable.lean: the entry encoding, the comparator on length-prefixed keys,
  and the memtable as a run of entries (`Holds`).
-/
import LcdbModel.Lemmas.SkiplistIter
import LcdbModel.Model.Memtable
import LcdbModel.Props.CodingProps
import LcdbModel.Props.KeyProps
import LcdbModel.Lemmas.Lsm
namespace Lcdb.Memtable
open Lcdb Lcdb.Skiplist

/-! ### encoding -/

theorem sliceRead_encodeEntry (uk : Bytes) (seq kind : Nat) (v : Bytes) (h : uk.length + 8 < 2 ^ 32) :
    sliceRead (encodeEntry uk seq kind v) = some (ikeyEnc uk seq kind, varintEnc v.length ++ v) := by
  have hl : (uk ++ fixedEnc 8 (packSeqType seq kind)).length = uk.length + 8 := by
    rw [List.length_append, fixedEnc_length]
  have := sliceRead_sliceEnc (uk ++ fixedEnc 8 (packSeqType seq kind)) (varintEnc v.length ++ v) (by rw [hl]; exact h)
  unfold sliceEnc at this
  rw [hl] at this
  exact this

theorem decodeEntry_encodeEntry (uk : Bytes) (seq kind : Nat) (v : Bytes) (h : uk.length + 8 < 2 ^ 32)
    (hv : v.length < 2 ^ 32) : decodeEntry (encodeEntry uk seq kind v) = some (ikeyEnc uk seq kind, v) := by
  unfold decodeEntry
  rw [sliceRead_encodeEntry uk seq kind v h]
  have := sliceRead_sliceEnc v [] hv
  unfold sliceEnc at this
  simp only [List.append_nil] at this
  simp [this]

theorem lpKey_encodeEntry (uk : Bytes) (seq kind : Nat) (v : Bytes) (h : uk.length + 8 < 2 ^ 32) :
    lpKey (encodeEntry uk seq kind v) = ikeyEnc uk seq kind := by
  unfold lpKey; rw [sliceRead_encodeEntry uk seq kind v h]

theorem lpKey_sliceEnc (ik : Bytes) (h : ik.length < 2 ^ 32) : lpKey (sliceEnc ik) = ik := by
  have := sliceRead_sliceEnc ik [] h
  simp only [List.append_nil] at this
  unfold lpKey; rw [this]

theorem lookupKey_eq (uk : Bytes) (seq : Nat) : lookupKey uk seq = sliceEnc (ikeyEnc uk seq valtypeSeek) := by
  unfold lookupKey sliceEnc ikeyEnc
  rw [List.length_append, fixedEnc_length]

/-! ### the comparator -/

theorem memKeyCmp_ok (c : Cmp) : CmpOk (memKeyCmp c) where
  swap a b := KeyProps.ikeyCmp_swap c (lpKey a) (lpKey b)
  trans a b d := KeyProps.ikeyCmp_trans c (lpKey a) (lpKey b) (lpKey d)

theorem ikeyUser_enc (a : Bytes) (ap : Nat) : ikeyUser (a ++ fixedEnc 8 ap) = a :=
  ikeyUser_append8 a _ (fixedEnc_length 8 ap)

theorem ikeyNum_enc (a : Bytes) (ap : Nat) (h : ap < 2 ^ 64) : ikeyNum (a ++ fixedEnc 8 ap) = ap := by
  rw [ikeyNum_append8 a _ (fixedEnc_length 8 ap), fixedDec_fixedEnc]
  exact Nat.mod_eq_of_lt (by simpa using h)

theorem ikeyCmp_enc_lt (c : Cmp) (a : Bytes) (ap : Nat) (b : Bytes) (bp : Nat) (ha : ap < 2 ^ 64) (hb : bp < 2 ^ 64) :
    ikeyCmp c (a ++ fixedEnc 8 ap) (b ++ fixedEnc 8 bp) = .lt ↔ ikLt c a ap b bp = true := by
  rw [KeyProps.ikeyCmp_lt_iff, ikeyUser_enc, ikeyUser_enc, ikeyNum_enc a ap ha, ikeyNum_enc b bp hb, Lsm.ikLt_iff]

theorem ikeyCmp_enc_eq (c : Cmp) (a : Bytes) (ap : Nat) (b : Bytes) (bp : Nat) (ha : ap < 2 ^ 64) (hb : bp < 2 ^ 64) :
    ikeyCmp c (a ++ fixedEnc 8 ap) (b ++ fixedEnc 8 bp) = .eq ↔ a = b ∧ ap = bp := by
  rw [KeyProps.ikeyCmp_eq_iff, ikeyUser_enc, ikeyUser_enc, ikeyNum_enc a ap ha, ikeyNum_enc b bp hb]

/-! ### memtable entries -/

structure MEntry where
  ukey : Bytes
  seq : Nat
  kind : Nat
  val : Bytes
  deriving Repr, DecidableEq

def MEntry.packed (e : MEntry) : Nat := packSeqType e.seq e.kind

/-- the argument ranges of `ldb_memtable_add` within which nothing is truncated -/
def MEntry.wf (e : MEntry) : Prop :=
  e.ukey.length + 8 < 2 ^ 32 ∧ e.val.length < 2 ^ 32 ∧ e.seq < 2 ^ 56 ∧ e.kind < 256

def MEntry.enc (e : MEntry) : Bytes := encodeEntry e.ukey e.seq e.kind e.val

/-- the entry of the LSM model: the value becomes the opaque token `tok value` -/
def MEntry.toEntry (tok : Bytes → String) (e : MEntry) : Entry :=
  { ukey := e.ukey, seq := e.seq, kind := e.kind, val := tok e.val }

def mLt (c : Cmp) (a b : MEntry) : Bool := ikLt c a.ukey a.packed b.ukey b.packed

theorem entryLt_toEntry (c : Cmp) (tok : Bytes → String) (a b : MEntry) :
    entryLt c (a.toEntry tok) (b.toEntry tok) = mLt c a b := rfl

theorem MEntry.packed_lt {e : MEntry} (h : e.wf) : e.packed < 2 ^ 64 := by
  unfold MEntry.packed packSeqType
  obtain ⟨_, _, h1, h2⟩ := h
  omega

theorem argsOk_of_wf {e : MEntry} (h : e.wf) : argsOk e.ukey e.seq e.kind e.val = true := by
  obtain ⟨h1, h2, h3, h4⟩ := h
  simp [argsOk, h1, h2, h3, h4]

theorem lpKey_enc {e : MEntry} (h : e.wf) : lpKey e.enc = e.ukey ++ fixedEnc 8 e.packed :=
  lpKey_encodeEntry e.ukey e.seq e.kind e.val h.1

/-- the comparator of the skiplist, on two entries, is the internal-key order of the LSM model -/
theorem memKeyCmp_enc_lt (c : Cmp) {a b : MEntry} (ha : a.wf) (hb : b.wf) :
    memKeyCmp c a.enc b.enc = .lt ↔ mLt c a b = true := by
  unfold memKeyCmp mLt
  rw [lpKey_enc ha, lpKey_enc hb]
  exact ikeyCmp_enc_lt c _ _ _ _ (MEntry.packed_lt ha) (MEntry.packed_lt hb)

theorem memKeyCmp_enc_eq (c : Cmp) {a b : MEntry} (ha : a.wf) (hb : b.wf) :
    memKeyCmp c a.enc b.enc = .eq ↔ a.ukey = b.ukey ∧ a.packed = b.packed := by
  unfold memKeyCmp
  rw [lpKey_enc ha, lpKey_enc hb]
  exact ikeyCmp_enc_eq c _ _ _ _ (MEntry.packed_lt ha) (MEntry.packed_lt hb)

/-- against a seek target: length-prefixed internal key `(k, pk)` -/
theorem memKeyCmp_enc_target (c : Cmp) {a : MEntry} (ha : a.wf) (k : Bytes) (pk : Nat) (hk : k.length + 8 < 2 ^ 32)
    (hpk : pk < 2 ^ 64) :
    memKeyCmp c a.enc (sliceEnc (k ++ fixedEnc 8 pk)) = .lt ↔ ikLt c a.ukey a.packed k pk = true := by
  unfold memKeyCmp
  rw [lpKey_enc ha, lpKey_sliceEnc _ (by rw [List.length_append, fixedEnc_length]; exact hk)]
  exact ikeyCmp_enc_lt c _ _ _ _ (MEntry.packed_lt ha) hpk

/-! ### runs of memtable entries -/

/-- `Lsm.runInsert` on memtable entries -/
def mrunInsert (c : Cmp) (e : MEntry) : List MEntry → List MEntry
  | [] => [e]
  | x :: xs => if mLt c e x then e :: x :: xs else x :: mrunInsert c e xs

theorem mrunInsert_toEntry (c : Cmp) (tok : Bytes → String) (e : MEntry) (es : List MEntry) :
    (mrunInsert c e es).map (MEntry.toEntry tok) = runInsert c (e.toEntry tok) (es.map (MEntry.toEntry tok)) := by
  induction es with
  | nil => rfl
  | cons x xs ih =>
    simp only [mrunInsert, List.map_cons, runInsert]
    by_cases hlt : mLt c e x = true
    · have hlt' : entryLt c (e.toEntry tok) (x.toEntry tok) = true := hlt
      rw [if_pos hlt, if_pos hlt']; rfl
    · have hlt' : ¬ entryLt c (e.toEntry tok) (x.toEntry tok) = true := hlt
      rw [if_neg hlt, if_neg hlt', List.map_cons, ih]

theorem mem_mrunInsert {c : Cmp} {e x : MEntry} {es : List MEntry} : x ∈ mrunInsert c e es ↔ x = e ∨ x ∈ es := by
  induction es with
  | nil => simp [mrunInsert]
  | cons a t ih =>
    unfold mrunInsert
    split
    · simp
    · simp [ih]; grind

theorem mrunInsert_enc (c : Cmp) {e : MEntry} {es : List MEntry} (he : e.wf) (hes : ∀ x ∈ es, x.wf) :
    (mrunInsert c e es).map MEntry.enc = ordInsert (memKeyCmp c) e.enc (es.map MEntry.enc) := by
  induction es with
  | nil => rfl
  | cons x xs ih =>
    have hx := hes x (by simp)
    simp only [mrunInsert, List.map_cons, ordInsert]
    by_cases hlt : mLt c e x = true
    · rw [if_pos hlt, if_pos (by simpa using (memKeyCmp_enc_lt c he hx).mpr hlt)]
      rfl
    · have : ¬ memKeyCmp c e.enc x.enc = .lt := fun h => hlt ((memKeyCmp_enc_lt c he hx).mp h)
      rw [if_neg hlt, if_neg (by simpa using this)]
      simp [ih (fun y hy => hes y (by simp [hy]))]

/-- the memtable holds exactly the well-formed entries `es`, in this (internal-key) order -/
def Holds (mt : Memtable) (es : List MEntry) : Prop :=
  (∀ e ∈ es, e.wf) ∧ Good (memKeyCmp mt.c) mt.table (es.map MEntry.enc)

theorem create_holds (c : Cmp) : Holds (create c) [] := ⟨by simp, init_good _⟩

theorem addH_holds {mt : Memtable} {es : List MEntry} (h : Holds mt es) (e : MEntry) (he : e.wf) (height : Nat)
    (hh : 1 ≤ height ∧ height ≤ kMaxHeight) (hnew : ∀ x ∈ es, ¬ (x.ukey = e.ukey ∧ x.packed = e.packed)) :
    ∃ mt', addH mt e.ukey e.seq e.kind e.val height = some mt' ∧ mt'.c = mt.c ∧ Holds mt' (mrunInsert mt.c e es) ∧
      mt'.table.rnd = mt.table.rnd := by
  obtain ⟨hwf, hg⟩ := h
  obtain ⟨t', hrun, hg', hrnd, _⟩ := insert_good (memKeyCmp_ok mt.c) hg e.enc height hh (by
    intro x hx
    obtain ⟨y, hy, rfl⟩ := List.mem_map.mp hx
    intro heq
    have := (memKeyCmp_enc_eq mt.c he (hwf y hy)).mp heq
    exact hnew y hy ⟨this.1.symm, this.2.symm⟩)
  refine ⟨{ mt with table := t' }, ?_, rfl, ⟨?_, ?_⟩, hrnd⟩
  · unfold addH
    rw [argsOk_of_wf he]
    show Option.map _ (insert (memKeyCmp mt.c) mt.table e.enc height) = _
    rw [hrun]; rfl
  · intro x hx
    rcases mem_mrunInsert.mp hx with rfl | hx
    · exact he
    · exact hwf x hx
  · show Good (memKeyCmp mt.c) t' _
    rw [mrunInsert_enc mt.c he hwf]
    exact hg'

end Lcdb.Memtable
