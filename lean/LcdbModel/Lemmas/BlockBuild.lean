/-
  The block builder produces well-formed blocks (`blockBuild_wf`).
-/
import LcdbModel.Lemmas.BlockWf
import LcdbModel.Props.CodingProps
namespace Lcdb

/-! ### 1. `sharedLen` -/

theorem sharedLen_le_left (a b : Bytes) : sharedLen a b ≤ a.length := by
  induction a generalizing b with
  | nil => simp [sharedLen]
  | cons x xs ih =>
    cases b with
    | nil => simp [sharedLen]
    | cons y ys =>
      by_cases h : x = y
      · have := ih ys
        simp only [sharedLen, h, beq_self_eq_true, if_true, List.length_cons]; omega
      · simp [sharedLen, h]

theorem sharedLen_le_right (a b : Bytes) : sharedLen a b ≤ b.length := by
  induction a generalizing b with
  | nil => simp [sharedLen]
  | cons x xs ih =>
    cases b with
    | nil => simp [sharedLen]
    | cons y ys =>
      by_cases h : x = y
      · have := ih ys
        simp only [sharedLen, h, beq_self_eq_true, if_true, List.length_cons]; omega
      · simp [sharedLen, h]

theorem sharedLen_take (a b : Bytes) :
    a.take (sharedLen a b) = b.take (sharedLen a b) := by
  induction a generalizing b with
  | nil => simp [sharedLen]
  | cons x xs ih =>
    cases b with
    | nil => simp [sharedLen]
    | cons y ys =>
      by_cases h : x = y
      · have := ih ys
        simp only [sharedLen, h, beq_self_eq_true, if_true, List.take_succ_cons, this]
      · simp [sharedLen, h]

theorem sharedLen_take_drop (a b : Bytes) :
    a.take (sharedLen a b) ++ b.drop (sharedLen a b) = b := by
  rw [sharedLen_take, List.take_append_drop]

/-! ### 2. what the builder's fold produces -/

/-- the `shared` field chosen by the builder in state `(cnt, pk)` for key `k` -/
def shOf (iv cnt : Nat) (pk k : Bytes) : Nat := if cnt < iv then sharedLen pk k else 0

/-- the builder's counter after one more entry -/
def nextCnt (iv cnt : Nat) : Nat := (if cnt < iv then cnt else 0) + 1

theorem shOf_le_pk (iv cnt : Nat) (pk k : Bytes) : shOf iv cnt pk k ≤ pk.length := by
  unfold shOf; split
  · exact sharedLen_le_left pk k
  · omega

theorem shOf_le_key (iv cnt : Nat) (pk k : Bytes) : shOf iv cnt pk k ≤ k.length := by
  unfold shOf; split
  · exact sharedLen_le_right pk k
  · omega

theorem shOf_take_drop (iv cnt : Nat) (pk k : Bytes) :
    pk.take (shOf iv cnt pk k) ++ k.drop (shOf iv cnt pk k) = k := by
  unfold shOf; split
  · exact sharedLen_take_drop pk k
  · simp

/-- the three varints in front of an entry -/
def encHdr (sh : Nat) (k v : Bytes) : Bytes :=
  varintEnc sh ++ varintEnc (k.length - sh) ++ varintEnc v.length

/-- one entry as written by the builder -/
def encEntry (sh : Nat) (k v : Bytes) : Bytes :=
  encHdr sh k v ++ k.drop sh ++ v

theorem encHdr_length_ge (sh : Nat) (k v : Bytes) : 3 ≤ (encHdr sh k v).length := by
  have h1 := varintEnc_length_pos sh
  have h2 := varintEnc_length_pos (k.length - sh)
  have h3 := varintEnc_length_pos v.length
  simp only [encHdr, List.length_append]; omega

theorem encEntry_length (sh : Nat) (k v : Bytes) :
    (encEntry sh k v).length = (encHdr sh k v).length + (k.length - sh) + v.length := by
  simp only [encEntry, List.length_append, List.length_drop]

/-- bytes appended by the builder in state `(cnt, pk)` for the entries `es` -/
def encAll (iv : Nat) : Nat → Bytes → List (Bytes × Bytes) → Bytes
  | _, _, [] => []
  | cnt, pk, e :: es =>
    encEntry (shOf iv cnt pk e.1) e.1 e.2 ++ encAll iv (nextCnt iv cnt) e.1 es

/-- the entries with their offsets, builder state `(cnt, pk)`, buffer length `off` -/
def layout (iv : Nat) : Nat → Nat → Bytes → List (Bytes × Bytes) → List Ent
  | _, _, _, [] => []
  | cnt, off, pk, e :: es =>
    { off := off, sh := shOf iv cnt pk e.1, key := e.1,
      voff := off + (encHdr (shOf iv cnt pk e.1) e.1 e.2).length + (e.1.length - shOf iv cnt pk e.1),
      vlen := e.2.length }
      :: layout iv (nextCnt iv cnt) (off + (encEntry (shOf iv cnt pk e.1) e.1 e.2).length) e.1 es

/-- the restart offsets pushed by the builder -/
def restartsGo (iv : Nat) : Nat → Nat → Bytes → List (Bytes × Bytes) → List Nat
  | _, _, _, [] => []
  | cnt, off, pk, e :: es =>
    (if cnt < iv then [] else [off])
      ++ restartsGo iv (nextCnt iv cnt) (off + (encEntry (shOf iv cnt pk e.1) e.1 e.2).length) e.1 es

theorem blockGenAdd_eq (iv : Nat) (g : BlockGen) (k v : Bytes)
    (hk : k.length < 2 ^ 32) (hv : v.length < 2 ^ 32) :
    blockGenAdd iv g k v =
      { buffer := g.buffer ++ encEntry (shOf iv g.counter g.lastKey k) k v
        restarts := g.restarts ++ (if g.counter < iv then [] else [g.buffer.length])
        counter := nextCnt iv g.counter
        lastKey := k } := by
  have hs := shOf_le_key iv g.counter g.lastKey k
  have htd := shOf_take_drop iv g.counter g.lastKey k
  have m1 : shOf iv g.counter g.lastKey k % 2 ^ 32 = shOf iv g.counter g.lastKey k :=
    Nat.mod_eq_of_lt (by omega)
  have m2 : (k.length - shOf iv g.counter g.lastKey k) % 2 ^ 32
      = k.length - shOf iv g.counter g.lastKey k := Nat.mod_eq_of_lt (by omega)
  have m3 : v.length % 2 ^ 32 = v.length := Nat.mod_eq_of_lt hv
  unfold shOf at hs htd m1 m2
  unfold blockGenAdd shOf nextCnt encEntry encHdr
  by_cases h : g.counter < iv
  · simp only [h, decide_true, if_true] at hs htd m1 m2 ⊢
    rw [m1, m2, m3, htd]
    simp
  · simp only [h, decide_false, if_false] at hs htd m1 m2 ⊢
    have m2' : k.length % 2 ^ 32 = k.length := Nat.mod_eq_of_lt hk
    simp [m3, m2']

theorem blockGenAddAll_eq (iv : Nat) (es : List (Bytes × Bytes))
    (hk : ∀ e ∈ es, e.1.length < 2 ^ 32 ∧ e.2.length < 2 ^ 32) (g : BlockGen) :
    (blockGenAddAll iv g es).buffer = g.buffer ++ encAll iv g.counter g.lastKey es ∧
    (blockGenAddAll iv g es).restarts
      = g.restarts ++ restartsGo iv g.counter g.buffer.length g.lastKey es := by
  induction es generalizing g with
  | nil => simp [blockGenAddAll, encAll, restartsGo]
  | cons e es ih =>
    have he := hk e (List.mem_cons_self)
    have ih' := ih (fun e' h' => hk e' (List.mem_cons_of_mem _ h'))
      (blockGenAdd iv g e.1 e.2)
    unfold blockGenAddAll at ih' ⊢
    rw [List.foldl_cons]
    rw [ih'.1, ih'.2, blockGenAdd_eq iv g e.1 e.2 he.1 he.2]
    simp only [encAll, restartsGo, List.append_assoc, List.length_append, and_self]

/-! ### 3. decoding one entry -/

theorem varint32Read_small (b : UInt8) (rest : Bytes) (h : b.toNat < 128) :
    varint32Read (b :: rest) = some (b.toNat, rest) := by
  have h' : ¬ b.toNat ≥ 128 := by omega
  have h2 : b.toNat % 2 ^ 32 = b.toNat := Nat.mod_eq_of_lt (by omega)
  simp only [varint32Read, varintGo, h', if_false, Nat.zero_add, Nat.pow_zero, Nat.mul_one, h2]

/-- the slow path of decode_entry -/
def decodeSlow (hdr : Bytes) (xn : Nat) : Option (Nat × Nat × Nat × Nat) :=
  match varint32Read hdr with
  | none => none
  | some (s, r1) =>
    match varint32Read r1 with
    | none => none
    | some (ns, r2) =>
      match varint32Read r2 with
      | none => none
      | some (vl, r3) =>
        let h := hdr.length - r3.length
        if xn - h < ns + vl then none
        else some (s, ns, vl, h)

/-- the fast path of decode_entry is a special case of the slow path -/
theorem decodeEntryWin_eq_slow (hdr : Bytes) (xn : Nat) (h3 : 3 ≤ hdr.length) :
    decodeEntryWin hdr xn = decodeSlow hdr xn := by
  match hdr, h3 with
  | b0 :: b1 :: b2 :: rest, _ =>
    simp only [decodeEntryWin]
    by_cases hf : (b0.toNat < 128 && b1.toNat < 128 && b2.toNat < 128) = true
    · rw [if_pos hf]
      simp only [Bool.and_eq_true, decide_eq_true_eq] at hf
      obtain ⟨⟨h0, h1⟩, h2⟩ := hf
      unfold decodeSlow
      simp only [varint32Read_small b0 _ h0, varint32Read_small b1 _ h1,
        varint32Read_small b2 _ h2, List.length_cons]
      have : rest.length + 1 + 1 + 1 - rest.length = 3 := by omega
      rw [this]
    · rw [if_neg hf]
      rfl

theorem decodeSlow_enc (a b c : Nat) (tail : Bytes) (xn : Nat)
    (ha : a < 2 ^ 32) (hb : b < 2 ^ 32) (hc : c < 2 ^ 32)
    (hx : (varintEnc a ++ varintEnc b ++ varintEnc c).length + b + c ≤ xn) :
    decodeEntryWin ((varintEnc a ++ varintEnc b ++ varintEnc c ++ tail).take (min xn 15)) xn
      = some (a, b, c, (varintEnc a ++ varintEnc b ++ varintEnc c).length) := by
  have la := varintEnc_length_le32 a ha
  have lb := varintEnc_length_le32 b hb
  have lc := varintEnc_length_le32 c hc
  have pa := varintEnc_length_pos a
  have pb := varintEnc_length_pos b
  have pc := varintEnc_length_pos c
  have hH : (varintEnc a ++ varintEnc b ++ varintEnc c).length
      = (varintEnc a).length + (varintEnc b).length + (varintEnc c).length := by
    simp only [List.length_append]
  rw [hH] at hx
  have hle : (varintEnc a ++ varintEnc b ++ varintEnc c).length ≤ min xn 15 := by
    rw [hH]; omega
  have htake : (varintEnc a ++ varintEnc b ++ varintEnc c ++ tail).take (min xn 15)
      = varintEnc a ++ (varintEnc b ++ (varintEnc c ++
          tail.take (min xn 15 - (varintEnc a ++ varintEnc b ++ varintEnc c).length))) := by
    rw [List.take_append, List.take_of_length_le hle]
    simp only [List.append_assoc]
  rw [htake, decodeEntryWin_eq_slow _ _ (by simp only [List.length_append]; omega)]
  unfold decodeSlow
  simp only [varint32_roundtrip a _ ha, varint32_roundtrip b _ hb, varint32_roundtrip c _ hc]
  have hlen : (varintEnc a ++ (varintEnc b ++ (varintEnc c ++
      tail.take (min xn 15 - (varintEnc a ++ varintEnc b ++ varintEnc c).length)))).length
      - (tail.take (min xn 15 - (varintEnc a ++ varintEnc b ++ varintEnc c).length)).length
      = (varintEnc a ++ varintEnc b ++ varintEnc c).length := by
    simp only [List.length_append]; omega
  rw [hlen, hH]
  have : ¬ (xn - ((varintEnc a).length + (varintEnc b).length + (varintEnc c).length) < b + c) := by
    omega
  simp only [this, if_false]

theorem sliceAt_mid (X Y Z : Bytes) (o n : Nat) (ho : o = X.length) (hn : n = Y.length) :
    sliceAt (X ++ Y ++ Z) o n = Y := by
  subst ho hn
  unfold sliceAt
  rw [List.append_assoc, List.drop_left, List.take_left]

theorem decodeEntry_enc (data A B : Bytes) (sh : Nat) (k v : Bytes) (limit : Nat)
    (hd : data = A ++ encEntry sh k v ++ B) (hsh : sh ≤ k.length)
    (hk : k.length < 2 ^ 32) (hv : v.length < 2 ^ 32)
    (hl1 : A.length + (encEntry sh k v).length ≤ limit) (hl2 : limit ≤ data.length) :
    decodeEntry data A.length limit
      = .ok sh (k.length - sh) v.length (A.length + (encHdr sh k v).length) := by
  have h3 := encHdr_length_ge sh k v
  have hel := encEntry_length sh k v
  unfold decodeEntry
  rw [if_neg (by omega), if_neg (by omega), if_neg (by omega)]
  have hdrop : data.drop A.length
      = varintEnc sh ++ varintEnc (k.length - sh) ++ varintEnc v.length
          ++ (k.drop sh ++ v ++ B) := by
    rw [hd]
    simp only [encEntry, encHdr, List.append_assoc, List.drop_left]
  rw [hdrop, decodeSlow_enc sh (k.length - sh) v.length _ _ (by omega) (by omega) hv
    (by unfold encHdr at hel; omega)]
  rfl

theorem sliceAt_key (data A B : Bytes) (sh : Nat) (k v : Bytes)
    (hd : data = A ++ encEntry sh k v ++ B) :
    sliceAt data (A.length + (encHdr sh k v).length) (k.length - sh) = k.drop sh := by
  have : data = (A ++ encHdr sh k v) ++ k.drop sh ++ (v ++ B) := by
    rw [hd]; simp only [encEntry, List.append_assoc]
  rw [this]
  exact sliceAt_mid _ _ _ _ _ (by simp only [List.length_append]) (by simp only [List.length_drop])

theorem sliceAt_value (data A B : Bytes) (sh : Nat) (k v : Bytes)
    (hd : data = A ++ encEntry sh k v ++ B) :
    sliceAt data (A.length + (encHdr sh k v).length + (k.length - sh)) v.length = v := by
  have : data = (A ++ encHdr sh k v ++ k.drop sh) ++ v ++ B := by
    rw [hd]; simp only [encEntry, List.append_assoc]
  rw [this]
  exact sliceAt_mid _ _ _ _ _ (by simp only [List.length_append, List.length_drop]) rfl

/-! ### 4. the data area decodes to `layout` -/

theorem chain_encAll (iv : Nat) (data : Bytes) (limit : Nat) (es : List (Bytes × Bytes))
    (hk : ∀ e ∈ es, e.1.length < 2 ^ 32 ∧ e.2.length < 2 ^ 32) :
    ∀ (A : Bytes) (cnt off : Nat) (pk T : Bytes), off = A.length →
      data = A ++ encAll iv cnt pk es ++ T →
      limit = A.length + (encAll iv cnt pk es).length →
      Chain data limit pk off (layout iv cnt off pk es) := by
  induction es with
  | nil =>
    intro A cnt off pk T ho hd hl
    simp only [encAll, List.length_nil, Nat.add_zero] at hl
    simp only [layout, Chain]; omega
  | cons e es ih =>
    intro A cnt off pk T ho hd hl
    have he := hk e (List.mem_cons_self)
    have ih' := ih (fun e' h' => hk e' (List.mem_cons_of_mem _ h'))
    subst ho
    simp only [encAll] at hd hl
    have hd' : data = A ++ encEntry (shOf iv cnt pk e.1) e.1 e.2
        ++ (encAll iv (nextCnt iv cnt) e.1 es ++ T) := by
      rw [hd]; simp only [List.append_assoc]
    have hdl : data.length = limit + T.length := by
      rw [hd, hl]; simp only [List.length_append]
    rw [List.length_append] at hl
    have h3 := encHdr_length_ge (shOf iv cnt pk e.1) e.1 e.2
    have hel := encEntry_length (shOf iv cnt pk e.1) e.1 e.2
    have hshk := shOf_le_key iv cnt pk e.1
    have hdec := decodeEntry_enc data A _ (shOf iv cnt pk e.1) e.1 e.2 limit hd' hshk
      he.1 he.2 (by omega) (by omega)
    have hkey := sliceAt_key data A _ (shOf iv cnt pk e.1) e.1 e.2 hd'
    simp only [layout, Chain]
    refine ⟨trivial, by omega, ⟨e.1.length - shOf iv cnt pk e.1,
      A.length + (encHdr (shOf iv cnt pk e.1) e.1 e.2).length, hdec, shOf_le_pk iv cnt pk e.1,
      ?_, ?_, rfl, by omega⟩, ?_⟩
    · rw [hkey, shOf_take_drop]
    · rw [hkey, List.length_drop]
    · have hoff : A.length + (encHdr (shOf iv cnt pk e.1) e.1 e.2).length
          + (e.1.length - shOf iv cnt pk e.1) + e.2.length
          = A.length + (encEntry (shOf iv cnt pk e.1) e.1 e.2).length := by omega
      rw [hoff]
      apply ih' (A ++ encEntry (shOf iv cnt pk e.1) e.1 e.2) (nextCnt iv cnt) _ e.1 T
      · simp only [List.length_append]
      · rw [hd]; simp only [List.append_assoc]
      · simp only [List.length_append]; omega

theorem entriesOf_layout (iv : Nat) (data : Bytes) (es : List (Bytes × Bytes)) :
    ∀ (A : Bytes) (cnt off : Nat) (pk T : Bytes), off = A.length →
      data = A ++ encAll iv cnt pk es ++ T →
      entriesOf data (layout iv cnt off pk es) = es := by
  induction es with
  | nil => intro A cnt off pk T _ _; rfl
  | cons e es ih =>
    intro A cnt off pk T ho hd
    subst ho
    simp only [encAll] at hd
    have hd' : data = A ++ encEntry (shOf iv cnt pk e.1) e.1 e.2
        ++ (encAll iv (nextCnt iv cnt) e.1 es ++ T) := by
      rw [hd]; simp only [List.append_assoc]
    have hval := sliceAt_value data A _ (shOf iv cnt pk e.1) e.1 e.2 hd'
    have ih' := ih (A ++ encEntry (shOf iv cnt pk e.1) e.1 e.2) (nextCnt iv cnt)
      (A.length + (encEntry (shOf iv cnt pk e.1) e.1 e.2).length) e.1 T
      (by simp only [List.length_append]) (by rw [hd]; simp only [List.append_assoc])
    unfold entriesOf at ih' ⊢
    simp only [Ent.value] at ih'
    simp only [layout, List.map_cons, Ent.value, hval, ih']

/-! ### 5. the restart array -/

theorem flatten_fixed_length (rs : List Nat) :
    ((rs.map (fixedEnc 4)).flatten).length = 4 * rs.length := by
  induction rs with
  | nil => rfl
  | cons r rs ih =>
    simp only [List.map_cons, List.flatten_cons, List.length_append, List.length_cons, ih,
      fixedEnc_length]
    omega

theorem take_drop_flatten_fixed (rs : List Nat) (tail : Bytes) :
    ∀ (j : Nat) (h : j < rs.length),
      (((rs.map (fixedEnc 4)).flatten ++ tail).drop (j * 4)).take 4 = fixedEnc 4 rs[j] := by
  induction rs with
  | nil => intro j h; simp at h
  | cons r rs ih =>
    intro j h
    simp only [List.map_cons, List.flatten_cons, List.append_assoc]
    cases j with
    | zero =>
      simp only [Nat.zero_mul, List.drop_zero, List.getElem_cons_zero]
      exact List.take_left' (fixedEnc_length 4 r)
    | succ j =>
      have : (j + 1) * 4 = (fixedEnc 4 r).length + j * 4 := by rw [fixedEnc_length]; omega
      rw [this, List.drop_length_add_append, List.getElem_cons_succ]
      exact ih j (by simpa using h)

theorem restartAt_built (buf tail : Bytes) (rs : List Nat) (j : Nat) (h : j < rs.length) :
    restartAt (buf ++ (rs.map (fixedEnc 4)).flatten ++ tail) buf.length j = rs[j] % 2 ^ 32 := by
  unfold restartAt
  rw [List.append_assoc, List.drop_length_add_append, take_drop_flatten_fixed rs tail j h,
    fixedDec_fixedEnc]

theorem blockNumRestarts_built (X : Bytes) (n : Nat) :
    blockNumRestarts (X ++ fixedEnc 4 n) = n % 2 ^ 32 := by
  unfold blockNumRestarts
  have : (X ++ fixedEnc 4 n).length - 4 = X.length := by
    rw [List.length_append, fixedEnc_length]; omega
  rw [this, List.drop_left, fixedDec_fixedEnc]

/-! ### 6. the pushed restart offsets -/

theorem restartsGo_bounds (iv : Nat) (es : List (Bytes × Bytes)) :
    ∀ (cnt off : Nat) (pk : Bytes), ∀ x ∈ restartsGo iv cnt off pk es,
      off ≤ x ∧ (cnt < iv → off < x) ∧ x < off + (encAll iv cnt pk es).length := by
  induction es with
  | nil => intro cnt off pk x hx; simp [restartsGo] at hx
  | cons e es ih =>
    intro cnt off pk x hx
    have h3 := encHdr_length_ge (shOf iv cnt pk e.1) e.1 e.2
    have hel := encEntry_length (shOf iv cnt pk e.1) e.1 e.2
    simp only [restartsGo, List.mem_append] at hx
    simp only [encAll, List.length_append]
    rcases hx with hx | hx
    · by_cases hc : cnt < iv
      · simp [hc] at hx
      · simp only [hc, if_false, List.mem_singleton] at hx
        subst hx
        exact ⟨Nat.le_refl _, fun h => absurd h hc, by omega⟩
    · have := ih _ _ _ x hx
      exact ⟨by omega, fun _ => by omega, by omega⟩

theorem restartsGo_pairwise (iv : Nat) (es : List (Bytes × Bytes)) :
    ∀ (cnt off : Nat) (pk : Bytes), (restartsGo iv cnt off pk es).Pairwise (· < ·) := by
  induction es with
  | nil => intro cnt off pk; simp [restartsGo]
  | cons e es ih =>
    intro cnt off pk
    have h3 := encHdr_length_ge (shOf iv cnt pk e.1) e.1 e.2
    have hel := encEntry_length (shOf iv cnt pk e.1) e.1 e.2
    simp only [restartsGo]
    rw [List.pairwise_append]
    refine ⟨?_, ih _ _ _, ?_⟩
    · by_cases hc : cnt < iv <;> simp [hc]
    · intro a ha b hb
      have hb' := (restartsGo_bounds iv es _ _ _ b hb).1
      by_cases hc : cnt < iv
      · simp [hc] at ha
      · simp only [hc, if_false, List.mem_singleton] at ha
        omega

theorem restartsGo_ent (iv : Nat) (es : List (Bytes × Bytes)) :
    ∀ (cnt off : Nat) (pk : Bytes), ∀ x ∈ restartsGo iv cnt off pk es,
      ∃ e, e ∈ layout iv cnt off pk es ∧ e.off = x ∧ e.sh = 0 := by
  induction es with
  | nil => intro cnt off pk x hx; simp [restartsGo] at hx
  | cons e es ih =>
    intro cnt off pk x hx
    simp only [restartsGo, List.mem_append] at hx
    rcases hx with hx | hx
    · by_cases hc : cnt < iv
      · simp [hc] at hx
      · simp only [hc, if_false, List.mem_singleton] at hx
        subst hx
        refine ⟨_, List.mem_cons_self, rfl, ?_⟩
        simp only [shOf, hc, if_false]
    · obtain ⟨e', he', h1, h2⟩ := ih _ _ _ x hx
      exact ⟨e', List.mem_cons_of_mem _ he', h1, h2⟩

/-! ### 7. the builder produces well-formed blocks -/

theorem blockBuild_eq (iv : Nat) (es : List (Bytes × Bytes))
    (hk : ∀ e ∈ es, e.1.length < 2 ^ 32 ∧ e.2.length < 2 ^ 32) :
    blockBuild iv es = encAll iv 0 [] es
      ++ (((0 :: restartsGo iv 0 0 [] es).map (fixedEnc 4)).flatten
      ++ fixedEnc 4 (0 :: restartsGo iv 0 0 [] es).length) := by
  have h := blockGenAddAll_eq iv es hk blockGenInit
  unfold blockBuild blockGenFinish
  rw [h.1, h.2]
  simp only [blockGenInit, List.nil_append, List.length_nil, List.singleton_append,
    List.append_assoc]

theorem blockBuild_wf' (iv : Nat) (es : List (Bytes × Bytes)) (hiv : 1 ≤ iv)
    (hk : ∀ e ∈ es, e.1.length < 2 ^ 32 ∧ e.2.length < 2 ^ 32)
    (hsz : (blockBuild iv es).length < 2 ^ 32) :
    WfBlock (blockBuild iv es) (encAll iv 0 [] es).length
        ((restartsGo iv 0 0 [] es).length + 1) (layout iv 0 0 [] es) ∧
      entriesOf (blockBuild iv es) (layout iv 0 0 [] es) = es := by
  have hd := blockBuild_eq iv es hk
  generalize blockBuild iv es = data at hd hsz ⊢
  have hlen : data.length
      = (encAll iv 0 [] es).length + 4 * ((restartsGo iv 0 0 [] es).length + 1) + 4 := by
    rw [hd]
    simp only [List.length_append, flatten_fixed_length, fixedEnc_length, List.length_cons]
    omega
  have hd1 : data = (encAll iv 0 [] es
      ++ ((0 :: restartsGo iv 0 0 [] es).map (fixedEnc 4)).flatten)
      ++ fixedEnc 4 (0 :: restartsGo iv 0 0 [] es).length := by
    rw [hd]; simp only [List.append_assoc]
  have hd2 : data = encAll iv 0 [] es
      ++ ((0 :: restartsGo iv 0 0 [] es).map (fixedEnc 4)).flatten
      ++ fixedEnc 4 (0 :: restartsGo iv 0 0 [] es).length := hd1
  have hd3 : data = [] ++ encAll iv 0 [] es
      ++ (((0 :: restartsGo iv 0 0 [] es).map (fixedEnc 4)).flatten
      ++ fixedEnc 4 (0 :: restartsGo iv 0 0 [] es).length) := by
    rw [hd]; simp only [List.nil_append]
  have hbnd : ∀ x ∈ restartsGo iv 0 0 [] es, 0 < x ∧ x < 2 ^ 32 := by
    intro x hx
    have := restartsGo_bounds iv es 0 0 [] x hx
    exact ⟨this.2.1 (by omega), by omega⟩
  have hra : ∀ (j : Nat) (h : j < (0 :: restartsGo iv 0 0 [] es).length),
      restartAt data (encAll iv 0 [] es).length j = (0 :: restartsGo iv 0 0 [] es)[j] := by
    intro j h
    have hlt : (0 :: restartsGo iv 0 0 [] es)[j] < 2 ^ 32 := by
      cases j with
      | zero => simp only [List.getElem_cons_zero]; omega
      | succ j =>
        rw [List.getElem_cons_succ]
        exact (hbnd _ (List.getElem_mem _)).2
    have := restartAt_built (encAll iv 0 [] es)
      (fixedEnc 4 (0 :: restartsGo iv 0 0 [] es).length) _ j h
    rw [← hd2] at this
    rw [this, Nat.mod_eq_of_lt hlt]
  have hpw : (0 :: restartsGo iv 0 0 [] es).Pairwise (· < ·) := by
    rw [List.pairwise_cons]
    exact ⟨fun x hx => (hbnd x hx).1, restartsGo_pairwise iv es 0 0 []⟩
  refine ⟨⟨by omega, by omega, ?_, ?_, ?_, ?_, ?_⟩, ?_⟩
  · rw [hd1, blockNumRestarts_built, List.length_cons]
    exact Nat.mod_eq_of_lt (by omega)
  · exact chain_encAll iv data _ es hk [] 0 0 [] _ rfl hd3 (by simp only [List.length_nil, Nat.zero_add])
  · rw [hra 0 (by simp only [List.length_cons]; omega)]
    rfl
  · intro j hj
    rw [hra j (by simp only [List.length_cons]; omega),
      hra (j + 1) (by simp only [List.length_cons]; omega)]
    exact (List.pairwise_iff_getElem.mp hpw) j (j + 1) _ _ (by omega)
  · intro j hj0 hj
    cases j with
    | zero => omega
    | succ j =>
      rw [hra (j + 1) (by simp only [List.length_cons]; omega), List.getElem_cons_succ]
      exact restartsGo_ent iv es 0 0 [] _ (List.getElem_mem _)
  · exact entriesOf_layout iv data es [] 0 0 [] _ rfl hd3

theorem blockBuild_wf (iv : Nat) (es : List (Bytes × Bytes)) (hiv : 1 ≤ iv)
    (hk : ∀ e ∈ es, e.1.length < 2 ^ 32 ∧ e.2.length < 2 ^ 32)
    (hsz : (blockBuild iv es).length < 2 ^ 32) :
    ∃ (L : List Ent) (restarts num : Nat),
      WfBlock (blockBuild iv es) restarts num L ∧ entriesOf (blockBuild iv es) L = es :=
  ⟨_, _, _, blockBuild_wf' iv es hiv hk hsz⟩

end Lcdb
