/-
  Helper lemmas for LcdbModel.Model.FileName (core Lean only).

  Strategy: `parseFileName name` is rewritten to `parseChars name.toList`, a copy of the
  model that only looks at `List Char`; `decodeIntGo` is characterised through
  `List.takeWhile isDigit` / `List.dropWhile isDigit`; the grammar `OwnedChars` is then
  shown to be equivalent to `parseChars … = some …`.
-/
import LcdbModel.Model.FileName
namespace Lcdb

/-! ### digits -/

theorem isDigit_eq (c : Char) : isDigit c = c.isDigit := by
  simp [isDigit, Char.isDigit, Char.le_def]

theorem isDigit_iff (c : Char) : isDigit c = true ↔ 48 ≤ c.toNat ∧ c.toNat ≤ 57 := by
  simp only [isDigit, Bool.and_eq_true, decide_eq_true_eq, Char.le_def, UInt32.le_iff_toNat_le]
  exact Iff.rfl

/-- Decimal value of a list of characters (most significant first; leading zeros allowed). -/
def digitsNat (ds : List Char) : Nat := ds.foldl (fun x c => x * 10 + (c.toNat - 48)) 0

/-- `none` if `ds` is empty, contains a non-digit, or its decimal value is `≥ 2^64`;
    otherwise the decimal value. -/
def digitsVal (ds : List Char) : Option Nat :=
  if ds ≠ [] ∧ ds.all isDigit = true ∧ digitsNat ds < 2 ^ 64 then some (digitsNat ds) else none

theorem digitsVal_eq_some_iff {ds : List Char} {n : Nat} :
    digitsVal ds = some n ↔
      ds ≠ [] ∧ (∀ c ∈ ds, isDigit c = true) ∧ digitsNat ds = n ∧ n < 2 ^ 64 := by
  unfold digitsVal
  split
  · rename_i h
    simp only [Option.some.injEq]
    constructor
    · rintro rfl; exact ⟨h.1, by simpa using h.2.1, rfl, h.2.2⟩
    · exact fun h' => h'.2.2.1
  · rename_i h
    simp only [reduceCtorEq, false_iff]
    rintro ⟨h1, h2, rfl, h4⟩
    exact h ⟨h1, by simpa using h2, h4⟩

theorem digitsNat_eq_ofDigitChars (ds : List Char) : digitsNat ds = Nat.ofDigitChars 10 ds 0 := by
  unfold digitsNat Nat.ofDigitChars
  congr 1
  funext x c
  rw [Nat.mul_comm]
  rfl

/-- accumulator form of `digitsNat` (the loop state of `ldb_decode_int`) -/
def accDigits (x : Nat) (ds : List Char) : Nat := ds.foldl (fun x c => x * 10 + (c.toNat - 48)) x

theorem accDigits_zero (ds : List Char) : accDigits 0 ds = digitsNat ds := rfl

theorem le_accDigits (x : Nat) (ds : List Char) : x ≤ accDigits x ds := by
  induction ds generalizing x with
  | nil => simp [accDigits]
  | cons c cs ih =>
    have := ih (x * 10 + (c.toNat - 48))
    simp only [accDigits, List.foldl_cons] at this ⊢
    omega

/-! ### decodeInt -/

theorem decodeIntGo_spec (cs : List Char) (x : Nat) (any : Bool) (hx : x < 2 ^ 64) :
    decodeIntGo cs x any =
      if (any = true ∨ cs.takeWhile isDigit ≠ []) ∧ accDigits x (cs.takeWhile isDigit) < 2 ^ 64
      then some (accDigits x (cs.takeWhile isDigit), cs.dropWhile isDigit) else none := by
  induction cs generalizing x any with
  | nil => simp [decodeIntGo, accDigits, hx]
  | cons c cs ih =>
    rw [decodeIntGo]
    by_cases hc : isDigit c = true
    · have hd := (isDigit_iff c).1 hc
      simp only [hc, if_true, List.takeWhile_cons, List.dropWhile_cons]
      by_cases hov : 2 ^ 64 ≤ x * 10 + (c.toNat - 48)
      · have := le_accDigits (x * 10 + (c.toNat - 48)) (cs.takeWhile isDigit)
        have h1 : ¬ accDigits x (c :: cs.takeWhile isDigit) < 2 ^ 64 := by
          simp only [accDigits, List.foldl_cons] at this ⊢; omega
        rw [if_pos, if_neg]
        · simp [h1]
        · simp only [Bool.or_eq_true, decide_eq_true_eq, Bool.and_eq_true, beq_iff_eq]
          omega
      · rw [if_neg, ih _ _ (by omega)]
        · simp [accDigits]
        · simp only [Bool.or_eq_true, decide_eq_true_eq, Bool.and_eq_true, beq_iff_eq]
          omega
    · simp [hc, accDigits, hx]

theorem decodeInt_spec (s : List Char) :
    decodeInt s =
      if s.takeWhile isDigit ≠ [] ∧ digitsNat (s.takeWhile isDigit) < 2 ^ 64
      then some (digitsNat (s.takeWhile isDigit), s.dropWhile isDigit) else none := by
  rw [decodeInt, decodeIntGo_spec _ _ _ (by decide)]
  simp [accDigits_zero]

/-- `decodeInt` succeeds exactly when the input splits as a valid digit string followed by
    a remainder that does not start with a digit. -/
theorem decodeInt_eq_some_iff {s suf : List Char} {x : Nat} :
    decodeInt s = some (x, suf) ↔
      ∃ ds, s = ds ++ suf ∧ digitsVal ds = some x ∧ ∀ c ∈ suf.head?, isDigit c = false := by
  rw [decodeInt_spec]
  constructor
  · intro h
    split at h
    · rename_i hc
      simp only [Option.some.injEq, Prod.mk.injEq] at h
      refine ⟨s.takeWhile isDigit, ?_, ?_, ?_⟩
      · rw [← h.2]; exact List.takeWhile_append_dropWhile.symm
      · rw [digitsVal_eq_some_iff]
        refine ⟨hc.1, ?_, h.1, h.1 ▸ hc.2⟩
        exact List.all_eq_true.1 (List.all_takeWhile (p := isDigit) (l := s))
      · intro c hcm
        have := List.head?_dropWhile_not isDigit s
        rw [h.2] at this
        rw [Option.mem_def] at hcm
        rw [hcm] at this
        exact this
    · exact absurd h (by simp)
  · rintro ⟨ds, rfl, hv, hsuf⟩
    rw [digitsVal_eq_some_iff] at hv
    obtain ⟨hne, hall, hval, hlt⟩ := hv
    have hsuf' : suf.takeWhile isDigit = [] ∧ suf.dropWhile isDigit = suf := by
      cases suf with
      | nil => simp
      | cons c cs =>
        have : isDigit c = false := hsuf c (by simp)
        simp [this]
    have ht : (ds ++ suf).takeWhile isDigit = ds := by
      rw [List.takeWhile_append_of_pos hall, hsuf'.1, List.append_nil]
    have hd : (ds ++ suf).dropWhile isDigit = suf := by
      rw [List.dropWhile_append_of_pos hall, hsuf'.2]
    rw [ht, hd, if_pos ⟨hne, hval ▸ hlt⟩, hval]

theorem decodeInt_eq_some_nil_iff {s : List Char} {x : Nat} :
    decodeInt s = some (x, []) ↔ digitsVal s = some x := by
  rw [decodeInt_eq_some_iff]
  constructor
  · rintro ⟨ds, rfl, hv, -⟩; simpa using hv
  · intro hv; exact ⟨s, by simp, hv, by simp⟩

/-! ### stripPrefix -/

theorem stripPrefix_eq_some_iff {p s rest : List Char} :
    stripPrefix p s = some rest ↔ s = p ++ rest := by
  unfold stripPrefix
  split
  · rename_i h
    rw [List.isPrefixOf_iff_prefix] at h
    obtain ⟨r, rfl⟩ := h
    simp [eq_comm]
  · rename_i h
    rw [List.isPrefixOf_iff_prefix] at h
    simp only [reduceCtorEq, false_iff]
    rintro rfl
    exact h (List.prefix_append _ _)

theorem stripPrefix_eq_none_iff {p s : List Char} :
    stripPrefix p s = none ↔ ¬ p <+: s := by
  unfold stripPrefix
  split <;> simp_all

/-! ### `parseFileName` on `List Char` -/

/-- `parseFileName` restated on the character list. -/
def parseChars (s : List Char) : Option (FileType × Nat) :=
  if s = "CURRENT".toList then some (.current, 0)
  else if s = "LOCK".toList then some (.lock, 0)
  else if s = "LOG".toList ∨ s = "LOG.old".toList then some (.info, 0)
  else match stripPrefix "MANIFEST-".toList s with
    | some rest =>
      match decodeInt rest with
      | some (x, []) => some (.desc, x)
      | _ => none
    | none =>
      match decodeInt s with
      | some (x, suffix) =>
        if suffix == ".log".toList then some (.log, x)
        else if suffix == ".sst".toList || suffix == ".ldb".toList then some (.table, x)
        else if suffix == ".dbtmp".toList then some (.temp, x)
        else none
      | none => none

theorem parseFileName_eq_parseChars (name : String) :
    parseFileName name = parseChars name.toList := by
  simp only [parseFileName, parseChars, beq_iff_eq, Bool.or_eq_true, String.toList_inj]
  congr

/-! ### the grammar -/

/-- The file names owned by lcdb, over `List Char`. -/
inductive OwnedChars : List Char → FileType → Nat → Prop
  | current : OwnedChars "CURRENT".toList .current 0
  | lock : OwnedChars "LOCK".toList .lock 0
  | info : OwnedChars "LOG".toList .info 0
  | infoOld : OwnedChars "LOG.old".toList .info 0
  | desc (ds : List Char) (n : Nat) :
      digitsVal ds = some n → OwnedChars ("MANIFEST-".toList ++ ds) .desc n
  | log (ds : List Char) (n : Nat) :
      digitsVal ds = some n → OwnedChars (ds ++ ".log".toList) .log n
  | sst (ds : List Char) (n : Nat) :
      digitsVal ds = some n → OwnedChars (ds ++ ".sst".toList) .table n
  | ldb (ds : List Char) (n : Nat) :
      digitsVal ds = some n → OwnedChars (ds ++ ".ldb".toList) .table n
  | temp (ds : List Char) (n : Nat) :
      digitsVal ds = some n → OwnedChars (ds ++ ".dbtmp".toList) .temp n

/-- The file names owned by lcdb. -/
def OwnedName (s : String) (ty : FileType) (n : Nat) : Prop := OwnedChars s.toList ty n

theorem parseChars_sound {s : List Char} {ty : FileType} {n : Nat}
    (h : parseChars s = some (ty, n)) : OwnedChars s ty n := by
  unfold parseChars at h
  split at h
  · rename_i hs; cases h; subst hs; exact .current
  split at h
  · rename_i hs; cases h; subst hs; exact .lock
  split at h
  · rename_i hs; cases h
    rcases hs with hs | hs
    · subst hs; exact .info
    · subst hs; exact .infoOld
  split at h
  · rename_i rest hp
    rw [stripPrefix_eq_some_iff] at hp
    split at h
    · rename_i x hd
      cases h; subst hp
      exact .desc _ _ (decodeInt_eq_some_nil_iff.1 hd)
    · cases h
  · split at h
    · rename_i x suffix hd
      obtain ⟨ds, rfl, hv, -⟩ := decodeInt_eq_some_iff.1 hd
      split at h
      · rename_i hs; cases h; rw [beq_iff_eq] at hs; subst hs; exact .log _ _ hv
      split at h
      · rename_i hs; cases h
        rw [Bool.or_eq_true, beq_iff_eq, beq_iff_eq] at hs
        rcases hs with hs | hs
        · subst hs; exact .sst _ _ hv
        · subst hs; exact .ldb _ _ hv
      split at h
      · rename_i hs; cases h; rw [beq_iff_eq] at hs; subst hs; exact .temp _ _ hv
      · cases h
    · cases h

/-- A name that starts with a digit goes to the numeric branch. -/
theorem parseChars_of_digits_append {ds suf : List Char} {n : Nat}
    (hv : digitsVal ds = some n) (hsuf : ∀ c ∈ suf.head?, isDigit c = false) :
    parseChars (ds ++ suf) =
      if suf == ".log".toList then some (.log, n)
      else if suf == ".sst".toList || suf == ".ldb".toList then some (.table, n)
      else if suf == ".dbtmp".toList then some (.temp, n)
      else none := by
  have hd : decodeInt (ds ++ suf) = some (n, suf) := decodeInt_eq_some_iff.2 ⟨ds, rfl, hv, hsuf⟩
  obtain ⟨hne, hall, -, -⟩ := digitsVal_eq_some_iff.1 hv
  cases ds with
  | nil => exact absurd rfl hne
  | cons d ds =>
    have hdig : isDigit d = true := hall d (by simp)
    have hC : d ≠ 'C' := by rintro rfl; revert hdig; decide
    have hL : d ≠ 'L' := by rintro rfl; revert hdig; decide
    have hM : d ≠ 'M' := by rintro rfl; revert hdig; decide
    have hp : stripPrefix "MANIFEST-".toList (d :: ds ++ suf) = none := by
      rw [stripPrefix_eq_none_iff]
      rintro ⟨r, hr⟩
      have hlit : "MANIFEST-".toList = 'M' :: "ANIFEST-".toList := by decide
      rw [hlit] at hr
      simp only [List.cons_append, List.cons.injEq] at hr
      exact hM hr.1.symm
    unfold parseChars
    rw [if_neg (by simp [hC]), if_neg (by simp [hL]), if_neg (by simp [hL]), hp]
    simp only [hd]

theorem parseChars_complete {s : List Char} {ty : FileType} {n : Nat}
    (h : OwnedChars s ty n) : parseChars s = some (ty, n) := by
  cases h with
  | current => decide
  | lock => decide
  | info => decide
  | infoOld => decide
  | desc ds n hv =>
    have hp : stripPrefix "MANIFEST-".toList ("MANIFEST-".toList ++ ds) = some ds :=
      stripPrefix_eq_some_iff.2 rfl
    unfold parseChars
    rw [if_neg (by simp), if_neg (by simp), if_neg (by simp), hp]
    simp only [decodeInt_eq_some_nil_iff.2 hv]
  | log ds n hv => rw [parseChars_of_digits_append hv (by decide)]; rfl
  | sst ds n hv => rw [parseChars_of_digits_append hv (by decide)]; rfl
  | ldb ds n hv => rw [parseChars_of_digits_append hv (by decide)]; rfl
  | temp ds n hv => rw [parseChars_of_digits_append hv (by decide)]; rfl

theorem parseChars_eq_some_iff {s : List Char} {ty : FileType} {n : Nat} :
    parseChars s = some (ty, n) ↔ OwnedChars s ty n :=
  ⟨parseChars_sound, parseChars_complete⟩

/-- The number of an owned name always fits in a `uint64`. -/
theorem OwnedChars.lt {s : List Char} {ty : FileType} {n : Nat} (h : OwnedChars s ty n) :
    n < 2 ^ 64 := by
  cases h with
  | current | lock | info | infoOld => decide
  | desc _ _ hv | log _ _ hv | sst _ _ hv | ldb _ _ hv | temp _ _ hv =>
    exact (digitsVal_eq_some_iff.1 hv).2.2.2

/-- No owned name contains a character that is neither a digit nor one of the literal
    characters; in particular `'/'`. -/
theorem OwnedChars.slash_not_mem {s : List Char} {ty : FileType} {n : Nat}
    (h : OwnedChars s ty n) : '/' ∉ s := by
  have key : ∀ {ds : List Char} {n : Nat}, digitsVal ds = some n → '/' ∉ ds := by
    intro ds n hv hm
    have := (digitsVal_eq_some_iff.1 hv).2.1 _ hm
    revert this; decide
  cases h with
  | current => decide
  | lock => decide
  | info => decide
  | infoOld => decide
  | desc ds n hv =>
    intro hm; rcases List.mem_append.1 hm with hm | hm
    · revert hm; decide
    · exact key hv hm
  | log ds n hv =>
    intro hm; rcases List.mem_append.1 hm with hm | hm
    · exact key hv hm
    · revert hm; decide
  | sst ds n hv =>
    intro hm; rcases List.mem_append.1 hm with hm | hm
    · exact key hv hm
    · revert hm; decide
  | ldb ds n hv =>
    intro hm; rcases List.mem_append.1 hm with hm | hm
    · exact key hv hm
    · revert hm; decide
  | temp ds n hv =>
    intro hm; rcases List.mem_append.1 hm with hm | hm
    · exact key hv hm
    · revert hm; decide

/-! ### generated names (`"%06llu"`) -/

/-- Characters of `printf("%06llu", n)`: decimal digits, left-padded with `'0'` to width 6. -/
def fileNumChars (n : Nat) : List Char :=
  List.replicate (6 - (Nat.toDigits 10 n).length) '0' ++ Nat.toDigits 10 n

/-- `printf("%06llu", n)` -/
def fileNumStr (n : Nat) : String := String.ofList (fileNumChars n)

theorem fileNumStr_toList (n : Nat) : (fileNumStr n).toList = fileNumChars n :=
  String.toList_ofList

theorem fileNumChars_length_ge (n : Nat) : 6 ≤ (fileNumChars n).length := by
  simp only [fileNumChars, List.length_append, List.length_replicate]; omega

/-- `fileNumStr` is `Nat.repr` left-padded with zeros to width 6. -/
theorem fileNumStr_eq_repr (n : Nat) :
    fileNumStr n = String.ofList (List.replicate (6 - n.repr.length) '0') ++ n.repr := by
  rw [← String.toList_inj, fileNumStr_toList, String.toList_append, String.toList_ofList,
    ← String.length_toList, Nat.toList_repr, fileNumChars]

theorem digitsVal_fileNumChars {n : Nat} (hn : n < 2 ^ 64) :
    digitsVal (fileNumChars n) = some n := by
  rw [digitsVal_eq_some_iff]
  refine ⟨?_, ?_, ?_, hn⟩
  · simp [fileNumChars, Nat.toDigits_ne_nil]
  · intro c hc
    rcases List.mem_append.1 hc with hc | hc
    · rw [(List.mem_replicate.1 hc).2]; decide
    · rw [isDigit_eq]; exact Nat.isDigit_of_mem_toDigits (by decide) (by decide) hc
  · rw [digitsNat_eq_ofDigitChars, fileNumChars, Nat.ofDigitChars_append,
      Nat.ofDigitChars_replicate_zero, Nat.mul_zero, Nat.ofDigitChars_ten_toDigits]

end Lcdb

