/-
  Helper lemmas for LcdbModel.Model.VersionEdit (core Lean only).
-/
import LcdbModel.Model.VersionEdit
import LcdbModel.Props.CodingProps
namespace Lcdb

/-! ### the (level, number) order and `setInsert` -/

theorem pairLt_iff (a b : Nat × Nat) :
    pairLt a b = true ↔ a.1 < b.1 ∨ (a.1 = b.1 ∧ a.2 < b.2) := by
  simp [pairLt]

theorem pairLt_irrefl (a : Nat × Nat) : ¬ pairLt a a = true := by
  rw [pairLt_iff]; omega

theorem pairLt_asymm {a b : Nat × Nat} (h : pairLt a b = true) : ¬ pairLt b a = true := by
  rw [pairLt_iff] at *; omega

theorem pairLt_trans {a b c : Nat × Nat} (h1 : pairLt a b = true) (h2 : pairLt b c = true) :
    pairLt a c = true := by
  rw [pairLt_iff] at *; omega

/-- trichotomy: not below and not equal means above -/
theorem pairLt_of_not {a b : Nat × Nat} (h1 : ¬ pairLt a b = true) (h2 : a ≠ b) :
    pairLt b a = true := by
  rw [pairLt_iff] at *
  have : ¬ (a.1 = b.1 ∧ a.2 = b.2) := by
    intro h; apply h2; exact Prod.ext h.1 h.2
  omega

theorem mem_setInsert' (x y : Nat × Nat) (l : List (Nat × Nat)) :
    y ∈ setInsert x l ↔ y = x ∨ y ∈ l := by
  induction l with
  | nil => simp [setInsert]
  | cons z zs ih =>
    simp only [setInsert]
    by_cases h1 : pairLt x z = true
    · simp [h1]
    · by_cases h2 : (x == z) = true
      · have : x = z := by simpa using h2
        subst this
        simp [h1]
      · simp only [h1, h2, if_false, Bool.false_eq_true, List.mem_cons, ih]
        constructor
        · rintro (h | h | h) <;> simp [h]
        · rintro (h | h | h) <;> simp [h]

theorem setInsert_idem' (x : Nat × Nat) (l : List (Nat × Nat)) :
    setInsert x (setInsert x l) = setInsert x l := by
  induction l with
  | nil => simp [setInsert, pairLt_irrefl]
  | cons z zs ih =>
    by_cases h1 : pairLt x z = true
    · simp [setInsert, h1, pairLt_irrefl]
    · by_cases h2 : (x == z) = true
      · simp [setInsert, h1, h2]
      · simp [setInsert, h1, h2, ih]

abbrev PairSorted (l : List (Nat × Nat)) : Prop := l.Pairwise (fun a b => pairLt a b = true)

theorem setInsert_sorted' (x : Nat × Nat) (l : List (Nat × Nat)) (h : PairSorted l) :
    PairSorted (setInsert x l) := by
  induction l with
  | nil => simp [setInsert, PairSorted]
  | cons z zs ih =>
    have hz := List.pairwise_cons.mp h
    simp only [setInsert]
    by_cases h1 : pairLt x z = true
    · simp only [h1, if_true]
      refine List.pairwise_cons.mpr ⟨?_, h⟩
      intro w hw
      rcases List.mem_cons.mp hw with rfl | hw
      · exact h1
      · exact pairLt_trans h1 (hz.1 w hw)
    · by_cases h2 : (x == z) = true
      · simp only [h1, h2, if_true, if_false, Bool.false_eq_true]; exact h
      · simp only [h1, h2, if_false, Bool.false_eq_true]
        refine List.pairwise_cons.mpr ⟨?_, ih hz.2⟩
        intro w hw
        rcases (mem_setInsert' x w zs).mp hw with rfl | hw
        · exact pairLt_of_not h1 (by simpa using h2)
        · exact hz.1 w hw

/-- inserting something above every element appends it -/
theorem setInsert_append_of_lt (x : Nat × Nat) (l : List (Nat × Nat))
    (h : ∀ y ∈ l, pairLt y x = true) : setInsert x l = l ++ [x] := by
  induction l with
  | nil => simp [setInsert]
  | cons z zs ih =>
    have hz : pairLt z x = true := h z (by simp)
    have h1 : ¬ pairLt x z = true := pairLt_asymm hz
    have h2 : ¬ (x == z) = true := by
      intro he
      have : x = z := by simpa using he
      subst this
      exact pairLt_irrefl _ hz
    simp only [setInsert, h1, h2, if_false, Bool.false_eq_true, List.cons_append]
    rw [ih (fun y hy => h y (by simp [hy]))]

/-- replaying a strictly sorted list of insertions on top of a list it extends reproduces it -/
theorem foldl_setInsert_sorted (l acc : List (Nat × Nat)) (h : PairSorted (acc ++ l)) :
    l.foldl (fun s x => setInsert x s) acc = acc ++ l := by
  induction l generalizing acc with
  | nil => simp
  | cons x xs ih =>
    have hx : ∀ y ∈ acc, pairLt y x = true := by
      intro y hy
      have := List.pairwise_append.mp h
      exact this.2.2 y hy x (by simp)
    simp only [List.foldl_cons]
    rw [setInsert_append_of_lt x acc hx]
    rw [ih (acc ++ [x]) (by simpa using h)]
    simp

/-! ### one loop iteration with the recursive call abstracted -/

/-- the body of one iteration of `editDecodeGo` after the tag has been read;
    `k` stands for the recursive call `editDecodeGo fuel` -/
def editBody (k : Bytes → Edit → Option Edit) (tag : Nat) (r : Bytes) (e : Edit) : Option Edit :=
  if tag == tagComparator then
    match sliceRead r with
    | none => none
    | some (c, r) => k r { e with comparator := some c }
  else if tag == tagLogNumber then
    match varint64Read r with
    | none => none
    | some (v, r) => k r { e with logNumber := some v }
  else if tag == tagPrevLogNumber then
    match varint64Read r with
    | none => none
    | some (v, r) => k r { e with prevLogNumber := some v }
  else if tag == tagNextFileNumber then
    match varint64Read r with
    | none => none
    | some (v, r) => k r { e with nextFile := some v }
  else if tag == tagLastSequence then
    match varint64Read r with
    | none => none
    | some (v, r) => k r { e with lastSeq := some v }
  else if tag == tagCompactPointer then
    match levelRead r with
    | none => none
    | some (l, r) =>
      match sliceRead r with
      | none => none
      | some (k', r) => if k'.length < 8 then none
                       else k r { e with compactPointers := e.compactPointers ++ [(l, k')] }
  else if tag == tagDeletedFile then
    match levelRead r with
    | none => none
    | some (l, r) =>
      match varint64Read r with
      | none => none
      | some (n, r) => k r { e with deletedFiles := setInsert (l, n) e.deletedFiles }
  else if tag == tagNewFile then
    match levelRead r with
    | none => none
    | some (l, r) =>
      match varint64Read r with
      | none => none
      | some (n, r) =>
        match varint64Read r with
        | none => none
        | some (sz, r) =>
          match sliceRead r with
          | none => none
          | some (s, r) =>
            match sliceRead r with
            | none => none
            | some (lg, r) =>
              if s.length < 8 || lg.length < 8 then none
              else k r { e with newFiles := e.newFiles ++ [{ level := l, number := n, size := sz, smallest := s, largest := lg }] }
  else none

theorem editDecodeGo_succ_cons (fuel : Nat) (b : Byte) (bs : Bytes) (e : Edit) :
    editDecodeGo (fuel + 1) (b :: bs) e =
      match varint32Read (b :: bs) with
      | none => none
      | some (tag, r) => editBody (editDecodeGo fuel) tag r e := by
  rw [editDecodeGo]
  rfl

theorem levelRead_rest_lt (bs : Bytes) (v : Nat) (rest : Bytes)
    (h : levelRead bs = some (v, rest)) : rest.length < bs.length := by
  unfold levelRead at h
  cases hv : varint32Read bs with
  | none => simp [hv] at h
  | some p =>
    obtain ⟨n, r⟩ := p
    simp only [hv] at h
    by_cases hl : n ≥ numLevels
    · simp [hl] at h
    · simp only [hl, if_false, Option.some.injEq, Prod.mk.injEq] at h
      rw [← h.2]; exact varint32Read_rest_lt bs n r hv

theorem levelRead_enc (l : Nat) (rest : Bytes) (h : l < numLevels) :
    levelRead (varintEnc l ++ rest) = some (l, rest) := by
  unfold levelRead
  have : l < 2 ^ 32 := by unfold numLevels at h; omega
  rw [varint32_roundtrip l rest this]
  have : ¬ l ≥ numLevels := by omega
  simp [this]

/-- the body only ever calls its continuation on strictly shorter inputs -/
theorem editBody_congr (k1 k2 : Bytes → Edit → Option Edit) (tag : Nat) (r : Bytes) (e : Edit)
    (h : ∀ r' e', r'.length < r.length → k1 r' e' = k2 r' e') :
    editBody k1 tag r e = editBody k2 tag r e := by
  unfold editBody
  by_cases h1 : (tag == tagComparator) = true
  · simp only [h1, if_true]
    cases hs : sliceRead r with
    | none => rfl
    | some p => exact h _ _ (sliceRead_rest_lt _ _ _ hs)
  simp only [h1, if_false, Bool.false_eq_true]
  by_cases h2 : (tag == tagLogNumber) = true
  · simp only [h2, if_true]
    cases hs : varint64Read r with
    | none => rfl
    | some p => exact h _ _ (varint64Read_rest_lt _ _ _ hs)
  simp only [h2, if_false, Bool.false_eq_true]
  by_cases h3 : (tag == tagPrevLogNumber) = true
  · simp only [h3, if_true]
    cases hs : varint64Read r with
    | none => rfl
    | some p => exact h _ _ (varint64Read_rest_lt _ _ _ hs)
  simp only [h3, if_false, Bool.false_eq_true]
  by_cases h4 : (tag == tagNextFileNumber) = true
  · simp only [h4, if_true]
    cases hs : varint64Read r with
    | none => rfl
    | some p => exact h _ _ (varint64Read_rest_lt _ _ _ hs)
  simp only [h4, if_false, Bool.false_eq_true]
  by_cases h5 : (tag == tagLastSequence) = true
  · simp only [h5, if_true]
    cases hs : varint64Read r with
    | none => rfl
    | some p => exact h _ _ (varint64Read_rest_lt _ _ _ hs)
  simp only [h5, if_false, Bool.false_eq_true]
  by_cases h6 : (tag == tagCompactPointer) = true
  · simp only [h6, if_true]
    cases hl : levelRead r with
    | none => rfl
    | some p =>
      obtain ⟨l, r1⟩ := p
      have := levelRead_rest_lt _ _ _ hl
      simp only
      cases hs : sliceRead r1 with
      | none => rfl
      | some q =>
        obtain ⟨s, r2⟩ := q
        have := sliceRead_rest_lt _ _ _ hs
        simp only
        split
        · rfl
        · exact h _ _ (by omega)
  simp only [h6, if_false, Bool.false_eq_true]
  by_cases h7 : (tag == tagDeletedFile) = true
  · simp only [h7, if_true]
    cases hl : levelRead r with
    | none => rfl
    | some p =>
      obtain ⟨l, r1⟩ := p
      have := levelRead_rest_lt _ _ _ hl
      simp only
      cases hs : varint64Read r1 with
      | none => rfl
      | some q =>
        obtain ⟨s, r2⟩ := q
        have := varint64Read_rest_lt _ _ _ hs
        exact h _ _ (by omega)
  simp only [h7, if_false, Bool.false_eq_true]
  by_cases h8 : (tag == tagNewFile) = true
  · simp only [h8, if_true]
    cases hl : levelRead r with
    | none => rfl
    | some p =>
      obtain ⟨l, r1⟩ := p
      have := levelRead_rest_lt _ _ _ hl
      simp only
      cases hs : varint64Read r1 with
      | none => rfl
      | some q =>
        obtain ⟨n, r2⟩ := q
        have := varint64Read_rest_lt _ _ _ hs
        simp only
        cases hs2 : varint64Read r2 with
        | none => rfl
        | some q2 =>
          obtain ⟨sz, r3⟩ := q2
          have := varint64Read_rest_lt _ _ _ hs2
          simp only
          cases hs3 : sliceRead r3 with
          | none => rfl
          | some q3 =>
            obtain ⟨sm, r4⟩ := q3
            have := sliceRead_rest_lt _ _ _ hs3
            simp only
            cases hs4 : sliceRead r4 with
            | none => rfl
            | some q4 =>
              obtain ⟨lg, r5⟩ := q4
              have := sliceRead_rest_lt _ _ _ hs4
              simp only
              split
              · rfl
              · exact h _ _ (by omega)
  simp only [h8, if_false, Bool.false_eq_true]

/-! ### fuel -/

theorem editDecodeGo_fuel_eq (f1 : Nat) : ∀ (f2 : Nat) (bs : Bytes) (e : Edit),
    bs.length < f1 → bs.length < f2 → editDecodeGo f1 bs e = editDecodeGo f2 bs e := by
  induction f1 with
  | zero => intro f2 bs e h1; omega
  | succ f1 ih =>
    intro f2 bs e h1 h2
    cases f2 with
    | zero => omega
    | succ f2 =>
      cases bs with
      | nil => simp [editDecodeGo]
      | cons b bs =>
        rw [editDecodeGo_succ_cons, editDecodeGo_succ_cons]
        cases hv : varint32Read (b :: bs) with
        | none => rfl
        | some p =>
          obtain ⟨tag, r⟩ := p
          have hr := varint32Read_rest_lt _ _ _ hv
          simp only
          apply editBody_congr
          intro r' e' hr'
          apply ih <;> omega

/-- decode with the canonical amount of fuel, starting from an arbitrary accumulated edit -/
def editDecodeFrom (bs : Bytes) (e : Edit) : Option Edit := editDecodeGo (bs.length + 1) bs e

theorem editDecode_eq_from (bs : Bytes) : editDecode bs = editDecodeFrom bs {} := rfl

theorem editDecodeGo_eq_from (f : Nat) (bs : Bytes) (e : Edit) (h : bs.length < f) :
    editDecodeGo f bs e = editDecodeFrom bs e :=
  editDecodeGo_fuel_eq f (bs.length + 1) bs e h (by omega)

theorem editDecodeFrom_nil (e : Edit) : editDecodeFrom [] e = some e := by
  simp [editDecodeFrom, editDecodeGo]

/-- one iteration on an input starting with a one-byte tag -/
theorem editDecodeFrom_tag (t : Nat) (ht : t < 128) (r : Bytes) (e : Edit) :
    editDecodeFrom (varintEnc t ++ r) e = editBody editDecodeFrom t r e := by
  have hrt := varint32_roundtrip t r (by omega)
  rw [varintEnc_lt t ht] at hrt ⊢
  simp only [List.cons_append, List.nil_append] at hrt ⊢
  unfold editDecodeFrom
  simp only [List.length_cons]
  rw [editDecodeGo_succ_cons, hrt]
  simp only
  apply editBody_congr
  intro r' e' hr'
  exact editDecodeGo_eq_from _ _ _ (by omega)

/-! ### one step per record kind -/

theorem from_comparator (c rest : Bytes) (e : Edit) (h : c.length < 2 ^ 32) :
    editDecodeFrom (varintEnc tagComparator ++ (sliceEnc c ++ rest)) e
      = editDecodeFrom rest { e with comparator := some c } := by
  rw [editDecodeFrom_tag _ (by decide)]
  simp [editBody, sliceRead_sliceEnc c rest h]

theorem from_logNumber (v : Nat) (rest : Bytes) (e : Edit) (h : v < 2 ^ 64) :
    editDecodeFrom (varintEnc tagLogNumber ++ (varintEnc v ++ rest)) e
      = editDecodeFrom rest { e with logNumber := some v } := by
  rw [editDecodeFrom_tag _ (by decide)]
  simp [editBody, varint64_roundtrip v rest h, tagLogNumber, tagComparator]

theorem from_prevLogNumber (v : Nat) (rest : Bytes) (e : Edit) (h : v < 2 ^ 64) :
    editDecodeFrom (varintEnc tagPrevLogNumber ++ (varintEnc v ++ rest)) e
      = editDecodeFrom rest { e with prevLogNumber := some v } := by
  rw [editDecodeFrom_tag _ (by decide)]
  simp [editBody, varint64_roundtrip v rest h, tagPrevLogNumber, tagLogNumber, tagComparator]

theorem from_nextFile (v : Nat) (rest : Bytes) (e : Edit) (h : v < 2 ^ 64) :
    editDecodeFrom (varintEnc tagNextFileNumber ++ (varintEnc v ++ rest)) e
      = editDecodeFrom rest { e with nextFile := some v } := by
  rw [editDecodeFrom_tag _ (by decide)]
  simp [editBody, varint64_roundtrip v rest h, tagNextFileNumber, tagPrevLogNumber, tagLogNumber,
    tagComparator]

theorem from_lastSeq (v : Nat) (rest : Bytes) (e : Edit) (h : v < 2 ^ 64) :
    editDecodeFrom (varintEnc tagLastSequence ++ (varintEnc v ++ rest)) e
      = editDecodeFrom rest { e with lastSeq := some v } := by
  rw [editDecodeFrom_tag _ (by decide)]
  simp [editBody, varint64_roundtrip v rest h, tagLastSequence, tagNextFileNumber,
    tagPrevLogNumber, tagLogNumber, tagComparator]

theorem from_compactPointer (l : Nat) (k rest : Bytes) (e : Edit) (hl : l < numLevels)
    (hk8 : 8 ≤ k.length) (hk : k.length < 2 ^ 32) :
    editDecodeFrom (varintEnc tagCompactPointer ++ (varintEnc l ++ (sliceEnc k ++ rest))) e
      = editDecodeFrom rest { e with compactPointers := e.compactPointers ++ [(l, k)] } := by
  rw [editDecodeFrom_tag _ (by decide)]
  have : ¬ k.length < 8 := by omega
  simp [editBody, levelRead_enc l _ hl, sliceRead_sliceEnc k rest hk, this, tagCompactPointer,
    tagLastSequence, tagNextFileNumber, tagPrevLogNumber, tagLogNumber, tagComparator]

theorem from_deletedFile (l n : Nat) (rest : Bytes) (e : Edit) (hl : l < numLevels)
    (hn : n < 2 ^ 64) :
    editDecodeFrom (varintEnc tagDeletedFile ++ (varintEnc l ++ (varintEnc n ++ rest))) e
      = editDecodeFrom rest { e with deletedFiles := setInsert (l, n) e.deletedFiles } := by
  rw [editDecodeFrom_tag _ (by decide)]
  simp [editBody, levelRead_enc l _ hl, varint64_roundtrip n rest hn, tagDeletedFile,
    tagCompactPointer, tagLastSequence, tagNextFileNumber, tagPrevLogNumber, tagLogNumber,
    tagComparator]

theorem from_newFile (f : NewFile) (rest : Bytes) (e : Edit) (hl : f.level < numLevels)
    (hn : f.number < 2 ^ 64) (hsz : f.size < 2 ^ 64)
    (hs8 : 8 ≤ f.smallest.length) (hs : f.smallest.length < 2 ^ 32)
    (hg8 : 8 ≤ f.largest.length) (hg : f.largest.length < 2 ^ 32) :
    editDecodeFrom (varintEnc tagNewFile ++ (varintEnc f.level ++ (varintEnc f.number ++
        (varintEnc f.size ++ (sliceEnc f.smallest ++ (sliceEnc f.largest ++ rest)))))) e
      = editDecodeFrom rest { e with newFiles := e.newFiles ++ [f] } := by
  rw [editDecodeFrom_tag _ (by decide)]
  have h1 : ¬ f.smallest.length < 8 := by omega
  have h2 : ¬ f.largest.length < 8 := by omega
  simp [editBody, levelRead_enc f.level _ hl, varint64_roundtrip f.number _ hn,
    varint64_roundtrip f.size _ hsz, sliceRead_sliceEnc f.smallest _ hs,
    sliceRead_sliceEnc f.largest _ hg, h1, h2, tagNewFile, tagDeletedFile,
    tagCompactPointer, tagLastSequence, tagNextFileNumber, tagPrevLogNumber, tagLogNumber,
    tagComparator]

/-! ### well-formed edits, merging, and decoding a whole encoded edit -/

/-- the edits the writer can legitimately be handed (what `ldb_edit_export` assumes) -/
structure EditWF (e : Edit) : Prop where
  comparator : ∀ c, e.comparator = some c → c.length < 2 ^ 32
  logNumber : ∀ v, e.logNumber = some v → v < 2 ^ 64
  prevLogNumber : ∀ v, e.prevLogNumber = some v → v < 2 ^ 64
  nextFile : ∀ v, e.nextFile = some v → v < 2 ^ 64
  lastSeq : ∀ v, e.lastSeq = some v → v < 2 ^ 64
  compactPointers : ∀ p ∈ e.compactPointers, p.1 < numLevels ∧ 8 ≤ p.2.length ∧ p.2.length < 2 ^ 32
  deletedFiles : ∀ p ∈ e.deletedFiles, p.1 < numLevels ∧ p.2 < 2 ^ 64
  deletedSorted : e.deletedFiles.Pairwise (fun a b => pairLt a b = true)
  newFiles : ∀ f ∈ e.newFiles, f.level < numLevels ∧ f.number < 2 ^ 64 ∧ f.size < 2 ^ 64 ∧
    8 ≤ f.smallest.length ∧ f.smallest.length < 2 ^ 32 ∧
    8 ≤ f.largest.length ∧ f.largest.length < 2 ^ 32

/-- what the reader computes when the records of `b` are applied on top of `a`:
    later scalars win, lists append, deleted files are inserted into the set in order -/
def editMerge (a b : Edit) : Edit :=
  { comparator := b.comparator.or a.comparator
    logNumber := b.logNumber.or a.logNumber
    prevLogNumber := b.prevLogNumber.or a.prevLogNumber
    nextFile := b.nextFile.or a.nextFile
    lastSeq := b.lastSeq.or a.lastSeq
    compactPointers := a.compactPointers ++ b.compactPointers
    deletedFiles := b.deletedFiles.foldl (fun s x => setInsert x s) a.deletedFiles
    newFiles := a.newFiles ++ b.newFiles }

theorem editMerge_empty (e : Edit) (h : PairSorted e.deletedFiles) : editMerge {} e = e := by
  cases e
  simp only [editMerge, Option.or_none, List.nil_append, Edit.mk.injEq, true_and, and_true]
  simpa using foldl_setInsert_sorted _ [] (by simpa using h)

theorem from_optComparator (o : Option Bytes) (rest : Bytes) (e : Edit)
    (h : ∀ c, o = some c → c.length < 2 ^ 32) :
    editDecodeFrom ((match (motive := Option Bytes → Bytes) o with
        | none => [] | some c => varintEnc tagComparator ++ sliceEnc c)
        ++ rest) e
      = editDecodeFrom rest { e with comparator := o.or e.comparator } := by
  cases o with
  | none => rfl
  | some c =>
    simp only [List.append_assoc, Option.some_or]
    exact from_comparator c rest e (h c rfl)

theorem from_optLogNumber (o : Option Nat) (rest : Bytes) (e : Edit)
    (h : ∀ v, o = some v → v < 2 ^ 64) :
    editDecodeFrom (optField tagLogNumber o ++ rest) e
      = editDecodeFrom rest { e with logNumber := o.or e.logNumber } := by
  cases o with
  | none => rfl
  | some v =>
    simp only [optField, List.append_assoc, Option.some_or]
    exact from_logNumber v rest e (h v rfl)

theorem from_optPrevLogNumber (o : Option Nat) (rest : Bytes) (e : Edit)
    (h : ∀ v, o = some v → v < 2 ^ 64) :
    editDecodeFrom (optField tagPrevLogNumber o ++ rest) e
      = editDecodeFrom rest { e with prevLogNumber := o.or e.prevLogNumber } := by
  cases o with
  | none => rfl
  | some v =>
    simp only [optField, List.append_assoc, Option.some_or]
    exact from_prevLogNumber v rest e (h v rfl)

theorem from_optNextFile (o : Option Nat) (rest : Bytes) (e : Edit)
    (h : ∀ v, o = some v → v < 2 ^ 64) :
    editDecodeFrom (optField tagNextFileNumber o ++ rest) e
      = editDecodeFrom rest { e with nextFile := o.or e.nextFile } := by
  cases o with
  | none => rfl
  | some v =>
    simp only [optField, List.append_assoc, Option.some_or]
    exact from_nextFile v rest e (h v rfl)

theorem from_optLastSeq (o : Option Nat) (rest : Bytes) (e : Edit)
    (h : ∀ v, o = some v → v < 2 ^ 64) :
    editDecodeFrom (optField tagLastSequence o ++ rest) e
      = editDecodeFrom rest { e with lastSeq := o.or e.lastSeq } := by
  cases o with
  | none => rfl
  | some v =>
    simp only [optField, List.append_assoc, Option.some_or]
    exact from_lastSeq v rest e (h v rfl)

theorem from_compactPointer' (l : Nat) (k rest : Bytes) (e : Edit) (hl : l < numLevels)
    (hk8 : 8 ≤ k.length) (hk : k.length < 2 ^ 32) :
    editDecodeFrom ((varintEnc tagCompactPointer ++ varintEnc l ++ sliceEnc k) ++ rest) e
      = editDecodeFrom rest { e with compactPointers := e.compactPointers ++ [(l, k)] } := by
  simpa only [List.append_assoc] using from_compactPointer l k rest e hl hk8 hk

theorem from_deletedFile' (l n : Nat) (rest : Bytes) (e : Edit) (hl : l < numLevels)
    (hn : n < 2 ^ 64) :
    editDecodeFrom ((varintEnc tagDeletedFile ++ varintEnc l ++ varintEnc n) ++ rest) e
      = editDecodeFrom rest { e with deletedFiles := setInsert (l, n) e.deletedFiles } := by
  simpa only [List.append_assoc] using from_deletedFile l n rest e hl hn

theorem from_newFile' (f : NewFile) (rest : Bytes) (e : Edit) (hl : f.level < numLevels)
    (hn : f.number < 2 ^ 64) (hsz : f.size < 2 ^ 64)
    (hs8 : 8 ≤ f.smallest.length) (hs : f.smallest.length < 2 ^ 32)
    (hg8 : 8 ≤ f.largest.length) (hg : f.largest.length < 2 ^ 32) :
    editDecodeFrom ((varintEnc tagNewFile ++ varintEnc f.level ++ varintEnc f.number ++
        varintEnc f.size ++ sliceEnc f.smallest ++ sliceEnc f.largest) ++ rest) e
      = editDecodeFrom rest { e with newFiles := e.newFiles ++ [f] } := by
  simpa only [List.append_assoc] using from_newFile f rest e hl hn hsz hs8 hs hg8 hg

theorem from_compactPointers (l : List (Nat × Bytes)) (rest : Bytes) (e : Edit)
    (h : ∀ p ∈ l, p.1 < numLevels ∧ 8 ≤ p.2.length ∧ p.2.length < 2 ^ 32) :
    editDecodeFrom ((l.map fun (lv, k) => varintEnc tagCompactPointer ++ varintEnc lv ++ sliceEnc k).flatten
        ++ rest) e
      = editDecodeFrom rest { e with compactPointers := e.compactPointers ++ l } := by
  induction l generalizing e with
  | nil => simp
  | cons p ps ih =>
    obtain ⟨lv, k⟩ := p
    have hp := h (lv, k) (by simp)
    rw [List.map_cons, List.flatten_cons, List.append_assoc _ (List.flatten _) rest]
    refine (from_compactPointer' lv k _ e hp.1 hp.2.1 hp.2.2).trans ?_
    refine (ih _ (fun q hq => h q (by simp [hq]))).trans ?_
    simp

theorem from_deletedFiles (l : List (Nat × Nat)) (rest : Bytes) (e : Edit)
    (h : ∀ p ∈ l, p.1 < numLevels ∧ p.2 < 2 ^ 64) :
    editDecodeFrom ((l.map fun (lv, n) => varintEnc tagDeletedFile ++ varintEnc lv ++ varintEnc n).flatten
        ++ rest) e
      = editDecodeFrom rest
          { e with deletedFiles := l.foldl (fun s x => setInsert x s) e.deletedFiles } := by
  induction l generalizing e with
  | nil => simp
  | cons p ps ih =>
    obtain ⟨lv, n⟩ := p
    have hp := h (lv, n) (by simp)
    rw [List.map_cons, List.flatten_cons, List.append_assoc _ (List.flatten _) rest]
    refine (from_deletedFile' lv n _ e hp.1 hp.2).trans ?_
    refine (ih _ (fun q hq => h q (by simp [hq]))).trans ?_
    simp

theorem from_newFiles (l : List NewFile) (rest : Bytes) (e : Edit)
    (h : ∀ f ∈ l, f.level < numLevels ∧ f.number < 2 ^ 64 ∧ f.size < 2 ^ 64 ∧
      8 ≤ f.smallest.length ∧ f.smallest.length < 2 ^ 32 ∧
      8 ≤ f.largest.length ∧ f.largest.length < 2 ^ 32) :
    editDecodeFrom ((l.map fun f => varintEnc tagNewFile ++ varintEnc f.level ++ varintEnc f.number
        ++ varintEnc f.size ++ sliceEnc f.smallest ++ sliceEnc f.largest).flatten ++ rest) e
      = editDecodeFrom rest { e with newFiles := e.newFiles ++ l } := by
  induction l generalizing e with
  | nil => simp
  | cons f fs ih =>
    have hf := h f (by simp)
    rw [List.map_cons, List.flatten_cons, List.append_assoc _ (List.flatten _) rest]
    refine (from_newFile' f _ e hf.1 hf.2.1 hf.2.2.1 hf.2.2.2.1 hf.2.2.2.2.1 hf.2.2.2.2.2.1
      hf.2.2.2.2.2.2).trans ?_
    refine (ih _ (fun q hq => h q (by simp [hq]))).trans ?_
    simp

theorem append8 {α : Type} (a b c d e f g h rest : List α) :
    a ++ b ++ c ++ d ++ e ++ f ++ g ++ h ++ rest
      = a ++ (b ++ (c ++ (d ++ (e ++ (f ++ (g ++ (h ++ rest))))))) := by
  simp only [List.append_assoc]

/-- decoding an encoded well-formed edit followed by anything applies it to the accumulator
    and continues with the remainder -/
theorem editDecodeFrom_encode (b : Edit) (hb : EditWF b) (rest : Bytes) (e : Edit) :
    editDecodeFrom (editEncode b ++ rest) e = editDecodeFrom rest (editMerge e b) := by
  unfold editEncode
  rw [append8]
  refine (from_optComparator b.comparator _ e hb.comparator).trans ?_
  refine (from_optLogNumber b.logNumber _ _ hb.logNumber).trans ?_
  refine (from_optPrevLogNumber b.prevLogNumber _ _ hb.prevLogNumber).trans ?_
  refine (from_optNextFile b.nextFile _ _ hb.nextFile).trans ?_
  refine (from_optLastSeq b.lastSeq _ _ hb.lastSeq).trans ?_
  refine (from_compactPointers b.compactPointers _ _ hb.compactPointers).trans ?_
  refine (from_deletedFiles b.deletedFiles _ _ hb.deletedFiles).trans ?_
  refine (from_newFiles b.newFiles _ _ hb.newFiles).trans ?_
  rfl

end Lcdb
