/-
  ldb_versions_pick_compaction (version_set.c:2049): whatever it returns was produced by
  setup_other_inputs from a seed that is `SeedOk` (size compaction: first file after the compact pointer or
  the wrap-around file; seek compaction: the victim; level 0: the re-expansion by get_overlapping_inputs).
-/
import LcdbModel.Lemmas.PolicyTotal
set_option linter.unusedSimpArgs false
namespace Lcdb.Policy
open Lcdb.CmpBasic Lcdb.Lsm

/-- the tail of pick_compaction (level-0 re-expansion + setup_other_inputs) from a single picked file -/
theorem pickTail_seed {c : Cmp} {mfs : Nat} {v : Version} {lvl level : Nat} {s : Setup} {f : FileMeta}
    (hb : ∀ l, BoundsOk c (v.files l)) (hf : f ∈ v.files lvl)
    (hk : (match (if (lvl == 0) = true then
          match getRange c [f] with
          | none => none
          | some r => versionGoi c v 0 (some r.1) (some r.2)
        else some [f]) with
      | none => none
      | some in0' => (versionSetup c mfs v lvl in0').map (fun s => some (lvl, s))) = some (some (level, s))) :
    lvl = level ∧ ∃ seed, SeedOk c (v.files level) (level == 0) seed ∧ versionSetup c mfs v level seed = some s := by
  by_cases hl : lvl = 0
  · subst hl
    simp only [beq_self_eq_true, if_true, getRange, minFold, maxFold, List.foldl_nil] at hk
    cases hg : versionGoi c v 0 (some (smallest f)) (some (largest f)) with
    | none => rw [hg] at hk; cases hk
    | some r =>
      rw [hg] at hk
      simp only [Option.map_eq_some_iff, Option.some.injEq, Prod.mk.injEq] at hk
      obtain ⟨s', hs', hlv, rfl⟩ := hk
      subst hlv
      refine ⟨rfl, r, ?_, hs'⟩
      unfold versionGoi at hg
      rw [if_pos (by decide)] at hg
      have hfr : f ∈ r := by
        apply (goi_level0_closed c _ _ _ r hg).2.1 f hf
        rw [rangeHits_iff]
        exact ⟨fun k hk => by cases hk; exact (BoundsOk.user (hb 0)) f hf,
          fun k hk => by cases hk; exact (BoundsOk.user (hb 0)) f hf⟩
      exact seedOk_goi0 hg (fun he => by rw [he] at hfr; cases hfr)
  · have hl0 : (lvl == 0) = false := by simp [hl]
    rw [hl0] at hk
    simp only [Bool.false_eq_true, if_false, Option.map_eq_some_iff, Option.some.injEq, Prod.mk.injEq] at hk
    obtain ⟨s', hs', hlv, rfl⟩ := hk
    subst hlv
    exact ⟨rfl, [f], hl0 ▸ seedOk_singleton (hb lvl) hf, hs'⟩

/-- whatever pick_compaction returns comes out of setup_other_inputs applied to a `SeedOk` seed -/
theorem pickCompaction_seed {c : Cmp} {mfs : Nat} {v : Version} {sz : Option Nat} {seek : Option (Nat × FileMeta)}
    {cp : Option IKey} {level : Nat} {s : Setup} (hb : ∀ l, BoundsOk c (v.files l))
    (hseek : sz = none → ∀ l f, seek = some (l, f) → f ∈ v.files l)
    (h : pickCompaction c mfs v sz seek cp = some (some (level, s))) :
    ∃ seed, SeedOk c (v.files level) (level == 0) seed ∧ versionSetup c mfs v level seed = some s := by
  unfold pickCompaction at h
  simp only at h
  split at h
  · cases h
  · cases h
  · rename_i lvl in0 heq
    -- which file was picked
    have hpick : ∃ f, f ∈ v.files lvl ∧ in0 = [f] := by
      split at heq
      · rename_i l _
        split at heq
        · split at heq
          · rename_i f hfa
            simp only [Option.some.injEq, Prod.mk.injEq] at heq
            obtain ⟨rfl, rfl⟩ := heq
            exact ⟨f, List.mem_of_find?_eq_some hfa, rfl⟩
          · split at heq
            · cases heq
            · rename_i f tl hfiles
              simp only [Option.some.injEq, Prod.mk.injEq] at heq
              obtain ⟨rfl, rfl⟩ := heq
              exact ⟨f, by rw [hfiles]; exact List.mem_cons_self, rfl⟩
        · cases heq
      · rename_i l f
        simp only [Option.some.injEq, Prod.mk.injEq] at heq
        obtain ⟨rfl, rfl⟩ := heq
        exact ⟨f, hseek rfl l f rfl, rfl⟩
      · cases heq
    obtain ⟨f, hf, rfl⟩ := hpick
    obtain ⟨rfl, hres⟩ := pickTail_seed hb hf h
    exact hres

end Lcdb.Policy
