/-
  Helper lemmas for Model/WFile.lean: the write loop, flush/append0/sync0 as byte conservation facts,
  and the step invariants of operation sequences.
-/
import LcdbModel.Model.WFile
namespace Lcdb.WFile

def Sys.isWrite : Sys → Bool
  | .write _ _ => true
  | .writeErr _ _ => true
  | _ => false

/-- no write(2) answer of the script is a failure other than EINTR -/
def Oracle.WNoFault (orc : Oracle) : Prop := ∀ a ∈ orc.w, a.isFault = false

theorem transferred_append (a b : List Sys) : transferred (a ++ b) = transferred a ++ transferred b := by
  induction a with
  | nil => rfl
  | cons x t ih => cases x <;> simp [transferred, ih]

theorem transferred_nil : transferred [] = [] := rfl

theorem drainGo_transferred : ∀ (fuel : Nat) (data : Bytes), data.length ≤ fuel → transferred (drainGo fuel data) = data := by
  intro fuel
  induction fuel with
  | zero => intro data h; have : data = [] := List.eq_nil_of_length_eq_zero (by omega); subst this; rfl
  | succ n ih =>
    intro data h
    cases data with
    | nil => simp [drainGo, transferred]
    | cons b bs =>
      have := maxReq_pos
      simp only [drainGo, List.isEmpty_cons, Bool.false_eq_true, ↓reduceIte, transferred]
      rw [ih]
      · simp
      · simp at h ⊢; omega

theorem drainGo_isWrite : ∀ (fuel : Nat) (data : Bytes), ∀ e ∈ drainGo fuel data, e.isWrite = true := by
  intro fuel
  induction fuel with
  | zero => intro data e he; simp [drainGo] at he
  | succ n ih =>
    intro data e he
    cases data with
    | nil => simp [drainGo] at he
    | cons b bs =>
      simp only [drainGo, List.isEmpty_cons, Bool.false_eq_true, ↓reduceIte, List.mem_cons] at he
      rcases he with he | he
      · subst he; rfl
      · exact ih _ e he

/-! ### osWrite -/

theorem osWrite_ok : ∀ (s : List WAns) (data : Bytes), (osWrite data s).rc = .ok → transferred (osWrite data s).ev = data := by
  intro s
  induction s with
  | nil => intro data _; simp [osWrite, drainGo_transferred]
  | cons a rest ih =>
    intro data h
    cases data with
    | nil => simp [osWrite, transferred]
    | cons b bs =>
      cases a with
      | err e =>
        by_cases he : e = .eintr
        · simp [osWrite, he, transferred] at h ⊢; exact ih _ h
        · simp [osWrite, he] at h
      | _ =>
        simp [osWrite, transferred] at h ⊢
        rw [ih _ h]; simp

theorem osWrite_prefix : ∀ (s : List WAns) (data : Bytes), transferred (osWrite data s).ev <+: data := by
  intro s
  induction s with
  | nil => intro data; simp [osWrite, drainGo_transferred]
  | cons a rest ih =>
    intro data
    cases data with
    | nil => simp [osWrite, transferred]
    | cons b bs =>
      cases a with
      | err e =>
        by_cases he : e = .eintr
        · simp only [osWrite, he, transferred, List.isEmpty_cons, Bool.false_eq_true, ↓reduceIte]; exact ih _
        · simp [osWrite, he, transferred]
      | _ =>
        simp only [osWrite, transferred, List.isEmpty_cons, Bool.false_eq_true, ↓reduceIte]
        refine List.IsPrefix.trans (List.prefix_append_right_inj _ |>.mpr (ih _)) ?_
        rw [List.take_append_drop]
        exact List.prefix_refl _

theorem osWrite_nofault : ∀ (s : List WAns) (data : Bytes), (∀ a ∈ s, a.isFault = false) → (osWrite data s).rc = .ok := by
  intro s
  induction s with
  | nil => intro data _; simp [osWrite]
  | cons a rest ih =>
    intro data h
    have hr : ∀ a ∈ rest, a.isFault = false := fun x hx => h x (List.mem_cons_of_mem _ hx)
    cases data with
    | nil => simp [osWrite]
    | cons b bs =>
      cases a with
      | err e =>
        have he : e = .eintr := by
          have := h (.err e) (List.mem_cons_self ..)
          simpa [WAns.isFault] using this
        simp [osWrite, he]; exact ih _ hr
      | _ => simp [osWrite]; exact ih _ hr

theorem osWrite_rest_suffix : ∀ (s : List WAns) (data : Bytes), (osWrite data s).rest <:+ s := by
  intro s
  induction s with
  | nil => intro data; simp [osWrite]
  | cons a rest ih =>
    intro data
    cases data with
    | nil => simp [osWrite]
    | cons b bs =>
      cases a with
      | err e =>
        by_cases he : e = .eintr
        · simp only [osWrite, he, List.isEmpty_cons, Bool.false_eq_true, ↓reduceIte]
          exact (ih _).trans (List.suffix_cons _ _)
        · simp [osWrite, he]
      | _ =>
        simp only [osWrite, List.isEmpty_cons, Bool.false_eq_true, ↓reduceIte]
        exact (ih _).trans (List.suffix_cons _ _)

theorem osWrite_isWrite : ∀ (s : List WAns) (data : Bytes), ∀ e ∈ (osWrite data s).ev, e.isWrite = true := by
  intro s
  induction s with
  | nil => intro data e he; simp [osWrite] at he; exact drainGo_isWrite _ _ e he
  | cons a rest ih =>
    intro data e he
    cases data with
    | nil => simp [osWrite] at he
    | cons b bs =>
      cases a with
      | err x =>
        by_cases hx : x = .eintr
        · simp only [osWrite, hx, List.isEmpty_cons, Bool.false_eq_true, ↓reduceIte, List.mem_cons] at he
          rcases he with he | he
          · subst he; rfl
          · exact ih _ e he
        · simp [osWrite, hx] at he; subst he; rfl
      | _ =>
        simp only [osWrite, List.isEmpty_cons, Bool.false_eq_true, ↓reduceIte, List.mem_cons] at he
        rcases he with he | he
        · subst he; rfl
        · exact ih _ e he

/-- a failing `ldb_write` fails with the errno of its last write(2) call, which is not EINTR -/
theorem osWrite_err : ∀ (s : List WAns) (data : Bytes) (e : Errno), (osWrite data s).rc = .err e →
    e ≠ .eintr ∧ ∃ pre req, (osWrite data s).ev = pre ++ [.writeErr req e] := by
  intro s
  induction s with
  | nil => intro data e h; simp [osWrite] at h
  | cons a rest ih =>
    intro data e h
    cases data with
    | nil => simp [osWrite] at h
    | cons b bs =>
      cases a with
      | err x =>
        by_cases hx : x = .eintr
        · simp only [osWrite, hx, List.isEmpty_cons, Bool.false_eq_true, ↓reduceIte] at h ⊢
          obtain ⟨h1, pre, req, h2⟩ := ih _ e h
          exact ⟨h1, _ :: pre, req, by rw [h2]; rfl⟩
        · simp [osWrite, hx] at h ⊢
          subst h
          exact ⟨hx, [], by simp⟩
      | _ =>
        simp only [osWrite, List.isEmpty_cons, Bool.false_eq_true, ↓reduceIte] at h ⊢
        obtain ⟨h1, pre, req, h2⟩ := ih _ e h
        exact ⟨h1, _ :: pre, req, by rw [h2]; rfl⟩

/-- an empty request issues no system call at all -/
theorem osWrite_nil (s : List WAns) : (osWrite [] s).ev = [] ∧ (osWrite [] s).rc = .ok ∧ (osWrite [] s).rest = s := by
  cases s <;> simp [osWrite, drainGo]


theorem wnofault_of_suffix {orc : Oracle} {l : List WAns} (h : orc.WNoFault) (hs : l <:+ orc.w) : ∀ a ∈ l, a.isFault = false :=
  fun a ha => h a (hs.subset ha)

/-- what every file operation guarantees about the bytes, whatever the environment answers -/
structure OpFacts (cap : Nat) (f : WF) (orc : Oracle) (d : Bytes) (r : Res) : Prop where
  buf_le : r.f.buf.length ≤ cap
  pre : transferred r.ev <+: f.buf ++ d
  sub : (transferred r.ev ++ r.f.buf).Sublist (f.buf ++ d)
  ok : r.rc = .ok → transferred r.ev ++ r.f.buf = f.buf ++ d
  nf : orc.WNoFault → transferred r.ev ++ r.f.buf = f.buf ++ d ∧ r.orc.WNoFault
  man : r.f.manifest = f.manifest

theorem wfWrite_ev (data : Bytes) (orc : Oracle) : (wfWrite data orc).ev = (osWrite data orc.w).ev := rfl
theorem wfWrite_rc (data : Bytes) (orc : Oracle) : (wfWrite data orc).rc = (osWrite data orc.w).rc := rfl
theorem wfWrite_w (data : Bytes) (orc : Oracle) : (wfWrite data orc).orc.w = (osWrite data orc.w).rest := rfl

theorem wfWrite_wnofault (data : Bytes) (orc : Oracle) (h : orc.WNoFault) :
    (wfWrite data orc).rc = .ok ∧ (wfWrite data orc).orc.WNoFault :=
  ⟨osWrite_nofault _ _ h, wnofault_of_suffix h (osWrite_rest_suffix _ _)⟩

theorem flush_buf (f : WF) (orc : Oracle) : (flush f orc).f.buf = [] := rfl

theorem flush_facts (cap : Nat) (f : WF) (orc : Oracle) : OpFacts cap f orc [] (flush f orc) where
  buf_le := by simp [flush]
  pre := by simpa [flush, wfWrite] using osWrite_prefix orc.w f.buf
  sub := by simpa [flush, wfWrite] using (osWrite_prefix orc.w f.buf).sublist
  ok := by intro h; simpa [flush, wfWrite] using osWrite_ok orc.w f.buf h
  nf := by
    intro h
    have := wfWrite_wnofault f.buf orc h
    exact ⟨by simpa [flush, wfWrite] using osWrite_ok orc.w f.buf this.1, this.2⟩
  man := rfl

theorem append0_facts (cap : Nat) (f : WF) (hf : f.buf.length ≤ cap) (data : Bytes) (orc : Oracle) :
    OpFacts cap f orc data (append0 cap f data orc) := by
  have hsplit : data.take (min data.length (cap - f.buf.length)) ++ data.drop (min data.length (cap - f.buf.length)) = data :=
    List.take_append_drop _ _
  generalize hc : min data.length (cap - f.buf.length) = copy at hsplit
  unfold append0
  simp only [hc]
  by_cases hrest : (data.drop copy).isEmpty
  · -- everything fits into the buffer
    have hnil : data.drop copy = [] := by simpa using hrest
    have htake : data.take copy = data := by rw [hnil] at hsplit; simpa using hsplit
    simp only [hrest, ↓reduceIte]
    refine ⟨?_, ?_, ?_, ?_, ?_, rfl⟩
    · simp [htake]
      have : data.length ≤ copy := by simpa using hnil
      omega
    · simp [transferred]
    · simp [transferred, htake]
    · intro _; simp [transferred, htake]
    · intro h; exact ⟨by simp [transferred, htake], h⟩
  · simp only [hrest, Bool.false_eq_true, ↓reduceIte]
    have hfull : (f.buf ++ data.take copy) ++ data.drop copy = f.buf ++ data := by rw [List.append_assoc, hsplit]
    -- the flush of the filled buffer
    have ff := flush_facts cap { f with buf := f.buf ++ data.take copy } orc
    by_cases hrc : (flush { f with buf := f.buf ++ data.take copy } orc).rc = .ok
    · simp only [hrc, ne_eq, not_true_eq_false, ↓reduceIte]
      have hfl := ff.ok hrc
      simp only [flush_buf, List.append_nil] at hfl
      by_cases hsmall : (data.drop copy).length < cap
      · simp only [hsmall, ↓reduceIte]
        refine ⟨by simp at hsmall ⊢; omega, ?_, ?_, ?_, ?_, rfl⟩
        · rw [hfl, ← hfull]; exact List.prefix_append _ _
        · rw [hfl, hfull]; exact List.Sublist.refl _
        · intro _; rw [hfl, hfull]
        · intro h; exact ⟨by rw [hfl, hfull], (ff.nf h).2⟩
      · simp only [hsmall, ↓reduceIte]
        refine ⟨by simp [flush_buf], ?_, ?_, ?_, ?_, rfl⟩
        · rw [transferred_append, hfl, ← hfull]
          exact (List.prefix_append_right_inj _).mpr (osWrite_prefix _ _)
        · rw [transferred_append, hfl, ← hfull, flush_buf, List.append_nil]
          exact ((List.prefix_append_right_inj _).mpr (osWrite_prefix _ _)).sublist
        · intro h
          rw [transferred_append, hfl, ← hfull, flush_buf, List.append_nil]
          congr 1
          exact osWrite_ok _ _ h
        · intro h
          have h2 := wfWrite_wnofault (data.drop copy) _ (ff.nf h).2
          refine ⟨?_, h2.2⟩
          rw [transferred_append, hfl, ← hfull, flush_buf, List.append_nil]
          congr 1
          exact osWrite_ok _ _ h2.1
    · simp only [hrc, ne_eq, not_false_eq_true, ↓reduceIte]
      refine ⟨by simp [flush_buf], ?_, ?_, ?_, ?_, rfl⟩
      · have := ff.pre
        simp only [List.append_nil] at this
        rw [← hfull]; exact this.trans (List.prefix_append _ _)
      · have := ff.pre
        simp only [List.append_nil] at this
        rw [← hfull, flush_buf, List.append_nil]; exact (this.trans (List.prefix_append _ _)).sublist
      · intro h; exact absurd h hrc
      · intro h; exact absurd (wfWrite_wnofault _ _ h).1 hrc



theorem transferred_of_not_write : ∀ (t : List Sys), (∀ e ∈ t, e.isWrite = false) → transferred t = [] := by
  intro t
  induction t with
  | nil => intro _; rfl
  | cons x t ih =>
    intro h
    have hx := h x (List.mem_cons_self ..)
    have ht := ih (fun e he => h e (List.mem_cons_of_mem _ he))
    cases x <;> simp_all [transferred, Sys.isWrite]

theorem osFsync_mem (dir : Bool) : ∀ (s : List Ans), ∀ e ∈ (osFsync dir s).ev, ∃ r, e = .fsync dir r := by
  intro s
  induction s with
  | nil => simp [osFsync]
  | cons a rest ih =>
    cases a with
    | ok => simp [osFsync]
    | err x =>
      by_cases hx : x = .eintr
      · simp only [osFsync, hx, ↓reduceIte, List.mem_cons]
        intro e he
        rcases he with he | he
        · exact ⟨_, he⟩
        · exact ih e he
      · simp [osFsync, hx]

theorem osFsync_ok (dir : Bool) : ∀ (s : List Ans), (osFsync dir s).rc = .ok →
    ∃ pre, (osFsync dir s).ev = pre ++ [.fsync dir none] ∧ ∀ e ∈ pre, e = .fsync dir (some .eintr) := by
  intro s
  induction s with
  | nil => intro _; exact ⟨[], by simp [osFsync]⟩
  | cons a rest ih =>
    cases a with
    | ok => intro _; exact ⟨[], by simp [osFsync]⟩
    | err x =>
      by_cases hx : x = .eintr
      · simp only [osFsync, hx, ↓reduceIte]
        intro h
        obtain ⟨pre, h1, h2⟩ := ih h
        refine ⟨.fsync dir (some .eintr) :: pre, by simp [h1], ?_⟩
        intro y hy
        simp at hy
        rcases hy with hy | hy
        · exact hy
        · exact h2 y hy
      · simp [osFsync, hx]

theorem osFsync_err (dir : Bool) : ∀ (s : List Ans) (e : Errno), (osFsync dir s).rc = .err e →
    e ≠ .eintr ∧ ∃ pre, (osFsync dir s).ev = pre ++ [.fsync dir (some e)] := by
  intro s
  induction s with
  | nil => intro e h; simp [osFsync] at h
  | cons a rest ih =>
    intro e
    cases a with
    | ok => intro h; simp [osFsync] at h
    | err x =>
      by_cases hx : x = .eintr
      · simp only [osFsync, hx, ↓reduceIte]
        intro h
        obtain ⟨h1, pre, h2⟩ := ih e h
        exact ⟨h1, .fsync dir (some .eintr) :: pre, by simp [h2]⟩
      · simp only [osFsync, hx, ↓reduceIte]
        intro h
        simp at h; subst h
        exact ⟨hx, [], by simp⟩

theorem osFsync_nofault (dir : Bool) : ∀ (s : List Ans), (∀ a ∈ s, a.isFault = false) → (osFsync dir s).rc = .ok := by
  intro s
  induction s with
  | nil => intro _; rfl
  | cons a rest ih =>
    intro h
    cases a with
    | ok => rfl
    | err x =>
      have hx : x = .eintr := by
        have := h (.err x) (List.mem_cons_self ..)
        simpa [Ans.isFault] using this
      simp only [osFsync, hx, ↓reduceIte]
      exact ih (fun a ha => h a (List.mem_cons_of_mem _ ha))

theorem osFsync_rest_suffix (dir : Bool) : ∀ (s : List Ans), (osFsync dir s).rest <:+ s := by
  intro s
  induction s with
  | nil => simp [osFsync]
  | cons a rest ih =>
    cases a with
    | ok => simp [osFsync]
    | err x =>
      by_cases hx : x = .eintr
      · simp only [osFsync, hx, ↓reduceIte]; exact ih.trans (List.suffix_cons _ _)
      · simp [osFsync, hx]

theorem osOpen_mem (mk : Option Errno → Sys) (s : List Ans) : ∀ e ∈ (osOpen mk s).ev, ∃ r, e = mk r := by
  fun_induction osOpen mk s <;> simp_all <;> grind

theorem osOpen_ok (mk : Option Errno → Sys) (s : List Ans) : (osOpen mk s).r = none →
    ∃ pre, (osOpen mk s).ev = pre ++ [mk none] ∧ ∀ e ∈ pre, ∃ x, e = mk (some x) := by
  fun_induction osOpen mk s with
  | case1 => intro _; exact ⟨[], by simp⟩
  | case2 => intro _; exact ⟨[], by simp⟩
  | case3 rest r ih =>
    intro h
    obtain ⟨pre, h1, h2⟩ := ih h
    refine ⟨mk (some .eintr) :: pre, by simp [r, h1], ?_⟩
    intro y hy; simp at hy
    rcases hy with hy | hy
    · exact ⟨_, hy⟩
    · exact h2 y hy
  | case4 => intro _; exact ⟨[mk (some .einval)], by simp, by simp; exact ⟨_, rfl⟩⟩
  | case5 => intro _; exact ⟨[mk (some .einval)], by simp, by simp; exact ⟨_, rfl⟩⟩
  | case6 rest r ih =>
    intro h
    obtain ⟨pre, h1, h2⟩ := ih h
    refine ⟨mk (some .einval) :: mk (some .eintr) :: pre, by simp [r, h1], ?_⟩
    intro y hy; simp at hy
    rcases hy with hy | hy | hy
    · exact ⟨_, hy⟩
    · exact ⟨_, hy⟩
    · exact h2 y hy
  | case7 => intro h; simp at h
  | case8 => intro h; simp at h

theorem osOpen_err (mk : Option Errno → Sys) (s : List Ans) (e : Errno) : (osOpen mk s).r = some e →
    ∃ pre, (osOpen mk s).ev = pre ++ [mk (some e)] ∧ ∀ y ∈ pre, ∃ x, y = mk (some x) := by
  fun_induction osOpen mk s with
  | case1 => intro h; simp at h
  | case2 => intro h; simp at h
  | case3 rest r ih =>
    intro h
    obtain ⟨pre, h1, h2⟩ := ih h
    refine ⟨mk (some .eintr) :: pre, by simp [r, h1], ?_⟩
    intro y hy; simp at hy
    rcases hy with hy | hy
    · exact ⟨_, hy⟩
    · exact h2 y hy
  | case4 => intro h; simp at h
  | case5 => intro h; simp at h
  | case6 rest r ih =>
    intro h
    obtain ⟨pre, h1, h2⟩ := ih h
    refine ⟨mk (some .einval) :: mk (some .eintr) :: pre, by simp [r, h1], ?_⟩
    intro y hy; simp at hy
    rcases hy with hy | hy | hy
    · exact ⟨_, hy⟩
    · exact ⟨_, hy⟩
    · exact h2 y hy
  | case7 => intro h; simp at h; subst h; exact ⟨[mk (some .einval)], by simp, by simp; exact ⟨_, rfl⟩⟩
  | case8 => intro h; simp at h; subst h; exact ⟨[], by simp⟩

theorem osOpen_nofault (mk : Option Errno → Sys) (s : List Ans) : (∀ a ∈ s, a.isFault = false) → (osOpen mk s).r = none := by
  fun_induction osOpen mk s with
  | case1 => intro _; rfl
  | case2 => intro _; rfl
  | case3 rest r ih => intro h; exact ih (fun a ha => h a (List.mem_cons_of_mem _ ha))
  | case4 => intro h; have := h _ (List.mem_cons_self ..); simp [Ans.isFault] at this
  | case5 => intro h; have := h _ (List.mem_cons_self ..); simp [Ans.isFault] at this
  | case6 => intro h; have := h _ (List.mem_cons_self ..); simp [Ans.isFault] at this
  | case7 => intro h; have := h _ (List.mem_cons_self ..); simp [Ans.isFault] at this
  | case8 e rest h1 h2 => intro h; have := h _ (List.mem_cons_self ..); simp [Ans.isFault] at this; exact absurd this h1



def Sys.isDirEv : Sys → Bool
  | .openDir _ => true
  | .fsync true _ => true
  | .close true _ => true
  | _ => false

theorem isWrite_false_of_isDirEv {e : Sys} (h : e.isDirEv = true) : e.isWrite = false := by
  cases e <;> simp_all [Sys.isDirEv, Sys.isWrite]

theorem syncDir_fail (orc : Oracle) (e : Errno) (h : (osOpen Sys.openDir orc.o).r = some e) :
    syncDir orc = ⟨(osOpen Sys.openDir orc.o).ev, .err e, { orc with o := (osOpen Sys.openDir orc.o).rest }⟩ := by
  simp only [syncDir, h]

theorem syncDir_opened (orc : Oracle) (h : (osOpen Sys.openDir orc.o).r = none) :
    syncDir orc = ⟨(osOpen Sys.openDir orc.o).ev ++ (osFsync true orc.s).ev ++ [.close true (popAns orc.c).1],
      ignoreBadf (osFsync true orc.s).rc,
      { orc with o := (osOpen Sys.openDir orc.o).rest, s := (osFsync true orc.s).rest, c := (popAns orc.c).2 }⟩ := by
  simp only [syncDir, h]

theorem syncDir_w (orc : Oracle) : (syncDir orc).orc.w = orc.w := by
  cases h : (osOpen Sys.openDir orc.o).r with
  | none => rw [syncDir_opened orc h]
  | some e => rw [syncDir_fail orc e h]

theorem syncDir_isDirEv (orc : Oracle) : ∀ e ∈ (syncDir orc).ev, e.isDirEv = true := by
  intro e he
  cases h : (osOpen Sys.openDir orc.o).r with
  | some x =>
    rw [syncDir_fail orc x h] at he
    obtain ⟨r, hr⟩ := osOpen_mem _ _ e he; subst hr; rfl
  | none =>
    rw [syncDir_opened orc h] at he
    simp only [List.append_assoc, List.mem_append, List.mem_cons, List.not_mem_nil, or_false] at he
    rcases he with he | he | he
    · obtain ⟨r, hr⟩ := osOpen_mem _ _ e he; subst hr; rfl
    · obtain ⟨r, hr⟩ := osFsync_mem _ _ e he; subst hr; rfl
    · subst he; rfl

theorem syncDir_transferred (orc : Oracle) : transferred (syncDir orc).ev = [] :=
  transferred_of_not_write _ (fun e he => isWrite_false_of_isDirEv (syncDir_isDirEv orc e he))

/-- `ldb_sync_dir` returns OK only if the directory was opened and its fsync succeeded or failed with EBADF / EINVAL -/
theorem syncDir_ok (orc : Oracle) (h : (syncDir orc).rc = .ok) :
    Sys.openDir none ∈ (syncDir orc).ev ∧
    ∃ r, Sys.fsync true r ∈ (syncDir orc).ev ∧ (r = none ∨ r = some .ebadf ∨ r = some .einval) := by
  cases hopen : (osOpen Sys.openDir orc.o).r with
  | some x => rw [syncDir_fail orc x hopen] at h; simp at h
  | none =>
    rw [syncDir_opened orc hopen] at h ⊢
    obtain ⟨pre, h1, _⟩ := osOpen_ok _ _ hopen
    refine ⟨by simp [h1], ?_⟩
    cases hs : (osFsync true orc.s).rc with
    | ok =>
      obtain ⟨p2, h2, _⟩ := osFsync_ok _ _ hs
      exact ⟨none, by simp [h2], Or.inl rfl⟩
    | err e =>
      obtain ⟨_, p2, h2⟩ := osFsync_err _ _ e hs
      refine ⟨some e, by simp [h2], ?_⟩
      simp only [hs] at h
      cases e <;> simp_all [ignoreBadf]

theorem sync0_shape (f : WF) (orc : Oracle) :
    ∃ D W S, (sync0 f orc).ev = D ++ W ++ S ∧ D = (if f.manifest then (syncDir orc).ev else []) ∧
      (∀ e ∈ W, e.isWrite = true) ∧ (∀ e ∈ S, ∃ r, e = Sys.fsync false r) ∧ transferred W <+: f.buf ∧
      ((sync0 f orc).rc = .ok →
        (f.manifest = true → (syncDir orc).rc = .ok) ∧ transferred W = f.buf ∧ (sync0 f orc).f.buf = [] ∧
        ∃ pre, S = pre ++ [Sys.fsync false none]) := by
  unfold sync0
  generalize hd : (if f.manifest = true then syncDir orc else ({ ev := [], rc := .ok, orc := orc } : FRes)) = d
  have hdev : d.ev = if f.manifest then (syncDir orc).ev else [] := by
    subst hd; split <;> rfl
  have hdrc : f.manifest = true → d.rc = (syncDir orc).rc := by
    intro hm; subst hd; simp [hm]
  by_cases h1 : d.rc = .ok
  · simp only [h1, ne_eq, not_true_eq_false, ↓reduceIte]
    by_cases h2 : (flush f d.orc).rc = .ok
    · simp only [h2, not_true_eq_false, ↓reduceIte]
      refine ⟨d.ev, (flush f d.orc).ev, (osFsync false (flush f d.orc).orc.s).ev, rfl, hdev, ?_, osFsync_mem _ _, ?_, ?_⟩
      · exact osWrite_isWrite _ _
      · exact osWrite_prefix _ _
      · intro h3
        refine ⟨fun hm => (hdrc hm) ▸ h1, osWrite_ok _ _ h2, rfl, ?_⟩
        obtain ⟨pre, hp, _⟩ := osFsync_ok _ _ h3
        exact ⟨pre, hp⟩
    · simp only [h2, not_false_eq_true, ↓reduceIte]
      refine ⟨d.ev, (flush f d.orc).ev, [], by simp, hdev, osWrite_isWrite _ _, by simp, osWrite_prefix _ _, ?_⟩
      intro h3; exact False.elim h3
  · simp only [h1, ne_eq, not_false_eq_true, ↓reduceIte]
    refine ⟨d.ev, [], [], by simp, hdev, by simp, by simp, by simp [transferred], ?_⟩
    intro h3; exact False.elim h3

theorem sync0_facts (cap : Nat) (f : WF) (hf : f.buf.length ≤ cap) (orc : Oracle) : OpFacts cap f orc [] (sync0 f orc) := by
  unfold sync0
  generalize hd : (if f.manifest = true then syncDir orc else ({ ev := [], rc := .ok, orc := orc } : FRes)) = d
  have hdw : d.orc.w = orc.w := by subst hd; split <;> simp [syncDir_w]
  have hdt : transferred d.ev = [] := by subst hd; split <;> simp [syncDir_transferred, transferred]
  have hnf : orc.WNoFault → d.orc.WNoFault := by intro h; unfold Oracle.WNoFault; rw [hdw]; exact h
  have ff := flush_facts cap f d.orc
  by_cases h1 : d.rc = .ok
  · simp only [h1, ne_eq, not_true_eq_false, ↓reduceIte]
    by_cases h2 : (flush f d.orc).rc = .ok
    · simp only [h2, not_true_eq_false, ↓reduceIte]
      have ht : transferred (d.ev ++ (flush f d.orc).ev ++ (osFsync false (flush f d.orc).orc.s).ev) = transferred (flush f d.orc).ev := by
        have hz : transferred (osFsync false (flush f d.orc).orc.s).ev = [] :=
          transferred_of_not_write _ (fun e he => by obtain ⟨r, hr⟩ := osFsync_mem _ _ e he; subst hr; rfl)
        rw [transferred_append, transferred_append, hdt, hz]
        simp
      refine ⟨ff.buf_le, ?_, ?_, ?_, ?_, rfl⟩
      · simp only [ht]; exact ff.pre
      · simp only [ht]; exact ff.sub
      · intro _; simp only [ht]; exact ff.ok h2
      · intro h; simp only [ht]; exact ⟨(ff.nf (hnf h)).1, (ff.nf (hnf h)).2⟩
    · simp only [h2, not_false_eq_true, ↓reduceIte]
      have ht : transferred (d.ev ++ (flush f d.orc).ev) = transferred (flush f d.orc).ev := by
        rw [transferred_append, hdt]; simp
      refine ⟨ff.buf_le, ?_, ?_, ?_, ?_, rfl⟩
      · simp only [ht]; exact ff.pre
      · simp only [ht]; exact ff.sub
      · intro h; exact absurd h h2
      · intro h; simp only [ht]; exact ff.nf (hnf h)
  · simp only [h1, ne_eq, not_false_eq_true, ↓reduceIte]
    refine ⟨hf, by simp [hdt], by simp [hdt], by simp [hdt], fun h => ⟨by simp [hdt], hnf h⟩, rfl⟩



theorem applyOp_facts (cap : Nat) (f : WF) (hf : f.buf.length ≤ cap) (orc : Oracle) (op : Op) :
    OpFacts cap f orc (opData op) (applyOp cap f orc op) := by
  cases op with
  | append d => exact append0_facts cap f hf d orc
  | flush => exact flush_facts cap f orc
  | sync => exact sync0_facts cap f hf orc

theorem run_snoc (cap : Nat) (st : RunSt) (ops : List Op) (op : Op) :
    run cap st (ops ++ [op]) = step cap (run cap st ops) op := by
  simp [run, List.foldl_append]

theorem run_cons (cap : Nat) (st : RunSt) (ops : List Op) (op : Op) :
    run cap st (op :: ops) = run cap (step cap st op) ops := rfl

/-- invariant of every reachable state, whatever the environment answers -/
structure Inv (cap : Nat) (st : RunSt) : Prop where
  buf_le : st.f.buf.length ≤ cap
  sub : (transferred st.tr ++ st.f.buf).Sublist st.app

/-- nothing has been lost so far -/
def Clean (st : RunSt) : Prop := transferred st.tr ++ st.f.buf = st.app

theorem init_inv (cap : Nat) (m : Bool) (orc : Oracle) : Inv cap (RunSt.init m orc) :=
  ⟨by simp [RunSt.init], by simp [RunSt.init, transferred]⟩

theorem init_clean (m : Bool) (orc : Oracle) : Clean (RunSt.init m orc) := by
  simp [Clean, RunSt.init, transferred]

theorem step_inv {cap : Nat} {st : RunSt} (h : Inv cap st) (op : Op) : Inv cap (step cap st op) := by
  have F := applyOp_facts cap st.f h.buf_le st.orc op
  refine ⟨F.buf_le, ?_⟩
  simp only [step, transferred_append, List.append_assoc]
  have h1 : (transferred st.tr ++ (transferred (applyOp cap st.f st.orc op).ev ++ (applyOp cap st.f st.orc op).f.buf)).Sublist
      (transferred st.tr ++ (st.f.buf ++ opData op)) := List.Sublist.append (List.Sublist.refl _) F.sub
  have h2 : (transferred st.tr ++ (st.f.buf ++ opData op)).Sublist (st.app ++ opData op) := by
    rw [← List.append_assoc]; exact List.Sublist.append h.sub (List.Sublist.refl _)
  exact h1.trans h2

theorem run_inv {cap : Nat} : ∀ (ops : List Op) {st : RunSt}, Inv cap st → Inv cap (run cap st ops) := by
  intro ops
  induction ops with
  | nil => intro st h; exact h
  | cons op ops ih => intro st h; rw [run_cons]; exact ih (step_inv h op)

theorem step_clean_of_eq {cap : Nat} {st : RunSt} (hc : Clean st) (op : Op)
    (he : transferred (applyOp cap st.f st.orc op).ev ++ (applyOp cap st.f st.orc op).f.buf = st.f.buf ++ opData op) :
    Clean (step cap st op) := by
  unfold Clean at hc ⊢
  simp only [step, transferred_append, List.append_assoc]
  rw [he, ← List.append_assoc, hc]

theorem run_rcs_prefix (cap : Nat) : ∀ (ops : List Op) (st : RunSt), st.rcs <+: (run cap st ops).rcs := by
  intro ops
  induction ops with
  | nil => intro st; exact List.prefix_refl _
  | cons op ops ih =>
    intro st
    rw [run_cons]
    exact (List.prefix_append _ _).trans (ih (step cap st op))

theorem run_app (cap : Nat) : ∀ (ops : List Op) (st : RunSt), (run cap st ops).app = st.app ++ (ops.map opData).flatten := by
  intro ops
  induction ops with
  | nil => intro st; simp [run]
  | cons op ops ih => intro st; rw [run_cons, ih]; simp [step]

theorem run_rcs_length (cap : Nat) : ∀ (ops : List Op) (st : RunSt), (run cap st ops).rcs.length = st.rcs.length + ops.length := by
  intro ops
  induction ops with
  | nil => intro st; simp [run]
  | cons op ops ih => intro st; rw [run_cons, ih]; simp [step]; omega

/-- as long as every operation reported OK nothing was lost -/
theorem run_clean_of_ok {cap : Nat} : ∀ (ops : List Op) {st : RunSt}, Inv cap st → Clean st →
    (∀ rc ∈ (run cap st ops).rcs, rc = .ok) → Clean (run cap st ops) := by
  intro ops
  induction ops with
  | nil => intro st _ hc _; exact hc
  | cons op ops ih =>
    intro st hi hc hok
    rw [run_cons] at hok ⊢
    have F := applyOp_facts cap st.f hi.buf_le st.orc op
    have hrc : (applyOp cap st.f st.orc op).rc = .ok := by
      apply hok
      apply (run_rcs_prefix cap ops (step cap st op)).subset
      simp [step]
    exact ih (step_inv hi op) (step_clean_of_eq hc op (F.ok hrc)) hok

/-- if no write(2) fails, nothing is ever lost -/
theorem run_clean_of_wnofault {cap : Nat} : ∀ (ops : List Op) {st : RunSt}, Inv cap st → Clean st → st.orc.WNoFault →
    Clean (run cap st ops) ∧ (run cap st ops).orc.WNoFault := by
  intro ops
  induction ops with
  | nil => intro st _ hc hn; exact ⟨hc, hn⟩
  | cons op ops ih =>
    intro st hi hc hn
    rw [run_cons]
    have F := applyOp_facts cap st.f hi.buf_le st.orc op
    exact ih (step_inv hi op) (step_clean_of_eq hc op (F.nf hn).1) (F.nf hn).2

/-- the operation that first reports an error still leaves a prefix of the appended stream in the file -/
theorem step_prefix {cap : Nat} {st : RunSt} (hi : Inv cap st) (hc : Clean st) (op : Op) :
    transferred (step cap st op).tr <+: (step cap st op).app := by
  have F := applyOp_facts cap st.f hi.buf_le st.orc op
  unfold Clean at hc
  simp only [step, transferred_append]
  rw [← hc, List.append_assoc]
  exact (List.prefix_append_right_inj _).mpr F.pre

theorem clean_prefix {st : RunSt} (hc : Clean st) : transferred st.tr <+: st.app := by
  unfold Clean at hc; rw [← hc]; exact List.prefix_append _ _

/-! ### close -/

theorem close_ev (f : WF) (orc : Oracle) :
    transferred (close f orc).ev = transferred (flush f orc).ev := by
  simp [close, transferred_append, transferred]

theorem close_ok (f : WF) (orc : Oracle) (h : (close f orc).rc = .ok) :
    (flush f orc).rc = .ok ∧ (close f orc).ev = (flush f orc).ev ++ [.close false none] := by
  unfold close at h ⊢
  by_cases h1 : (flush f orc).rc = .ok
  · simp only [h1, ↓reduceIte] at h ⊢
    cases hc : (popAns (flush f orc).orc.c).1 with
    | none => simp
    | some e => simp [hc] at h
  · simp only [h1, ↓reduceIte] at h


end Lcdb.WFile
