/-
  Shared definitions for the block-iterator theorems: order laws for comparators, the reference
  cursor over a sorted key list, and simulation between two iterators behind `IterOps`.
  (Definitions only; the lemmas are in Lemmas/Cursor.lean, Lemmas/OrdInstances.lean.)
-/
import LcdbModel.Model.Block
namespace Lcdb

/-- what the iterator theorems need from a three-way comparator -/
structure OrdLaws (cmp : Bytes → Bytes → Ordering) : Prop where
  refl : ∀ a, cmp a a = .eq
  gt_iff : ∀ a b, cmp a b = .gt ↔ cmp b a = .lt
  lt_trans : ∀ a b c, cmp a b = .lt → cmp b c = .lt → cmp a c = .lt
  eq_left : ∀ a b c, cmp a b = .eq → cmp a c = cmp b c

/-- strictly increasing w.r.t. `cmp` -/
def SortedKeys (cmp : Bytes → Bytes → Ordering) (keys : List Bytes) : Prop :=
  keys.Pairwise (fun a b => cmp a b = .lt)

/-- index of the last element satisfying `p` -/
def lastIdx (p : Bytes → Bool) : List Bytes → Option Nat
  | [] => none
  | k :: ks =>
    match lastIdx p ks with
    | some i => some (i + 1)
    | none => if p k then some 0 else none

/-- the reference iterator: a cursor over the key list; `some i` = on `keys[i]`, `none` = invalid.
    It never faults. -/
def cursorOps (cmp : Bytes → Bytes → Ordering) (keys : List Bytes) : IterOps (Option Nat) :=
  { valid := fun p => p.isSome
    key := fun p => match p with
      | some i => keys.getD i []
      | none => []
    compare := fun a b => some (cmp a b)
    first := fun _ => some (if keys.isEmpty then none else some 0)
    last := fun _ => some (if keys.isEmpty then none else some (keys.length - 1))
    next := fun p => some (match p with
      | some i => if i + 1 < keys.length then some (i + 1) else none
      | none => none)
    prev := fun p => some (match p with
      | some (i + 1) => some i
      | _ => none)
    seek := fun t _ => some (keys.findIdx? (fun k => cmp k t != .lt)) }

/-- targets an operation mentions -/
def BlockOp.target? : BlockOp → Option Bytes
  | .seek t | .seekGE t | .seekGT t | .seekLE t | .seekLT t => some t
  | _ => none

/-- `o₁` (states `σ`) simulates `o₂` (states `τ`) through `R`, for seek targets satisfying `T` -/
structure IterOps.Sim {σ τ : Type} (o₁ : IterOps σ) (o₂ : IterOps τ) (R : σ → τ → Prop)
    (T : Bytes → Prop) : Prop where
  valid : ∀ s t, R s t → o₁.valid s = o₂.valid t
  key : ∀ s t, R s t → o₁.valid s = true → o₁.key s = o₂.key t
  compare : ∀ s t x, R s t → o₁.valid s = true → T x →
    o₁.compare (o₁.key s) x = o₂.compare (o₂.key t) x ∧ (o₂.compare (o₂.key t) x).isSome
  first : ∀ s t, R s t → ∃ s' t', o₁.first s = some s' ∧ o₂.first t = some t' ∧ R s' t'
  last : ∀ s t, R s t → ∃ s' t', o₁.last s = some s' ∧ o₂.last t = some t' ∧ R s' t'
  next : ∀ s t, R s t → o₁.valid s = true →
    ∃ s' t', o₁.next s = some s' ∧ o₂.next t = some t' ∧ R s' t'
  prev : ∀ s t, R s t → o₁.valid s = true →
    ∃ s' t', o₁.prev s = some s' ∧ o₂.prev t = some t' ∧ R s' t'
  seek : ∀ s t x, R s t → T x → ∃ s' t', o₁.seek x s = some s' ∧ o₂.seek x t = some t' ∧ R s' t'

end Lcdb
