/-
  Helper lemmas for Model/Skiplist.lean, part 4: the state an insert produces satisfies the invariant
  for the ordered list with the new node at its place.
-/
import LcdbModel.Lemmas.SkiplistInsert
namespace Lcdb.Skiplist
variable {α : Type}

theorem PrevOk.mem {sl : SkipList α} {A : List Nat} {i p : Nat} (h : PrevOk sl A i p) : p ∈ 0 :: A := by
  obtain ⟨A1, A2, hs, _⟩ := h
  rw [hs]; simp

theorem keyOf_len_none (sl : SkipList α) : keyOf sl sl.nodes.length = none := by
  simp [keyOf]

theorem heightOf_len (sl : SkipList α) : heightOf sl sl.nodes.length = 0 := by
  simp [heightOf]

theorem find?_congr' {p q : Nat → Bool} {l : List Nat} (h : ∀ x ∈ l, p x = q x) : l.find? p = l.find? q := by
  induction l with
  | nil => rfl
  | cons x t ih =>
    simp only [List.find?_cons, h x (by simp)]
    rw [ih (fun y hy => h y (by simp [hy]))]

theorem find?_append_of_exists {p : Nat → Bool} {a : List Nat} (b : List Nat) {y : Nat} (hy : y ∈ a) (hp : p y = true) :
    (a ++ b).find? p = a.find? p := by
  rw [List.find?_append]
  cases hf : a.find? p with
  | some z => rfl
  | none => exact absurd hp (by simpa using List.find?_eq_none.mp hf y hy)

/-- the state `ldb_skiplist_insert` leaves behind, in terms of the old one; `P l` = `prev[l]` -/
structure Inserted (sl s' : SkipList α) (k : α) (height mh' : Nat) (P : Nat → Nat) : Prop where
  len : s'.nodes.length = sl.nodes.length + 1
  mh : s'.maxHeight = mh'
  rnd : s'.rnd = sl.rnd
  key : ∀ y, keyOf s' y = if y = sl.nodes.length then some k else keyOf sl y
  htEq : ∀ y, heightOf s' y = if y = sl.nodes.length then height else heightOf sl y
  nextEq : ∀ y l, getNext s' y l =
    if y = sl.nodes.length then (if l < height then getNext sl (P l) l else none)
    else if l < height ∧ y = P l then some (some sl.nodes.length) else getNext sl y l

theorem inserted_inv {cmp : α → α → Ordering} {sl s' : SkipList α} {L : List Nat} (hc : CmpOk cmp) (h : Inv cmp sl L)
    (k : α) (height : Nat) (hh : 1 ≤ height ∧ height ≤ kMaxHeight) (A B : List Nat) (hL : L = A ++ B)
    (hA : ∀ a ∈ A, ∃ ka, keyOf sl a = some ka ∧ cmp ka k = .lt)
    (hB : ∀ b ∈ B, ∃ kb, keyOf sl b = some kb ∧ cmp k kb = .lt)
    (P : Nat → Nat) (hP : ∀ l, l < height → PrevOk sl A l (P l))
    (hins : Inserted sl s' k height (if height > sl.maxHeight then height else sl.maxHeight) P) :
    Inv cmp s' (A ++ sl.nodes.length :: B) := by
  have hlen := h.len
  have hn0 : 0 < sl.nodes.length := by omega
  have hLn : ∀ y ∈ L, y ≠ sl.nodes.length := fun y hy => by have := (h.mem_iff y).mp hy; omega
  have hAL : ∀ y ∈ A, y ∈ L := fun y hy => by rw [hL]; simp [hy]
  have hBL : ∀ y ∈ B, y ∈ L := fun y hy => by rw [hL]; simp [hy]
  have hkey : ∀ y, y ≠ sl.nodes.length → keyOf s' y = keyOf sl y := fun y hy => by rw [hins.key, if_neg hy]
  have hht : ∀ y, y ≠ sl.nodes.length → heightOf s' y = heightOf sl y := fun y hy => by rw [hins.htEq, if_neg hy]
  have hkeyn : keyOf s' sl.nodes.length = some k := by rw [hins.key]; simp
  have hhtn : heightOf s' sl.nodes.length = height := by rw [hins.htEq]; simp
  have htransfer : ∀ a b, NodeLt cmp sl a b → NodeLt cmp s' a b := by
    rintro a b ⟨ka, kb, h1, h2, h3⟩
    have ha : a ≠ sl.nodes.length := fun e => by rw [e, keyOf_len_none] at h1; cases h1
    have hb : b ≠ sl.nodes.length := fun e => by rw [e, keyOf_len_none] at h2; cases h2
    exact ⟨ka, kb, by rw [hkey a ha, h1], by rw [hkey b hb, h2], h3⟩
  have hsorted := h.sorted
  rw [hL, List.pairwise_append] at hsorted
  have hnd := h.nodup hc
  have hndA : (0 :: A).Nodup := by
    rw [hL] at hnd
    have : (0 :: A).Sublist (0 :: (A ++ B)) := by simp
    exact List.Pairwise.sublist this hnd
  have hnotin : sl.nodes.length ∉ 0 :: (A ++ B) := by
    intro hm
    rcases List.mem_cons.mp hm with e | hm
    · omega
    · exact hLn _ (hL ▸ hm) rfl
  have hnd' : ((0 :: A) ++ sl.nodes.length :: B).Nodup := by
    refine (List.pairwise_middle (fun h => Ne.symm h)).mpr ?_
    refine List.nodup_cons.mpr ⟨by simpa using hnotin, by simpa [hL] using hnd⟩
  have hmem' : ∀ x, x ∈ A ++ sl.nodes.length :: B ↔ 1 ≤ x ∧ x < s'.nodes.length := by
    intro x
    rw [hins.len]
    constructor
    · intro hx
      rcases List.mem_append.mp hx with hx | hx
      · have := (h.mem_iff x).mp (hAL x hx); omega
      · rcases List.mem_cons.mp hx with rfl | hx
        · omega
        · have := (h.mem_iff x).mp (hBL x hx); omega
    · intro hx
      by_cases he : x = sl.nodes.length
      · simp [he]
      · have : x ∈ L := (h.mem_iff x).mpr (by omega)
        rw [hL] at this
        rcases List.mem_append.mp this with h1 | h1
        · simp [h1]
        · simp [h1]
  refine ⟨?_, ?_, hmem', ?_, ?_, ?_, ?_, ?_, ?_, ?_⟩
  · rw [hkey 0 (by omega)]; exact h.headKey
  · rw [hht 0 (by omega)]; exact h.headHeight
  · rw [hins.len, ← hlen, hL]; simp; omega
  · -- sorted
    refine List.pairwise_append.mpr ⟨hsorted.1.imp (htransfer _ _), ?_, ?_⟩
    · refine List.pairwise_cons.mpr ⟨?_, hsorted.2.1.imp (htransfer _ _)⟩
      intro b hb
      obtain ⟨kb, h1, h2⟩ := hB b hb
      exact ⟨k, kb, hkeyn, by rw [hkey b (hLn b (hBL b hb)), h1], h2⟩
    · intro a ha b hb
      rcases List.mem_cons.mp hb with rfl | hb
      · obtain ⟨ka, h1, h2⟩ := hA a ha
        exact ⟨ka, k, by rw [hkey a (hLn a (hAL a ha)), h1], hkeyn, h2⟩
      · exact htransfer _ _ (hsorted.2.2 a ha b hb)
  · -- hasKey
    intro x hx
    rcases List.mem_append.mp hx with hx | hx
    · rw [hkey x (hLn x (hAL x hx))]; exact h.hasKey x (hAL x hx)
    · rcases List.mem_cons.mp hx with rfl | hx
      · exact ⟨k, hkeyn⟩
      · rw [hkey x (hLn x (hBL x hx))]; exact h.hasKey x (hBL x hx)
  · -- heights
    intro x hx
    rw [hins.mh]
    have hold : ∀ y ∈ L, 1 ≤ heightOf s' y ∧ heightOf s' y ≤ (if height > sl.maxHeight then height else sl.maxHeight) := by
      intro y hy
      rw [hht y (hLn y hy)]
      have := h.heights y hy
      split <;> omega
    rcases List.mem_append.mp hx with hx | hx
    · exact hold x (hAL x hx)
    · rcases List.mem_cons.mp hx with rfl | hx
      · rw [hhtn]; split <;> omega
      · exact hold x (hBL x hx)
  · rw [hins.mh]
    have := h.mhRange
    split <;> omega
  · -- mhExact
    rw [hins.mh]
    by_cases hgt : height > sl.maxHeight
    · rw [if_pos hgt]
      exact .inr ⟨sl.nodes.length, by simp, hhtn⟩
    · rw [if_neg hgt]
      rcases h.mhExact with h1 | ⟨x, hx, hxh⟩
      · exact .inl h1
      · refine .inr ⟨x, ?_, by rw [hht x (hLn x hx), hxh]⟩
        rw [hL] at hx
        rcases List.mem_append.mp hx with h1 | h1
        · simp [h1]
        · simp [h1]
  · -- next
    intro pre x suf hsplit lvl hlvl
    have hsplit' : (0 :: A) ++ sl.nodes.length :: B = pre ++ x :: suf := by simpa using hsplit
    have qeq : ∀ l : List Nat, (∀ y ∈ l, y ∈ L) →
        l.find? (fun y => decide (lvl < heightOf s' y)) = l.find? (fun y => decide (lvl < heightOf sl y)) := by
      intro l hl
      exact find?_congr' (fun y hy => by rw [hht y (hLn y (hl y hy))])
    by_cases hxn : x = sl.nodes.length
    · subst hxn
      obtain ⟨hpre, hsuf⟩ := split_unique hnd' rfl hsplit'
      subst hsuf
      rw [hhtn] at hlvl
      rw [hins.nextEq, if_pos rfl, if_pos hlvl]
      obtain ⟨A1, A2, hs, hlt, hA2⟩ := hP lvl hlvl
      have := h.next A1 (P lvl) (A2 ++ B) (by rw [hL, ← List.cons_append, hs]; simp) lvl hlt
      rw [this, find?_append_of_all_false (fun a ha => by simpa using hA2 a ha), qeq B hBL]
    · rcases split_cases hsplit' (Ne.symm hxn) with ⟨t, hB', hpre⟩ | ⟨t, hsuf, hA'⟩
      · -- x lies in B
        have hxB : x ∈ B := by rw [hB']; simp
        have hxL := hBL x hxB
        have hxnotA : x ∉ 0 :: A := by
          intro hm
          rw [hL] at hnd
          have : (0 :: (A ++ B)) = (0 :: A) ++ B := by simp
          rw [this, List.nodup_append] at hnd
          exact hnd.2.2 x hm x hxB rfl
        rw [hht x hxn] at hlvl
        rw [hins.nextEq, if_neg hxn]
        have hne : ¬ (lvl < height ∧ x = P lvl) := by
          rintro ⟨h1, h2⟩
          exact hxnotA (h2 ▸ (hP lvl h1).mem)
        rw [if_neg hne]
        have := h.next (0 :: A ++ t) x suf (by rw [hL, hB']; simp) lvl hlvl
        rw [this, qeq suf (fun y hy => hBL y (by rw [hB']; simp [hy]))]
      · -- x lies in 0 :: A
        rw [hht x hxn] at hlvl
        have htL : ∀ y ∈ t, y ∈ L := by
          intro y hy
          have : y ∈ 0 :: A := by rw [hA']; simp [hy]
          rcases List.mem_cons.mp this with rfl | h1
          · exfalso
            cases pre with
            | nil => simp at hA'; rw [← hA'.2] at hy; exact h.zero_not_mem (hAL 0 hy)
            | cons z u =>
              simp at hA'
              rw [hA'.2] at hndA
              have : (0 :: (u ++ x :: t)).Nodup := hndA
              simp at this
              grind
          · exact hAL y h1
        have hold := h.next pre x (t ++ B) (by rw [hL, ← List.cons_append, hA']; simp) lvl hlvl
        rw [hins.nextEq, if_neg hxn, hsuf]
        by_cases hPx : lvl < height ∧ x = P lvl
        · rw [if_pos hPx]
          obtain ⟨A1, A2, hs, hlt, hA2⟩ := hP lvl hPx.1
          rw [← hPx.2] at hs
          obtain ⟨_, ht⟩ := split_unique hndA hA' hs
          subst ht
          rw [find?_append_of_all_false (fun a ha => by
            rw [hht a (hLn a (htL a ha))]; simpa using hA2 a ha)]
          simp [hhtn, hPx.1]
        · rw [if_neg hPx, hold]
          by_cases hlh : lvl < height
          · have hne : x ≠ P lvl := fun e => hPx ⟨hlh, e⟩
            obtain ⟨A1, A2, hs, hlt, hA2⟩ := hP lvl hlh
            rw [hA'] at hs
            rcases split_cases hs hne with ⟨u, ht, _⟩ | ⟨u, hA2', _⟩
            · have hPt : P lvl ∈ t := by rw [ht]; simp
              rw [find?_append_of_exists B hPt (by simpa using hlt),
                find?_append_of_exists _ hPt (by rw [hht _ (hLn _ (htL _ hPt))]; simpa using hlt), qeq t htL]
            · exfalso
              have := hA2 x (by rw [hA2']; simp)
              omega
          · rw [List.find?_append, List.find?_append, List.find?_cons]
            have : decide (lvl < heightOf s' sl.nodes.length) = false := by rw [hhtn]; simpa using hlh
            rw [this, qeq t htL, qeq B hBL]

end Lcdb.Skiplist
